"""Deterministic baton scheduler + fake audio backend for C17 (DESIGN 2.3).

Real OS threads are used, but exactly one holds the baton.  At every
synchronisation point the running thread hands the baton to the scheduler,
which picks the next thread among the *enabled* ones with the next integer of
the generated schedule.  No enabled thread while some thread is unfinished is
a deadlock; a step bound makes livelocks visible.  Runs are a pure function of
the schedule.
"""
import sys
import types
import threading as _t


class Abort(BaseException):
  """Injected into every thread of an aborted run."""


class TRec(object):
  def __init__(self, name):
    self.name = name
    self.sem = _t.Semaphore(0)
    self.done = False
    self.blocked = None
    self.what = "start"
    self.last = 0


class Sched(object):
  def __init__(self, choices, max_steps=20000, lines=False):
    self.choices = list(choices)
    self.ci = 0
    self.threads = []
    self.steps = 0
    self.max_steps = max_steps
    self.aborting = False
    self.why = None
    self.deadlock = None
    self.local = _t.local()
    self.switches = 0
    self.taken = 0            # schedule entries that actually changed the running thread
    self.lines = lines
    self.trace = []

  # ------------------------------------------------------------ bookkeeping
  def me(self):
    return self.local.rec

  def register_main(self):
    r = TRec("main")
    self.threads.append(r)
    self.local.rec = r
    return r

  def new_thread(self):
    r = TRec("player%d" % len(self.threads))
    self.threads.append(r)
    return r

  def enabled(self):
    return [t for t in self.threads if not t.done and (t.blocked is None or t.blocked())]

  def pick(self, en, me):
    # a schedule entry is consumed only where there is a real choice
    if len(en) > 1 and self.ci < len(self.choices):
      c = self.choices[self.ci]
      self.ci += 1
      nxt = en[c % len(en)]
      if nxt is not me:
        self.taken += 1
      return nxt
    # schedule exhausted (or no choice): fair continuation - the enabled thread
    # that ran least recently goes next (ties: creation order, main first).  An
    # unfair schedule (an endless player starving close(), or starving a player
    # that holds the lock close() needs) is not a livelock of the code under test.
    return min(en, key=lambda t: t.last)

  def describe(self):
    return [(t.name, "done" if t.done else t.what) for t in self.threads]

  # ------------------------------------------------------------ the one primitive
  def point(self, what, blocked=None):
    me = self.me()
    if self.aborting:
      raise Abort()
    self.steps += 1
    if self.steps > self.max_steps:
      self.abort("step bound")
      raise Abort()
    me.blocked = blocked
    me.what = what
    en = self.enabled()
    if not en:
      self.deadlock = self.describe()
      self.abort("deadlock")
      raise Abort()
    nxt = self.pick(en, me)
    nxt.last = self.steps
    if len(self.trace) < 400:
      self.trace.append((me.name, what, nxt.name))
    if nxt is not me:
      self.switches += 1
      nxt.sem.release()
      me.sem.acquire()
      if self.aborting:
        raise Abort()
    me.blocked = None

  def abort(self, why):
    if not self.aborting:
      self.aborting = True
      self.why = why
    for t in self.threads:
      if not t.done:
        t.sem.release()

  def finish(self, me):
    me.done = True
    me.what = "finished"
    if self.aborting:
      return
    en = self.enabled()
    if not en:
      if any(not t.done for t in self.threads):
        self.deadlock = self.describe()
        self.abort("deadlock")
      return
    nxt = self.pick(en, None)
    nxt.last = self.steps
    nxt.sem.release()


S = None   # the scheduler of the run in progress


class Lock(object):
  def __init__(self):
    self.owner = None

  def acquire(self, blocking=True, timeout=-1):
    S.point("lock.acquire", lambda: self.owner is None)
    self.owner = S.me()
    return True

  def release(self):
    if self.owner is None:
      raise RuntimeError("release unlocked lock")
    self.owner = None
    S.point("lock.release")

  def locked(self):
    return self.owner is not None

  def __enter__(self):
    return self.acquire()

  def __exit__(self, *a):
    self.release()


class Event(object):
  def __init__(self):
    self.flag = False

  def set(self):
    self.flag = True
    S.point("event.set")

  def clear(self):
    self.flag = False
    S.point("event.clear")

  def is_set(self):
    S.point("event.is_set")
    return self.flag

  isSet = is_set

  def wait(self, timeout=None):
    S.point("event.wait", lambda: self.flag)
    return True


class ThreadError(RuntimeError):
  pass


fake_threading = types.ModuleType("fake_threading")
fake_threading.Lock = Lock
fake_threading.RLock = Lock
fake_threading.Event = Event
fake_threading.ThreadError = ThreadError
fake_threading.Thread = _t.Thread
fake_threading.current_thread = _t.current_thread


def _line_tracer(filename):
  def tracer(frame, event, arg):
    if frame.f_code.co_filename != filename:
      return None
    if event == "line" and S is not None and S.lines and not S.aborting:
      S.point("line %d" % frame.f_lineno)
    return tracer
  return tracer


def install(lazy_io):
  """Replace lazy_io's threading and wrap AudioThread start/run/join (idempotent)."""
  lazy_io.threading = fake_threading
  AT = lazy_io.AudioThread
  if getattr(AT, "_verif_wrapped", False):
    return
  orig_run = AT.run
  fname = lazy_io.__file__
  if fname.endswith(".pyc"):
    fname = fname[:-1]

  def start(self):
    self._rec = S.new_thread()
    _t.Thread.start(self)
    S.point("thread.start")

  def run(self):
    rec = self._rec
    sched = S
    sched.local.rec = rec
    rec.sem.acquire()
    try:
      if not sched.aborting:
        if sched.lines:
          sys.settrace(_line_tracer(fname))
        try:
          orig_run(self)
        finally:
          sys.settrace(None)
    except Abort:
      pass
    except BaseException as e:   # a crash of the player thread is part of the observation
      rec.crash = e
    finally:
      sched.finish(rec)

  def join(self, timeout=None):
    rec = self._rec
    S.point("thread.join", lambda: rec.done)

  AT.start, AT.run, AT.join = start, run, join
  AT._verif_wrapped = True
  lazy_io.AudioIO._verif_del = lazy_io.AudioIO.__del__   # the real destructor, called explicitly by the check
  lazy_io.AudioIO.__del__ = lambda self: None   # GC must not re-enter close() after a case
  lazy_io._verif_tracer = _line_tracer(fname)


# ---------------------------------------------------------------- fake backend
class FakeStream(object):
  def __init__(self, pa, kw):
    self._stream = self
    self.pa = pa
    self.kw = kw
    self.chunks = []      # (bytes, frames)
    self.closed = 0
    self.log = []
    self.rpos = 0
    pa._streams.add(self)

  def stop_stream(self):
    self.log.append("stop")
    S.point("backend.stop_stream")

  def start_stream(self):
    self.log.append("start")
    S.point("backend.start_stream")

  def close(self):
    self.closed += 1
    self.log.append("close")
    self.pa._streams.discard(self)
    S.point("backend.close")

  def write(self, chunk, frames):
    self.chunks.append((bytes(chunk), frames))
    S.point("backend.write")

  def read(self, frames):
    """Input device: an endless ramp of float32-exact values, one scheduling point per read."""
    import struct
    vals = [((self.rpos + i) % 64) / 8. for i in range(frames)]
    self.rpos += frames
    self.log.append("read")
    S.point("backend.read")
    return struct.pack("%df" % frames, *vals)


class FakePyAudio(object):
  instances = []

  def __init__(self):
    self._streams = set()
    self.terminated = 0
    self.opened = []
    FakePyAudio.instances.append(self)

  REFUSED_RATE = 12345

  def open(self, **kw):
    if kw.get("rate") == self.REFUSED_RATE:   # a device that refuses the sample rate, as PortAudio does
      S.point("backend.open")
      raise IOError(-9997, "Invalid sample rate")
    f = FakeStream(self, kw)
    self.opened.append(f)
    S.point("backend.open")
    return f

  def terminate(self):
    self.terminated += 1
    S.point("backend.terminate")

  def get_host_api_count(self):
    return 0


def _write_stream(stream, chunk, frames, flag=False):
  stream.chunks.append((bytes(chunk), frames))
  stream.log.append("write")
  S.point("backend.write")


def install_backend():
  pm = types.ModuleType("pyaudio")
  pm.PyAudio = FakePyAudio
  for i, n in enumerate(["paFloat32", "paInt32", "paInt24", "paInt16", "paInt8", "paUInt8"]):
    setattr(pm, n, 1 << i)
  sys.modules["pyaudio"] = pm
  po = types.ModuleType("_portaudio")
  po.write_stream = _write_stream
  sys.modules["_portaudio"] = po
