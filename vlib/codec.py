"""Tagged JSON codec for cases: cases are plain data (DESIGN 1.1)."""
import json
import hashlib
from fractions import Fraction
from .q import Q


def enc(o):
  if o is None or isinstance(o, (bool, str)):
    return o
  if isinstance(o, int):
    return o if abs(o) < 2 ** 53 else {"$i": str(o)}
  if isinstance(o, float):
    return {"$f": o.hex()}
  if isinstance(o, Q):
    return {"$q": "%d/%d" % (o.numerator, o.denominator)}
  if isinstance(o, Fraction):
    return {"$r": "%d/%d" % (o.numerator, o.denominator)}
  if isinstance(o, complex):
    return {"$c": [o.real.hex(), o.imag.hex()]}
  if isinstance(o, (bytes, bytearray)):
    return {"$b": bytes(o).hex()}
  if isinstance(o, tuple):
    return {"$t": [enc(x) for x in o]}
  if isinstance(o, list):
    return [enc(x) for x in o]
  if isinstance(o, (set, frozenset)):
    return {"$s": sorted((enc(x) for x in o), key=lambda e: json.dumps(e, sort_keys=True))}
  if isinstance(o, dict):
    if all(isinstance(k, str) and not k.startswith("$") for k in o):
      return {k: enc(v) for k, v in o.items()}
    return {"$d": [[enc(k), enc(v)] for k, v in o.items()]}
  raise TypeError("case is not plain data: %r (%s)" % (o, type(o).__name__))


def dec(o):
  if isinstance(o, list):
    return [dec(x) for x in o]
  if isinstance(o, dict):
    if len(o) == 1:
      (k, v), = o.items()
      if k == "$i":
        return int(v)
      if k == "$f":
        return float.fromhex(v)
      if k == "$q":
        return Q(Fraction(v))
      if k == "$r":
        return Fraction(v)
      if k == "$c":
        return complex(float.fromhex(v[0]), float.fromhex(v[1]))
      if k == "$b":
        return bytes.fromhex(v)
      if k == "$t":
        return tuple(dec(x) for x in v)
      if k == "$s":
        return frozenset(dec(x) for x in v)
      if k == "$d":
        return {dec(a): dec(b) for a, b in v}
    return {k: dec(v) for k, v in o.items()}
  return o


def dumps(o, **kw):
  return json.dumps(enc(o), sort_keys=True, **kw)


def loads(s):
  return dec(json.loads(s))


def chash(o):
  return int.from_bytes(hashlib.blake2b(dumps(o).encode(), digest_size=8).digest(), "big")
