"""Counting / bounded sources (DESIGN 2.2)."""
from .core import OverRead


class Src(object):
  """Iterator over ``items`` (or an endless ``f(i)`` when items is None) that
  counts ``__next__`` calls and raises OverRead when pulled past ``bound``."""

  def __init__(self, items=None, bound=None, f=None):
    self.items = None if items is None else list(items)
    self.f = f or (lambda i: i)
    self.bound = bound
    self.reads = 0       # successful item deliveries
    self.pulls = 0       # __next__ calls (including the one that ends it)

  def __iter__(self):
    return self

  def __next__(self):
    self.pulls += 1
    if self.items is not None and self.reads >= len(self.items):
      raise StopIteration
    if self.bound is not None and self.reads >= self.bound:
      raise OverRead("source pulled for item %d, bound is %d" % (self.reads + 1, self.bound))
    i = self.reads
    self.reads += 1
    return self.items[i] if self.items is not None else self.f(i)

  next = __next__
