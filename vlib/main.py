import os
import sys
import importlib
import warnings


def main(argv):
  if len(argv) < 2:
    print("usage: check <ID> quick|thorough [--clause NAME]... | check <ID> --replay FILE", file=sys.stderr)
    return 2
  pid = argv[0].upper()
  try:
    import audiolazy  # noqa: F401  (import before touching warning filters)
    warnings.simplefilter("ignore")
    from . import core
    mod = importlib.import_module("props.%s" % pid.lower())
  except Exception:
    import traceback
    traceback.print_exc()
    print("HARNESS-ERROR property=%s import failed" % pid, file=sys.stderr)
    return 2
  try:
    if argv[1] == "--replay":
      return core.replay(mod, argv[2])
    tier = argv[1] if argv[1] in ("quick", "thorough") else os.environ.get("VERIF_TIER", "quick")
    only = [argv[i + 1] for i, a in enumerate(argv) if a == "--clause"]
    seedv = int(os.environ.get("VERIF_SEED", "1") or "1")
    return core.run_property(mod, tier, seedv, only=only or None)
  except core.HarnessError as e:
    print("HARNESS-ERROR property=%s %s" % (pid, e), file=sys.stderr)
    return 2
  except Exception:
    import traceback
    traceback.print_exc()
    print("HARNESS-ERROR property=%s runner crashed" % pid, file=sys.stderr)
    return 2


if __name__ == "__main__":
  sys.exit(main(sys.argv[1:]))
