"""Reference difference equation (DESIGN 2.4), shared by C04/C05/C06."""
from fractions import Fraction as F


def _at(c, n):
  """Coefficient value at sample n: constants stand for constant sequences."""
  if isinstance(c, (list, tuple)):
    return F(c[n])
  return F(c)


def diffeq_ref(b, a, x, zero=0, mem=None):
  """a0[n] y[n] = sum_k b_k[n] x[n-k] - sum_{k>=1} a_k[n] y[n-k]

  b, a: dict delay -> coefficient (number, or list of per-sample values);
  x[<0] = zero; y[-k] = mem[k-1] (zero when mem is None).
  Everything is computed in Fractions (floats are taken at their exact value).
  Stops at the first sample for which some coefficient sequence has ended.
  """
  zero = F(zero)
  y = []
  for n in range(len(x)):
    try:
      acc = F(0)
      for k, c in b.items():
        acc += _at(c, n) * (F(x[n - k]) if n - k >= 0 else zero)
      for k, c in a.items():
        if k == 0:
          continue
        if n - k >= 0:
          prev = y[n - k]
        elif mem is None:
          prev = zero
        else:
          prev = F(mem[k - n - 1])
        acc -= _at(c, n) * prev
      y.append(acc / _at(a[0], n))
    except IndexError:
      break
  return y


def magnitude_ref(b, a, x, zero=0, mem=None):
  """Same recursion on absolute values: an a-priori scale for rounding error."""
  bb = {k: abs(F(c)) for k, c in b.items()}
  aa = {k: (abs(F(c)) if k else F(c)) for k, c in a.items()}
  aa = dict(aa)
  a0 = abs(F(a[0]))
  y = []
  zero = abs(F(zero))
  for n in range(len(x)):
    acc = F(0)
    for k, c in bb.items():
      acc += c * (abs(F(x[n - k])) if n - k >= 0 else zero)
    for k, c in aa.items():
      if k == 0:
        continue
      if n - k >= 0:
        prev = y[n - k]
      elif mem is None:
        prev = zero
      else:
        prev = abs(F(mem[k - n - 1]))
      acc += abs(c) * prev
    y.append(acc / a0)
  return y
