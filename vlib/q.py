"""Q: an exact rational that absorbs finite floats exactly (DESIGN 2.1).

``fractions.Fraction`` degrades to ``float`` on contact with a float; ``Q``
converts a finite float operand with ``Fraction(float)`` (exact binary value),
computes in ``Fraction`` and re-wraps.  complex / non-finite operands fall
through to ``Fraction``'s own behaviour.
"""
from fractions import Fraction
import math
import operator


def _c(o):
  if isinstance(o, bool):
    return Fraction(int(o))
  if isinstance(o, float):
    return Fraction(o) if math.isfinite(o) else None
  if isinstance(o, (int, Fraction)):
    return Fraction(o)
  return None


class Q(Fraction):
  __slots__ = ()

  def __new__(cls, n=0, d=None):
    if isinstance(n, float):
      n = Fraction(n)
    if isinstance(d, float):
      d = Fraction(d)
    return super().__new__(cls, n, d)

  def __repr__(self):
    return "Q(%s)" % Fraction.__str__(self)

  __hash__ = Fraction.__hash__

  def __neg__(a):
    return Q(Fraction.__neg__(a))

  def __pos__(a):
    return a

  def __abs__(a):
    return Q(Fraction.__abs__(a))

  def __pow__(a, b):
    if isinstance(b, int) and not isinstance(b, bool):
      return Q(Fraction.__pow__(Fraction(a), b))
    cb = _c(b)
    if cb is not None and cb.denominator == 1:
      return Q(Fraction.__pow__(Fraction(a), int(cb)))
    return Fraction.__pow__(a, b)

  def __rpow__(b, a):
    return Fraction.__rpow__(b, a)

  def __divmod__(a, b):
    cb = _c(b)
    if cb is None:
      return Fraction.__divmod__(a, b)
    d, m = divmod(Fraction(a), cb)
    return Q(d), Q(m)

  def __rdivmod__(a, b):
    cb = _c(b)
    if cb is None:
      return Fraction.__rdivmod__(a, b)
    d, m = divmod(cb, Fraction(a))
    return Q(d), Q(m)


def _bin(name):
  op = getattr(operator, name)

  def fwd(a, b):
    cb = _c(b)
    if cb is None:
      return getattr(Fraction, "__%s__" % name)(a, b)
    r = op(Fraction(a), cb)
    return Q(r) if isinstance(r, (Fraction, int)) else r

  def rev(a, b):
    cb = _c(b)
    if cb is None:
      return getattr(Fraction, "__r%s__" % name)(a, b)
    r = op(cb, Fraction(a))
    return Q(r) if isinstance(r, (Fraction, int)) else r
  return fwd, rev


for _n in ["add", "sub", "mul", "truediv", "mod", "floordiv"]:
  _f, _r = _bin(_n)
  setattr(Q, "__%s__" % _n, _f)
  setattr(Q, "__r%s__" % _n, _r)


def F(x):
  """Exact Fraction of an int / float / Fraction / 'n/d' string."""
  if isinstance(x, Fraction):
    return Fraction(x)
  return Fraction(x)


def isq(x):
  return isinstance(x, Q)
