"""One libFuzzer (atheris) campaign over a clause's Hypothesis test.

usage: python -m vlib.fuzz_child <module> <clause-index> <tier> <seed> <runs> <outdir>

The clause's strategy is driven through ``hypothesis.fuzz_one_input`` so the
bytes libFuzzer mutates are decoded into the same structured cases the seeded
Hypothesis runs use; audiolazy is imported under atheris' instrumentation, so
coverage of the code under test guides the search.  The semantic oracle is the
clause's own run_case.  State is written to <outdir>/stats.json every 128
cases (atexit does not run under libFuzzer); a failing case is written to
<outdir>/fail.json before the exception is handed to libFuzzer.
"""
import os
import sys
import json
import warnings


def _patch_bytestring_provider():
  """hypothesis 6.168's BytestringProvider.draw_integer compares the raw drawn bits
  with [min_value, max_value] without adding min_value, so a range such as
  integers(6, 9) (or the index draws of fixed_dictionaries' key shuffle) can
  never be satisfied and every byte string is rejected as an overrun.  Replace
  it by the offset form; this only affects how fuzzer bytes are decoded."""
  from hypothesis.internal.conjecture.providers import BytestringProvider

  def draw_integer(self, min_value=None, max_value=None, *, weights=None, shrink_towards=0):
    if min_value is None and max_value is None:
      min_value, max_value = -(2 ** 127), 2 ** 127 - 1
    elif min_value is None:
      min_value = max_value - 2 ** 64
    elif max_value is None:
      max_value = min_value + 2 ** 64
    if min_value == max_value:
      return min_value
    span = max_value - min_value
    bits = span.bit_length()
    value = self._draw_bits(bits)
    while value > span:
      value = self._draw_bits(bits)
    return min_value + value
  BytestringProvider.draw_integer = draw_integer


def main(argv):
  modname, ci, tier, seedv, runs, outdir = argv[0], int(argv[1]), argv[2], int(argv[3]), int(argv[4]), argv[5]
  import atheris
  with atheris.instrument_imports(include=["audiolazy"]):
    import audiolazy  # noqa: F401
  warnings.simplefilter("ignore")
  import importlib
  from hypothesis import given, settings, HealthCheck
  from . import core, codec
  core._limit_memory()
  _patch_bytestring_provider()
  mod = importlib.import_module(modname)
  clause = mod.CLAUSES[ci]
  stats = core._Stats()
  os.makedirs(outdir, exist_ok=True)

  def flush():
    r = stats.result()
    r["nt"] = sorted(r["nt"])
    tmp = os.path.join(outdir, "stats.json.tmp")
    with open(tmp, "w") as f:
      json.dump(r, f)
    os.replace(tmp, os.path.join(outdir, "stats.json"))

  def body(case):
    try:
      core._guarded(clause, case, stats)
    except core.Reject:
      return
    except BaseException:
      if stats.fail is not None:
        with open(os.path.join(outdir, "fail.json"), "w") as f:
          json.dump(stats.fail, f)
      flush()
      raise
    if stats.evals % 128 == 0:
      flush()

  test = settings(database=None, deadline=None,
                  suppress_health_check=list(HealthCheck))(given(clause.strategy(tier))(body))
  corpus = os.path.join(outdir, "corpus")
  os.makedirs(corpus, exist_ok=True)
  # Hypothesis decodes the byte string as a stream of choices and rejects strings
  # that are too short, and libFuzzer sees no coverage gradient through the
  # (uninstrumented) decoder: start from a few long pseudo-random strings derived
  # from the seed, and let lengths vary freely from the start.
  import hashlib
  for i in range(8):
    blob = b"".join(hashlib.blake2b(("%d/%d/%d/%d" % (seedv, ci, i, j)).encode()).digest() for j in range(8 + 8 * i))
    with open(os.path.join(corpus, "seed%d" % i), "wb") as f:
      f.write(blob)
  args = [sys.argv[0], "-runs=%d" % runs, "-seed=%d" % (core.mix(seedv, modname, ci) % (2 ** 31 - 1) + 1),
          "-max_len=4096", "-len_control=0", "-print_final_stats=0", "-verbosity=0",
          "-artifact_prefix=%s/" % outdir, corpus]
  atheris.Setup(args, test.hypothesis.fuzz_one_input)
  flush()
  atheris.Fuzz()


if __name__ == "__main__":
  main(sys.argv[1:])
