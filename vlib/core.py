"""Runner: clauses -> sharded Hypothesis runs -> evidence / replay files.

Exit codes: 0 nothing violated, 1 VIOLATION line(s) printed, 2 harness error.
"""
import os
import sys
import time
import json
import traceback
import multiprocessing

from . import codec

ROOT = os.path.dirname(os.path.dirname(os.path.abspath(__file__)))


class Violation(Exception):
  """The property is violated on this case."""

  def __init__(self, detail, site=None):
    Exception.__init__(self, detail)
    self.detail = detail
    self.site = site


class Reject(Exception):
  """The case is outside the property's domain (counted, not a failure)."""


class HarnessError(Exception):
  pass


class OverRead(BaseException):
  """A bounded source was pulled past its bound (BaseException so that the
  code under test cannot swallow it with ``except Exception``)."""


class Clause(object):
  def __init__(self, name, strategy, run_case, quick, thorough, floors=None,
               shards=None, doc="", fuzz=None):
    self.fuzz = fuzz or {}        # tier -> total libFuzzer (atheris) runs over this clause's test
    self.name = name
    self.strategy = strategy      # callable(tier) -> hypothesis strategy
    self.run_case = run_case      # callable(case) -> {"nontrivial":bool,"labels":[...]}
    self.budget = {"quick": quick, "thorough": thorough}
    self.floors = floors or {}    # label -> minimal share of evaluations
    self.shards = shards          # optional {"quick": n, "thorough": n}
    self.doc = doc
    self.kind = "hypothesis"


class Enumerated(object):
  """A finite domain enumerated completely: cases(tier, shard, nshards)."""

  def __init__(self, name, cases, run_case, shards=None, doc="", floors=None,
               distinct_by_construction=True):
    # cases of an enumeration are pairwise distinct by construction, so the
    # non-trivial ones are counted instead of hashed (memory)
    self.distinct_by_construction = distinct_by_construction
    self.name = name
    self.cases = cases
    self.run_case = run_case
    self.shards = shards or {"quick": 16, "thorough": 16}
    self.doc = doc
    self.floors = floors or {}
    self.kind = "enumerated"


def mix(*parts):
  import hashlib
  h = hashlib.blake2b(repr(parts).encode(), digest_size=8).digest()
  return int.from_bytes(h, "big") >> 1


def describe_exc(e):
  tb = traceback.extract_tb(e.__traceback__)
  where = ""
  for fr in reversed(tb):
    where = "%s:%d in %s" % (os.path.basename(fr.filename), fr.lineno, fr.name)
    break
  return "%s: %s [%s]" % (type(e).__name__, str(e)[:400], where)


class _Stats(object):
  def __init__(self, count_only=False):
    self.evals = 0
    self.rejected = 0
    self.count_only = count_only
    self.ntc = 0
    self.nt = set()
    self.labels = {}
    self.samples = {}
    self.fail = None

  def record(self, case, rec):
    self.evals += 1
    labels = list(rec.get("labels", ()))
    for lb in labels:
      self.labels[lb] = self.labels.get(lb, 0) + 1
    if rec.get("nontrivial"):
      if self.count_only:
        self.ntc += 1
      else:
        self.nt.add(codec.chash(case))
      key = labels[0] if labels else "-"
      if key not in self.samples and len(self.samples) < 6:
        self.samples[key] = {"labels": labels[:8], "case": codec.enc(case)}

  def result(self):
    return {"evals": self.evals, "rejected": self.rejected, "nt": self.nt, "ntc": self.ntc,
            "labels": self.labels, "samples": list(self.samples.values()),
            "fail": self.fail}


def _guarded(clause, case, stats):
  """Run one case; every escape other than Reject is a violation."""
  try:
    rec = clause.run_case(case)
  except Reject:
    stats.rejected += 1
    raise
  except Violation as e:
    stats.evals += 1
    stats.fail = {"case": codec.enc(case), "detail": e.detail, "site": e.site}
    raise
  except MemoryError:
    raise HarnessError("MemoryError while running case %s" % codec.dumps(case)[:300])
  except (Exception, OverRead) as e:
    stats.evals += 1
    stats.fail = {"case": codec.enc(case),
                  "detail": "unexpected " + describe_exc(e), "site": None}
    raise
  stats.record(case, rec or {})


def _run_hypothesis(mod, clause, tier, seedv, shard, nshards, examples):
  import hypothesis
  from hypothesis import given, settings, HealthCheck, Phase, seed, Verbosity
  from hypothesis.internal.conjecture import engine
  engine.MAX_SHRINKING_SECONDS = 25 if tier == "quick" else 90
  stats = _Stats()

  def body(case):
    try:
      _guarded(clause, case, stats)
    except Reject:
      hypothesis.reject()

  test = given(clause.strategy(tier))(body)
  test = seed(mix(seedv, mod.ID, clause.name, shard, nshards))(test)
  test = settings(max_examples=examples, database=None, deadline=None,
                  derandomize=False, report_multiple_bugs=False,
                  verbosity=Verbosity.quiet,
                  suppress_health_check=[HealthCheck.too_slow,
                                         HealthCheck.data_too_large,
                                         HealthCheck.large_base_example],
                  phases=[Phase.explicit, Phase.generate, Phase.target,
                          Phase.shrink])(test)
  err = None
  try:
    test()
  except (hypothesis.errors.FailedHealthCheck, hypothesis.errors.Unsatisfiable,
          hypothesis.errors.InvalidArgument) as e:
    err = "generator: " + describe_exc(e)
  except hypothesis.errors.Flaky as e:
    if stats.fail is None:
      err = "flaky: " + describe_exc(e)
    else:
      stats.fail["detail"] += " (Hypothesis reported the case as flaky)"
  except (Exception, OverRead) as e:
    if stats.fail is None:
      err = "harness: " + describe_exc(e) + "\n" + "".join(
        traceback.format_exception(type(e), e, e.__traceback__)[-6:])
  res = stats.result()
  res["error"] = err
  return res


def _run_enumerated(mod, clause, tier, shard, nshards):
  stats = _Stats(count_only=clause.distinct_by_construction)
  err = None
  try:
    for case in clause.cases(tier, shard, nshards):
      try:
        _guarded(clause, case, stats)
      except Reject:
        continue
      except (Exception, OverRead):
        break
  except (Exception, OverRead) as e:
    err = "harness: " + describe_exc(e)
  res = stats.result()
  res["error"] = err
  return res


def _limit_memory():
  """A runaway case must not eat the machine: cap the address space of each
  worker (MemoryError is then reported as a harness error, never a violation)."""
  try:
    import resource
    cap = int(os.environ.get("VERIF_MEM_GB", "4")) * 2 ** 30
    resource.setrlimit(resource.RLIMIT_AS, (cap, cap))
  except Exception:
    pass


def _task(args):
  modname, ci, tier, seedv, shard, nshards, examples = args
  import importlib
  _limit_memory()
  mod = importlib.import_module(modname)
  clause = mod.CLAUSES[ci]
  t0 = time.time()
  try:
    if clause.kind == "hypothesis":
      res = _run_hypothesis(mod, clause, tier, seedv, shard, nshards, examples)
    else:
      res = _run_enumerated(mod, clause, tier, shard, nshards)
  except (Exception, OverRead) as e:
    res = {"evals": 0, "rejected": 0, "nt": set(), "ntc": 0, "labels": {}, "samples": [],
           "fail": None, "error": "worker: " + describe_exc(e) + "\n" + traceback.format_exc()}
  res["clause"] = ci
  res["wall"] = time.time() - t0
  return res


class _RegressClause(object):
  kind = "enumerated"
  name = "regress"
  floors = {}
  doc = "saved inputs (shrunk failures of repaired defects and seeded changes) replayed without Hypothesis"


def _run_regress(mod):
  """Replay tier: every regress/<ID>/*.json is run through its clause."""
  d = os.path.join(ROOT, "regress", mod.ID)
  if not os.path.isdir(d):
    return []
  byname = dict((c.name, c) for c in mod.CLAUSES)
  stats = _Stats()
  err = None
  for fn in sorted(os.listdir(d)):
    if not fn.endswith(".json"):
      continue
    with open(os.path.join(d, fn)) as f:
      doc = json.load(f)
    clause = byname.get(doc.get("clause"))
    if clause is None:
      err = "regress file %s names unknown clause %r" % (fn, doc.get("clause"))
      continue
    try:
      _guarded(clause, codec.dec(doc["case"]), stats)
    except Reject:
      pass
    except (Exception, OverRead):
      pass
    if stats.fail is not None:
      stats.fail["clause"] = doc["clause"]
      stats.fail["detail"] = "saved input %s fails again: %s" % (fn, stats.fail["detail"])
      break
  if _RegressClause not in mod.CLAUSES:
    mod.CLAUSES.append(_RegressClause)
  res = stats.result()
  res["error"] = err
  res["clause"] = mod.CLAUSES.index(_RegressClause)
  return [res]


SKIPPED_FUZZ = []


def _run_fuzz(mod, tier, seedv, only, errors):
  """Coverage-guided tier: atheris/libFuzzer campaigns over the same Hypothesis tests
  (vlib/fuzz_child.py), 16 processes per clause; results come back as clause '<name>@atheris'."""
  import shutil
  import subprocess
  import tempfile
  out = []
  import importlib.util
  if importlib.util.find_spec("atheris") is None:
    # not installable here (./check tries the offline wheelhouse first): the coverage-guided tier is
    # left out and the evidence says so; the Hypothesis tiers of the same clauses decide the exit code
    if any(getattr(c, "fuzz", {}).get(tier, 0) for c in mod.CLAUSES if c.kind == "hypothesis"):
      print("NOTE property=%s atheris is not available: coverage-guided tier skipped" % mod.ID)
      SKIPPED_FUZZ.append(mod.ID)
    return out
  for ci, clause in enumerate(list(mod.CLAUSES)):
    total = getattr(clause, "fuzz", {}).get(tier, 0) if clause.kind == "hypothesis" else 0
    if not total or (only and clause.name not in only):
      continue
    nproc = int(os.environ.get("VERIF_JOBS", "16"))
    per = max(200, total // nproc)
    tmp = tempfile.mkdtemp(prefix="verif-fuzz.")
    procs = []
    try:
      for i in range(nproc):
        d = os.path.join(tmp, "p%d" % i)
        cmd = [sys.executable, "-B", "-W", "ignore", "-m", "vlib.fuzz_child", mod.__name__, str(ci), tier,
               str(mix(seedv, "fuzz", i) % 10 ** 6), str(per), d]
        procs.append((d, subprocess.Popen(cmd, cwd=ROOT, stdout=subprocess.DEVNULL, stderr=subprocess.PIPE)))
      merged = _Stats()
      fails = []
      for d, p in procs:
        try:
          _, err = p.communicate(timeout=float(os.environ.get("VERIF_WALL_S", 7200)))
        except subprocess.TimeoutExpired:
          p.kill()
          errors.append("%s@atheris: campaign did not finish (inconclusive)" % clause.name)
          continue
        sp = os.path.join(d, "stats.json")
        if not os.path.exists(sp):
          errors.append("%s@atheris: campaign produced no statistics: %s" % (clause.name, err.decode(errors="replace")[-300:]))
          continue
        with open(sp) as f:
          r = json.load(f)
        merged.evals += r["evals"]
        merged.rejected += r["rejected"]
        merged.nt |= set(r["nt"])
        for k, v in r["labels"].items():
          merged.labels[k] = merged.labels.get(k, 0) + v
        for smp in r["samples"]:
          if len(merged.samples) < 3:
            merged.samples[len(merged.samples)] = smp
        fp = os.path.join(d, "fail.json")
        if os.path.exists(fp):
          with open(fp) as f:
            fails.append(json.load(f))
        elif p.returncode != 0:
          errors.append("%s@atheris: libFuzzer exited %d without a recorded failing case: %s"
                        % (clause.name, p.returncode, err.decode(errors="replace")[-300:]))
      res = merged.result()
      res["error"] = None
      res["fails"] = fails
      res["name"] = clause.name
      out.append(res)
    finally:
      shutil.rmtree(tmp, ignore_errors=True)
  return out


def load_known():
  path = os.path.join(ROOT, "known_findings.json")
  if not os.path.exists(path):
    return []
  with open(path) as f:
    return json.load(f).get("entries", [])


def check_repo():
  import audiolazy
  repo = os.path.realpath(os.environ.get("VERIF_REPO", "/repo"))
  got = os.path.realpath(os.path.dirname(os.path.dirname(audiolazy.__file__)))
  if got != repo:
    raise HarnessError("audiolazy imported from %s, expected %s" % (got, repo))


def validate_evidence(ev):
  for k in ("property_id", "tier", "seed", "level", "coverage", "wall_s"):
    if k not in ev:
      raise HarnessError("evidence lacks %s" % k)
  cov = ev["coverage"]
  if not (isinstance(cov.get("evaluations"), int) and cov["evaluations"] >= 1):
    raise HarnessError("evidence: evaluations")
  if not (isinstance(cov.get("distinct_nontrivial"), int) and cov["distinct_nontrivial"] >= 2):
    raise HarnessError("evidence: distinct_nontrivial < 2")
  if not (isinstance(cov.get("samples"), list) and cov["samples"]):
    raise HarnessError("evidence: no samples")
  if not isinstance(cov.get("rule"), str):
    raise HarnessError("evidence: rule")


def run_property(mod, tier, seedv, only=None, jobs=None):
  t0 = time.time()
  check_repo()
  jobs = jobs or int(os.environ.get("VERIF_JOBS", "16"))
  tasks = []
  for ci, clause in enumerate(mod.CLAUSES):
    if only and clause.name not in only:
      continue
    if clause.kind == "hypothesis":
      total = clause.budget[tier]
      if total <= 0:
        continue
      dflt = {"quick": 8, "thorough": 32}[tier]
      nsh = (clause.shards or {}).get(tier, dflt)
      nsh = max(1, min(nsh, total // 20 or 1))
      per = -(-total // nsh)
      for sh in range(nsh):
        tasks.append((mod.__name__, ci, tier, seedv, sh, nsh, per))
    else:
      nsh = clause.shards[tier]
      for sh in range(nsh):
        tasks.append((mod.__name__, ci, tier, seedv, sh, nsh, 0))
  if jobs == 1:
    results = [_task(t) for t in tasks]
  else:
    ctx = multiprocessing.get_context("fork")
    budget = float(os.environ.get("VERIF_WALL_S", {"quick": 900, "thorough": 7200}[tier]))
    pool = ctx.Pool(min(jobs, max(1, len(tasks))))
    try:
      pending = [pool.apply_async(_task, (t,)) for t in tasks]
      results = []
      for t, p in zip(tasks, pending):
        left = budget - (time.time() - t0)
        try:
          results.append(p.get(timeout=max(1.0, left)))
        except multiprocessing.TimeoutError:
          # inconclusive, never a violation (also covers a worker killed by the OS)
          results.append({"evals": 0, "rejected": 0, "nt": set(), "ntc": 0, "labels": {},
                          "samples": [], "fail": None, "clause": t[1], "wall": budget,
                          "error": "wall-clock guard: shard %d of clause %s did not finish within %ds (inconclusive)"
                                   % (t[4], mod.CLAUSES[t[1]].name, budget)})
    finally:
      pool.terminate()
      pool.join()

  # merge per clause
  per = {}
  results = list(results) + _run_regress(mod)
  for r in results:
    c = mod.CLAUSES[r["clause"]]
    m = per.setdefault(c.name, {"evals": 0, "rejected": 0, "nt": set(), "ntc": 0, "labels": {},
                                "samples": [], "fails": [], "errors": [], "clause": c})
    m["evals"] += r["evals"]
    m["rejected"] += r["rejected"]
    m["nt"] |= r["nt"]
    m["ntc"] += r.get("ntc", 0)
    for k, v in r["labels"].items():
      m["labels"][k] = m["labels"].get(k, 0) + v
    if len(m["samples"]) < 3:
      m["samples"].extend(r["samples"][:3 - len(m["samples"])])
    if r["fail"]:
      m["fails"].append(r["fail"])
    if r["error"]:
      m["errors"].append(r["error"])

  # coverage-guided tier (atheris) for the clauses that ask for it
  fuzz_errors = []
  for r in _run_fuzz(mod, tier, seedv, only, fuzz_errors):
    class _F(object):
      kind = "atheris"
      floors = {}
    fc = _F()
    fc.name = r["name"] + "@atheris"
    fc.doc = "libFuzzer (atheris) campaign over the same test through hypothesis.fuzz_one_input, audiolazy instrumented for coverage"
    per[fc.name] = {"evals": r["evals"], "rejected": r["rejected"], "nt": r["nt"], "ntc": 0,
                    "labels": r["labels"], "samples": r["samples"], "errors": [], "clause": fc,
                    "fails": [dict(f, clause=r["name"]) for f in r["fails"]]}

  known = [k for k in load_known() if k.get("property") == mod.ID]
  open_findings = {k["site"]: k for k in known if k.get("status") == "finding"}
  violations = []
  known_hits = {}
  errors = list(fuzz_errors)
  rdir = os.environ.get("VERIF_REPLAY_DIR") or os.path.join(ROOT, "replays")
  edir = os.environ.get("VERIF_EVIDENCE_DIR") or os.path.join(ROOT, "evidence")
  os.makedirs(rdir, exist_ok=True)
  for name, m in per.items():
    errors.extend("%s: %s" % (name, e) for e in m["errors"])
    if m["fails"]:
      # one report per clause and site: the smallest shrunk case
      bysite = {}
      for f in m["fails"]:
        bysite.setdefault(f.get("site"), []).append(f)
      for site, fl in bysite.items():
        f = min(fl, key=lambda f: len(json.dumps(f["case"])))
        if site is not None and site in open_findings:
          known_hits[site] = f
          continue
        h = "%016x" % codec.chash(codec.dec(f["case"]))
        path = os.path.join(rdir, "%s-%s-%s.json" % (mod.ID, name, h[:10]))
        with open(path, "w") as fh:
          json.dump({"property": mod.ID, "clause": f.get("clause", name), "case": f["case"],
                     "detail": f["detail"], "site": site, "seed": seedv, "tier": tier},
                    fh, indent=1, sort_keys=True)
        violations.append((path, name, f["detail"]))
    # floors
    if not m["fails"] and not m["errors"] and m["evals"] > 0:
      for lb, share in m["clause"].floors.items():
        # a floor guards against a generator that stopped producing a class, not against sampling
        # noise: the count must fall 4 binomial standard deviations below floor x evaluations
        # (or be zero where at least 3 are expected) before the run is declared unusable
        cnt = m["labels"].get(lb, 0)
        n = float(m["evals"])
        need = share * n
        slack = 4.0 * (need * max(1.0 - share, 0.0)) ** .5
        if cnt < need - slack or (cnt == 0 and need >= 3):
          errors.append("%s: generator degenerated: label %r share %.4f < floor %.4f"
                        % (name, lb, cnt / n, share))

  evals = sum(m["evals"] for m in per.values())
  for m in per.values():
    m["ntn"] = len(m["nt"]) + m["ntc"]
  nt = sum(m["ntn"] for m in per.values())
  samples = []
  for name, m in per.items():
    for s in m["samples"]:
      s = dict(s)
      s["clause"] = name
      txt = json.dumps(s)
      if len(txt) > 3000:
        s = {"clause": name, "labels": s["labels"], "case_truncated": txt[:3000]}
      samples.append(s)
  exhaustive = bool(per) and all(m["clause"].kind == "enumerated" for m in per.values())
  ev = {
    "property_id": mod.ID,
    "tier": tier,
    "seed": seedv,
    "level": "exploration",
    "coverage": {
      "evaluations": evals,
      "distinct_nontrivial": nt,
      "rule": mod.RULE,
      "samples": samples,
      "exhaustive": exhaustive,
      "clauses": {name: {"kind": m["clause"].kind, "evaluations": m["evals"],
                         "distinct_nontrivial": m["ntn"],
                         "rejected_by_domain": m["rejected"],
                         "labels": dict(sorted(m["labels"].items())),
                         "what": m["clause"].doc}
                  for name, m in per.items()},
      "known_findings_excluded": sorted(open_findings),
    },
    "assumptions": list(mod.ASSUMPTIONS) + (
      ["atheris could not be imported or installed in this run: the coverage-guided tier was skipped"]
      if mod.ID in SKIPPED_FUZZ else []),
    "wall_s": round(time.time() - t0, 2),
    "violations": len(violations),
  }
  status = 0
  for site, k in sorted(open_findings.items()):
    print("KNOWN-FINDING: property=%s %s" % (mod.ID, k.get("what", site)))
  for path, name, detail in violations:
    print("VIOLATION property=%s replay=%s" % (mod.ID, path))
    print("  clause=%s detail=%s" % (name, detail[:600].replace("\n", " | ")))
    status = 1
  if not only:
    try:
      if not violations and not errors:
        validate_evidence(ev)
    except HarnessError as e:
      errors.append(str(e))
    os.makedirs(edir, exist_ok=True)
    with open(os.path.join(edir, mod.ID + ".json"), "w") as fh:
      json.dump(ev, fh, indent=1, sort_keys=True)
  for e in errors:
    print("HARNESS-ERROR property=%s %s" % (mod.ID, e), file=sys.stderr)
  if errors and status == 0:
    status = 2
  print("%s %s seed=%d: %d evaluations, %d distinct non-trivial, %d violation(s), %.1fs"
        % (mod.ID, tier, seedv, evals, nt, len(violations), time.time() - t0))
  for name, m in per.items():
    print("  %-22s evals=%-7d nontrivial=%-7d rejected=%d" % (name, m["evals"], m["ntn"], m["rejected"]))
  return status


def replay(mod, path):
  check_repo()
  with open(path) as f:
    doc = json.load(f)
  case = codec.dec(doc["case"])
  clause = [c for c in mod.CLAUSES if c.name == doc["clause"]][0]
  try:
    clause.run_case(case)
  except Reject:
    print("replay: case is outside the domain now (rejected)")
    return 0
  except Violation as e:
    print("VIOLATION property=%s replay=%s" % (mod.ID, os.path.abspath(path)))
    print("  detail=%s" % e.detail[:2000])
    return 1
  except (Exception, OverRead) as e:
    print("VIOLATION property=%s replay=%s" % (mod.ID, os.path.abspath(path)))
    print("  detail=unexpected %s" % describe_exc(e))
    traceback.print_exc()
    return 1
  print("replay: property holds on this case")
  return 0
