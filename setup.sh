#!/bin/bash
# Offline setup: hypothesis importable by /venv/bin/python; atheris (coverage-guided tier of the
# thorough checks of C08/C15/C18) into /verif/.deps from the offline wheelhouse.
cd "$(dirname "$0")" || exit 1
if ! /venv/bin/python -c "import hypothesis" 2>/dev/null; then
  /venv/bin/pip install --no-index --find-links /opt/veriftools/wheels hypothesis || exit 1
fi
if ! PYTHONPATH="$PWD/.deps" /venv/bin/python -c "import atheris" 2>/dev/null; then
  /venv/bin/pip install -q --no-index --find-links /opt/veriftools/wheels --target "$PWD/.deps" atheris \
    || echo "setup: atheris could not be installed; the atheris tier of the thorough checks will report a harness error"
fi
/venv/bin/python -W ignore -c "import hypothesis, audiolazy; print('setup ok: hypothesis', hypothesis.__version__)" || exit 1
