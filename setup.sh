#!/bin/bash
# Offline setup: make sure hypothesis is importable by /venv/bin/python.
cd "$(dirname "$0")" || exit 1
if ! /venv/bin/python -c "import hypothesis" 2>/dev/null; then
  /venv/bin/pip install --no-index --find-links /opt/veriftools/wheels hypothesis || exit 1
fi
/venv/bin/python -c "import hypothesis, audiolazy; print('setup ok: hypothesis', hypothesis.__version__)" 2>/dev/null || exit 1
