import warnings, math, traceback, operator, itertools
from audiolazy import *
from fractions import Fraction as F
from collections import deque
warnings.simplefilter("ignore")
from hypothesis import given, settings, strategies as st, seed
BIN="add sub mul truediv floordiv mod pow rshift lshift and or xor matmul".split()
CMP="lt le eq ne gt ge".split(); UN="pos neg invert".split()
class Mx:
    def __init__(s,v): s.v=v
    def __matmul__(s,o): return Mx(s.v*o.v+1)
    def __rmatmul__(s,o): return Mx(o.v*s.v+2)
    def __eq__(s,o): return isinstance(o,Mx) and s.v==o.v
    def __hash__(s): return hash(s.v)
    def __repr__(s): return "Mx(%r)"%s.v
def elems(op):
    if op in ("rshift","lshift"): return st.integers(0,6)
    if op in ("and","or","xor","invert"): return st.one_of(st.integers(-9,9), st.booleans())
    if op=="pow": return st.integers(1,3)
    if op=="matmul": return st.integers(0,5).map(Mx)
    return st.one_of(st.integers(-9,9), st.floats(-9,9,allow_nan=False), st.fractions(min_value=-9,max_value=9,max_denominator=5), st.complex_numbers(max_magnitude=9,allow_nan=False), st.booleans())
cnt=[0,{}]
def run(it):
    out=[]
    try:
        for v in it: out.append(v)
    except Exception as e: out.append(("EXC",type(e).__name__))
    return out
def same(a,b):
    if len(a)!=len(b): return False
    for u,v in zip(a,b):
        if type(u)!=type(v): return False
        if u!=v and not (isinstance(u,float) and u!=u and v!=v) and not (isinstance(u,complex) and (u!=u)): return False
    return True
@seed(61)
@settings(max_examples=4000, database=None, deadline=None)
@given(st.sampled_from([("b",o,r) for o in BIN for r in (0,1)]+[("c",o,0) for o in CMP]+[("u",o,0) for o in UN]), st.sampled_from(["list","gen","per","const"]), st.sampled_from(["stream","per","list","tuple","gen","scalar","deque"]), st.data())
def t(opd,sk,ok,data):
    cnt[0]+=1
    kind,op,rev=opd; el=elems(op)
    A=data.draw(st.lists(el,min_size=(1 if sk in("per","const") else 0),max_size=(1 if sk=="const" else 5)))
    B=data.draw(st.lists(el,min_size=(1 if ok in("per","scalar") else 0),max_size=(1 if ok=="scalar" else 5)))
    if sk in("per","const") and ok in("per","scalar") : return
    if sk=="const": A=A[:1]
    s={"list":lambda:Stream(list(A)),"gen":lambda:Stream(v for v in A),"per":lambda:Stream(*A) if len(A)>1 else Stream(A[0]),"const":lambda:Stream(A[0])}[sk]()
    f=getattr(operator,"__%s__"%op)
    if kind=="u":
        if sk in("per","const"): return
        got=run(getattr(s,"__%s__"%op)()); exp=run(f(a) for a in A)
    else:
        o={"stream":lambda:Stream(list(B)),"per":lambda:Stream(*B) if len(B)>1 else Stream(B[0]),"list":lambda:list(B),"tuple":lambda:tuple(B),"gen":lambda:(v for v in B),"scalar":lambda:B[0],"deque":lambda:deque(B)}[ok]()
        name="__%s%s__"%("r" if rev else "",op)
        res=getattr(s,name)(o)
        assert isinstance(res,Stream)
        ai=itertools.cycle(A) if sk in("per","const") else iter(A)
        bi=itertools.cycle(B) if ok in("per","scalar") else iter(B)
        exp=run((f(b,a) if rev else f(a,b)) for a,b in zip(ai,bi))
        got=run(res)
    cnt[1][op]=cnt[1].get(op,0)+1
    assert same(got,exp),(opd,sk,ok,A,B,got,exp)
try: t()
except BaseException as e: traceback.print_exc()
print(cnt[0], len(cnt[1]))
