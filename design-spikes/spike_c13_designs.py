import warnings, math, random
from audiolazy import *
warnings.simplefilter("ignore")
random.seed(5)
pi=math.pi
w1=w2=w3=0; bad=0
for _ in range(400):
    f0=random.uniform(1e-3,pi-1e-3); bw=random.uniform(1e-3,1)
    for nm,args in [("sampled",(f0,bw,0,random.randint(1,4))),("slaney",(f0,bw)),("klapuri",(f0,bw))]:
        if nm=="sampled": g=gammatone.sampled(f0,bw,phase=random.uniform(0,1),eta=args[3])
        else: g=gammatone[nm](f0,bw)
        assert isinstance(g,CascadeFilter)
        w1=max(w1,abs(abs(g.freq_response(f0))-1))
        for sec in g:
            d=sec.denominator; a0=d[0]; a1=d[1]/a0 if len(d)>1 else 0; a2=d[2]/a0 if len(d)>2 else 0
            if not (abs(a2)<1 and abs(a1)<1+a2): bad+=1
    R=math.exp(-bw/2)
    for nm in ["poles_exp","z_exp","freq_poles_exp","freq_z_exp"]:
        f=resonator[nm](f0,bw)
        if nm=="freq_poles_exp":
            c=math.cos(f0)*(1+R*R)/(2*R)
            if abs(c)>1-1e-6: continue
            wr=math.acos(c)
        elif nm=="freq_z_exp":
            c=math.cos(f0)*2*R/(1+R*R); wr=math.acos(c)
        else: wr=f0
        w2=max(w2,abs(abs(f.freq_response(wr))-1))
        w3=max(w3,abs(f.denominator[2]/f.denominator[0]-math.exp(-bw)))
print("gammatone gain err",w1,"unstable sections",bad,"resonator gain err",w2,"a2 err",w3)
# stream-valued params
cs=[.2,1.0,2.5,3.0]
for sd in (lowpass,highpass):
    for st_ in ["pole","z","pole_exp","z_exp"]:
        f=sd[st_](Stream(cs)); worst=0
        num={k:(list(v) if isinstance(v,Stream) else v) for k,v in f.numdict.items()}
        den={k:(list(v) if isinstance(v,Stream) else v) for k,v in f.dendict.items()}
        for i,c in enumerate(cs):
            g=sd[st_](c)
            for k,v in g.numdict.items():
                vv=num[k][i] if isinstance(num[k],list) else num[k]; worst=max(worst,abs(vv-v))
            for k,v in g.dendict.items():
                vv=den[k][i] if isinstance(den[k],list) else den[k]; worst=max(worst,abs(vv-v))
        print(sd.__name__,st_,"stream-vs-const coeff diff",worst)
