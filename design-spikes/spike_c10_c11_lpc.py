import warnings
from audiolazy import *
from xfrac import Q
from fractions import Fraction as F
warnings.simplefilter("ignore")
from hypothesis import given, settings, strategies as st, seed
qv=st.fractions(min_value=-3,max_value=3,max_denominator=4).map(Q)
cnt=[0,0,0]
@seed(8)
@settings(max_examples=150, database=None, deadline=None)
@given(st.lists(qv,min_size=3,max_size=8), st.data())
def t(blk, data):
    cnt[0]+=1
    p=data.draw(st.integers(1,len(blk)-1))
    try: f=lpc.kcovar(blk,p)
    except (ValueError, ZeroDivisionError): cnt[1]+=1; return
    a=f.numerator; a=a+[0]*(p+1-len(a))
    phi=[[sum(blk[n-i]*blk[n-j] for n in range(p,len(blk))) for i in range(p+1)] for j in range(p+1)]
    assert a[0]==1
    for i in range(1,p+1): assert sum(a[j]*phi[i][j] for j in range(p+1))==0, (blk,p,i)
    err=sum(sum(a[j]*blk[n-j] for j in range(p+1))**2 for n in range(p,len(blk)))
    assert f.error==err, (blk,p,f.error,err)
    # kautocor
    try: g=lpc.kautocor(blk,p)
    except ZeroDivisionError: return
    b=g.numerator; b=b+[0]*(p+1-len(b)); r=acorr(blk,p)
    for i in range(1,p+1): assert sum(b[j]*r[abs(i-j)] for j in range(p+1))==0
    assert g.error==sum(b[j]*r[j] for j in range(p+1))
    ext=list(blk)+[0]*p
    e=[sum(b[j]*(ext[n-j] if n-j>=0 else 0) for j in range(p+1)) for n in range(len(ext))]
    assert g.error==sum(v*v for v in e)
try: t()
except BaseException as e: print("FAIL", type(e).__name__, str(e)[:500])
print(cnt)
# C11 roots
kq=st.fractions(min_value=F(-9,10),max_value=F(9,10),max_denominator=10).map(Q)
@seed(9)
@settings(max_examples=150, database=None, deadline=None)
@given(st.lists(kq,min_size=1,max_size=5).filter(lambda k:k[-1]!=0))
def t2(ks):
    cnt[2]+=1
    A=[Q(1)]
    for m,k in enumerate(ks,1):
        A=[ (A[i] if i<len(A) else 0) + k*(A[m-i] if 0<=m-i<len(A) else 0) for i in range(m+1)]
    f=ZFilter(A)
    got=list(parcor(f))
    assert got[::-1]==ks, (ks,got)
try: t2()
except BaseException as e: print("FAIL2", type(e).__name__, str(e)[:500])
print(cnt)
for den,exp in [([1,Q(-1,2)],True),([1,-1],False),([1,Q(-6,5),1],False),([1,Q(-6,5),Q(1)],False),([1,-2],False),([1,Q(-1),Q(1,2)],True)]:
    print(den, parcor_stable(1/ZFilter(den)), exp)
