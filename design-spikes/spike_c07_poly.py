import warnings
from audiolazy import *
from fractions import Fraction as F
from xfrac import Q
warnings.simplefilter("ignore")
from hypothesis import given, settings, strategies as st, seed
fr=st.fractions(min_value=-4,max_value=4,max_denominator=6).map(Q)
poly=st.dictionaries(st.integers(-4,6), fr, max_size=5).map(lambda d: Poly(dict(d)))
nz=fr.filter(lambda v:v!=0)
cnt=[0]
def nozero(p): return all(c!=0 for _,c in p.terms())
def ev(p,v): return sum((c*v**k for k,c in p.terms()), F(0))
@seed(21)
@settings(max_examples=1500, database=None, deadline=None)
@given(poly,poly,poly,nz,st.integers(0,4))
def t(p,q,r,v,n):
    cnt[0]+=1
    assert p+q==q+p and p*q==q*p and (p+q)+r==p+(q+r) and (p*q)*r==p*(q*r) and p*(q+r)==p*q+p*r
    assert len(p-p)==0
    for res in [p+q,p*q,p-q,p**n,-p,p*(q+r)]: assert nozero(res)
    pw=Poly(1)
    for _ in range(n): pw=pw*p
    assert p**n==pw,(p,n)
    assert (p*q)(v)==p(v)*q(v) and (p+q)(v)==p(v)+q(v)
    assert p(v)==ev(p,v)
    if len(p): assert p(v,horner=True)==p(v,horner=False)==ev(p,v),(p,v)
    assert (p+q).diff()==p.diff()+q.diff() and (p*q).diff()==p.diff()*q+p*q.diff()
    if -1 not in dict(p.terms()): assert p.integrate().diff()==p
    if (p==q): assert hash(p)==hash(q) and not (p!=q)
    assert (p==q)!=(p!=q)
    p2=Poly({k:(float(c) if c.denominator in(1,2,4) else c) for k,c in p.terms()})
    assert p2==p and hash(Poly(p2))==hash(Poly(p))
    # composition where defined
    if all(k>=0 for k,_ in p.terms()):
        assert p(q)(v)==p(q(v)),(p,q,v)
    mono=Poly({2:F(3,2)})
    assert p(mono)(v)==p(mono(v))
import traceback
try: t()
except BaseException as e: traceback.print_exc()
print(cnt)
pts=st.lists(st.tuples(fr,fr),min_size=2,max_size=5,unique_by=lambda t:t[0])
@seed(22)
@settings(max_examples=500, database=None, deadline=None)
@given(pts, fr)
def t2(pairs,tv):
    cnt[0]+=1
    lp=lagrange.poly(pairs); lf=lagrange.func(pairs)
    for xk,yk in pairs: assert lp(xk)==yk and lf(xk)==yk
    assert lp(tv)==lf(tv)
try: t2()
except BaseException as e: print("FAIL2", type(e).__name__, str(e)[:800])
print(cnt)
