import warnings, math, itertools
from audiolazy import *
from audiolazy import lazy_itertools as lit
warnings.simplefilter("ignore")
from hypothesis import given, settings, strategies as st, seed
inf=float("inf")
class M:  # prefix + cycle model
    def __init__(s, prefix, cycle=None): s.p=list(prefix); s.c=list(cycle) if cycle else None
    def copy(s): return M(s.p, s.c)
    def finite(s): return s.c is None
    def first(s, n):  # first n items (n int>=0)
        out=list(s.p[:n])
        if s.c is not None:
            while len(out)<n: out.append(s.c[(len(out)-len(s.p))%len(s.c)])
        return out
    def drop(s, n):
        if n<=len(s.p): s.p=s.p[n:]
        else:
            if s.c is None: s.p=[]
            else:
                k=(n-len(s.p))%len(s.c); s.p=[]; s.c=s.c[k:]+s.c[:k]
    def remaining(s): return len(s.p) if s.c is None else inf
def rint_doc(x):  # half away from zero
    return int(math.floor(abs(x)+.5))*(1 if x>=0 else -1)
def take_count(n):
    if isinstance(n,float):
        if n!=n or n<=0: return 0
        if n==inf: return inf
        return rint_doc(n)
    return max(n,0)
FUNCS={"neg":lambda v:-v, "dbl":lambda v:v*2}
PREDS={"even":lambda v:v%2==0, "pos":lambda v:v>0}
ns=st.one_of(st.none(), st.integers(-2,9), st.sampled_from([2.5,3.4,0.4,-1.5,inf,-inf,float("nan"),1.5]))
step=st.one_of(
  st.tuples(st.sampled_from(["take","peek"]), st.integers(0,5), ns),
  st.tuples(st.sampled_from(["skip","limit"]), st.integers(0,5), st.one_of(st.integers(-2,9), st.sampled_from([2.3,3.7,-0.4]))),
  st.tuples(st.just("append"), st.integers(0,5), st.lists(st.integers(-5,5),max_size=3)),
  st.tuples(st.just("map"), st.integers(0,5), st.sampled_from(sorted(FUNCS))),
  st.tuples(st.just("filter"), st.integers(0,5), st.sampled_from(sorted(PREDS))),
  st.tuples(st.just("copy"), st.integers(0,5), st.none()),
  st.tuples(st.just("tee"), st.integers(0,5), st.integers(1,3)),
  st.tuples(st.just("next"), st.integers(0,5), st.integers(1,3)),
  st.tuples(st.just("hub"), st.integers(0,5), st.integers(1,3)),
)
init=st.lists(st.one_of(st.tuples(st.just("list"), st.lists(st.integers(-5,5),max_size=7)),
                        st.tuples(st.just("gen"), st.lists(st.integers(-5,5),max_size=7)),
                        st.tuples(st.just("per"), st.lists(st.integers(-5,5),min_size=2,max_size=4))), min_size=1,max_size=3)
cnt=[0]; short=[0]
@seed(13)
@settings(max_examples=3000, database=None, deadline=None)
@given(init, st.lists(step,max_size=12))
def t(inits, steps):
    cnt[0]+=1
    pool=[]
    for kind,data in inits:
        if kind=="list": pool.append((Stream(list(data)), M(data)))
        elif kind=="gen": pool.append((Stream(v for v in list(data)), M(data)))
        else: pool.append((Stream(*data), M([],data)))
    for op,i,arg in steps:
        if not pool: break
        idx=i%len(pool); s,m=pool[idx]
        if op in("take","peek"):
            if arg is None:
                exp=m.first(1)
                try: got=[getattr(s,op)()]
                except StopIteration: got=[]
                assert got==exp,(op,arg,got,exp)
                if op=="take": m.drop(1)
            else:
                c=take_count(arg)
                if c==inf and not m.finite(): continue
                if c!=inf and c>m.remaining(): short[0]+=1; continue   # known PEP479 region on unchanged tree
                exp=m.first(len(m.p) if c==inf else c)
                got=getattr(s,op)(arg)
                assert got==exp,(op,arg,got,exp)
                if op=="take": m.drop(len(exp))
        elif op=="skip":
            n=max(int(round(arg)),0)
            if n>m.remaining(): continue # known region
            s2=s.skip(arg); assert s2 is s; m.drop(n)
        elif op=="limit":
            n=max(int(round(arg)),0)
            if n>m.remaining(): continue
            s.limit(arg); m.p=m.first(n); m.c=None
        elif op=="append":
            s.append(list(arg))
            if m.finite(): m.p=m.p+list(arg)
        elif op=="map":
            s.map(FUNCS[arg]); m.p=[FUNCS[arg](v) for v in m.p]; m.c=[FUNCS[arg](v) for v in m.c] if m.c else m.c
        elif op=="filter":
            if m.c is not None and not any(PREDS[arg](v) for v in m.c): continue
            s.filter(PREDS[arg]); m.p=[v for v in m.p if PREDS[arg](v)]
            if m.c is not None: m.c=[v for v in m.c if PREDS[arg](v)]
        elif op=="copy":
            pool.append((s.copy(), m.copy()))
        elif op=="tee":
            outs=lit.tee(s,arg); pool.pop(idx)
            for o in outs: pool.append((o,m.copy()))
        elif op=="next":
            it=iter(s)
            for _ in range(arg):
                exp=m.first(1)
                try: got=[next(it)]
                except StopIteration: got=[]
                assert got==exp; m.drop(1)
        elif op=="hub":
            h=thub(s,arg); pool.pop(idx)
            for _ in range(arg): pool.append((Stream(h), m.copy()))
            try: Stream(h); assert False,"no IndexError"
            except IndexError: pass
        # invariant: every live stream's next items
        for s_,m_ in pool:
            k=min(4, m_.remaining())
            assert s_.peek(k)==m_.first(k), ("inv",op,arg)
try: t()
except BaseException as e: print("FAIL", type(e).__name__, str(e)[:800])
print(cnt, short)
