import sys, types, warnings, struct
from audiolazy import lazy_io
import sched  # design-spikes/sched.py
warnings.simplefilter("ignore")
class FS:
    def __init__(s, pa): s._stream=s; s.pa=pa; s.data=[]; s.closed=False; s.log=[]; pa._streams.add(s)
    def stop_stream(s): sched.S.point("stop_stream")
    def start_stream(s): sched.S.point("start_stream")
    def close(s): s.closed=True; s.pa._streams.discard(s); sched.S.point("close_stream")
class PA:
    def __init__(s): s._streams=set(); s.term=0; s.opened=[]
    def open(s, **kw): f=FS(s); s.opened.append(f); return f
    def terminate(s): s.term+=1
pm=types.ModuleType("pyaudio"); pm.PyAudio=PA; sys.modules["pyaudio"]=pm
po=types.ModuleType("_portaudio")
def write_stream(st, chunk, n, flag): st.data.append(chunk); sched.S.point("write")
po.write_stream=write_stream; sys.modules["_portaudio"]=po
sched.install(lazy_io)
def run(case):
    S=sched.S=sched.Sched(case["schedule"]); S.register_main()
    out={}
    try:
        io=lazy_io.AudioIO(wait=case["wait"])
        ths=[io.play(list(a), chunk_size=case["chunk"]) for a in case["audios"]]
        for op,i in case["ctl"]:
            getattr(ths[i%len(ths)], op)()
        io.close()
        out["closed"]=True
        out["term"]=io._pa.term
        out["alive"]=[not t._rec.done for t in ths]
        out["streams_closed"]=[f.closed for f in io._pa.opened]
        out["data"]=[b"".join(f.data) for f in io._pa.opened]
        try: io.play([0.]); out["play_after"]="no error"
        except RuntimeError: out["play_after"]="raises"
    except sched.Abort:
        out["abort"]=S.why; out["deadlock"]=S.deadlock
    finally:
        S.aborting or None
    # wait real threads
    import threading
    for t in threading.enumerate():
        if t is not threading.current_thread() and isinstance(t, lazy_io.AudioThread): t_join=threading.Thread.join; t_join(t, 2)
    out["steps"]=S.steps
    return out
from hypothesis import given, settings, strategies as st, seed
import time
res=[]
@seed(1)
@settings(max_examples=300, database=None, deadline=None)
@given(st.fixed_dictionaries(dict(
    schedule=st.lists(st.integers(0,3), max_size=30),
    wait=st.booleans(), chunk=st.integers(1,3),
    audios=st.lists(st.lists(st.sampled_from([0.5,-0.25,1.0]), max_size=7), min_size=1, max_size=3),
    ctl=st.lists(st.tuples(st.sampled_from(["pause","play","stop"]), st.integers(0,2)), max_size=4))))
def t(case):
    o=run(case); res.append((case,o))
    assert "abort" not in o, (case, o)
t0=time.time()
try: t()
except AssertionError as e: print("FAIL", str(e)[:600])
print(len(res), "cases", time.time()-t0, "s")
