from fractions import Fraction
import operator, math
def _c(o):
    if isinstance(o, float):
        return Fraction(o) if math.isfinite(o) else None
    if isinstance(o, (int, Fraction)): return Fraction(o)
    return None
class Q(Fraction):
    __slots__=()
    def __new__(cls, n=0, d=None):
        if isinstance(n, float): n = Fraction(n)
        self = super().__new__(cls, n, d)
        return self
def _bin(name):
    op = getattr(operator, name)
    def fwd(a, b):
        cb = _c(b)
        if cb is None: return getattr(Fraction, "__%s__"%name)(a, b)
        r = op(Fraction(a), cb)
        return Q(r) if isinstance(r, Fraction) else r
    def rev(a, b):
        cb = _c(b)
        if cb is None: return getattr(Fraction, "__r%s__"%name)(a, b)
        r = op(cb, Fraction(a))
        return Q(r) if isinstance(r, Fraction) else r
    return fwd, rev
for n in ["add","sub","mul","truediv","mod"]:
    f, r = _bin(n); setattr(Q, "__%s__"%n, f); setattr(Q, "__r%s__"%n, r)
def _pow(a,b):
    if isinstance(b,int): return Q(Fraction.__pow__(Fraction(a),b))
    return Fraction.__pow__(a,b)
Q.__pow__=_pow
Q.__neg__=lambda a: Q(Fraction.__neg__(a)); Q.__pos__=lambda a:a; Q.__abs__=lambda a: Q(Fraction.__abs__(a))
Q.__repr__=lambda a: "Q(%s)"%Fraction.__str__(a)
Q.__hash__=Fraction.__hash__
