import sys, types, threading as _t, warnings
class Abort(BaseException): pass
class Deadlock(Exception): pass
class TRec:
    def __init__(s, name): s.name=name; s.sem=_t.Semaphore(0); s.done=False; s.blocked=None; s.real=None
class Sched:
    def __init__(s, choices, max_steps=5000):
        s.choices=list(choices); s.ci=0; s.threads=[]; s.cur=None; s.steps=0; s.max_steps=max_steps
        s.aborting=False; s.trace=[]; s.deadlock=None; s.local=_t.local()
    def me(s): return s.local.rec
    def register_main(s):
        r=TRec("main"); s.threads.append(r); s.local.rec=r; s.cur=r; return r
    def enabled(s): return [t for t in s.threads if not t.done and (t.blocked is None or t.blocked())]
    def pick(s, en, me):
        if s.ci < len(s.choices):
            c=s.choices[s.ci]; s.ci+=1; return en[c % len(en)]
        return me if me in en else en[0]
    def point(s, what, blocked=None):
        me=s.me()
        if s.aborting: raise Abort()
        s.steps+=1
        if s.steps>s.max_steps: s.abort("steps"); raise Abort()
        me.blocked=blocked
        en=s.enabled()
        if not en:
            s.deadlock=[(t.name,t.done) for t in s.threads]; s.abort("deadlock"); raise Abort()
        nxt=s.pick(en, me)
        s.trace.append((me.name, what, nxt.name))
        if nxt is not me:
            s.cur=nxt; nxt.sem.release(); me.sem.acquire()
            if s.aborting: raise Abort()
        me.blocked=None
    def abort(s, why):
        s.aborting=True; s.why=why
        for t in s.threads:
            if not t.done: t.sem.release()
    def finish(s, me):
        me.done=True
        if s.aborting: return
        en=s.enabled()
        if not en:
            if any(not t.done for t in s.threads):
                s.deadlock=[(t.name,t.done) for t in s.threads]; s.abort("deadlock")
            return
        nxt=s.pick(en, None); s.cur=nxt; nxt.sem.release()
S=None
class Lock:
    def __init__(s): s.owner=None
    def acquire(s, blocking=True, timeout=-1):
        S.point("lock.acquire", lambda: s.owner is None); s.owner=S.me(); return True
    def release(s): s.owner=None; S.point("lock.release")
    __enter__=acquire
    def __exit__(s,*a): s.release()
class Event:
    def __init__(s): s.flag=False
    def set(s): s.flag=True; S.point("ev.set")
    def clear(s): s.flag=False; S.point("ev.clear")
    def is_set(s): S.point("ev.is_set"); return s.flag
    def wait(s, timeout=None): S.point("ev.wait", lambda: s.flag); return True
fake_threading=types.ModuleType("fake_threading")
fake_threading.Lock=Lock; fake_threading.Event=Event; fake_threading.ThreadError=RuntimeError; fake_threading.Thread=_t.Thread
def install(lazy_io):
    lazy_io.threading=fake_threading
    AT=lazy_io.AudioThread
    orig_run=AT.__dict__.get("_orig_run") or AT.run
    AT._orig_run=orig_run
    def start(self):
        rec=TRec("player%d"%len(S.threads)); self._rec=rec; S.threads.append(rec)
        _t.Thread.start(self); S.point("thread.start")
    def run(self):
        rec=self._rec; S.local.rec=rec; rec.sem.acquire()
        try:
            if not S.aborting: orig_run(self)
        except Abort: pass
        finally: S.finish(rec)
    def join(self, timeout=None):
        rec=self._rec; S.point("join", lambda: rec.done)
    AT.start=start; AT.run=run; AT.join=join
