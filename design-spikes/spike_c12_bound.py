import warnings, math, cmath, random
from audiolazy import *
warnings.simplefilter("ignore")
random.seed(3)
worst=0
for _ in range(20000):
    nb=random.randint(1,7); na=random.randint(1,7)
    b=[random.choice([0,1,-1,random.uniform(-8,8),random.randint(-8,8)]) for _ in range(nb)]
    # denominator from sections with radius <=.9 or >=1.1
    a=[1.0]
    for _ in range((na-1)//2):
        r=random.choice([random.uniform(0,.9),random.uniform(1.1,2)]); th=random.uniform(0,math.pi)
        sec=[1,-2*r*math.cos(th),r*r]
        a=[sum(a[i]*sec[k-i] for i in range(len(a)) if 0<=k-i<3) for k in range(len(a)+2)]
    g=random.choice([1,-1,random.uniform(.5,3)]); a=[g*v for v in a]
    if not any(b): continue
    w=random.choice([0.0, math.pi, random.uniform(0,2*math.pi)])
    f=ZFilter(b,a)
    H=f.freq_response(w)
    num=complex(math.fsum(c*math.cos(k*w) for k,c in enumerate(b)), -math.fsum(c*math.sin(k*w) for k,c in enumerate(b)))
    den=complex(math.fsum(c*math.cos(k*w) for k,c in enumerate(a)), -math.fsum(c*math.sin(k*w) for k,c in enumerate(a)))
    ref=num/den
    sb=sum(map(abs,b)); sa=sum(map(abs,a)); order=max(len(a),len(b))
    eps=64*(order+2)*2**-53*(sb/abs(den)+sb*sa/abs(den)**2)
    ratio=abs(H-ref)/eps
    worst=max(worst,ratio)
print("worst err/eps", worst)
