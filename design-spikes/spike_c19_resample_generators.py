import warnings, math, traceback
from audiolazy import *
from fractions import Fraction as F
from xfrac import Q
warnings.simplefilter("ignore")
from hypothesis import given, settings, strategies as st, seed
qv=st.fractions(min_value=-4,max_value=4,max_denominator=5).map(Q)
cnt=[0,0]
def lag(pts,t):
    tot=F(0)
    for j,(xj,yj) in enumerate(pts):
        term=F(yj)
        for k,(xk,_) in enumerate(pts):
            if k!=j: term*=F(t-xk)/F(xj-xk)
        tot+=term
    return tot
def rint_doc(x): return int(math.floor(abs(x)+F(1,2)))*(1 if x>=0 else -1)
def resample_ref(x,step,p,zero):
    thr=F(p+1,2); out=[]; m=0; N=len(x)
    while True:
        t=m*step; a=math.ceil(t-thr)
        if a+p>N-1: break
        pts=[(i,(x[a+i] if a+i>=0 else zero)) for i in range(p+1)]
        out.append(lag(pts,t-a)); m+=1
        if m>200: break
    return out
@seed(41)
@settings(max_examples=1200, database=None, deadline=None)
@given(st.lists(qv,min_size=3,max_size=12), st.fractions(min_value=F(1,4),max_value=3,max_denominator=4).map(Q), st.integers(1,4))
def t(x,step,p):
    cnt[0]+=1
    if len(x)<rint_doc(F(p+1,2)): return
    exp=resample_ref(x,step,p,Q(0))
    r=resample(x, old=step, new=Q(1), order=p, zero=Q(0))
    got=r.take(len(exp)) if exp else []
    assert got==exp,(x,step,p,got,exp)
    # next one must end the stream (RuntimeError on the unchanged tree = defect #2)
    try: nxt=r.take(); ended=False
    except (StopIteration, RuntimeError): ended=True
    assert ended,(x,step,p,"extra",nxt)
    for m_,v in enumerate(got):
        tpos=m_*step
        if tpos.denominator==1: assert v==x[int(tpos)]
try: t()
except BaseException as e: traceback.print_exc()
print(cnt)
# line, impulse, ones, zeros, adsr
dur=st.one_of(st.integers(0,9), st.fractions(min_value=0,max_value=9,max_denominator=3))
@seed(42)
@settings(max_examples=1500, database=None, deadline=None)
@given(dur, qv, qv, st.booleans(), st.tuples(st.integers(1,4),st.integers(1,4),qv,st.integers(1,4)))
def t2(d,b,e,fin,adsr_p):
    cnt[1]+=1
    if F(d)-int(fin)!=0:
        n=int(F(d)+F(1,2)); dd=Q(d)
        got=list(line(dd,b,e,finish=fin))
        assert got==[b+i*(e-b)/(F(d)-int(fin)) for i in range(n)],(d,b,e,fin,got)
    n=int(F(d)+F(1,2))
    assert list(ones(Q(d)))==[1.0]*n and list(zeros(Q(d)))==[0.0]*n
    imp=list(impulse(Q(d),one=Q(1),zero=Q(0)))
    assert imp==([Q(1)]+[Q(0)]*(n-1) if n>=1 else []),(d,imp)
    a,dc,s,r=adsr_p; total=a+dc+r+3
    env=list(adsr(total,a,dc,s,r))
    exp=[F(i,a) for i in range(a)]+[1+i*(s-1)/F(dc) for i in range(dc)]+[s]*3+[s-i*s/F(r) for i in range(r)]
    assert len(env)==total and all(abs(F(u)-v)<=F(1,10**12) for u,v in zip(env,exp)),(adsr_p,env,exp)
try: t2()
except BaseException as e: traceback.print_exc()
print(cnt)
