import warnings
from audiolazy import *
warnings.simplefilter("ignore")
from math import pi, sqrt, cos, sin
names=["hann","hanning","hamming","rect","bartlett","triangular","triangle","blackman","cos"]
worst_sym=0; worst_rng=0
for nm in names:
    for size in range(1,200):
        w=window[nm](size); ws=wsymm[nm](size+1)
        assert len(w)==size, (nm,size)
        assert w==ws[:size], (nm,size)
        s=wsymm[nm](size)
        worst_sym=max(worst_sym, max(abs(a-b) for a,b in zip(s,s[::-1])))
        worst_rng=max(worst_rng, max(max(-min(w),0), max(max(w)-1,0)))
    assert wsymm[nm](1)==[1.0]
print("sym",worst_sym,"range",worst_rng)
print(window.symm is wsymm, window.periodic is window, wsymm.symm is wsymm, wsymm.periodic is window)
print(all(window[n].symm is wsymm[n] and window[n].periodic is window[n] and wsymm[n].symm is wsymm[n] and wsymm[n].periodic is window[n] for n in names))
# COLA
for nm,divs in [("hann",[2,4]),("hamming",[2,4]),("bartlett",[2]),("rect",[2]),("blackman",[4])]:
    worst=0
    for size in range(4,129,4):
        for d in divs:
            hop=size//d; w=window[nm](size)
            sums=[sum(w[i+k*hop] for k in range(d)) for i in range(hop)]
            worst=max(worst,max(sums)-min(sums))
    print(nm,"cola dev",worst)
# lowpass/highpass
def chk(filt, kind, c):
    H=lambda w: abs(filt.freq_response(w))
    edge = 0 if kind=="low" else pi
    g=[H(i*pi/512) for i in range(513)]
    mono = all((a>=b-1e-12) if kind=="low" else (a<=b+1e-12) for a,b in zip(g,g[1:]))
    den=filt.denominator; pole = -den[1]/den[0] if len(den)>1 else 0
    return H(edge)-1, H(c)**2-.5, mono, abs(pole)
import random
random.seed(1)
for st in ["pole","z","pole_exp","z_exp"]:
    for kind,sd in [("low",lowpass),("high",highpass)]:
        w1=w2=0; mono=True; mp=0
        for c in [1e-3, pi-1e-3, pi/2, pi/2+1e-9,pi/2-1e-7]+[random.uniform(1e-3,pi-1e-3) for _ in range(300)]:
            a,b,m,p=chk(sd[st](c),kind,c); w1=max(w1,abs(a)); w2=max(w2,abs(b)); mono&=m; mp=max(mp,p)
        print(st,kind,"edge gain err %.2e half-power err %.2e mono %s maxpole %.6f"%(w1,w2,mono,mp))
