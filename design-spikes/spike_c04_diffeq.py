import warnings, math, traceback
from audiolazy import *
from fractions import Fraction as F
from xfrac import Q
warnings.simplefilter("ignore")
from hypothesis import given, settings, strategies as st, seed
qv=st.fractions(min_value=-4,max_value=4,max_denominator=7).map(Q)
coef=st.one_of(st.sampled_from([0,1,-1,1.0,-1.0]), st.integers(-4,4), st.floats(-4,4,allow_nan=False).filter(lambda v: v==0 or abs(v)>1e-3), st.sampled_from([F(1,2),F(-3,4),F(5,8)]))
a0=st.one_of(st.sampled_from([1,-1,2,-3,0.5,-1.0,1.0,0.1,F(3,1)]))
cnt=[0]
def ref(b,a,x,zero,mem):
    b=[F(c) for c in b]; a=[F(c) for c in a]; y=[]
    def xx(n): return x[n] if n>=0 else zero
    def yy(n): return y[n] if n>=0 else mem[-n-1]
    for n in range(len(x)):
        acc=sum(b[k]*xx(n-k) for k in range(len(b)))-sum(a[k]*yy(n-k) for k in range(1,len(a)))
        y.append(acc/a[0])
    return y
@seed(31)
@settings(max_examples=2000, database=None, deadline=None)
@given(st.lists(coef,min_size=1,max_size=5), a0, st.lists(coef,max_size=4), st.lists(qv,max_size=10), st.sampled_from([0,0.0,Q(2),Q(1,3),Q(0)]), st.sampled_from(["none","list","gen","call","long"]), st.lists(qv,min_size=6,max_size=6), st.sampled_from(["list","dict","zexpr"]))
def t(b,a0_,arest,x,zero,mk,memv,route):
    cnt[0]+=1
    a=[a0_]+arest
    # effective order after zero-compaction
    la=max([k for k,c in enumerate(a) if c!=0])+1; a=a[:la]
    nb=[k for k,c in enumerate(b) if c!=0]
    lm=la-1
    if route=="list": f=ZFilter(list(b),list(a))
    elif route=="dict": f=ZFilter({k:c for k,c in enumerate(b)},{k:c for k,c in enumerate(a)})
    else:
        num=sum((c*z**-k for k,c in enumerate(b)), ZFilter(0)); den=sum((c*z**-k for k,c in enumerate(a)), ZFilter(0)); f=num/den
    mem={"none":None,"list":memv[:lm],"gen":(v for v in memv[:lm]),"call":(lambda n: memv[:n]),"long":memv}[mk]
    memeff=[zero]*lm if mk=="none" else memv[:lm]
    got=list(f(list(x),memory=mem,zero=zero))
    exp=ref(b,a,x,zero,memeff)
    if not nb and la==1:
        if zero==Q(1,3): return
        assert got==[zero]*len(x) or all(g==zero for g in got) and len(got)==len(x),(b,a,got)
    else:
        assert got==exp,(b,a,x,zero,mk,route,got,exp)
try: t()
except BaseException as e: traceback.print_exc()
print(cnt)
