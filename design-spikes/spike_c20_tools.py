import warnings, math
from audiolazy import *
from audiolazy import lazy_itertools as lit
from xfrac import Q
from fractions import Fraction as F
warnings.simplefilter("ignore")
from hypothesis import given, settings, strategies as st, seed
qv=st.fractions(min_value=-4,max_value=4,max_denominator=5).map(Q)
cnt=[0]
def zc_ref(x,h,fs):
    out=[]; sign=0 if fs==0 else (-1 if fs<0 else 1)
    for v in x:
        if sign==0:
            out.append(0)
            if v>h or v<-h: sign=-1 if v<0 else 1
        else:
            if v*sign < -h: sign=-sign; out.append(1)
            else: out.append(0)
    return out
@seed(14)
@settings(max_examples=1500, database=None, deadline=None)
@given(st.lists(qv,max_size=14), st.fractions(min_value=0,max_value=2,max_denominator=4).map(Q), st.sampled_from([-3,0,2]),
       st.integers(1,5), st.fractions(min_value=0,max_value=3,max_denominator=4).map(Q), st.fractions(min_value=F(1,4),max_value=4,max_denominator=4).map(Q))
def t(x,h,fs,size,md,stp):
    cnt[0]+=1
    assert list(zcross(x,hysteresis=h,first_sign=fs))==zc_ref(x,h,fs)
    c=F(1./size)
    exp=[c*sum(x[max(0,n-size+1):n+1]) for n in range(len(x))]
    a=list(maverage.deque(size)(x,zero=Q(0))); b=list(maverage.recursive(size)(x,zero=Q(0))); d=list(maverage.fir(size)(x,zero=Q(0)))
    assert a==b==d==exp,(size,x,a,b,d,exp)
    if x:
        u=list(unwrap(x,max_delta=md,step=stp))
        assert len(u)==len(x)
        assert all(((ui-xi)/stp).denominator==1 for ui,xi in zip(u,x))
        if all(abs(p-q)<=md for p,q in zip(x,x[1:])): assert u==x
        assert all(abs(p-q)<=max(md,stp/2) for p,q in zip(u,u[1:])),(x,md,stp,u)
    acc=[sum(x[:n+1]) for n in range(len(x))]
    assert list(lit.accumulate(x))==acc and list(lit.accumulate.z(x,zero=Q(0)))==acc
    if x: assert list(lit.accumulate.func(x))==acc
    lag=size; 
    am=list(amdf(lag,size)(x,zero=Q(0)))
    dd=[abs(x[n]-(x[n-lag] if n-lag>=0 else 0)) for n in range(len(x))]
    assert am==[c*sum(dd[max(0,n-size+1):n+1]) for n in range(len(x))]
try: t()
except BaseException as e: print("FAIL", type(e).__name__, str(e)[:800])
print(cnt)
