import warnings, math
from audiolazy import *
from xfrac import Q
from fractions import Fraction as F
warnings.simplefilter("ignore")
from hypothesis import given, settings, strategies as st, seed
qv=st.fractions(min_value=-3,max_value=3,max_denominator=5).map(Q)
cnt=[0,0]
def ola_ref(blks,size,hop,wnd,normalize):
    m=len(blks); L=m*hop+size-hop
    if wnd is None:
        w=[F(1)]*size; g=F(1/math.ceil(F(size,hop))) if normalize else F(1)
    else:
        w=list(wnd); g=F(1)
        if normalize:
            gain=max(sum(abs(w[i+j*hop]) for j in range(math.ceil(size/hop)) if i+j*hop<size) for i in range(hop))
            if gain: g=1/F(gain)
    out=[F(0)]*L
    for k,B in enumerate(blks):
        for i in range(size): out[k*hop+i]+=g*w[i]*B[i]
    return out
@seed(11)
@settings(max_examples=800, database=None, deadline=None)
@given(st.data())
def t(data):
    cnt[0]+=1
    size=data.draw(st.integers(1,6)); hop=data.draw(st.integers(1,size)); m=data.draw(st.integers(0,5))
    blks=[data.draw(st.lists(qv,min_size=size,max_size=size)) for _ in range(m)]
    wk=data.draw(st.sampled_from(["none","list","callable","gen"]))
    wv=data.draw(st.lists(qv,min_size=size,max_size=size))
    wnd={"none":None,"list":wv,"callable":(lambda n: list(wv)),"gen":(v for v in wv)}[wk]
    norm=data.draw(st.booleans()); detect=data.draw(st.booleans()) and m>0
    got=list(overlap_add.list(iter(blks), size=None if detect else size, hop=hop, wnd=wnd, normalize=norm))
    exp=ola_ref(blks,size,hop,None if wk=="none" else wv,norm)
    assert got==exp, (size,hop,m,wk,norm,detect,got,exp)
try: t()
except BaseException as e: print("FAIL", type(e).__name__, str(e)[:800])
print(cnt)
# stft wiring
@seed(12)
@settings(max_examples=300, database=None, deadline=None)
@given(st.data())
def t2(data):
    cnt[1]+=1
    hop=data.draw(st.integers(1,3)); R=data.draw(st.integers(1,3)); size=hop*R
    sig=data.draw(st.lists(qv,max_size=20))
    segs=[data.draw(st.lists(qv,min_size=hop,max_size=hop)) for _ in range(R-1)]
    last=[1-sum(s[i] for s in segs) for i in range(hop)]
    w=[v for s in segs+[last] for v in s]
    seen=[]
    def f(blk): seen.append(list(blk)); return blk
    proc=stft(f, size=size, hop=hop, transform=None, inverse_transform=None, before=None, after=None, ola=overlap_add.list, ola_wnd=w, ola_normalize=False)
    out=list(proc(sig))
    N=len(sig)
    # blocks produced
    nb=len(seen)
    for n in range(N):
        covered=[k for k in range(nb) if 0<=n-k*hop<size]
        if len(covered)==R:
            assert out[n]==sig[n], (size,hop,sig,w,n,out)
try: t2()
except BaseException as e: print("FAIL2", type(e).__name__, str(e)[:800])
print(cnt)
