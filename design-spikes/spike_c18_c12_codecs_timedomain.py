import warnings, math, cmath, traceback, wave, struct, tempfile, os, operator
from audiolazy import *
from fractions import Fraction as F
warnings.simplefilter("ignore")
from hypothesis import given, settings, strategies as st, seed
cnt=[0,0,0]
tmp=tempfile.mkdtemp()
@seed(51)
@settings(max_examples=600, database=None, deadline=None)
@given(st.sampled_from([1,2,3,4]), st.sampled_from([1,2]), st.data(), st.booleans())
def t(width,ch,data,keep):
    cnt[0]+=1
    bits=8*width
    lo,hi=(0,255) if width==1 else (-(1<<(bits-1)),(1<<(bits-1))-1)
    nfr=data.draw(st.integers(0,20))
    vals=data.draw(st.lists(st.one_of(st.sampled_from([lo,hi,0,-1 if width>1 else 128]),st.integers(lo,hi)),min_size=nfr*ch,max_size=nfr*ch))
    raw=b"".join((bytes([v]) if width==1 else v.to_bytes(width,"little",signed=True)) for v in vals)
    path=os.path.join(tmp,"t.wav")
    with wave.open(path,"wb") as w:
        w.setnchannels(ch); w.setsampwidth(width); w.setframerate(8000); w.writeframes(raw)
    ws=WavStream(path,keep=keep)
    assert (ws.rate,ws.channels,ws.bits)==(8000,ch,bits)
    got=list(ws)
    if keep: assert got==vals,(width,ch,vals,got)
    else:
        exp=[(v-128 if width==1 else v)/2**(bits-1) for v in vals]
        assert got==exp and all(-1<=g<1 for g in got)
    assert ws._file.getfp() is None
    assert not any(os.path.realpath(os.path.join("/proc/self/fd",f))==path for f in os.listdir("/proc/self/fd"))
try: t()
except BaseException as e: traceback.print_exc()
print(cnt)
@seed(52)
@settings(max_examples=600, database=None, deadline=None)
@given(st.sampled_from("bhifd"), st.sampled_from([None,"<",">"]), st.integers(1,9), st.data())
def t2(dfmt,bo,size,data):
    cnt[1]+=1
    rng={"b":(-128,127),"h":(-32768,32767),"i":(-2**31,2**31-1)}
    if dfmt in rng: el=st.integers(*rng[dfmt])
    else: el=st.sampled_from([0.0,0.5,-1.25,3.0,1e3])
    xs=data.draw(st.lists(el,max_size=30)); pad=data.draw(el)
    got=b"".join(chunks.struct(xs,size=size,dfmt=dfmt,byte_order=bo,padval=pad))
    n=-(-len(xs)//size)*size
    exp=struct.pack((bo or "")+str(n)+dfmt,*(xs+[pad]*(n-len(xs))))
    assert got==exp
try: t2()
except BaseException as e: traceback.print_exc()
print(cnt)
# C12 time-domain
@seed(53)
@settings(max_examples=600, database=None, deadline=None)
@given(st.lists(st.floats(-8,8,allow_nan=False),min_size=1,max_size=6), st.floats(0,6.28))
def t3(b,w):
    cnt[2]+=1
    f=ZFilter(list(b)) if any(b) else None
    if f is None: return
    H=f.freq_response(w)
    h=list(f(impulse(len(b)+2,one=1.,zero=0.), zero=0.))
    D=dft(h,[w],normalize=False)[0]
    sb=sum(map(abs,b)); tol=1e-12*(sb+1)
    assert abs(D-H)<=tol,(b,w,D,H)
    N=len(b)+4
    x=[cmath.exp(1j*w*n) for n in range(N)]
    y=list(f(x, zero=0.))
    for n in range(len(b)-1,N): assert abs(y[n]-H*x[n])<=tol,(b,w,n)
try: t3()
except BaseException as e: traceback.print_exc()
print(cnt)
