import warnings, gc
from audiolazy import *
from xfrac import Q
warnings.simplefilter("error", MemoryLeakWarning)
warnings.simplefilter("ignore", DeprecationWarning)
from hypothesis import given, settings, strategies as st, seed
ints=st.integers(-3,3)
def filt(b,a): return ZFilter(list(b), list(a))
fs=st.tuples(st.lists(ints,min_size=1,max_size=3), st.lists(ints,min_size=1,max_size=3)).filter(lambda t: t[1][0]!=0 and any(t[0]))
qs=st.lists(st.fractions(min_value=-3,max_value=3,max_denominator=7).map(Q), max_size=8)
def ref(b,a,x):
    from fractions import Fraction as F
    y=[]
    for n in range(len(x)):
        acc=sum(F(b[k])*x[n-k] for k in range(len(b)) if n-k>=0) - sum(F(a[k])*y[n-k] for k in range(1,len(a)) if n-k>=0)
        y.append(acc/F(a[0]))
    return y
cnt=[0]
@seed(3)
@settings(max_examples=400, database=None, deadline=None)
@given(fs, fs, qs)
def t(f, g, x):
    cnt[0]+=1
    F_=filt(*f); G_=filt(*g)
    z0=Q(0)
    assert list(F_(x, zero=z0))==ref(f[0],f[1],x)
    s=list((F_+G_)(x, zero=z0)); assert s==[p+q for p,q in zip(F_(x,zero=z0),G_(x,zero=z0))], ("add",f,g,x)
    p=list((F_*G_)(x, zero=z0)); assert p==list(F_(G_(x,zero=z0),zero=z0))==list(G_(F_(x,zero=z0),zero=z0)), ("mul",f,g,x)
    if g[0][0]!=0:
        q=list(((F_/G_)*G_)(x, zero=z0)); assert q==list(F_(x,zero=z0)), ("div",f,g,x)
    pf=ParallelFilter(F_,G_); cf=CascadeFilter(F_,G_)
    assert list(pf(x,zero=z0))==s and list(cf(x,zero=z0))==p
    S_=F_+G_; P_=F_*G_
    assert cf.numpoly*P_.denpoly==P_.numpoly*cf.denpoly, ("cascpoly",f,g)
    assert pf.numpoly*S_.denpoly==S_.numpoly*pf.denpoly, ("parpoly",f,g)
    assert (F_==G_)!=(F_!=G_), ("eqne",f,g)
try: t()
except AssertionError as e: print("FAIL", str(e)[:300])
print(cnt[0])
