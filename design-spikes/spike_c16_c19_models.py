import warnings, math
from audiolazy import *
from xfrac import Q
from fractions import Fraction as F
warnings.simplefilter("ignore")
from hypothesis import given, settings, strategies as st, seed
fr=st.fractions(min_value=0,max_value=4,max_denominator=6).map(Q)
ev=st.tuples(fr, st.lists(st.fractions(min_value=-3,max_value=3,max_denominator=5).map(Q), max_size=5))
steps=st.lists(st.one_of(st.tuples(st.just("add"), ev), st.tuples(st.just("next"), st.integers(1,4))), max_size=10)
def mixer_ref(hist, keep, zero, N):
    # returns expected outputs for the consumption pattern in hist
    events=[]; T=F(0); consumed=0; last_n=0
    outs=[]
    def out_at(n):
        v=zero
        for (ni,data) in events:
            if 0<=n-ni<len(data): v=v+data[n-ni]
        return v
    def total_len():
        return max([ni+len(d) for ni,d in events], default=0)
    alive=True
    for op,arg in hist:
        if op=="add":
            d,data=arg; T+=d
            ni=max(math.ceil(T-F(1,2)), consumed, last_n); last_n=ni
            events.append((ni,list(data)))
        else:
            for _ in range(arg):
                if not alive: outs.append("STOP"); continue
                if not keep and consumed>=total_len():
                    alive=False; outs.append("STOP"); continue
                outs.append(out_at(consumed)); consumed+=1
    return outs
cnt=[0]
@seed(5)
@settings(max_examples=1500, database=None, deadline=None)
@given(steps, st.booleans())
def t(hist, keep):
    cnt[0]+=1
    zero=Q(0)
    m=Streamix(keep=keep, zero=zero); it=iter(m); got=[]
    for op,arg in hist:
        if op=="add": m.add(arg[0], arg[1])
        else:
            for _ in range(arg):
                try: got.append(next(it))
                except StopIteration: got.append("STOP")
    exp=mixer_ref(hist, keep, zero, None)
    assert got==exp, (hist, keep, got, exp)
try: t()
except AssertionError as e: print("FAIL", str(e)[:700])
print(cnt[0])
# modulo_counter
def modref(start, modulo, step, n):
    out=[]; c=None; lastp=None
    for i in range(n):
        p=start[i] if isinstance(start,list) else start
        m=modulo[i] if isinstance(modulo,list) else modulo
        s=step[i] if isinstance(step,list) else step
        if c is None: c=p
        else: c=c+(p-lastp)
        c=c%m%m; out.append(c); c=c+s; lastp=p
    return out
q=st.fractions(min_value=-5,max_value=5,max_denominator=6).map(Q)
qm=st.fractions(min_value=F(1,3),max_value=5,max_denominator=6).map(Q)
@seed(6)
@settings(max_examples=1500, database=None, deadline=None)
@given(q, qm, q, st.tuples(st.booleans(),st.booleans(),st.booleans()), st.integers(1,25))
def t2(start, modulo, step, kinds, n):
    cnt[0]+=1
    a=[start]*n if kinds[0] else start
    b=[modulo]*n if kinds[1] else modulo
    c=[step]*n if kinds[2] else step
    got=modulo_counter(Stream(a) if kinds[0] else a, Stream(b) if kinds[1] else b, Stream(c) if kinds[2] else c).take(n)
    exp=modref(a,b,c,n)
    assert got==exp and all(0<=v<modulo for v in got), (start,modulo,step,kinds,n,got,exp)
try: t2()
except AssertionError as e: print("FAIL2", str(e)[:700])
print(cnt[0])
