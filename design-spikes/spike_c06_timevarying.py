import warnings, gc
from audiolazy import *
from xfrac import Q
from fractions import Fraction as F
from hypothesis import given, settings, strategies as st, seed
class Src:
    def __init__(self, data): self.data=list(data); self.n=0
    def __iter__(self): return self
    def __next__(self):
        if self.n>=len(self.data): raise StopIteration
        self.n+=1; return self.data[self.n-1]
qv=st.fractions(min_value=-3,max_value=3,max_denominator=5).map(Q)
qnz=qv.filter(lambda v: v!=0)
N=6
coef=st.one_of(st.integers(-2,2), st.lists(qv,min_size=N,max_size=N))
coef0=st.one_of(st.sampled_from([1,-1,2]), st.lists(qnz,min_size=N,max_size=N))
cnt=[0]; warned=[0]
def ref(b,a,x):
    y=[]
    g=lambda c,n: c[n] if isinstance(c,list) else F(c)
    for n in range(len(x)):
        acc=sum(g(b[k],n)*x[n-k] for k in range(len(b)) if n-k>=0)-sum(g(a[k],n)*y[n-k] for k in range(1,len(a)) if n-k>=0)
        y.append(acc/g(a[0],n))
    return y
@seed(7)
@settings(max_examples=600, database=None, deadline=None)
@given(st.lists(coef,min_size=1,max_size=3), st.tuples(coef0).flatmap(lambda t: st.lists(coef,max_size=2).map(lambda r:[t[0]]+r)), st.lists(qv,min_size=N,max_size=N))
def t(b,a,x):
    cnt[0]+=1
    srcs=[]
    def mk(c):
        if isinstance(c,list): s=Src(c); srcs.append(s); return Stream(s)
        return c
    num=sum((mk(c)*z**-k for k,c in enumerate(b)), ZFilter(0)) if True else None
    den=sum((mk(c)*z**-k for k,c in enumerate(a)), ZFilter(0))
    with warnings.catch_warnings(record=True) as w:
        warnings.simplefilter("always")
        filt=num/den
        out=list(filt(x, zero=Q(0)))
        del filt, num, den; gc.collect()
    leaks=[str(i.message) for i in w if issubclass(i.category, MemoryLeakWarning)]
    if leaks: warned[0]+=1
    exp=ref(b,a,x)
    assert out==exp, (b,a,x,out,exp)
    assert all(s.n==N for s in srcs), [s.n for s in srcs]
    assert not leaks, (b,a,leaks)
try: t()
except BaseException as e: print("FAIL", type(e).__name__, str(e)[:600])
print(cnt[0], warned[0])
