import warnings, itertools
from audiolazy import *
warnings.simplefilter("ignore")
# (a) blocks oracle
def oracle_blocks(xs, size, hop, pad):
    out=[]; k=0; n=len(xs)
    while k*hop+size <= n:
        out.append(xs[k*hop:k*hop+size]); k+=1
    real = n - k*hop  # real items the next block would hold
    if real > max(size-hop,0):
        out.append(xs[k*hop:]+[pad]*(size-real))
    return out
bad=0; tot=0
for n in range(0,14):
    xs=list(range(100,100+n))
    for size in range(1,7):
        for hop in range(1,9):
            got=[list(b) for b in blocks(iter(xs),size=size,hop=hop,padval=None)]
            exp=oracle_blocks(xs,size,hop,None); tot+=1
            if got!=exp:
                bad+=1
                if bad<6: print("blocks mismatch",n,size,hop,got,exp)
print("blocks", tot, bad)
# (c) MultiKeyDict model
class Model:
    def __init__(s): s.groups=[]  # list of [value, [keys]]
    def find(s,k):
        for g in s.groups:
            if k in g[1]: return g
        return None
    def set(s,key,value):
        keys = list(key) if isinstance(key,tuple) else [key]
        for g in s.groups:
            if g[0]==value: keys = g[1]+keys; break
        ded=[]
        for k in reversed(keys):
            if k not in ded: ded.append(k)
        keys=list(reversed(ded))
        for k in keys:
            g=s.find(k)
            if g: 
                g[1].remove(k)
                if not g[1]: s.groups.remove(g)
        s.groups=[g for g in s.groups if g[0]!=value]
        s.groups.append([value,keys])
    def delete(s,k):
        g=s.find(k)
        if not g: raise KeyError(k)
        g[1].remove(k)
        if not g[1]: s.groups.remove(g)
    def snapshot(s): return sorted((tuple(g[1]),g[0]) for g in s.groups)
K=["a","b","c"]; V=[1,2]
keyargs=[k for k in K]+[(a,b) for a in K for b in K]
ops=[("set",k,v) for k in keyargs for v in V]+[("del",k) for k in K]
bad=0; tot=0
for L in range(1,5):
    for seq in itertools.product(ops,repeat=L):
        d=MultiKeyDict(); m=Model(); ok=True
        for op in seq:
            e1=e2=None
            try:
                if op[0]=="set": d[op[1]]=op[2]
                else: del d[op[1]]
            except KeyError as e: e1="KeyError"
            try:
                if op[0]=="set": m.set(op[1],op[2])
                else: m.delete(op[1])
            except KeyError as e: e2="KeyError"
            snap=sorted((k,v) for k,v in dict.items(d))
            if e1!=e2 or snap!=m.snapshot() or len(d)!=len(m.groups):
                ok=False; break
            for k in K:
                g=m.find(k)
                try: val=d[k]; kk=d.key2keys(k)
                except KeyError: val=kk=None
                if (g is None)!=(val is None) or (g and (val!=g[0] or kk!=tuple(g[1]))): ok=False
            if not ok: break
        tot+=1
        if not ok:
            bad+=1
            if bad<6: print("MKD mismatch", seq, snap, m.snapshot())
    print("L",L,tot,bad)
