"""C10 - LPC / Levinson-Durbin solve their normal equations and report the true error.

Everything is evaluated in exact rational arithmetic (samples / lags are ``Q``),
so every identity of the property is an equality.  The oracles never re-run the
recursion under test: they evaluate the *defining* linear systems and energies
(direct sums over the block, Toeplitz / covariance residuals, determinants of
the leading minors by exact Gaussian elimination).
"""
from fractions import Fraction
from hypothesis import strategies as st
from vlib.core import Clause, Violation
from vlib.q import Q

from audiolazy import (levinson_durbin, lpc, acorr, lag_matrix, toeplitz,
                       ParCorError)

ID = "C10"
RULE = ("cases = (autocorrelation vector built from reflection coefficients and r0 | acorr of a "
        "Q block | free rational vector, order in default/1..len-1/>=len) for levinson_durbin, "
        "(Q block, order, strategy alias, perturbation) for lpc.kautocor / lpc.kcovar, "
        "(function, block, lag) for acorr/lag_matrix/toeplitz, (size 300..4200/9000 free or next to a "
        "multiple of a usual chunk size, function, lag, number type) for long blocks, (2..4 calls on "
        "pulse/sparse/dense blocks, all results held and judged again at the end), (in-place writes into the caller's own "
        "unrelated filters / polynomials around 1..3 calls), (one block object, 2..9 calls with the caller editing the returned "
        "tables / filters and the block in between); oracle = exact residuals of the "
        "defining normal equations, directly summed energies, exact singularity test of the "
        "leading minors; non-trivial = order >= 2 and no reflection coefficient of the exact "
        "solution is 0 (tables: length >= 2 and lag >= 1); distinct = distinct case hash")
ASSUMPTIONS = [
  "samples and lags are Q (exact rationals absorbing the float constants of the code), so 'in exact arithmetic' is literal",
  "'the recursion does not divide by zero' is decided independently: no Toeplitz leading minor T_1..T_p (covariance: none needed) is singular",
  "on vectors where some leading minor is singular only ParCorError is accepted from levinson_durbin / lpc.kautocor (the property is silent there)",
  "lpc.kcovar may raise ValueError('Unstable filter') / ZeroDivisionError; only returned filters are judged (share of returns has a floor)",
  "numpy strategies (lpc.nautocor, lpc.covar, lpc.autocor) are out of scope: numpy is not installed",
  "a returned filter / table is the result of its call for as long as the caller holds it: later calls of the same functions on other data must not change it (held_results)",
  "lag_matrix with max_lag >= len(blk) (documented ValueError) and empty blocks are outside the quantified domain",
  "the quantifier is over r / blocks / orders only: what the program did before to objects of its own (filters it built and wrote into in place - Poly allows item assignment until hashed -, tables and filters it was given and edited, the block edited between calls) cannot change an answer; each call is judged against the content of its block at the time of the call (unrelated_history, reused_block); the global z is never written to",
  "a function that changes the content of the block it analyses is reported (as levinson_durbin changing its lag list is)",
]


# ---------------------------------------------------------------- exact oracle
def fr(x):
  """Exact Fraction of an int / float / Q (bool is not a sample)."""
  if isinstance(x, bool):
    raise Violation("boolean where a number is expected: %r" % (x,))
  return Fraction(x)


def solve(M, b):
  """Exact solution of M.y = b (lists of Fractions); None when M is singular."""
  n = len(M)
  A = [list(row) + [bi] for row, bi in zip(M, b)]
  for c in range(n):
    piv = next((i for i in range(c, n) if A[i][c] != 0), None)
    if piv is None:
      return None
    A[c], A[piv] = A[piv], A[c]
    pv = A[c][c]
    A[c] = [v / pv for v in A[c]]
    for i in range(n):
      if i != c and A[i][c] != 0:
        f = A[i][c]
        A[i] = [vi - f * vc for vi, vc in zip(A[i], A[c])]
  return [A[i][n] for i in range(n)]


def first_singular_minor(r, p):
  """Smallest m in 1..p such that the m x m Toeplitz matrix of r is singular."""
  for m in range(1, p + 1):
    T = [[r[abs(i - j)] for j in range(m)] for i in range(m)]
    if solve(T, [Fraction(0)] * m) is None:
      return m
  return None


def toeplitz_reflections(r, p):
  """Last coefficient of the exact order-m solution, m = 1..p (None if singular)."""
  ks = []
  for m in range(1, p + 1):
    T = [[r[abs(i - j)] for j in range(m)] for i in range(m)]
    y = solve(T, [-r[i] for i in range(1, m + 1)])
    ks.append(None if y is None else y[-1])
  return ks


def r_from_reflections(r0, ks):
  """Inverse Levinson: the autocorrelation whose recursion has coefficients ks."""
  r = [Fraction(r0)]
  A = [Fraction(1)]
  E = Fraction(r0)
  for m, k in enumerate(ks, 1):
    k = Fraction(k)
    r.append(-k * E - sum(A[j] * r[m - j] for j in range(1, m)))
    A = [(A[i] if i < len(A) else 0) + k * (A[m - i] if 0 <= m - i < len(A) else 0)
         for i in range(m + 1)]
    E *= 1 - k * k
  return r


def acorr_ref(x, maxlag):
  n = len(x)
  return [sum((x[i] * x[i + t] for i in range(n - t)), Fraction(0)) for t in range(maxlag + 1)]


def lagm_ref(x, p):
  """phi[i][j] = sum_{n>=p} x[n-i] x[n-j]  (symmetric)."""
  return [[sum((x[n - i] * x[n - j] for n in range(p, len(x))), Fraction(0))
           for j in range(p + 1)] for i in range(p + 1)]


def coeffs_of(filt, p, what):
  """Numerator of a returned analysis filter as p+1 exact Fractions."""
  den = list(filt.denominator)
  if len(den) != 1 or den[0] != 1:
    raise Violation("%s: result is not FIR with unit denominator: den=%r" % (what, den))
  a = [fr(v) for v in filt.numerator]
  if len(a) > p + 1:
    raise Violation("%s: order %d requested, numerator has %d coefficients: %r"
                    % (what, p, len(a), a))
  a = a + [Fraction(0)] * (p + 1 - len(a))
  if a[0] != 1:
    raise Violation("%s: not monic, a[0] = %s" % (what, a[0]))
  if not hasattr(filt, "error"):
    raise Violation("%s: result has no error attribute" % what)
  return a


def show(v):
  v = list(v)
  if len(v) > 40:
    return "<%d samples: %s, ...>" % (len(v), ", ".join(str(Fraction(x)) for x in v[:6]))
  return "[" + ", ".join(str(Fraction(x)) for x in v) + "]"


# ------------------------------------------------------------------ strategies
def w(strategy, n):
  """n distinct copies of a strategy: one_of() drops repeated identical branches,
  so weights are expressed with copies."""
  return [strategy.map(lambda v: v) for _ in range(n)]


def qs(lo=-3, hi=3, den=6):
  return st.fractions(min_value=lo, max_value=hi, max_denominator=den).map(Q)


_sample = st.one_of(qs(), qs(-3, 3, 4), st.integers(-3, 3).map(Q), qs(-1, 1, 12))
_kin = st.fractions(min_value=Fraction(-9, 10), max_value=Fraction(9, 10), max_denominator=10)
_knz = _kin.filter(lambda k: k != 0)
_kmost = st.one_of(*(w(_knz, 3) + [_kin]))


def _ks(lo, hi):
  """Reflection coefficients in (-1,1), zeros allowed; one time in ten a single
  entry is replaced by +-1 (zero error from there on: later orders are singular)."""
  inside = st.lists(_kmost, min_size=lo, max_size=hi)
  unit = st.tuples(inside, st.integers(0, hi), st.sampled_from([Fraction(1), Fraction(-1)])).map(
    lambda t: t[0][:t[1] % len(t[0])] + [t[2]] + t[0][t[1] % len(t[0]) + 1:])
  return st.one_of(*(w(inside, 9) + [unit]))


# 1 - |k| for reflection coefficients next to the unit circle: the prediction error shrinks by ~2 eps per
# such step, so that two to four of them in a row push it many decades below r[0] without ever reaching 0
_EPS = [Fraction(1, 10 ** 3), Fraction(1, 10 ** 5), Fraction(1, 10 ** 7), Fraction(1, 2 ** 30),
        Fraction(1, 10 ** 9), Fraction(1, 2 ** 44)]
_knear = st.tuples(st.sampled_from(_EPS), st.sampled_from([1, -1])).map(lambda t: t[1] * (1 - t[0]))


def _ks_near():
  """0..1 ordinary coefficients, a run of 1..4 coefficients within 1e-3 .. 2**-44 of +-1
  (runs of 2..4 twice as often), then 1..3 ordinary ones: all strictly inside (-1, 1)."""
  run = st.one_of(st.lists(_knear, min_size=1, max_size=4), st.lists(_knear, min_size=2, max_size=4),
                  st.lists(_knear, min_size=3, max_size=4))
  return st.tuples(st.lists(_kmost, max_size=1), run, st.lists(_kmost, min_size=1, max_size=3)).map(
    lambda t: t[0] + t[1] + t[2])


def _order(n, zero_ext=3):
  """order for a lag vector / block of length n: default, 1..n-1, or >= n."""
  opts = [st.none(), st.integers(n, n + zero_ext)]
  if n >= 2:
    opts += w(st.integers(1, n - 1), 2) + [st.just(n - 1)]
  return st.one_of(*opts)


def strat_ld(tier):
  pmax = 6 if tier == "quick" else 8
  lmax = 8 if tier == "quick" else 10

  def from_k(ks):
    return st.fixed_dictionaries(dict(
      src=st.just("k"), ks=st.just([Q(k) for k in ks]),
      r0=st.fractions(min_value=Fraction(1, 8), max_value=6, max_denominator=8).map(Q),
      order=_order(len(ks) + 1), seq=st.sampled_from(["list", "tuple"])))

  def from_knear(ks):
    # any scale of r: the equations are homogeneous
    r0 = st.one_of(st.fractions(min_value=Fraction(1, 8), max_value=6, max_denominator=8),
                   st.sampled_from([Fraction(1, 10 ** 6), Fraction(10 ** 6), Fraction(12345, 7), Fraction(1)]))
    n = len(ks) + 1
    return st.fixed_dictionaries(dict(
      src=st.just("k"), ks=st.just([Q(k) for k in ks]), r0=r0.map(Q),
      order=st.one_of(st.none(), st.none(), st.just(n - 1), st.integers(n, n + 2), st.integers(2, n - 1)),
      seq=st.sampled_from(["list", "tuple"])))

  def from_data(blk):
    return st.fixed_dictionaries(dict(
      src=st.just("data"), blk=st.just(blk),
      maxlag=st.one_of(st.none(), st.integers(1, len(blk) + 2)),
      seq=st.sampled_from(["list", "tuple"]))).flatmap(
        lambda d: st.fixed_dictionaries(dict(
          order=_order((len(blk) if d["maxlag"] is None else d["maxlag"] + 1)))).map(
            lambda o: dict(d, **o)))

  def from_free(r):
    return st.fixed_dictionaries(dict(
      src=st.just("free"), r=st.just(r), order=_order(len(r)),
      seq=st.sampled_from(["list", "tuple"])))

  free = st.tuples(qs(-2, 2, 3).filter(lambda v: v != 0),
                   st.lists(st.one_of(qs(-2, 2, 3), st.integers(-2, 2).map(Q)), min_size=1, max_size=5)
                   ).map(lambda t: [t[0]] + t[1])
  # a selector (not a nested one_of, whose branches Hypothesis would flatten and re-weight)
  return st.sampled_from(["k", "k", "k", "data", "data", "data", "free", "knear", "knear"]).flatmap(
    lambda s: _ks(1, pmax).flatmap(from_k) if s == "k" else
    (_ks_near().flatmap(from_knear) if s == "knear" else
     (st.lists(_sample, min_size=2, max_size=lmax).flatmap(from_data) if s == "data" else
      free.flatmap(from_free))))


def run_ld(case):
  src = case["src"]
  if src == "k":
    r_in = [Q(v) for v in r_from_reflections(case["r0"], case["ks"])]
  elif src == "data":
    blk = [fr(v) for v in case["blk"]]
    ml = len(blk) - 1 if case["maxlag"] is None else case["maxlag"]
    r_in = [Q(v) for v in acorr_ref(blk, ml)]
  else:
    r_in = list(case["r"])
  order = case["order"]
  p = len(r_in) - 1 if order is None else order
  rr = [fr(v) for v in r_in[:p + 1]]
  rr = rr + [Fraction(0)] * (p + 1 - len(rr))
  if src == "k" and any(abs(k) > Fraction(99, 100) and abs(k) != 1 for k in case["ks"]):
    src_near = ["near-unit reflections"]
  else:
    src_near = []
  labels = src_near + ["src:" + src,
            "order:default" if order is None else
            ("order:zero-extended" if order >= len(r_in) else
             ("order:full" if order == len(r_in) - 1 else "order:truncating"))]
  arg = tuple(r_in) if case["seq"] == "tuple" else list(r_in)
  keep = list(arg)
  sing = first_singular_minor(rr, p)
  what = "levinson_durbin(%s%s)" % (show(r_in), "" if order is None else ", %d" % order)
  try:
    filt = levinson_durbin(arg) if order is None else levinson_durbin(arg, order)
  except ParCorError as e:
    if sing is None:
      raise Violation("%s raised ParCorError, but no leading minor T_1..T_%d is singular "
                      "(the recursion never divides by zero)" % (what, p))
    labels.append("singular minor: ParCorError")
    return {"nontrivial": False, "labels": labels}
  if list(arg) != keep:
    raise Violation("%s modified its input" % what)
  if sing is not None:
    # division by zero was due (E_{m-1} = det T_m / det T_{m-1} = 0); the property is silent
    labels.append("singular minor: returned")
    return {"nontrivial": False, "labels": labels}
  a = coeffs_of(filt, p, what)
  for i in range(1, p + 1):
    res = sum(a[j] * rr[abs(i - j)] for j in range(p + 1))
    if res != 0:
      raise Violation("%s -> a=%s: normal equation i=%d has residual %s (r used: %s)"
                      % (what, show(a), i, res, show(rr)))
  err = sum(a[j] * rr[j] for j in range(p + 1))
  if filt.error != err:
    raise Violation("%s -> a=%s: error attribute %r != sum_j a[j] r[j] = %s"
                    % (what, show(a), filt.error, err))
  ks = toeplitz_reflections(rr, p)
  if ks[-1] != a[p]:
    raise Violation("%s: last coefficient %s is not the exact solution's %s" % (what, a[p], ks[-1]))
  if src == "k" and order is None or (src == "k" and order == len(r_in) - 1):
    labels.append("k-built")
  if any(abs(k) > 1 for k in ks):
    labels.append("indefinite r")
  if err == 0:
    labels.append("zero error")
  # the denominators of the recursion are the errors E_0 = r[0], E_m = E_{m-1} (1 - k_m^2), m < p:
  # how far below r[0] does the smallest of them lie (none is 0 here)
  E, low = rr[0], Fraction(1)
  for k in ks[:-1]:
    E *= 1 - k * k
    low = min(low, abs(E / rr[0]))
  if low <= Fraction(1, 10 ** 6):
    labels.append("a denominator of the recursion is <= 1e-6 r[0], not 0")
  if low <= Fraction(1, 10 ** 12):
    labels.append("a denominator of the recursion is <= 1e-12 r[0], not 0")
  if low <= Fraction(1, 10 ** 18):
    labels.append("a denominator of the recursion is <= 1e-18 r[0], not 0")
  nt = p >= 2 and all(k != 0 for k in ks)
  return {"nontrivial": nt, "labels": labels + ["order %d" % min(p, 9)]}


_KAUTO = ["kautocor", "kacorr", "kautocorrelation", "kauto_correlation"]
_KCOV = ["kcovar", "kcov", "kcovariance"]


def _strategy(name, how):
  if how == "attr":
    return getattr(lpc, name)
  return lpc[name]


def strat_kauto(tier):
  lmax = 8 if tier == "quick" else 10
  return st.lists(_sample, min_size=3, max_size=lmax).flatmap(
    lambda blk: st.fixed_dictionaries(dict(
      blk=st.just(blk),
      order=st.one_of(*([st.none(), st.integers(len(blk), len(blk) + 2)]
                        + w(st.integers(1, len(blk) - 1), 3))),
      name=st.sampled_from(_KAUTO + ["kautocor"] * 3), how=st.sampled_from(["attr", "item"]),
      seq=st.sampled_from(["list", "tuple", "deque maxlen", "deque maxlen"]),
      pert=st.lists(qs(-2, 2, 4), min_size=1, max_size=3),
      # the equations are homogeneous: the same block at any amplitude has the same predictor;
      # very quiet and very loud blocks are legitimate inputs (no "silence" threshold)
      scale=st.sampled_from([1, 1, 1, Fraction(1, 10 ** 7), Fraction(1, 3 * 10 ** 9), 10 ** 6, Fraction(1, 2 ** 40)]),
      kw=st.booleans())))


def _seq(kind, blk):
  """The block as list / tuple / deque; "deque maxlen" is what blocks() hands out (maxlen == size)."""
  from collections import deque
  return {"tuple": tuple, "list": list, "deque": deque,
          "deque maxlen": lambda b: deque(b, maxlen=len(b))}[kind](blk)


def strat_large(tier):
  return st.fixed_dictionaries(dict(
    n=st.integers(100, 260), lag=st.integers(6, 16), seed=st.lists(st.integers(-9, 9), min_size=7, max_size=11),
    seq=st.sampled_from(["list", "tuple", "deque maxlen"]), order=st.integers(2, 4)))


def run_large(case):
  n, lag = case["n"], case["lag"]
  sd = case["seed"]
  if not any(sd):
    sd = [1] + sd[1:]
  # a deterministic pseudo-signal of small exact rationals built from the seed values
  x = [Fraction(sd[i % len(sd)] * ((i * 7 + 3) % 11 - 5) + (i % 3), 4) for i in range(n)]
  arg = _seq(case["seq"], [Q(v) for v in x])
  got = acorr(arg, lag)
  if [fr(v) for v in got] != acorr_ref(x, lag):
    raise Violation("acorr of a %d-sample block, max_lag %d, is not the table of lagged products" % (n, lag))
  got = lag_matrix(_seq(case["seq"], [Q(v) for v in x]), lag)
  exp = lagm_ref(x, lag)
  for i in range(lag + 1):
    for j in range(lag + 1):
      if fr(got[i][j]) != exp[i][j]:
        raise Violation("lag_matrix of a %d-sample block, max_lag %d: entry [%d][%d] is %r, the defining sum gives %r"
                        % (n, lag, i, j, got[i][j], exp[i][j]))
  p = case["order"]
  try:
    filt = lpc.kcovar(_seq(case["seq"], [Q(v) for v in x]), p)
  except (ValueError, ZeroDivisionError):
    return {"nontrivial": True, "labels": ["kcovar raised"]}
  a = coeffs_of(filt, p, "lpc.kcovar on a long block")
  phi = lagm_ref(x, p)
  for i in range(1, p + 1):
    if sum(a[j] * phi[i][j] for j in range(p + 1)) != 0:
      raise Violation("lpc.kcovar on a %d-sample block, order %d: covariance normal equation %d is not satisfied" % (n, p, i))
  return {"nontrivial": True, "labels": ["kcovar returned", "seq:" + case["seq"]]}


def conv_energy(a, x):
  """Energy of a convolved with the zero-extended block (all len(x)+len(a)-1 outputs)."""
  n, p = len(x), len(a) - 1
  e = [sum(a[j] * x[t - j] for j in range(p + 1) if 0 <= t - j < n) for t in range(n + p)]
  return sum(v * v for v in e), e


def run_kauto(case):
  sc = Fraction(case.get("scale", 1))
  if sc != 1:
    case = dict(case, blk=[Q(fr(v) * sc) for v in case["blk"]])
  x = [fr(v) for v in case["blk"]]
  n = len(x)
  order = case["order"]
  p = n - 1 if order is None else order
  f = _strategy(case["name"], case["how"])
  arg = _seq(case["seq"], case["blk"])
  what = "lpc.%s(%s%s)" % (case["name"], show(x), "" if order is None else ", %d" % order)
  labels = ["order:default" if order is None else ("order>=len" if order >= n else "order<len")]
  rr = acorr_ref(x, p)
  sing = first_singular_minor(rr, p)
  try:
    if order is None:
      filt = f(arg)
    elif case["kw"]:
      filt = f(arg, order=order)
    else:
      filt = f(arg, order)
  except ParCorError:
    if sing is None:
      raise Violation("%s raised ParCorError, but the autocorrelation %s has no singular "
                      "leading minor" % (what, show(rr)))
    labels.append("zero block: ParCorError")
    return {"nontrivial": False, "labels": labels}
  if sing is not None:
    labels.append("singular minor: returned")
    return {"nontrivial": False, "labels": labels}
  a = coeffs_of(filt, p, what)
  for i in range(1, p + 1):
    res = sum(a[j] * rr[abs(i - j)] for j in range(p + 1))
    if res != 0:
      raise Violation("%s -> a=%s: autocorrelation normal equation i=%d has residual %s"
                      % (what, show(a), i, res))
  energy, e = conv_energy(a, x)
  if filt.error != energy:
    raise Violation("%s -> a=%s: error attribute %r != energy %s of a * zero-extended block"
                    % (what, show(a), filt.error, energy))
  if filt.error != sum(a[j] * rr[j] for j in range(p + 1)):
    raise Violation("%s -> a=%s: error attribute %r != sum_j a[j] r[j]" % (what, show(a), filt.error))
  # minimality: the residual is orthogonal to every shifted copy of the block ...
  for i in range(1, p + 1):
    g = sum(e[t] * x[t - i] for t in range(n + p) if 0 <= t - i < n)
    if g != 0:
      raise Violation("%s -> a=%s: energy gradient w.r.t. a[%d] is %s, not a minimum"
                      % (what, show(a), i, 2 * g))
  # ... and a generated competitor (monic, same order) never does better
  b = list(a)
  for i, d in enumerate(case["pert"]):
    b[1 + i % p] += fr(d)
  eb, _ = conv_energy(b, x)
  if eb < energy:
    raise Violation("%s -> a=%s with energy %s, but the monic competitor %s has energy %s"
                    % (what, show(a), energy, show(b), eb))
  labels.append("competitor strictly worse" if eb > energy else "competitor equal")
  ks = toeplitz_reflections(rr, p)
  labels.append("alias" if case["name"] != "kautocor" else "canonical name")
  return {"nontrivial": p >= 2 and all(k != 0 for k in ks), "labels": labels + ["order %d" % min(p, 9)]}


# the covariance equations are homogeneous as well: very quiet and very loud blocks have the predictor of
# the same block at amplitude 1 (and the recursion returns for the one exactly when it returns for the other)
_scale = st.sampled_from([1, 1, 1, Fraction(1, 10 ** 7), Fraction(1, 3 * 10 ** 9), 10 ** 6, Fraction(1, 2 ** 40)])


def strat_kcovar(tier):
  lmax = 9 if tier == "quick" else 12

  def withorder(blk):
    n = len(blk)
    # the covariance recursion tends to return when len - order rows outnumber the order
    low = st.integers(1, max(1, n // 3))
    return st.fixed_dictionaries(dict(
      blk=st.just(blk),
      order=st.one_of(*(w(low, 3) + [st.integers(1, n - 1), st.none()])),
      name=st.sampled_from(_KCOV + ["kcovar"] * 3), how=st.sampled_from(["attr", "item"]),
      seq=st.sampled_from(["list", "tuple", "deque maxlen"]), kw=st.booleans(), scale=_scale))
  fixed = st.integers(6, lmax).flatmap(lambda n: st.lists(_sample, min_size=n, max_size=n))

  def highorder(blk):
    # rows outnumber the order several times: the recursion goes on to orders the short blocks never reach
    return st.fixed_dictionaries(dict(
      blk=st.just(blk), order=st.integers(5, 9), name=st.sampled_from(_KCOV + ["kcovar"] * 3),
      how=st.sampled_from(["attr", "item"]), seq=st.sampled_from(["list", "tuple", "deque maxlen"]),
      kw=st.booleans(), scale=_scale))
  mid = st.integers(24, 44).flatmap(lambda n: st.lists(_sample, min_size=n, max_size=n))
  short = st.one_of(*([st.lists(_sample, min_size=3, max_size=lmax)] + w(fixed, 2))).flatmap(withorder)
  return st.sampled_from(["short"] * 6 + ["mid"]).flatmap(lambda k: short if k == "short" else mid.flatmap(highorder))


def kcovar_prediction(phi, p):
  """What an exact greedy covariance recursion can do: first singular Gram minor
  of the lagged columns 1..m, or first m whose exact order-m solution (w.r.t. the
  same lag matrix) has |a_m| >= 1."""
  for m in range(1, p + 1):
    G = [[phi[i][j] for j in range(1, m + 1)] for i in range(1, m + 1)]
    y = solve(G, [-phi[i][0] for i in range(1, m + 1)])
    if y is None:
      return "zerodiv", m
    if abs(y[-1]) >= 1:
      return "unstable", m
  return "returns", p


def run_kcovar(case):
  sc = Fraction(case.get("scale", 1))
  if sc != 1:
    case = dict(case, blk=[Q(fr(v) * sc) for v in case["blk"]])
  x = [fr(v) for v in case["blk"]]
  n = len(x)
  order = case["order"]
  p = n - 1 if order is None else order
  f = _strategy(case["name"], case["how"])
  arg = _seq(case["seq"], case["blk"])
  what = "lpc.%s(%s%s)" % (case["name"], show(x), "" if order is None else ", %d" % order)
  phi = lagm_ref(x, p)
  pred, at = kcovar_prediction(phi, p)
  labels = ["order:default" if order is None else "order:given", "predicted:" + pred]
  try:
    if order is None:
      filt = f(arg)
    elif case["kw"]:
      filt = f(arg, order=order)
    else:
      filt = f(arg, order)
  except ValueError as e:
    labels.append("raised ValueError")
    return {"nontrivial": False, "labels": labels}
  except ZeroDivisionError as e:
    labels.append("raised ZeroDivisionError")
    return {"nontrivial": False, "labels": labels}
  labels.append("returned")
  if sc < 1:
    labels.append("quiet block (amplitude <= 1e-7), returned")
  elif sc > 1:
    labels.append("loud block (amplitude 1e6), returned")
  if p >= 6:
    labels.append("returned order>=6")
  a = coeffs_of(filt, p, what)
  for i in range(1, p + 1):
    res = sum(a[j] * phi[i][j] for j in range(p + 1))
    if res != 0:
      raise Violation("%s -> a=%s: covariance normal equation i=%d has residual %s"
                      % (what, show(a), i, res))
  energy = sum(sum(a[j] * x[t - j] for j in range(p + 1)) ** 2 for t in range(p, n))
  if filt.error != energy:
    raise Violation("%s -> a=%s: error attribute %r != residual energy over n>=p = %s"
                    % (what, show(a), filt.error, energy))
  if p >= 2:
    labels.append("returned order>=2")
  nt = p >= 2 and all(v != 0 for v in a[1:])
  return {"nontrivial": nt, "labels": labels + ["order %d" % min(p, 9)]}


# ------------------------------------------------------- long blocks (size scale)
_BASES = [128, 250, 256, 500, 512, 1000, 1024]


def strat_long(tier):
  """Blocks of several hundred to several thousand samples: "bounded length" has
  no small bound in the property, and code may switch its summation scheme at
  any size.  Sizes are drawn freely over the whole scale and next to multiples
  of the usual chunk / buffer sizes."""
  hi = 4200 if tier == "quick" else 9000
  # bands first (st.integers over a wide range favours its low end), then a size inside the band
  edges = [300, 1024, 2048, 3072, 4200] + ([6000, 9000] if hi > 4200 else [])
  bands = [(lo + (1 if i else 0), up) for i, (lo, up) in enumerate(zip(edges, edges[1:]))]
  free = st.sampled_from(bands).flatmap(lambda b: st.integers(b[0], b[1]))
  mults = sorted(set(b * m for b in _BASES for m in range(1, hi // b + 1) if 302 <= b * m <= hi - 2))
  near = st.tuples(st.sampled_from(mults), st.integers(-2, 2)).map(lambda t: t[0] + t[1])
  size = st.sampled_from(["free", "free", "near"]).flatmap(lambda k: free if k == "free" else near)
  return st.fixed_dictionaries(dict(
    n=size, fn=st.sampled_from(["acorr", "kautocor", "kautocor", "lag_matrix", "kcovar"]),
    lag=st.integers(1, 4), num=st.sampled_from(["int", "Fraction", "Q"]),
    seq=st.sampled_from(["list", "tuple", "deque maxlen"]),
    seed=st.lists(st.integers(0, 999), min_size=2, max_size=4)))


def _signal(seedvals, n):
  """n small integers in -4..4 from a linear congruential recurrence started at the seed values."""
  state = 12345
  for v in seedvals:
    state = (state * 1103515245 + v + 12345) % 2 ** 31
  out = []
  for _ in range(n):
    state = (state * 1103515245 + 12345) % 2 ** 31
    out.append((state >> 16) % 9 - 4)
  if not any(out):
    out[0] = 1
  return out


def _size_label(n):
  return "n<=1024" if n <= 1024 else ("n<=2048" if n <= 2048 else ("n<=4096" if n <= 4096 else "n>4096"))


def run_long(case):
  """acorr on every case (with the drawn number type), then the drawn function on the same block."""
  n, fn = case["n"], case["fn"]
  ints = _signal(case["seed"], n)
  num = case["num"]
  labels = ["long:" + fn, _size_label(n), "num:" + num]
  if num == "int":
    vals, x = list(ints), [Fraction(v) for v in ints]
  else:
    x = [Fraction(v, 4) for v in ints]
    vals = [Q(v) for v in x] if num == "Q" else list(x)
  lag = case["lag"]
  got = acorr(_seq(case["seq"], vals), lag)
  exp = acorr_ref(x, lag)
  if not isinstance(got, list) or len(got) != lag + 1:
    raise Violation("acorr of a %d-sample block, max_lag %d: %d entries expected, got %r" % (n, lag, lag + 1, got))
  for t in range(lag + 1):
    if fr(got[t]) != exp[t]:
      raise Violation("acorr(%s, %d)[%d] = %r, the plain sum of the %d products x[n]x[n+%d] is %s"
                      % (show(x), lag, t, got[t], n - t, t, exp[t]))
  if fn in ("kautocor", "kcovar"):
    # the recursions divide: only Q keeps them exact
    p = min(lag, 3)
    sub = dict(blk=[Q(Fraction(v, 4)) for v in ints], order=p, name=fn, how="attr", seq=case["seq"],
               kw=False, pert=[Q(Fraction(1, 2)), Q(Fraction(-1, 4))], scale=1)
    rec = run_kauto(sub) if fn == "kautocor" else run_kcovar(sub)
    return {"nontrivial": rec["nontrivial"], "labels": labels + rec["labels"]}
  if fn == "lag_matrix":
    lag = min(lag, 3)
    got = lag_matrix(_seq(case["seq"], vals), lag)
    exp = lagm_ref(x, lag)
    if not isinstance(got, list) or len(got) != lag + 1 or any(len(r) != lag + 1 for r in got):
      raise Violation("lag_matrix of a %d-sample block, max_lag %d is not a %d x %d table" % (n, lag, lag + 1, lag + 1))
    for j in range(lag + 1):
      for i in range(lag + 1):
        if fr(got[j][i]) != exp[j][i]:
          raise Violation("lag_matrix(%s, %d)[%d][%d] = %r, expected sum_{n>=%d} x[n-%d]x[n-%d] = %s"
                          % (show(x), lag, j, i, got[j][i], lag, i, j, exp[j][i]))
  return {"nontrivial": True, "labels": labels}


# ------------------------------------------- results held across later calls
def strat_held(tier):
  """2..4 calls one after the other; every result is kept and judged again after
  the last call.  Blocks include the degenerate ones (single pulses, sparse
  blocks: all lagged products vanish, every coefficient of the solution is 0),
  for which a recursion never leaves its starting point."""
  amp = _sample.filter(lambda v: v != 0)
  zero = st.just(Q(0))

  def put(t):
    n, q, a, more = t
    blk = [Q(0)] * n
    blk[q % n] = a
    if more is not None:
      blk[more[0] % n] = more[1]
    return blk
  pulse = st.tuples(st.integers(4, 9), st.integers(0, 8), amp,
                    st.one_of(st.none(), st.none(), st.tuples(st.integers(0, 8), amp))).map(put)
  sparse = st.lists(st.one_of(*(w(zero, 3) + [_sample])), min_size=4, max_size=9)
  dense = st.lists(_sample, min_size=4, max_size=9)
  blk = st.sampled_from(["pulse", "pulse", "pulse", "sparse", "dense", "dense"]).flatmap(
    lambda k: {"pulse": pulse, "sparse": sparse, "dense": dense}[k])
  call = st.fixed_dictionaries(dict(
    fn=st.sampled_from(["kcovar"] * 5 + ["kautocor"] * 2 + ["levinson", "levinson_default", "acorr", "lag_matrix"]),
    blk=blk, order=st.integers(1, 3), seq=st.sampled_from(["list", "tuple", "deque maxlen"])))
  return st.lists(call, min_size=2, max_size=4)


def _held_call(c, arg=None):
  """-> (result, None) or (None, label) when an allowed exception was raised.
  arg: the block object to hand over (default: a fresh one built from the case)."""
  fn, p = c["fn"], c["order"]
  x = [fr(v) for v in c["blk"]]
  if arg is None:
    arg = _seq(c["seq"], c["blk"])
  if fn == "acorr":
    return acorr(arg, p), None
  if fn == "lag_matrix":
    return lag_matrix(arg, p), None
  if fn == "kcovar":
    try:
      return lpc.kcovar(arg, p), None
    except (ValueError, ZeroDivisionError):
      return None, "kcovar raised"
  rr = acorr_ref(x, p)
  try:
    if fn == "kautocor":
      return lpc.kautocor(arg, p), None
    r_in = [Q(v) for v in rr]
    return (levinson_durbin(r_in) if fn == "levinson_default" else levinson_durbin(r_in, p)), None
  except ParCorError:
    if first_singular_minor(rr, p) is None:
      raise Violation("%s on %s, order %d raised ParCorError, but no leading minor is singular" % (fn, show(x), p))
    return None, "ParCorError"


def _held_judge(c, res, when):
  """The result of call c (made earlier) against the defining equations of its own block.
  -> coefficient list (filters), None (tables, or the property is silent)."""
  fn, p = c["fn"], c["order"]
  x = [fr(v) for v in c["blk"]]
  what = "%s(%s, %d), judged %s" % (fn, show(x), p, when)
  if fn == "acorr":
    if [fr(v) for v in res] != acorr_ref(x, p):
      raise Violation("%s: %r is not the table of lagged products %s" % (what, res, show(acorr_ref(x, p))))
    return None
  if fn == "lag_matrix":
    exp = lagm_ref(x, p)
    if [[fr(v) for v in row] for row in res] != exp:
      raise Violation("%s: %r is not the lag matrix %r" % (what, res, exp))
    return None
  if fn == "kcovar":
    a = coeffs_of(res, p, what)
    phi = lagm_ref(x, p)
    for i in range(1, p + 1):
      if sum(a[j] * phi[i][j] for j in range(p + 1)) != 0:
        raise Violation("%s -> a=%s: covariance normal equation i=%d is not satisfied" % (what, show(a), i))
    energy = sum(sum(a[j] * x[t - j] for j in range(p + 1)) ** 2 for t in range(p, len(x)))
    if res.error != energy:
      raise Violation("%s -> a=%s: error attribute is %r, the residual energy over n>=p of its block is %s"
                      % (what, show(a), res.error, energy))
    return a
  rr = acorr_ref(x, p)
  if first_singular_minor(rr, p) is not None:
    return None
  a = coeffs_of(res, p, what)
  for i in range(1, p + 1):
    if sum(a[j] * rr[abs(i - j)] for j in range(p + 1)) != 0:
      raise Violation("%s -> a=%s: normal equation i=%d is not satisfied" % (what, show(a), i))
  err = sum(a[j] * rr[j] for j in range(p + 1))
  if res.error != err:
    raise Violation("%s -> a=%s: error attribute is %r, sum_j a[j] r[j] is %s" % (what, show(a), res.error, err))
  if fn == "kautocor":
    energy, _ = conv_energy(a, x)
    if res.error != energy:
      raise Violation("%s -> a=%s: error attribute is %r, the energy of a * zero-extended block is %s"
                      % (what, show(a), res.error, energy))
  return a


def run_held(case):
  held = []
  labels = []
  for c in case:
    res, why = _held_call(c)
    if res is None:
      labels.append(why)
      continue
    a = _held_judge(c, res, "right after the call")
    held.append((c, res, a))
  nz = 0
  flat = []
  for k, (c, res, a) in enumerate(held):
    later = len(held) - 1 - k
    a2 = _held_judge(c, res, "after %d later call(s) that returned" % later if later else "again")
    if a2 != a:
      raise Violation("%s(%s, %d): coefficients were %s right after the call and are %s after later calls"
                      % (c["fn"], show(c["blk"]), c["order"], a, a2))
    if a is not None:
      nz += 1
      if all(v == 0 for v in a[1:]):
        flat.append((c["fn"], res.error))
  labels.append("held results: %d" % len(held))
  if len([1 for f in flat if f[0] == "kcovar"]) >= 2:
    labels.append("two kcovar results with all-zero coefficients")
    if len(set(e for f, e in flat if f == "kcovar")) >= 2:
      labels.append("two kcovar results with all-zero coefficients, different errors")
  if len(flat) >= 2:
    labels.append("two filters with all-zero coefficients")
  if len(set(c["fn"] for c, _, _ in held)) >= 2:
    labels.append("mixed functions")
  return {"nontrivial": len(held) >= 2 and nz >= 1, "labels": labels}



# --------------------------- earlier history of unrelated objects (process-wide state)
# What a program may have done, before and between the calls under test, to objects that are
# its own: filters it built (with or without a denominator, by arithmetic on z, as z ** -k), called, and
# whose polynomials it wrote into in place (Poly: "item set is allowed" until the instance is hashed),
# free-standing Poly objects.  The global ``z`` itself is never written to: the library uses it.
_OPS = ["fir.den", "fir.den", "fir.num", "unit.den", "unit.num", "iir.den", "iir.num",
        "arith.den", "arith.num", "zpow.den", "zpow.num", "poly"]


def _unrelated(o):
  """Build one unrelated object as the op says, optionally use it, write one coefficient in place."""
  from audiolazy import ZFilter, z, Poly
  c, d, i, v = list(o["c"]), list(o["d"]), o["i"], o["v"]
  kind, _, side = o["op"].partition(".")
  if kind == "poly":
    pol = Poly(c)
    pol[i] = v
    return
  if kind == "fir":
    f = ZFilter(c)                       # built without a denominator
  elif kind == "unit":
    f = ZFilter(1)
  elif kind == "iir":
    f = ZFilter(c, [1] + d)              # built with an explicit denominator
  elif kind == "arith":
    f = c[0] + sum(ck * z ** -k for k, ck in enumerate(c[1:], 1))
    if side == "den":
      f = f / (1 + d[0] * z ** -1)
  else:
    f = z ** -(1 + i % 3)
  if o["run"] in ("before", "both"):
    list(f(list(o["x"])))
  if side == "den":
    f.denpoly[1 + i % 3] = v             # feedback term written in place
  else:
    f.numpoly[i] = v
  if o["run"] in ("after", "both"):
    list(f(list(o["x"])))


def strat_unrelated(tier):
  small = st.one_of(qs(-2, 2, 4), st.integers(-2, 2).map(Q))
  nz = small.filter(lambda v: v != 0)
  op = st.fixed_dictionaries(dict(
    op=st.sampled_from(_OPS), c=st.tuples(nz, small, small).map(list) | st.tuples(nz, small).map(list),
    d=st.lists(qs(-1, 1, 4), min_size=1, max_size=2), i=st.integers(0, 3), v=nz,
    run=st.sampled_from(["no", "no", "before", "after", "both"]), x=st.lists(small, min_size=1, max_size=4)))
  dense = st.lists(_sample, min_size=4, max_size=8)
  call = st.fixed_dictionaries(dict(
    fn=st.sampled_from(["kcovar", "kcovar", "kautocor", "kautocor", "levinson", "levinson", "levinson_default",
                        "acorr", "lag_matrix"]),
    blk=dense, order=st.integers(1, 3), seq=st.sampled_from(["list", "tuple", "deque maxlen"])))
  # calls may precede the writes as well: their results are held and judged again at the end
  return st.tuples(st.lists(call, max_size=1), st.lists(op, min_size=1, max_size=3),
                   st.lists(call, min_size=1, max_size=2), st.lists(op, max_size=1)).map(
                     lambda t: t[0] + t[1] + t[2] + t[3])


def run_unrelated(case):
  held, labels, written = [], [], set()
  for c in case:
    if "op" in c:
      _unrelated(c)
      written.add(c["op"])
      continue
    res, why = _held_call(c)
    if res is None:
      labels.append(why)
      continue
    a = _held_judge(c, res, "right after the call (earlier: in-place writes into %s of the caller's own "
                    "objects)" % (sorted(written) or "nothing"))
    held.append((c, res, a))
  nz = 0
  for c, res, a in held:
    a2 = _held_judge(c, res, "at the end, after in-place writes into %s of the caller's own objects"
                     % sorted(written))
    if a2 != a:
      raise Violation("%s(%s, %d): coefficients were %s right after the call and are %s at the end"
                      % (c["fn"], show(c["blk"]), c["order"], a, a2))
    nz += a is not None
  labels += ["wrote " + k for k in sorted(written)]
  if case and "op" not in case[0]:
    labels.append("a result held across the writes")
  return {"nontrivial": nz >= 1, "labels": labels + ["held results: %d" % len(held)]}


# ------------------------- one block object analysed again and again, answers edited
_FAMILY = {"acorr": "acorr", "kautocor": "acorr", "lag_matrix": "lagm", "kcovar": "lagm"}


def strat_reused(tier):
  fns = ["acorr", "acorr", "kautocor", "kautocor", "lag_matrix", "kcovar", "kcovar"]
  fac = st.sampled_from([Fraction(10001, 10000), Fraction(99, 100), Fraction(1, 2), Fraction(-1), Fraction(3)]).map(Q)

  def steps(p):
    call = st.fixed_dictionaries(dict(do=st.just("call"), fn=st.sampled_from(fns),
                                      order=st.one_of(st.just(p), st.just(p), st.just(p), st.integers(1, 3))))
    edit = st.fixed_dictionaries(dict(do=st.just("edit_result"), i=st.integers(0, 3), j=st.integers(0, 3), f=fac))
    poke = st.fixed_dictionaries(dict(do=st.just("edit_block"), i=st.integers(0, 8),
                                      v=_sample.filter(lambda v: v != 0)))
    again = st.tuples(call, edit).map(lambda t: (t[0], t[1], t[0]))      # the very same question after the edit
    motif = st.one_of(again, again.map(tuple), st.tuples(call, edit, call), st.tuples(call, poke, call),
                      st.tuples(call, call), st.tuples(call, edit, poke, call))
    return st.lists(motif, min_size=1, max_size=3).map(lambda ms: [s for m in ms for s in m])
  return st.fixed_dictionaries(dict(
    blk=st.lists(_sample, min_size=4, max_size=9), seq=st.sampled_from(["list", "list", "tuple", "deque maxlen"]),
    steps=st.integers(1, 3).flatmap(steps)))


def _edit_result(res, s):
  """The caller changes, in place, the answer he was given.  -> what was edited or None."""
  if isinstance(res, list) and res and isinstance(res[0], list):      # lag_matrix
    row = res[s["i"] % len(res)]
    row[s["j"] % len(row)] = row[s["j"] % len(row)] * s["f"] + 1
    return "table"
  if isinstance(res, list) and res:                                    # acorr: white-noise correction / lag window
    res[s["i"] % len(res)] = res[s["i"] % len(res)] * s["f"] + 1
    return "table"
  if hasattr(res, "numpoly"):                                          # a returned filter: pruned / rescaled in place
    which = s["j"] % 3
    if which == 0:
      res.error = res.error * s["f"] + 1
    elif which == 1:
      res.denpoly[1] = s["f"]
    else:
      i = 1 + s["i"] % 3
      res.numpoly[i] = res.numpoly[i] * s["f"] + 1
    return "filter"
  return None


def run_reused(case):
  model = list(case["blk"])                  # what the caller knows to be in the block
  obj = _seq(case["seq"], model)             # the one block object of this case
  n = len(model)
  held, labels = [], []
  last, pending, repeats, frepeats, after_poke, pokes = None, None, 0, 0, 0, 0
  for s in case["steps"]:
    if s["do"] == "edit_block":
      if case["seq"] == "tuple":
        continue
      obj[s["i"] % n] = s["v"]
      model[s["i"] % n] = s["v"]
      pending, pokes = None, pokes + 1
      continue
    if s["do"] == "edit_result":
      if last is None:
        continue
      k, (c, res, a) = last, held[last]
      kind = _edit_result(res, s)
      if kind is not None:
        held[k] = None                        # the caller's own numbers now
        # a table feeds every function of its family; a filter is the answer of its own function only
        pending, last = (_FAMILY[c["fn"]] if kind == "table" else c["fn"], c["order"], kind), None
      continue
    c = dict(fn=s["fn"], blk=list(model), order=s["order"], seq=case["seq"])
    res, why = _held_call(c, arg=obj)
    if list(obj) != model:
      raise Violation("%s(%s, %d) changed the content of the block it was given: %s"
                      % (c["fn"], show(model), c["order"], show(obj)))
    if pending == (_FAMILY[c["fn"]], c["order"], "table"):
      repeats += 1
    if pending == (c["fn"], c["order"], "filter"):
      frepeats += 1
    if pokes:
      after_poke += 1
    pending = None
    if res is None:
      labels.append(why)
      last = None
      continue
    a = _held_judge(c, res, "right after the call, call no. %d on this block object" % (len(held) + 1))
    held.append((c, res, a))
    last = len(held) - 1
  nz = 0
  for h in held:
    if h is None:
      continue
    c, res, a = h
    a2 = _held_judge(c, res, "at the end (same block object used for every call)")
    if a2 != a:
      raise Violation("%s(%s, %d): coefficients were %s right after the call and are %s at the end"
                      % (c["fn"], show(c["blk"]), c["order"], a, a2))
    nz += a is not None
  if repeats:
    labels.append("same question asked again after the caller edited the answer")
  if frepeats:
    labels.append("same filter asked again after the caller edited the one he was given")
  if after_poke:
    labels.append("call after the block was edited in place")
  labels.append("seq:" + case["seq"])
  return {"nontrivial": len([h for h in held if h is not None]) >= 1, "labels": labels + ["calls: %d" % min(len(held), 6)]}


_titem = st.one_of(qs(), st.integers(-4, 4), st.floats(allow_nan=False, allow_infinity=False, width=16))


def strat_tables(tier):
  lmax = 9 if tier == "quick" else 14

  def ac(blk):
    return st.fixed_dictionaries(dict(fn=st.just("acorr"), blk=st.just(blk),
                                      lag=st.one_of(st.none(), st.integers(0, len(blk) + 3)),
                                      seq=st.sampled_from(["list", "tuple", "deque", "deque maxlen"]), kw=st.booleans()))

  def lm(blk):
    return st.fixed_dictionaries(dict(fn=st.just("lag_matrix"), blk=st.just(blk),
                                      lag=st.one_of(st.none(), st.integers(0, len(blk) - 1)),
                                      seq=st.sampled_from(["list", "tuple", "deque", "deque maxlen"]), kw=st.booleans()))
  nums = st.lists(st.one_of(qs(), qs(-3, 3, 4), st.integers(-4, 4)), min_size=1, max_size=lmax)
  return st.one_of(
    nums.flatmap(ac), nums.flatmap(lm),
    st.fixed_dictionaries(dict(
      fn=st.just("toeplitz"), seq=st.sampled_from(["list", "tuple"]),
      blk=st.lists(st.one_of(_titem, st.text(max_size=2), st.none()), min_size=0, max_size=lmax))))


def run_tables(case):
  fn = case["fn"]
  blk = case["blk"]
  from collections import deque
  # "deque maxlen" is what Stream.blocks() / blocks() hand out: a full deque with maxlen == size
  arg = {"tuple": tuple, "list": list, "deque": deque,
         "deque maxlen": lambda b: deque(b, maxlen=len(b))}[case["seq"]](blk)
  n = len(blk)
  if fn == "toeplitz":
    got = toeplitz(arg)
    if not (isinstance(got, list) and len(got) == n and all(isinstance(r, list) and len(r) == n for r in got)):
      raise Violation("toeplitz(%r) is not an %d x %d list of lists: %r" % (blk, n, n, got))
    for i in range(n):
      for j in range(n):
        if got[i][j] is not blk[abs(i - j)] and not (
            type(got[i][j]) is type(blk[abs(i - j)]) and got[i][j] == blk[abs(i - j)]):
          raise Violation("toeplitz(%r)[%d][%d] = %r, expected v[%d] = %r"
                          % (blk, i, j, got[i][j], abs(i - j), blk[abs(i - j)]))
    return {"nontrivial": n >= 2 and len(set(map(repr, blk))) >= 2, "labels": ["toeplitz", "size %d" % min(n, 9)]}
  x = [fr(v) for v in blk]
  lag = case["lag"]
  func = acorr if fn == "acorr" else lag_matrix
  if lag is None:
    got = func(arg)
    lag_eff = n - 1
  elif case["kw"]:
    got = func(arg, max_lag=lag)
    lag_eff = lag
  else:
    got = func(arg, lag)
    lag_eff = lag
  what = "%s(%s%s)" % (fn, show(x), "" if lag is None else ", %d" % lag)
  labels = [fn, "lag:default" if lag is None else ("lag>=len" if lag >= n else "lag<len")]
  if fn == "acorr":
    exp = [sum((x[i] * x[i + t] for i in range(0, max(0, n - t))), Fraction(0)) for t in range(lag_eff + 1)]
    if not isinstance(got, list) or len(got) != len(exp):
      raise Violation("%s has %r entries, expected %d" % (what, got, len(exp)))
    for t, (g, e) in enumerate(zip(got, exp)):
      if fr(g) != e:
        raise Violation("%s[%d] = %r, expected sum_n x[n]x[n+%d] = %s" % (what, t, g, t, e))
  else:
    exp = [[sum((x[t - i] * x[t - j] for t in range(lag_eff, n)), Fraction(0))
            for i in range(lag_eff + 1)] for j in range(lag_eff + 1)]
    if not isinstance(got, list) or len(got) != lag_eff + 1 or any(len(r) != lag_eff + 1 for r in got):
      raise Violation("%s is not a %d x %d table: %r" % (what, lag_eff + 1, lag_eff + 1, got))
    for j in range(lag_eff + 1):
      for i in range(lag_eff + 1):
        if fr(got[j][i]) != exp[j][i]:
          raise Violation("%s[%d][%d] = %r, expected sum_{n>=%d} x[n-%d]x[n-%d] = %s"
                          % (what, j, i, got[j][i], lag_eff, i, j, exp[j][i]))
  return {"nontrivial": n >= 2 and lag_eff >= 1 and any(v != 0 for v in x), "labels": labels}


CLAUSES = [
  Clause("levinson", strat_ld, run_ld, quick=2000, thorough=30000,
         floors={"src:k": .12, "src:data": .12, "src:free": .04, "order:zero-extended": .05,
                 "order:truncating": .05, "singular minor: ParCorError": .02, "near-unit reflections": .02,
                 "a denominator of the recursion is <= 1e-12 r[0], not 0": .01},
         doc="levinson_durbin: monic, Toeplitz normal equations, error = sum a[j] r[j]; "
             "ParCorError only when a leading minor is singular (also for vectors built from runs of reflection "
             "coefficients within 1e-3 .. 2**-44 of +-1: denominators many decades below r[0] but not 0)"),
  Clause("kautocor", strat_kauto, run_kauto, quick=1000, thorough=15000,
         floors={"order<len": .15, "competitor strictly worse": .2, "alias": .1},
         doc="lpc.kautocor: normal equations on directly summed lags, error = energy of "
             "a * zero-extended block, zero gradient, never beaten by a generated competitor"),
  Clause("kcovar", strat_kcovar, run_kcovar, quick=1200, thorough=20000,
         floors={"returned": .2, "returned order>=2": .08, "returned order>=6": .02,
                 "quiet block (amplitude <= 1e-7), returned": .05},
         doc="lpc.kcovar when it returns: covariance normal equations and error = residual "
             "energy over n >= p (blocks of 3..9/12 samples, and of 24..44 samples with orders 5..9; amplitudes "
             "from 2**-40 to 1e6)"),
  Clause("large_tables", strat_large, run_large, quick=24, thorough=300,
         doc="acorr / lag_matrix on blocks of 100..260 samples with lags 6..16 (tables far larger than any small-size "
             "code path) still equal their defining sums; kcovar on such a block satisfies its normal equations"),
  Clause("long_blocks", strat_long, run_long, quick=48, thorough=600,
         floors={"n<=2048": .05, "n<=4096": .05, "long:kautocor": .1},
         doc="blocks of 300..4200 (thorough 9000) samples, sizes free and next to multiples of 128/250/256/500/512/"
             "1000/1024: acorr (every case) / lag_matrix are the plain sums (int, Fraction and Q samples), "
             "kautocor / kcovar satisfy their normal equations and error identities"),
  Clause("held_results", strat_held, run_held, quick=800, thorough=10000,
         floors={"two kcovar results with all-zero coefficients, different errors": .01,
                 "two filters with all-zero coefficients": .03, "mixed functions": .1},
         doc="2..4 calls in a row (kcovar, kautocor, levinson_durbin, acorr, lag_matrix) on pulse / sparse / "
             "dense blocks; every result is kept and must still satisfy the equations of its own block after "
             "the later calls"),
  Clause("unrelated_history", strat_unrelated, run_unrelated, quick=500, thorough=6000,
         floors={"wrote fir.den": .05, "wrote unit.den": .03, "wrote arith.num": .03, "wrote zpow.num": .03,
                 "a result held across the writes": .1},
         doc="1..4 in-place writes into polynomials of the caller's own, unrelated objects (filters built without / "
             "with a denominator, by arithmetic on z, z ** -k, free Poly objects; optionally called before / after) "
             "around 1..3 calls of kcovar / kautocor / levinson_durbin / acorr / lag_matrix: every result satisfies "
             "the equations of its block right after its call and at the end"),
  Clause("reused_block", strat_reused, run_reused, quick=600, thorough=8000,
         floors={"same question asked again after the caller edited the answer": .1,
                 "same filter asked again after the caller edited the one he was given": .08,
                 "call after the block was edited in place": .08},
         doc="one block object (list / tuple / deque) handed to 2..9 calls of acorr / kautocor / lag_matrix / kcovar; "
             "between calls the caller edits in place the table / the filter (coefficient, error attribute, denominator) "
             "he was given or the block itself; every call is "
             "judged against the content of the block at the time of the call, untouched results again at the end; "
             "no call may change the block"),
  Clause("tables", strat_tables, run_tables, quick=1000, thorough=15000,
         floors={"acorr": .1, "lag_matrix": .1, "toeplitz": .06, "lag>=len": .02},
         doc="acorr / lag_matrix / toeplitz equal their defining sums / table"),
]
