"""C06 - Time-varying coefficients are sampled once per output sample."""
import gc
import warnings
from fractions import Fraction as F
from hypothesis import strategies as st
from vlib.core import Clause, Violation
from vlib.q import Q
from vlib.filt import diffeq_ref
from vlib.sources import Src

from audiolazy import ZFilter, z, Stream, ControlStream, MemoryLeakWarning

ID = "C06"
RULE = ("cases = causal filter shapes (orders <= 3) in which a generated non-empty subset of "
        "coefficient positions, the leading denominator coefficient included, is a Stream over a "
        "counting source (finite of generated length, or endless periodic), built as Stream*z**-k "
        "expressions or from dicts / lists (in a share of the cases every Stream coefficient is made "
        "with the library's own constructors Stream(c) / Stream(a, b, ...) and shifted / cut in place "
        "with skip / limit); algebra clauses: sums, products, scalings, delays, quotients and integer "
        "powers (2..5, negative where causal) of such filters, and a filter combined with a bare "
        "Stream or a number on either side; clause again: the same filter called twice (constants, "
        "ControlStreams, endless and long enough finite streams, user-made hubs with one copy per "
        "call): the second call obeys the difference equation from the streams' current positions "
        "and no call changes the filter's polynomials; oracle = the difference equation with per-sample coefficient lookup "
        "(diffeq_ref) on coefficient sequences combined element by element, output length = "
        "min(len(x), shortest coefficient stream), clean StopIteration there, and pull counts on "
        "every source; non-trivial = a stream coefficient in the denominator or at least two "
        "stream coefficients, and at least 3 outputs; distinct = distinct case hash")
ASSUMPTIONS = [
  "coefficient and sample values are Q (exact); a0 streams never contain 0",
  "sums of two filters are generated with structurally different denominators (or both constant), so the library's documented cross-multiplied form applies",
  "a coefficient Stream is single-use: every case builds fresh Streams (clause again uses one filter, hence the same Streams, for two calls one after the other; the first call is always bounded by its input)",
  "one-term polynomials are raised to negative powers term by term (c ** -p in Python's arithmetic): leading constants of such cases are powers of two; f / c is f * (1 / c) with the reciprocal as Python computes it: c = 3 is replaced by 2 there",
]

ZERO = Q(0)
qv = st.fractions(min_value=-3, max_value=3, max_denominator=5).map(Q)
qnz = qv.filter(lambda v: v != 0)
const = st.one_of(st.integers(-2, 2), st.sampled_from([1, -1, 0.5, -1.5, 2]))
const_nz = st.sampled_from([1, -1, 2, -2, 0.5, 3])


def coef(lenmin, lenmax, nz=False):
  vals = qnz if nz else qv
  seq = st.lists(vals, min_size=lenmin, max_size=lenmax).map(lambda l: ("seq", l))
  per = st.lists(vals, min_size=1, max_size=3).map(lambda l: ("periodic", l))
  cst = vals.map(lambda v: ("conststream", v))
  k = (const_nz if nz else const).map(lambda v: ("const", v))
  # a constant of finite duration (itertools.repeat(value, times)) and sequences of plain Fractions
  # (not Q: a float literal in the gain path would be absorbed exactly by Q)
  rep = st.tuples(vals, st.integers(lenmin, lenmax)).map(lambda t: ("finrep", t))
  pln = st.lists(vals, min_size=lenmin, max_size=lenmax).map(lambda l: ("plainseq", l))
  # a ControlStream whose value the consumer changes between outputs: its n-th value is the value
  # it holds when output n is computed (given directly as a coefficient, not wrapped)
  ctl = st.lists(vals, min_size=lenmax, max_size=lenmax).map(lambda l: ("control", l))
  return st.one_of(k, seq, seq, per, cst, rep, pln, ctl)


def live(b):
  """A numerator with no term at all annihilates every stream it is multiplied with
  (the algebra then never uses them): keep at least one non-zero term."""
  if all(c[0] == "const" and c[1] == 0 for c in b):
    return [("const", 1)] + list(b[1:])
  return list(b)


def shape(lenmin, lenmax):
  b = st.lists(coef(lenmin, lenmax), min_size=1, max_size=3).map(live)
  a = st.tuples(coef(lenmin, lenmax, nz=True), st.lists(coef(lenmin, lenmax), max_size=2)).map(lambda t: [t[0]] + t[1])
  return st.tuples(b, a)


class Built(object):
  def __init__(self):
    self.srcs = []     # (Src, kind, length or None)
    self.lens = []     # lengths of all finite coefficient streams (counted or not)
    self.controls = [] # (ControlStream, the value it must hold while output j is computed)

  def real(self, c):
    kind, v = c
    if kind == "const":
      return v
    if kind == "control":
      cs = ControlStream(v[0])
      self.controls.append((cs, v))
      return cs
    if kind == "finrep":
      import itertools
      self.lens.append(v[1])
      return Stream(itertools.repeat(v[0], v[1]))       # no counting source: values and length only
    if kind == "native":
      # the library's own constructors: Stream(c) (endless constant), Stream(a, b, ...) (endless periodic),
      # then shifted / made finite IN PLACE with .skip(k) / .limit(n) (the object keeps its identity)
      vals, skip, limit = v
      s = Stream(*vals)
      if skip:
        s.skip(skip)
      if limit is not None:
        s.limit(limit)
        self.lens.append(limit)
      return s
    if kind == "hub":
      # a user-made hub with one copy per call of the filter: every copy is the whole sequence
      from audiolazy import thub
      vals, uses = v
      s = Src(vals)
      self.srcs.append((s, kind, len(vals)))
      return thub(Stream(s), uses)
    if kind == "plainseq":
      s = Src([F(t) for t in v])
      self.srcs.append((s, kind, len(v)))
    elif kind == "seq":
      s = Src(v)
      self.srcs.append((s, kind, len(v)))
    elif kind == "periodic":
      s = Src(f=lambda i, v=v: v[i % len(v)], bound=4096)
      self.srcs.append((s, kind, None))
    else:
      s = Src(f=lambda i, v=v: v, bound=4096)
      self.srcs.append((s, kind, None))
    return Stream(s)


def exactify(*coef_lists):
  """Plain Fractions stay exact only among ints and Fractions: when a plain-Fraction stream is part of
  the case, float constants (0.5, -1.5) are replaced by ints (a float constant times a plain Fraction is
  Python's float arithmetic, not the filter's)."""
  if not any(c[0] == "plainseq" for l in coef_lists for c in l):
    return coef_lists
  fix = lambda c: ("const", int(c[1] * 2) or 1) if c[0] == "const" and isinstance(c[1], float) else c
  return tuple([fix(c) for c in l] for l in coef_lists)


def nativize(c):
  """The same coefficient made with the library's own constructors (no counting source)."""
  kind, v = c
  if kind in ("seq", "plainseq"):
    vals = [Q(t) for t in v[:1 + len(v) % 3]] or [Q(1)]
    return ("native", (vals, len(v) % 2, len(v)))
  if kind == "periodic":
    return ("native", (list(v), len(v) - 1, None))
  if kind == "conststream":
    return ("native", ([v], 0, None))
  if kind == "finrep":
    return ("native", ([v[0]], 0, v[1]))
  return c


def poly_state(filt):
  return [list(filt.numpoly.terms()), list(filt.denpoly.terms())]


def same_polys(before, after):
  for p, q in zip(before, after):
    if len(p) != len(q):
      return False
    for (k1, v1), (k2, v2) in zip(p, q):
      if k1 != k2:
        return False
      if isinstance(v1, Stream) or isinstance(v2, Stream):
        if v1 is not v2:
          return False
      elif type(v1) is not type(v2) or v1 != v2:
        return False
  return True


def seq_of(c, n):
  """Model: per-sample value list of length <= n (constants are constant sequences)."""
  kind, v = c
  if kind == "const":
    return F(v)
  if kind == "finrep":
    return [F(v[0])] * min(v[1], n)
  if kind == "native":
    vals, skip, limit = v
    return [F(vals[(i + skip) % len(vals)]) for i in range(n if limit is None else min(n, limit))]
  if kind == "hub":
    return [F(t) for t in v[0][:n]]
  if kind in ("seq", "plainseq", "control"):
    return [F(t) for t in v[:n]]
  if kind == "periodic":
    return [F(v[i % len(v)]) for i in range(n)]
  return [F(v)] * n


def build_filter(b, a, route, bt):
  rb = [bt.real(c) for c in b]
  ra = [bt.real(c) for c in a]
  if route == "dict":
    nb = {k: v for k, v in enumerate(rb) if isinstance(v, Stream) or v != 0}
    na = {k: v for k, v in enumerate(ra) if isinstance(v, Stream) or v != 0}
    return ZFilter(nb, na)
  if route == "list":
    return ZFilter(rb, ra)
  num = ZFilter(0)
  for k, v in enumerate(rb):
    num = num + v * z ** -k
  den = ZFilter(0)
  for k, v in enumerate(ra):
    den = den + v * z ** -k
  return num / den


def model_polys(b, a, n):
  return ({k: seq_of(c, n) for k, c in enumerate(b)}, {k: seq_of(c, n) for k, c in enumerate(a)})


def run_and_check(filt, N, D, x, bt, what, leak_check=True, mem=None, zero=ZERO):
  with warnings.catch_warnings(record=True) as w:
    warnings.simplefilter("always")
    state = poly_state(filt)
    out = filt(list(x), zero=zero) if mem is None else filt(list(x), zero=zero, memory=list(mem))
    # the filter is an operand, not a consumable: a call leaves its polynomials as they were
    if not same_polys(state, poly_state(filt)):
      raise Violation("%s: calling the filter changed the filter itself: %r / %r before, %r / %r after"
                      % ((what,) + tuple(state) + tuple(poly_state(filt))))
    # "sampled once per output sample": nothing is sampled by the call itself, and
    # after j outputs every coefficient source has delivered exactly j values
    for s, kind, l in bt.srcs:
      if s.reads != 0:
        raise Violation("%s: calling the filter already read %d value(s) of a %s coefficient source"
                        % (what, s.reads, kind))
    got = []
    it = iter(out)
    while True:
      for cs, vals in bt.controls:
        cs.value = vals[min(len(got), len(vals) - 1)]
      try:
        got.append(next(it))
      except StopIteration:
        break
      if len(got) > len(x) + 2:
        raise Violation("%s: more outputs than inputs" % what)
      for s, kind, l in bt.srcs:
        if s.reads != len(got):
          raise Violation("%s: after %d output(s) a %s coefficient source had been read %d times"
                          % (what, len(got), kind, s.reads))
    # a further next must still be StopIteration (clean end, nothing else)
    try:
      next(it)
    except StopIteration:
      pass
    else:
      raise Violation("%s: output resumed after it had ended" % what)
    if not same_polys(state, poly_state(filt)):
      raise Violation("%s: using the output changed the filter itself: %r / %r before, %r / %r after"
                      % ((what,) + tuple(state) + tuple(poly_state(filt))))
    del out, it, filt, state
    gc.collect()
  exp = diffeq_ref(N, D, x, zero, mem)
  if len(got) != len(exp):
    raise Violation("%s: %d outputs, expected %d (input %d samples, coefficient streams %r)"
                    % (what, len(got), len(exp), len(x), [(k, l) for _, k, l in bt.srcs]))
  for n, (g, e) in enumerate(zip(got, exp)):
    if not (g == e):
      raise Violation("%s: y[%d] = %r, expected %r; full %r vs %r" % (what, n, g, e, got, exp))
  L = len(got)
  input_shortest = all(l is None or l >= len(x) for _, _, l in bt.srcs) and all(l >= len(x) for l in bt.lens)
  for s, kind, l in bt.srcs:
    if input_shortest:
      if s.reads != L:
        raise Violation("%s: a %s coefficient source was read %d times for %d outputs"
                        % (what, kind, s.reads, L))
    elif not (L <= s.reads <= L + 1):
      raise Violation("%s: a %s coefficient source (length %r) was read %d times for %d outputs"
                      % (what, kind, l, s.reads, L))
  leaks = [str(i.message) for i in w if issubclass(i.category, MemoryLeakWarning)]
  if leaks and leak_check and input_shortest:
    raise Violation("%s: hub accounting left unused copies: %r" % (what, leaks[:2]))
  return got


# ------------------------------------------------------------------ single filters
def strat_single(tier):
  return st.integers(3, 8).flatmap(lambda n: st.fixed_dictionaries(dict(
    shape=shape(max(1, n - 3), n + 2), x=st.lists(qv, min_size=n, max_size=n),
    route=st.sampled_from(["expr", "dict", "list"]),
    # a numerator with no term at all (the zero-input response of the feedback part), and a given memory
    null_num=st.sampled_from([False] * 5 + [True]),
    mem=st.one_of(st.none(), st.none(), st.lists(qv, min_size=3, max_size=3)),
    # the value standing for x[n<0] and, without a memory, y[n<0]
    zero=st.one_of(st.just(ZERO), st.just(ZERO), qnz),
    # every Stream coefficient made with the library's own constructors and cut in place
    # ("tail": the leading denominator coefficient is then a plain constant)
    native=st.sampled_from([None] * 4 + ["all", "tail"]))))


def labels_for(b, a, x, got, bt):
  kinds = [c[0] for c in b + a]
  labels = []
  if a[0][0] != "const":
    labels.append("a0 stream")
  if any(c[0] != "const" for c in a[1:]):
    labels.append("stream in feedback")
  if any(l is not None and l < len(x) for _, _, l in bt.srcs):
    labels.append("coefficient stream ends first")
  if "periodic" in kinds:
    labels.append("periodic")
  if "conststream" in kinds:
    labels.append("constant stream")
  if "native" in kinds:
    labels.append("native stream")
    if any(cc[0] == "native" and cc[1][2] is not None and cc[1][2] < len(x) for cc in b + a):
      labels.append("native stream ends first")
      if all(cc[0] in ("native", "const") for cc in b + a) and a[0][0] == "const":
        labels.append("only native streams, one ends first, constant a0")
  return labels


def run_single(c):
  b, a = exactify(*c["shape"])
  x = c["x"]
  if all(cc[0] == "const" for cc in b + a):
    b = [("seq", [Q(1)] * (len(x) + 1))] + list(b[1:])   # keep the case time-varying
  if c.get("native"):
    b, a = [nativize(cc) for cc in b], [nativize(cc) for cc in a]
    if c["native"] == "tail" and a[0][0] != "const":
      a = [("const", 2)] + a[1:]
      if all(cc[0] == "const" for cc in b + a):
        b = [("native", ([Q(1), Q(-2)], 1, len(x) - 1))] + list(b[1:])
  FEED = ("seq", [Q(1, 2), Q(-1), Q(2), Q(-1, 3)] * 3)
  if c.get("null_num"):
    b = []
    if all(cc[0] == "const" for cc in a[1:]):
      a = list(a) + [FEED]
  mem = c.get("mem")
  if mem is not None:
    if len(a) == 1:
      a = list(a) + [FEED]
    mem = mem[:len(a) - 1]
  bt = Built()
  filt = build_filter(b, a, c["route"], bt)
  if len(x) % 2:
    # a filter may be hashed / kept in a dict before it is used (C05): that must not matter
    hash(filt)
    {filt: "kept"}
  N, D = model_polys(b, a, len(x) + 2)
  zero = c.get("zero", ZERO)
  got = run_and_check(filt, N, D, x, bt, "filter b=%r a=%r route=%s memory=%r zero=%r" % (b, a, c["route"], mem, zero),
                      mem=mem, zero=zero)
  nstreams = sum(1 for cc in b + a if cc[0] != "const")
  nt = (any(cc[0] != "const" for cc in a) or nstreams >= 2) and len(got) >= 3
  return {"nontrivial": nt, "labels": labels_for(b, a, x, got, bt) + ["route:" + c["route"]] + (
    ["no numerator term"] if not b else []) + (["memory given"] if mem is not None else []) + (
    ["non-zero zero value"] if zero != 0 else []) + (
    ["non-zero zero value, a0 stream"] if zero != 0 and a[0][0] != "const" else []) + (
    ["control stream"] if bt.controls else [])}


# ------------------------------------------------------------------ constant stream == constant
def strat_const(tier):
  dy = st.integers(-12, 12).map(lambda v: Q(v, 4))   # dyadic: prints as n/d, evaluates exactly
  dynz = dy.filter(lambda v: v != 0)
  return st.fixed_dictionaries(dict(
    b=st.lists(st.one_of(st.integers(-2, 2), dy), min_size=1, max_size=3).map(lambda l: l if any(l) else [1] + l[1:]),
    a=st.tuples(st.one_of(const_nz, dynz), st.lists(st.one_of(st.integers(-2, 2), dy), max_size=2)).map(lambda t: [t[0]] + t[1]),
    which=st.lists(st.booleans(), min_size=6, max_size=6),
    x=st.lists(qv, min_size=3, max_size=8)))


def run_const(c):
  b, a, x = c["b"], c["a"], c["x"]
  flags = c["which"]
  if not any(flags[:len(b)] + flags[3:3 + len(a)]):
    flags = [True] + flags[1:]
  bt = Built()
  bb = [("conststream", Q(v)) if flags[i] else ("const", v) for i, v in enumerate(b)]
  aa = [("conststream", Q(v)) if flags[3 + i] else ("const", v) for i, v in enumerate(a)]
  filt = build_filter(bb, aa, c.get("route", "expr"), bt)
  got = list(filt(list(x), zero=ZERO))
  plain = list(ZFilter([Q(v) if not isinstance(v, int) else v for v in b],
                       [Q(v) if not isinstance(v, int) else v for v in a])(list(x), zero=ZERO)) \
    if False else diffeq_ref(dict(enumerate(b)), dict(enumerate(a)), x, 0, None)
  if got != plain:
    raise Violation("constant streams %r / %r give %r, the constants give %r" % (bb, aa, got, plain))
  for s, kind, l in bt.srcs:
    if s.reads != len(x):
      raise Violation("constant coefficient stream read %d times for %d outputs" % (s.reads, len(x)))
  return {"nontrivial": len(x) >= 3 and any(v != 0 for v in a[1:]),
          "labels": ["constant stream", "a0 stream" if flags[3] else "a0 const"]}


# ------------------------------------------------------------------ algebra on time-varying filters
def s_add(p, q):
  if isinstance(p, list) and isinstance(q, list):
    return [u + v for u, v in zip(p, q)]
  if isinstance(p, list):
    return [u + q for u in p]
  if isinstance(q, list):
    return [p + v for v in q]
  return p + q


def s_mul(p, q):
  if isinstance(p, list) and isinstance(q, list):
    return [u * v for u, v in zip(p, q)]
  if isinstance(p, list):
    return [u * q for u in p]
  if isinstance(q, list):
    return [p * v for v in q]
  return p * q


def P_add(a, b):
  r = dict(a)
  for k, v in b.items():
    r[k] = s_add(r[k], v) if k in r else v
  return r


def P_mul(a, b):
  r = {}
  for k1, v1 in a.items():
    for k2, v2 in b.items():
      t = s_mul(v1, v2)
      r[k1 + k2] = s_add(r[k1 + k2], t) if k1 + k2 in r else t
  return r


def P_pow(a, p):
  r = a
  for unused in range(p - 1):
    r = P_mul(r, a)
  return r


def nonzero(m):
  return {k: v for k, v in m.items() if isinstance(v, list) or v != 0}


OPS1 = ["add", "sub", "mul", "scale", "delay", "mul_iir", "add_iir", "neg", "shared_square",
        "hub_reuse", "hub_reuse", "div_delayed_gain", "add_fir_to_iir", "add_number", "copy",
        "mul_common", "mul_common"]
OPS2 = ["pow", "pow", "pow", "operand", "operand", "operand", "operand", "div", "div", "add_twin", "add_twin"]
OKINDS = ["f*s", "f*s", "s*f", "f/s", "f/s", "s/f", "f+s", "f+s", "s+f", "f-s", "f-s", "s-f",
          "f*c", "f/c", "c/f", "f-c", "c-f"]


def strat_algebra(tier, ops=OPS1):
  fir = lambda lo, hi: st.lists(coef(lo, hi), min_size=1, max_size=3).map(live)
  return st.integers(3, 7).flatmap(lambda n: st.fixed_dictionaries(dict(
    op=st.sampled_from(ops),
    # powers (pw, negative or not, with or without a denominator), the kind of a Stream / number operand,
    # the denominators of a quotient of two filters (common constant polynomial / own / none)
    pw=st.integers(2, 5), pneg=st.sampled_from([False, False, True]), pden=st.booleans(),
    okind=st.sampled_from(OKINDS), dv=st.sampled_from(["common", "common", "iir", "fir"]),
    hub=st.fixed_dictionaries(dict(c0=st.integers(1, 3), c1=st.integers(-3, 3).filter(lambda v: v != 0),
                                   c2=st.integers(-2, 2), d=st.integers(3, 4), extra=st.integers(0, 1),
                                   feedback=st.booleans())),
    f=shape(n - 2, n + 2), g=shape(n, n + 2), fb=fir(n - 2, n + 2), gb=fir(n, n + 2),
    c=st.sampled_from([2, -1, 3, 0.5]), k=st.integers(1, 3), route=st.sampled_from(["expr", "dict", "list"]),
    null_left=st.sampled_from([False, False, True]),
    x=st.lists(qv, min_size=n, max_size=n))))


def run_algebra(c):
  c = dict(c)
  (fb_, fa_), (gb_, ga_) = c["f"], c["g"]
  fb_, fa_, gb_, ga_, c["fb"], c["gb"] = exactify(fb_, fa_, gb_, ga_, c["fb"], c["gb"])
  c["f"], c["g"] = (fb_, fa_), (gb_, ga_)
  if any(cc[0] == "plainseq" for l in (fb_, fa_, gb_, ga_, c["fb"], c["gb"]) for cc in l):
    c["c"] = int(c["c"] * 2) or 1
  op, x = c["op"], c["x"]
  n = len(x) + 2
  bt = Built()
  one = [("const", 1)]
  extra_labels = []
  if op == "div_delayed_gain":
    # f / (g * z**-k) with a Stream gain g: the delay cancels against f's own delays and
    # y[n] = (sum_j f_j[n] x[n-j+k]) / g[n], every g value used once
    k = c["k"]
    fb = [("const", 0)] * k + list(c["fb"])
    f = build_filter(fb, one, c.get("route", "expr"), bt)
    Nf, _ = model_polys(fb, one, n)
    gspec = c["gb"][0] if c["gb"][0][0] in ("seq", "periodic", "conststream") else ("seq", [Q(2), Q(-1), Q(1, 2), Q(3)] * 3)
    gspec = (gspec[0], [v if v != 0 else Q(1) for v in gspec[1]]) if gspec[0] in ("seq", "periodic") else \
      (gspec[0], gspec[1] if gspec[1] != 0 else Q(1))
    g = bt.real(gspec)
    real = f / (g * z ** -k)
    N = {j - k: v for j, v in Nf.items() if j >= k}
    D = {0: seq_of(gspec, n)}
    used = (fb, [gspec])
  elif op == "hub_reuse":
    # a coefficient the user wrapped in thub(stream, n) may be used in exactly n places of the
    # algebra, each of which may multiply it into several terms
    from audiolazy import thub
    h = c["hub"]
    seq = [v for v in c["fb"][0][1]] if c["fb"][0][0] == "seq" else [Q(2), Q(-1, 2), Q(3)] * 4
    seq = [v if v != 0 else Q(1) for v in seq]
    src = Src(seq)
    bt.srcs.append((src, "hub", len(seq)))
    uses = 2 + (1 if h["feedback"] else 0) + h["extra"]
    k = thub(Stream(src), uses)
    ks = [F(v) for v in seq[:n]]
    P1 = h["c0"] + h["c1"] * z ** -1 + h["c2"] * z ** -2
    real = k * P1 + k * z ** -h["d"]
    N = {0: s_mul(ks, F(h["c0"])), 1: s_mul(ks, F(h["c1"])), 2: s_mul(ks, F(h["c2"])), h["d"]: list(ks)}
    D = {0: F(1)}
    if h["extra"]:
      real = real + k * (z ** -5 - 2 * z ** -6)
      N[5] = list(ks)
      N[6] = s_mul(ks, F(-2))
    if h["feedback"]:
      den = 1 - k * (z ** -1 + 2 * z ** -2)
      real = real / den
      D = {0: F(1), 1: s_mul(ks, F(-1)), 2: s_mul(ks, F(-2))}
    used = ("hub x%d" % uses, h)
  elif op in ("add", "sub", "mul", "shared_square"):
    fb, gb = c["fb"], c["gb"]
    f = build_filter(fb, one, c.get("route", "expr"), bt)
    Nf, Df = model_polys(fb, one, n)
    if op == "shared_square":
      # the same coefficient Streams feed several product terms (tee accounting)
      g = f.copy() if hasattr(f, "copy") else f
      real = f * g
      N, D = P_mul(Nf, Nf), {0: F(1)}
    else:
      g = build_filter(gb, one, c.get("route", "expr"), bt)
      Ng, Dg = model_polys(gb, one, n)
      if op == "add":
        real, N, D = f + g, P_add(Nf, Ng), {0: F(1)}
      elif op == "sub":
        real, N, D = f - g, P_add(Nf, {k: s_mul(v, F(-1)) for k, v in Ng.items()}), {0: F(1)}
      else:
        real, N, D = f * g, P_mul(Nf, Ng), {0: F(1)}
    used = (fb, one)
  elif op in ("scale", "delay", "neg", "copy"):
    fb, fa = c["f"]
    f = build_filter(fb, fa, c.get("route", "expr"), bt)
    Nf, Df = model_polys(fb, fa, n)
    if op == "copy":
      # a copy of a filter follows the same coefficient streams (the original is kept alive, unused)
      bt.keep = f
      real, N, D = f.copy(), Nf, Df
    elif op == "scale":
      real, N, D = c["c"] * f, {k: s_mul(v, F(c["c"])) for k, v in Nf.items()}, Df
    elif op == "neg":
      real, N, D = -f, {k: s_mul(v, F(-1)) for k, v in Nf.items()}, Df
    else:
      real, N, D = f * z ** -c["k"], {k + c["k"]: v for k, v in Nf.items()}, Df
    used = (fb, fa)
  elif op == "mul_iir":
    fb, fa = c["f"]
    gb = c["gb"]
    f = build_filter(fb, fa, c.get("route", "expr"), bt)
    g = build_filter(gb, one, c.get("route", "expr"), bt)
    Nf, Df = model_polys(fb, fa, n)
    Ng, _ = model_polys(gb, one, n)
    real, N, D = f * g, P_mul(Nf, Ng), Df
    used = (fb + gb, fa)
  elif op == "mul_common":
    # (Nf / C) * (C / Dg) with a constant polynomial C of two or three terms: element by element this is
    # (Nf*C) / (C*Dg) - with Streams in Nf or Dg it is NOT the same time-varying system as Nf / Dg
    h = c["hub"]
    C = [("const", h["c0"]), ("const", h["c1"])] + ([("const", h["c2"])] if h["c2"] else [])
    fb = c["fb"]
    ga = c["g"][1]
    if all(cc[0] == "const" for cc in fb):
      fb = list(fb) + [("seq", [Q(2), Q(-1), Q(1, 2), Q(3)] * 3)]
    if all(cc[0] == "const" for cc in ga):
      ga = list(ga) + [("seq", [Q(1, 2), Q(-1), Q(2)] * 4)]
    f = build_filter(fb, C, c.get("route", "expr"), bt)
    g = build_filter(C, ga, c.get("route", "expr"), bt)
    Nf, Cp = model_polys(fb, C, n)
    _, Dg = model_polys(C, ga, n)
    real = (f * g) if len(x) % 2 else (g * f)
    N, D = P_mul(Nf, Cp), P_mul(Cp, Dg)
    used = (fb + C, C + ga)
  elif op == "pow":
    # f ** p is the p-fold product (every coefficient Stream is then needed in p factors); f ** -p is the
    # p-fold product of the inverted filter, causal when the leading numerator coefficient is invertible
    p, neg = c["pw"], c["pneg"]
    if neg and any(cc[0] == "plainseq" for l in (fb_, fa_, gb_, ga_) for cc in l):
      neg = False   # a one-term constant to a negative power is a float ((-1) ** -2 == 1.0): not among plain Fractions
    num = list(c["g"][1]) if neg else list(c["f"][0])
    den = list(c["f"][1]) if c["pden"] else list(one)
    if neg:
      # one-term polynomials are raised term by term: 3 ** -p is a rounded float, powers of two are exact
      fix3 = lambda cc: ("const", 2) if cc == ("const", 3) else cc
      num, den = [fix3(num[0])] + num[1:], [fix3(den[0])] + den[1:]
    if all(cc[0] == "const" for cc in num + den):
      num = num + [("seq", [Q(2), Q(-1), Q(1, 2), Q(3)] * 3)]
    f = build_filter(num, den, c.get("route", "expr"), bt)
    Nf, Df = model_polys(num, den, n)
    Nf, Df = nonzero(Nf), nonzero(Df)
    real = f ** (-p if neg else p)
    N, D = P_pow(Nf, p), P_pow(Df, p)
    if neg:
      N, D = D, N
    used = (num, den + [("const", -p if neg else p)])
    extra_labels = ["pow negative" if neg else "pow positive", "pow >= 3" if p >= 3 else "pow 2"] + (
      ["pow of a one-term stream polynomial"] if any(len(P) == 1 and isinstance(list(P.values())[0], list)
                                                      for P in (Nf, Df)) else []) + (
      ["pow >= 3, stream in denominator"] if p >= 3 and any(cc[0] != "const" for cc in den) else [])
  elif op == "add_twin":
    # a sum / difference of two filters whose denominators look alike when the sum is built: the same
    # constants, and at every Stream position another Stream object of the same kind that starts with the
    # same value and differs later. Different Stream objects are different coefficient sequences, so the
    # sum is the cross-multiplied (Nf*Dg + Ng*Df) / (Df*Dg); only all-constant equal denominators are shared
    DEFCTL = ("control", [Q(1, 2), Q(-1), Q(2), Q(-1, 3), Q(1), Q(-2), Q(1, 2), Q(3), Q(-1), Q(2)])
    fb, fa = list(c["f"][0]), list(c["f"][1])
    gb = list(c["gb"])
    if not c["pden"] and all(cc[0] == "const" for cc in fa):
      fa = fa + [DEFCTL]
    def twin(cc):
      kind, v = cc
      if kind in ("control", "seq", "plainseq"):
        return (kind, [v[0]] + [2 * t for t in v[1:]])
      if kind == "periodic":
        return (kind, list(v) + [2 * v[0]])
      if kind == "conststream":
        return ("periodic", [v, 2 * v])
      if kind == "finrep":
        return ("seq", [v[0]] + [2 * v[0]] * (v[1] - 1))
      return cc
    ga = [twin(cc) for cc in fa]
    f = build_filter(fb, fa, c.get("route", "expr"), bt)
    g = build_filter(gb, ga, c.get("route", "expr"), bt)
    Nf, Df = model_polys(fb, fa, n)
    Ng, Dg = model_polys(gb, ga, n)
    minus = c["pneg"]
    if minus:
      Ng = {k: s_mul(v, F(-1)) for k, v in Ng.items()}
    real = (f - g) if minus else (f + g)
    if all(cc[0] == "const" for cc in fa):
      N, D = P_add(Nf, Ng), Df
    else:
      N, D = P_add(P_mul(Nf, Dg), P_mul(Ng, Df)), P_mul(Df, Dg)
    used = (fb + gb, fa + ga)
    extra_labels = ["twin: constant denominators" if all(cc[0] == "const" for cc in fa) else "twin: stream denominators"] + (
      ["twin: ControlStreams placed directly"] if any(cc[0] == "control" for cc in fa) and c.get("route") != "expr" else [])
  elif op == "operand":
    # a filter combined with a bare Stream (a time-varying gain / offset) or a number on either side
    kind = c["okind"]
    if kind == "f/c" and any(cc[0] == "plainseq" for l in (fb_, fa_, gb_, ga_) for cc in l):
      kind = "f*c"    # 1 / c is a float whatever c is, and a float times a plain Fraction is Python's float arithmetic
    inverted = kind in ("s/f", "c/f")
    fb, fa = (list(c["g"][1]) if inverted else list(c["f"][0])), list(c["f"][1])
    if all(cc[0] == "const" for cc in fb + fa):
      fb = fb + [("seq", [Q(2), Q(-1), Q(1, 2), Q(3)] * 3)]
    f = build_filter(fb, fa, c.get("route", "expr"), bt)
    Nf, Df = model_polys(fb, fa, n)
    if "s" in kind:
      ospec = c["gb"][0] if c["gb"][0][0] in ("seq", "periodic", "conststream", "plainseq", "finrep") else \
        ("seq", [Q(2), Q(-1), Q(1, 2), Q(3)] * 3)
      if kind == "f/s":
        unz = lambda v: v if v != 0 else Q(1)
        ospec = (ospec[0], [unz(v) for v in ospec[1]]) if ospec[0] in ("seq", "periodic", "plainseq") else \
          (ospec[0], (unz(ospec[1][0]), ospec[1][1])) if ospec[0] == "finrep" else (ospec[0], unz(ospec[1]))
      o = bt.real(ospec)
      om = seq_of(ospec, n)
      oinv = [1 / v for v in om] if kind == "f/s" else None
    else:
      import operator
      if kind == "f/c" and abs(c["c"]) in (3, 6):
        c["c"] = 2      # 1 / 3 is a rounded float and float constants times it round again: keep the quotient exact
      ospec = ("const", c["c"])
      o = c["c"]
      om = F(o)
      oinv = F(operator.truediv(1, o))     # f / c is f * (1 / c), the reciprocal taken as the number Python computes
    O = {0: om}
    if kind[1] == "*":
      real = (f * o) if kind[0] == "f" else (o * f)
      N, D = P_mul(Nf, O), Df
    elif kind in ("f/s", "f/c"):
      real = f / o
      N, D = P_mul(Nf, {0: oinv}), Df
    elif inverted:
      real = o / f
      N, D = P_mul(O, Df), Nf
    elif kind[1] == "+":
      real = (f + o) if kind[0] == "f" else (o + f)
      N, D = P_add(Nf, P_mul(O, Df)), Df
    elif kind[0] == "f":
      real = f - o
      N, D = P_add(Nf, P_mul({0: s_mul(om, F(-1))}, Df)), Df
    else:
      real = o - f
      N, D = P_add(P_mul(O, Df), {k: s_mul(v, F(-1)) for k, v in Nf.items()}), Df
    used = (fb + [ospec], fa)
    extra_labels = ["operand:" + kind, "stream operand" if "s" in kind else "number operand"] + (
      ["stream operand on a filter with feedback"] if "s" in kind and len(nonzero(Df)) > 1 else [])
  elif op == "div":
    # a quotient of two filters, element by element (Nf*Dg) / (Df*Ng) - also when the two denominators are
    # the same constant polynomial C (with Streams in Nf or Ng that is NOT the system Nf / Ng)
    h = c["hub"]
    C = [("const", h["c0"]), ("const", h["c1"])] + ([("const", h["c2"])] if h["c2"] else [])
    fb, gb = list(c["f"][0]), list(c["g"][1])
    fa = list(c["f"][1]) if c["dv"] == "iir" else (C if c["dv"] == "common" else list(one))
    ga = C if c["dv"] in ("iir", "common") else list(one)
    if all(cc[0] == "const" for cc in fb):
      fb = fb + [("seq", [Q(2), Q(-1), Q(1, 2), Q(3)] * 3)]
    if all(cc[0] == "const" for cc in gb):
      gb = gb + [("seq", [Q(1, 2), Q(-1), Q(2)] * 4)]
    f = build_filter(fb, fa, c.get("route", "expr"), bt)
    g = build_filter(gb, ga, c.get("route", "expr"), bt)
    Nf, Df = model_polys(fb, fa, n)
    Ng, Dg = model_polys(gb, ga, n)
    real = f / g
    N, D = P_mul(Nf, Dg), P_mul(Df, Ng)
    used = (fb + ga, fa + gb)
    extra_labels = ["div:" + c["dv"]]
  elif op in ("add_fir_to_iir", "add_number"):
    # a filter with Streams in its feedback part plus a FIR filter / a plain number:
    # (Nf + Ng*Df) / Df - each denominator Stream is needed twice, still read once per sample
    fb, fa = c["f"]
    if all(cc[0] == "const" for cc in fa):
      fa = list(fa) + [("seq", [Q(1, 2), Q(-1), Q(2)] * 4)]
    f = build_filter(fb, fa, c.get("route", "expr"), bt)
    Nf, Df = model_polys(fb, fa, n)
    if op == "add_number":
      real = (f + c["c"]) if len(x) % 2 else (c["c"] + f)
      Ng = {0: F(c["c"])}
      used = (fb, fa + [("const", c["c"])])
    else:
      gb = c["gb"]
      g = build_filter(gb, one, c.get("route", "expr"), bt)
      Ng, _ = model_polys(gb, one, n)
      real = f + g
      used = (fb + gb, fa)
    N, D = P_add(Nf, P_mul(Ng, Df)), Df
  else:  # add_iir: different denominators -> (Nf*Dg + Ng*Df) / (Df*Dg)
    fb, fa = c["f"]
    gb, ga = c["g"]
    if c.get("null_left"):
      # a filter whose numerator has no term, with Streams in its denominator, on the left of a sum:
      # (0/Df) + Ng/Dg = (Ng*Df)/(Df*Dg) - Df's streams still bound the length and are read once per sample
      fb = []
      if all(cc[0] == "const" for cc in fa):
        fa = list(fa) + [("seq", [Q(1, 2), Q(-1), Q(2)] * 4)]
    if all(cc[0] == "const" for cc in fa + ga) and fa == ga:
      ga = [("const", 2)] + list(ga[1:]) if ga[0] != ("const", 2) else [("const", 3)] + list(ga[1:])
    f = build_filter(fb, fa, c.get("route", "expr"), bt)
    g = build_filter(gb, ga, c.get("route", "expr"), bt)
    Nf, Df = model_polys(fb, fa, n)
    Ng, Dg = model_polys(gb, ga, n)
    if all(cc[0] == "const" for cc in fa + ga) and nonzero(Df) == nonzero(Dg):
      real, N, D = f + g, P_add(Nf, Ng), Df
    else:
      real, N, D = f + g, P_add(P_mul(Nf, Dg), P_mul(Ng, Df)), P_mul(Df, Dg)
    used = (fb + gb, fa + ga)
  a0 = D[0]
  if (isinstance(a0, list) and any(v == 0 for v in a0)) or (not isinstance(a0, list) and a0 == 0):
    return {"nontrivial": False, "labels": ["degenerate gain"]}
  got = run_and_check(real, nonzero(N), nonzero(D), x, bt, "%s of b=%r a=%r" % (op, used[0], used[1]),
                      leak_check=False)
  nstreams = len(bt.srcs)
  return {"nontrivial": (nstreams >= 2 or op in ("hub_reuse", "pow")) and len(got) >= 3, "labels": ["op:" + op] + extra_labels + (
    ["null left operand"] if op == "add_iir" and c.get("null_left") else []) + (
    ["control stream"] if bt.controls else []) + (
    ["coefficient stream ends first"] if any(l is not None and l < len(x) for _, _, l in bt.srcs) else [])}


# ------------------------------------------------------------------ the same filter called twice
def coef_again(n1, n2, nz=False):
  """Coefficients that can serve two calls: constants, ControlStreams, endless constant / periodic
  streams (over a counting source or made by Stream(c) / Stream(a, b)), finite streams long enough for
  the first call, and user-made hubs holding one copy per call."""
  vals = qnz if nz else qv
  total = n1 + n2
  k = (const_nz if nz else const).map(lambda v: ("const", v))
  ctl = st.lists(vals, min_size=total + 2, max_size=total + 2).map(lambda l: ("control", l))
  cst = vals.map(lambda v: ("conststream", v))
  per = st.lists(vals, min_size=1, max_size=3).map(lambda l: ("periodic", l))
  seq = st.lists(vals, min_size=n1, max_size=total + 2).map(lambda l: ("seq", l))
  nat = st.tuples(st.lists(vals, min_size=1, max_size=3), st.integers(0, 2),
                  st.one_of(st.none(), st.integers(n1, total + 2))).map(lambda t: ("native", (t[0], t[1], t[2])))
  hub = st.lists(vals, min_size=max(n1, n2 - 1), max_size=max(n1, n2) + 2).map(lambda l: ("hub", (l, 2)))
  return st.one_of(k, ctl, cst, per, seq, seq, nat, nat, hub)


def strat_again(tier):
  def shp(n1, n2):
    b = st.lists(coef_again(n1, n2), min_size=1, max_size=3).map(live)
    a = st.tuples(coef_again(n1, n2, nz=True), st.lists(coef_again(n1, n2), max_size=2)).map(lambda t: [t[0]] + t[1])
    return st.tuples(b, a)
  return st.tuples(st.integers(3, 5), st.integers(3, 6)).flatmap(lambda nn: st.fixed_dictionaries(dict(
    shape=shp(*nn), x1=st.lists(qv, min_size=nn[0], max_size=nn[0]), x2=st.lists(qv, min_size=nn[1], max_size=nn[1]),
    route=st.sampled_from(["expr", "dict", "list"]),
    mem2=st.one_of(st.none(), st.none(), st.lists(qv, min_size=3, max_size=3)),
    hashed=st.booleans())))


def vals_from(c, start, count):
  """Model: the values a coefficient delivers to a call that starts when `start` values were consumed."""
  kind, v = c
  if kind == "const":
    return F(v)
  if kind == "hub":
    return [F(t) for t in v[0][:count]]         # every copy of a hub starts at the hub's first value
  return seq_of(c, start + count)[start:]


def run_again(c):
  b, a = c["shape"]
  x1, x2 = c["x1"], c["x2"]
  route = c["route"]
  if all(cc[0] == "const" for cc in b + a):
    b = [("periodic", [Q(1), Q(-2)])] + list(b[1:])
  if route == "expr":
    # through Stream * z**-k a hub is consumed when the expression is built: it then is an ordinary stream
    unhub = lambda cc: ("seq", list(cc[1][0])) if cc[0] == "hub" else cc
    b, a = [unhub(cc) for cc in b], [unhub(cc) for cc in a]
  bt = Built()
  filt = build_filter(b, a, route, bt)
  if c["hashed"]:
    hash(filt)
  what = "filter b=%r a=%r route=%s" % (b, a, route)
  state = poly_state(filt)
  labels = ["route:" + route]
  outs = []
  with warnings.catch_warnings(record=True):
    warnings.simplefilter("always")
    for call, (x, mem) in enumerate([(x1, None), (x2, c["mem2"])]):
      start = 0 if call == 0 else len(x1)
      if mem is not None:
        mem = mem[:len(a) - 1]
      before = [s.reads for s, kind, l in bt.srcs]
      try:
        out = filt(list(x), zero=ZERO) if mem is None else filt(list(x), zero=ZERO, memory=list(mem))
      except Exception as e:
        raise Violation("%s: call %d of the same filter raised %s: %s" % (what, call + 1, type(e).__name__, e))
      if not same_polys(state, poly_state(filt)):
        raise Violation("%s: call %d changed the filter itself: %r / %r before, %r / %r after"
                        % ((what, call + 1) + tuple(state) + tuple(poly_state(filt))))
      if [s.reads for s, kind, l in bt.srcs] != before:
        raise Violation("%s: call %d itself read coefficient values" % (what, call + 1))
      got = []
      it = iter(out)
      while True:
        for cs, vals in bt.controls:
          cs.value = vals[start + len(got)]
        try:
          got.append(next(it))
        except StopIteration:
          break
        if len(got) > len(x):
          raise Violation("%s: call %d gave more outputs than inputs" % (what, call + 1))
        for (s, kind, l), r0 in zip(bt.srcs, before):
          # a hub's source is read when the first of its copies needs a value; later copies replay it
          want = max(r0, len(got)) if kind == "hub" else r0 + len(got)
          if s.reads != want:
            raise Violation("%s: call %d, after %d output(s) a %s coefficient source had been read %d times, expected %d"
                            % (what, call + 1, len(got), kind, s.reads, want))
      N = {k: vals_from(cc, start, len(x) + 2) for k, cc in enumerate(b)}
      D = {k: vals_from(cc, start, len(x) + 2) for k, cc in enumerate(a)}
      exp = diffeq_ref(nonzero(N), nonzero(D), x, ZERO, mem)
      if len(got) != len(exp):
        raise Violation("%s: call %d gave %d outputs, expected %d" % (what, call + 1, len(got), len(exp)))
      for n, (g, e) in enumerate(zip(got, exp)):
        if not (g == e):
          raise Violation("%s: call %d (coefficient streams at position %d): y[%d] = %r, expected %r; full %r vs %r"
                          % (what, call + 1, start, n, g, e, got, exp))
      if not same_polys(state, poly_state(filt)):
        raise Violation("%s: using the output of call %d changed the filter itself: %r / %r before, %r / %r after"
                        % ((what, call + 1) + tuple(state) + tuple(poly_state(filt))))
      if call == 1 and len(got) < len(x):
        labels.append("coefficient stream ends in the second call")
      outs.append(got)
      del out, it
      gc.collect()
    del filt, state
    gc.collect()
  kinds = [cc[0] for cc in b + a]
  labels += ["again:" + k for k in sorted(set(kinds)) if k != "const"]
  if a[0][0] != "const":
    labels.append("a0 stream")
    if len(a) > 1:
      labels.append("a0 stream with feedback")
  if c["mem2"] is not None and len(a) > 1:
    labels.append("memory given to the second call")
  return {"nontrivial": len(outs[1]) >= 3 and (any(cc[0] != "const" for cc in a) or len([k for k in kinds if k != "const"]) >= 2),
          "labels": labels}


CLAUSES = [
  Clause("single", strat_single, run_single, quick=1500, thorough=30000,
         floors={"a0 stream": .2, "stream in feedback": .2, "coefficient stream ends first": .05,
                 "periodic": .1, "no numerator term": .05, "memory given": .1, "control stream": .1,
                 "non-zero zero value": .1, "non-zero zero value, a0 stream": .04,
                 "native stream": .06, "native stream ends first": .03,
                 "only native streams, one ends first, constant a0": .008},
         doc="y[n] uses every coefficient stream's n-th value; ends with the shortest; one read per output"),
  Clause("constant_stream", strat_const, run_const, quick=500, thorough=8000,
         doc="a constant Stream coefficient behaves like the constant"),
  Clause("algebra", strat_algebra, run_algebra, quick=1200, thorough=25000,
         floors={"op:add_iir": .015, "op:shared_square": .015, "op:mul": .015, "op:hub_reuse": .04,
                 "op:copy": .015, "null left operand": .004, "control stream": .1, "op:mul_common": .03},
         doc="sum / difference / product / scaling / delay act on coefficient sequences element by element; tee accounting"),
  Clause("algebra2", lambda tier: strat_algebra(tier, OPS2), run_algebra, quick=800, thorough=10000,
         floors={"op:pow": .1, "pow >= 3": .08, "pow negative": .025, "pow of a one-term stream polynomial": .03,
                 "pow >= 3, stream in denominator": .035, "op:operand": .1, "stream operand": .07,
                 "stream operand on a filter with feedback": .025, "op:div": .06, "div:common": .03,
                 "op:add_twin": .05, "twin: stream denominators": .04, "twin: ControlStreams placed directly": .008},
         doc="powers (p-fold products, also of the inverted filter), Stream / number operands on either side, quotients of two filters, sums of filters with look-alike denominators"),
  Clause("again", strat_again, run_again, quick=600, thorough=6000,
         floors={"a0 stream with feedback": .1, "again:hub": .03, "again:control": .08, "again:native": .08,
                 "again:periodic": .1, "coefficient stream ends in the second call": .1,
                 "memory given to the second call": .025},
         doc="a filter called twice: the second call follows the coefficient streams from where they are; the filter is unchanged by a call"),
]
