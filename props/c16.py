"""C16 - The mixer starts each event at its cumulative time and sums what
plays; a ControlStream yields the value most recently assigned to it.

Cases are histories of plain-data steps (add / rejected add / consume) that are
interpreted against (real Streamix, MixerRef).  MixerRef is written from the
property text: T_i = d_0 + ... + d_i exactly, start sample = nearest sample to
T_i but not before the moment of the addition, out[n] = zero + items due at n.
"""
import math
from fractions import Fraction
from hypothesis import strategies as st
from vlib.core import Clause, Enumerated, Violation, Reject
from vlib.q import Q

from audiolazy import Streamix, ControlStream, Stream, thub, z, Poly, window

ID = "C16"
RULE = ("cases = mixer histories (keep, zero value, then steps add(delta, data) / "
        "add(negative delta) / next*k / take(k) / for-loop, finally a drain to the end) and "
        "ControlStream histories (assignments interleaved with reads of the stream itself "
        "and of an expression built on it) drawn by Hypothesis, long runs of equal "
        "fractional deltas (drift), mixes of three and more tagged events under zero values whose "
        "+ is exact but not commutative (tuples, strings, integer affine maps), and an exhaustive "
        "grid of two-/three-event mixes; event data of every iterable kind (list, tuple, iterator, generator, "
        "__getitem__-only sequence, plain and mapped Stream, a finite Streamix of its own, user Stream "
        "subclasses whose __iter__ transforms / skips / replaces what they store, tee hubs from thub - one "
        "hub added once, twice or three times, further uses of it kept outside the mixer and read before or "
        "after the mix; a source that can be opened only once; iterators that have an == of their own: "
        "value equality, a Stream subclass that is its own iterator); one add() in three is first tried "
        "with a negative delta (refused) and then made, up to two samples later, with the same event object; "
        "ControlStream values of every kind (numbers, None, strings, tuples, types, "
        "functions, bound methods, callable objects such as filters and polynomials, objects without a useful "
        "==; objects compared by identity; runs of assignments of values that compare equal but differ in sign of "
        "zero, type or identity), read directly or through expressions that box, pair or call them, with a "
        "second ControlStream alive that has assignments of its own; "
        "oracle = MixerRef (exact cumulative times, nearest-sample start not before the "
        "addition, per-sample sum taken in the order the events start - ties in the order they "
        "were added -, end rule) compared sample by sample in exact arithmetic; "
        "non-trivial = two events overlap in time or an event is added late (mixer), an "
        "assignment lies between two reads (ControlStream); distinct = distinct case hash")
ASSUMPTIONS = [
  "sample values and Q deltas are exact rationals (vlib.q.Q), so 'no drift' is an equality",
  "float deltas are dyadic (history clause) or chosen so that no start time lies within 1e-6 of a half-sample tie (drift clause); the expected start uses the exact sum of the doubles",
  "an exact half-sample tie T = k + 1/2 starts at sample k (the anchored mechanism: count starts at 0.5 and an event starts while count >= delta)",
  "the mixer is read with next()/for/take(k <= what is left): short take() is property C03's subject",
  "peek()/copy() of a mixer or ControlStream are not used (they buffer samples by design)",
  "event data are finite iterables whose items support + with the zero value",
  "'the zero value plus the items due at n of every event i': for a + that is not commutative the items are added to the zero value from the left to the right in the order of the start times T_i (non-decreasing in i, so this is the order of addition)",
  "after the mixer has ended (keep off) it stays ended, whatever is added later",
  "an event's items are what iter(data) delivers at the time of the add(): for a StreamTeeHub that is one of its copies per add() (every copy is the whole data, whatever the other copies do), for a Stream subclass that defines __iter__ it is that iteration",
  "a ControlStream value that is an object (type, function, callable or opaque object) must come back as the very same object; data values are compared by type and ==",
  "a refused add() (negative delta) leaves no trace, neither in the mixer nor in the event that was offered: iter(data) belongs to the accepted add(), so the same object can be added afterwards with the delta that was meant and plays all its items (a tee hub still has every copy, a once-only source is still unopened)",
  "the events of a mixer are told apart by identity: an event whose iterator has an == of its own (value equality, or the elementwise == of a Stream subclass that is its own iterator) is an iterable like any other",
  "the value most recently assigned to a ControlStream includes the sign of a float zero, the type (1, 1.0, True) and, for objects, the identity, whether or not it compares equal to the value it replaces; two ControlStream objects are independent of each other",
]

CAP = 4000   # hard bound on samples pulled in one case


# --------------------------------------------------------------------------
# value systems: scalars (int / float / Q / str / tuple), a mutable vector type and a
# non-commutative exact type (integer affine maps under composition)
# --------------------------------------------------------------------------
class Vec(object):
  """Array-like sample: ``+`` builds a new object, ``+=`` works in place
  (the behaviour of numpy arrays, which are the usual multi-channel zero)."""

  def __init__(self, items):
    self.items = list(items)

  def __add__(self, other):
    if not isinstance(other, Vec):
      return NotImplemented
    return Vec([a + b for a, b in zip(self.items, other.items)])

  __radd__ = __add__

  def __iadd__(self, other):
    if not isinstance(other, Vec):
      return NotImplemented
    for i, b in enumerate(other.items):
      self.items[i] = self.items[i] + b
    return self

  def __repr__(self):
    return "Vec(%r)" % (self.items,)


def same1(x, y):
  return (x is y) or (type(x) is type(y) and x == y)


class Scalars(object):
  name = "scalar"

  @staticmethod
  def real(v):
    return v

  @staticmethod
  def plus(a, b):
    return a + b

  @staticmethod
  def eq(realv, modelv):
    # str / tuple "samples": + is not commutative.  The statement fixes the sum: the zero value
    # plus the item of every event i whose start time T_i has been reached, and T_i is
    # non-decreasing in i, so the items are added in the order the events start (= the order of
    # addition, which also breaks the ties of equal start samples): compared exactly.
    return same1(realv, modelv)


class Vectors(object):
  name = "vector"

  @staticmethod
  def real(v):
    return Vec(v)

  @staticmethod
  def plus(a, b):
    return tuple(x + y for x, y in zip(a, b))

  @staticmethod
  def eq(realv, modelv):
    return (isinstance(realv, Vec) and len(realv.items) == len(modelv)
            and all(same1(x, y) for x, y in zip(realv.items, modelv)))


class Aff(object):
  """Exact sample type whose ``+`` is associative but NOT commutative: the affine map
  x -> a*x + b over the integers, ``f + g`` being the composition f(g(x)).  (No __radd__,
  no __iadd__: the zero value of such a mixer is an Aff as well.)"""

  def __init__(self, a, b):
    self.a, self.b = a, b

  def __add__(self, other):
    if not isinstance(other, Aff):
      return NotImplemented
    return Aff(self.a * other.a, self.a * other.b + self.b)

  def __repr__(self):
    return "Aff(%r, %r)" % (self.a, self.b)


class Affine(object):
  name = "affine"

  @staticmethod
  def real(v):
    return Aff(v[0], v[1])

  @staticmethod
  def plus(a, b):
    return (a[0] * b[0], a[0] * b[1] + a[1])

  @staticmethod
  def eq(realv, modelv):
    return (isinstance(realv, Aff) and type(realv.a) is int and type(realv.b) is int
            and (realv.a, realv.b) == tuple(modelv))


_VS = {"vector": Vectors, "affine": Affine}


# --------------------------------------------------------------------------
# reference model
# --------------------------------------------------------------------------
def nearest_sample(t):
  """Nearest sample index to time t >= 0; an exact half goes to the earlier one."""
  return max(int(math.ceil(t - Fraction(1, 2))), 0)


class MixerRef(object):
  def __init__(self, keep, zero, vs):
    self.keep = keep
    self.zero = zero
    self.vs = vs
    self.t = Fraction(0)      # cumulative time of the last accepted event
    self.events = []          # (start sample, [items])
    self.pos = 0              # samples delivered so far
    self.ended = False
    self.late = 0
    self.ties = 0

  def add(self, delta, items):
    if self.ended:
      return
    self.t += Fraction(delta)
    nominal = nearest_sample(self.t)
    if (self.t - Fraction(1, 2)).denominator == 1:
      self.ties += 1
    start = max(nominal, self.pos)
    if self.events:
      start = max(start, self.events[-1][0])
    if start > nominal:
      self.late += 1
    self.events.append((start, list(items)))

  def length(self):
    return max([s + len(d) for s, d in self.events] or [0])

  def left(self):
    if self.ended:
      return 0
    return float("inf") if self.keep else max(self.length() - self.pos, 0)

  def value_at(self, n):
    v = self.zero
    for s, d in self.events:
      if 0 <= n - s < len(d):
        v = self.vs.plus(v, d[n - s])
    return v

  def playing_at(self, n):
    return sum(1 for s, d in self.events if 0 <= n - s < len(d))

  def next(self):
    """('item', v) or ('stop',)"""
    if self.ended or (not self.keep and self.pos >= self.length()):
      self.ended = True
      return ("stop",)
    v = self.value_at(self.pos)
    self.pos += 1
    return ("item", v)


class GetItemOnly(object):
  """Iterable through the old sequence protocol only (__getitem__ from 0 until IndexError)."""

  def __init__(self, items):
    self.items = list(items)

  def __getitem__(self, idx):
    return self.items[idx]


class UnboxStream(Stream):
  """User Stream subclass whose iteration transforms what it stores: the constructor is given
  one-item lists, the stream's items are their contents."""

  def __iter__(self):
    for el in self._data:
      yield el[0]


class SkipHeadStream(Stream):
  """User Stream subclass whose iteration leaves out a header record kept in front of the items."""

  def __iter__(self):
    first = True
    for el in self._data:
      if first:
        first = False
        continue
      yield el


class LiveStream(Stream):
  """User Stream subclass that is iterated from an attribute which the program may replace (the
  ChangeableStream of examples/keyboard.py); what the base constructor was given is a stub."""

  def __init__(self, items):
    super(LiveStream, self).__init__([])
    self.live = list(items)

  def __iter__(self):
    for el in self.live:
      yield el


class _Header(object):
  """Not a sample: supports no +."""


class OneShot(object):
  """Iterable that can be opened once (a recorded take, a socket): __iter__ hands the items out and
  keeps nothing, a second iter() finds it empty."""

  def __init__(self, items):
    self.items = list(items)

  def __iter__(self):
    items, self.items = self.items, []
    return iter(items)


class SelfIterStream(Stream):
  """User Stream subclass that is its own iterator (__iter__ returns self, the items come from
  __next__).  Being a Stream, its == is the elementwise operator: it gives a Stream, not a bool."""

  def __init__(self, items):
    super(SelfIterStream, self).__init__([])
    self.pending = list(items)

  def __iter__(self):
    return self

  def __next__(self):
    if not self.pending:
      raise StopIteration
    return self.pending.pop(0)

  next = __next__


class EqIter(object):
  """Iterator with value equality: two of them compare equal whatever they still hold (what a
  dataclass / namedtuple based note object does when its position is not part of the comparison)."""

  def __init__(self, items):
    self.pending = list(items)

  def __iter__(self):
    return self

  def __next__(self):
    if not self.pending:
      raise StopIteration
    return self.pending.pop(0)

  next = __next__

  def __eq__(self, other):
    return isinstance(other, EqIter)

  def __ne__(self, other):
    return not isinstance(other, EqIter)

  __hash__ = None


def _neutral(x):
  """Neutral element of + for the real item x, of x's own type."""
  if isinstance(x, Vec):
    return Vec([_neutral(i) for i in x.items])
  if isinstance(x, Aff):
    return Aff(1, 0)
  if isinstance(x, Q):
    return Q(0)
  return type(x)()            # int 0, float 0.0, str "", tuple ()


def _nested_mixer(xs):
  """A finite Streamix of its own that plays exactly the items xs (two events back to back)."""
  xs = list(xs)
  inner = Streamix(zero=_neutral(xs[0])) if xs else Streamix()
  h = len(xs) // 2
  inner.add(0, xs[:h])
  inner.add(h, iter(xs[h:]))
  return inner


_DATA_KINDS = {
  "list": lambda xs: list(xs),
  "tuple": lambda xs: tuple(xs),
  "iter": lambda xs: iter(list(xs)),
  "gen": lambda xs: (x for x in list(xs)),
  "stream": lambda xs: Stream(list(xs)),
  "mapped": lambda xs: Stream(list(xs)).map(lambda v: v),
  "getitem": lambda xs: GetItemOnly(xs),
  "thub1": lambda xs: thub(list(xs), 1),
  "sub_unbox": lambda xs: UnboxStream([[x] for x in xs]),
  "sub_skip": lambda xs: SkipHeadStream([_Header()] + list(xs)),
  "sub_live": lambda xs: LiveStream(xs),
  "mix": _nested_mixer,
  "oneshot": lambda xs: OneShot(xs),
  "sub_self": lambda xs: SelfIterStream(xs),
  "eq_iter": lambda xs: EqIter(xs),
}
_OWN_ITER = ("thub1", "sub_unbox", "sub_skip", "sub_live", "sub_self")     # Stream subclasses with their own __iter__
_ONE_TIME = ("thub1", "hub", "oneshot")     # iter(data) hands out something that cannot be had twice
_OWN_EQ = ("sub_self", "eq_iter")           # the event's iterator has an == that is not identity
SITE_VEC = "Streamix zero with in-place +="
SITE_EQ = "Streamix prunes finished events with == instead of identity"


def _has_own_eq(case):
  return any(stp[0] == "add" and stp[3] in _OWN_EQ for stp in case["steps"])


def run_mixer(case):
  try:
    return _run_mixer(case)
  except (Violation, Reject):
    raise
  except Exception as exc:
    if _has_own_eq(case):      # same report, but under the site of this class of events
      raise Violation("unexpected %s: %s || keep=%r zero=%r steps=%r"
                      % (type(exc).__name__, str(exc)[:200], case["keep"], case["zero"], case["steps"]),
                      site=SITE_EQ)
    raise


def _run_mixer(case):
  vs = _VS.get(case.get("vs"), Scalars)
  keep = case["keep"]
  zero_m = case["zero"]
  zero_r = vs.real(zero_m)
  site = SITE_EQ if _has_own_eq(case) else SITE_VEC if vs is Vectors else None
  default_zero = False
  if case.get("ctor") == "kw":
    mix = Streamix(keep=keep, zero=zero_r)
  elif case.get("ctor") == "pos":
    mix = Streamix(keep, zero_r)
  elif isinstance(zero_r, float) and zero_r == 0 and math.copysign(1, zero_r) > 0:
    mix = Streamix(keep) if keep else Streamix()      # documented default zero = 0.0
    default_zero = True
  else:
    mix = Streamix(zero=zero_r) if not keep else Streamix(True, zero=zero_r)
  ref = MixerRef(keep, zero_m, vs)
  it = iter(mix)
  labels = set(["keep" if keep else "no keep", "values:" + vs.name])
  if default_zero:
    labels.add("default zero")
  pulled = [0]
  overlap = [False]
  hist = []

  def fail(msg):
    raise Violation("%s || keep=%r zero=%r history: %s" % (msg, keep, zero_m, " ; ".join(hist[-12:])),
                    site=site)

  def check_item(got, tag):
    n = ref.pos
    if ref.playing_at(n) >= 2:
      overlap[0] = True
    exp = ref.next()
    if exp[0] == "stop":
      fail("%s: sample %d delivered (%r) but the model has ended (length %d)"
           % (tag, n, got, ref.length()))
    if not vs.eq(got, exp[1]):
      fail("%s: sample %d is %r, model says %r (events as (start, data): %r)"
           % (tag, n, got, exp[1], ref.events))

  def pull_one(tag):
    """One next(); True if an item came."""
    pulled[0] += 1
    if pulled[0] > CAP:
      fail("more than %d samples pulled" % CAP)
    try:
      got = next(it)
    except StopIteration:
      n = ref.pos
      exp = ref.next()
      if exp[0] != "stop":
        fail("%s: the mixer ended before sample %d, model says %r comes (length %s)"
             % (tag, n, exp[1], "endless" if keep else ref.length()))
      labels.add("ended")
      return False
    check_item(got, tag)
    return True

  def do_add(delta, data, payload, kind, refusal=None):
    if refusal is not None:
      # the event is first offered with a negative delta: refused, and a refused add() leaves no trace,
      # neither in the mixer nor in the event that was offered; after k more samples the very same
      # object is added with the delta that was meant
      negd, k = refusal
      hist.append("(that event is first offered as add(%r, ..)! ; next*%d)" % (negd, k))
      try:
        mix.add(negd, payload)
      except ValueError:
        labels.add("negative delta")
      else:
        fail("add(%r, ..) was accepted" % (negd,))
      for _ in range(k):
        pull_one("next after a refused add")
    was_ended = ref.ended
    late0, ties0 = ref.late, ref.ties
    if refusal is None:
      mix.add(delta, payload)
    else:
      try:
        mix.add(delta, payload)
      except Exception as exc:
        fail("add(%r, ev) of the event that add(%r, ev) had refused raised %s: %s"
             % (delta, refusal[0], type(exc).__name__, str(exc)[:120]))
      labels.add("refused event added again")
      if kind in _ONE_TIME and data and not was_ended:
        labels.add("refused one-time event added again")
    ref.add(delta, data)
    if was_ended:
      labels.add("add after the end")
    else:
      if ref.late > late0:
        labels.add("late add")
      if ref.ties > ties0 and delta != 0:
        labels.add("fractional tie")
      if not data:
        labels.add("empty event")
      labels.add("delta:" + ("zero" if delta == 0 else type(delta).__name__))
      labels.add("data:" + kind)
      if data and (kind in _OWN_ITER or kind == "hub"):
        labels.add("event is a Stream subclass with its own __iter__")
      if data and kind in _OWN_EQ:
        labels.add("event iterator has an == of its own")

  def same_items(got, data):
    return len(got) == len(data) and all(vs.eq(g, e) for g, e in zip(got, data))

  hubs = []     # every tee hub of the case: dict(hub, data, left = planned uses not yet made, outside iterator)

  for stp in case["steps"]:
    op = stp[0]
    if op == "add":
      delta, data, kind = stp[1], stp[2], stp[3]
      hist.append("add(%r, %s%r)@%d" % (delta, kind, data, ref.pos))
      do_add(delta, data, _DATA_KINDS[kind]([vs.real(x) for x in data]), kind,
             stp[4] if len(stp) > 4 else None)
    elif op == "add_hub":
      # an event that is a StreamTeeHub: every use of the hub - an add() to this mixer, or a use
      # outside of it - is one independent copy of the data
      delta, data, uses, outside, delta2 = stp[1], stp[2], stp[3], stp[4], stp[5]
      if delta2 is not None:
        uses = max(uses, 2)
      hist.append("add(%r, hub%d%s%r)@%d" % (delta, uses, "+" + outside if outside else "", data, ref.pos))
      hub = thub([vs.real(x) for x in data], uses + (1 if outside else 0))
      rec = dict(hub=hub, data=data, left=uses, other=None)
      hubs.append(rec)
      if outside == "before":          # the other user reads its copy to the end first
        got = list(hub)
        if not same_items(got, data):
          fail("a copy of thub(%r) read outside the mixer gave %r" % (data, got))
      elif outside == "early":
        rec["other"] = iter(hub)
      do_add(delta, data, hub, "hub", stp[6] if len(stp) > 6 else None)
      rec["left"] -= 1
      if outside == "late":
        rec["other"] = iter(hub)
      if outside:
        labels.add("hub also used outside the mixer")
      if delta2 is not None:
        hist.append("add(%r, the same hub)@%d" % (delta2, ref.pos))
        do_add(delta2, data, hub, "hub")
        rec["left"] -= 1
        if data and not ref.ended:
          labels.add("same hub added twice")
    elif op == "add_again":
      # the most recent hub that has a planned use left is added once more (an echo)
      delta = stp[1]
      rec = ([r for r in hubs if r["left"] > 0] or [None])[-1]
      if rec is None:
        hist.append("(no hub to add again)")
        continue
      hist.append("add(%r, hub %r again)@%d" % (delta, rec["data"], ref.pos))
      do_add(delta, rec["data"], rec["hub"], "hub", stp[2] if len(stp) > 2 else None)
      rec["left"] -= 1
      if rec["data"] and not ref.ended:
        labels.add("same hub added twice")
    elif op == "add_chain":
      # an event that, when it is exhausted, schedules the next event itself (an add() issued
      # from inside the mixer's own summation, as in a sequencer whose notes chain each other)
      delta, data, delta2, data2 = stp[1], stp[2], stp[3], stp[4]
      hist.append("add(%r, %r then add(%r, %r))@%d" % (delta, data, delta2, data2, ref.pos))
      if ref.ended:
        continue

      ref.add(delta, data)
      begin = ref.events[-1][0]

      def chained(items=[vs.real(x) for x in data], d2=delta2, items2=data2, moment=begin + len(data) + 1):
        for v in items:
          yield v
        # runs while the mixer computes sample begin+len, on which this event turns out to be
        # finished: the new event can start at the following sample at the earliest (the model's
        # own position may lag behind here, e.g. inside take(k), so the moment is computed)
        mix.add(d2, [vs.real(x) for x in items2])
        saved = ref.pos
        ref.pos = max(saved, moment)
        ref.add(d2, items2)
        ref.pos = saved
      mix.add(delta, chained())
      labels.add("re-entrant add")
    elif op == "setkeep":
      hist.append("keep=%r" % (stp[1],))
      mix.keep = stp[1]
      ref.keep = stp[1]
      keep = stp[1]
      labels.add("keep changed at run time")
    elif op == "neg":
      delta = stp[1]
      hist.append("add(%r)!" % (delta,))
      try:
        mix.add(delta, [vs.real(x) for x in stp[2]])
      except ValueError:
        labels.add("negative delta")
      else:
        fail("add(%r, ..) was accepted" % (delta,))
    elif op == "next":
      hist.append("next*%d" % stp[1])
      for _ in range(stp[1]):
        pull_one("next")
    elif op == "for":
      k = stp[1]
      hist.append("for*%d" % k)
      if k:
        cnt = 0
        stopped = True
        for got in mix:
          check_item(got, "for")
          cnt += 1
          if cnt == k:
            stopped = False
            break
        if stopped:
          n = ref.pos
          exp = ref.next()
          if exp[0] != "stop":
            fail("for: the mixer ended before sample %d, model says %r comes" % (n, exp[1]))
          labels.add("ended")
    elif op == "take":
      k = int(min(stp[1], ref.left()))
      hist.append("take(%d)" % k)
      got = mix.take(k)
      if not isinstance(got, list) or len(got) != k:
        fail("take(%d) returned %r" % (k, got))
      for g in got:
        check_item(g, "take")
    else:
      raise AssertionError(op)

  # drain to the end
  hist.append("drain")
  if keep:
    todo = max(ref.length() - ref.pos, 0) + 3
    for _ in range(todo):
      if not pull_one("drain"):
        break
  else:
    while pull_one("drain"):
      pass
    for _ in range(2):
      pull_one("after the end")
  if vs is Vectors and not vs.eq(zero_r, zero_m):
    fail("the zero value object was modified: now %r" % (zero_r,))
  # the uses of a hub that did not go to the mixer are whole: an event plays one copy of its data,
  # not the source underneath the copies
  for rec in hubs:
    if rec["other"] is not None:
      got = list(rec["other"])
      if not same_items(got, rec["data"]):
        fail("the copy of thub(%r) used outside the mixer gave %r after the mix" % (rec["data"], got))
    while rec["left"] > 0:
      rec["left"] -= 1
      got = list(rec["hub"])
      if not same_items(got, rec["data"]):
        fail("a copy of thub(%r) not handed to the mixer gave %r after the mix" % (rec["data"], got))
  if overlap[0]:
    labels.add("overlap")
  # the order of the sum is on show when + is order-sensitive and an event ends while two or
  # more events that started after it (or with it, but added later) go on playing
  ordered = vs is Affine or isinstance(zero_m, (str, tuple))
  if ordered:
    labels.add("order-sensitive +:" + type(zero_m if vs is Scalars else zero_r).__name__)
  for i, (s, d) in enumerate(ref.events):
    n = s + len(d)
    if n + 2 <= ref.pos and sum(1 for s2, d2 in ref.events[i + 1:] if s2 <= n and s2 + len(d2) >= n + 2) >= 2:
      labels.add("earlier event ends under two later ones")
      if ordered:
        labels.add("summation order observable")
      break
  if max([ref.playing_at(n) for n in range(min(ref.pos, CAP))] or [0]) >= 3:
    labels.add("three or more play at once")
  nontrivial = overlap[0] or ref.late > 0
  return {"nontrivial": nontrivial, "labels": sorted(labels)}


# --------------------------------------------------------------------------
# events sharing one source iterator
# --------------------------------------------------------------------------
def strat_shared(tier):
  return st.fixed_dictionaries(dict(
    n=st.integers(2, 14), deltas=st.lists(st.sampled_from([0, 1, 2, 3, Q(1, 2), Q(3, 2)]), min_size=2, max_size=4),
    kind=st.sampled_from(["stream", "iter", "gen"]), other=st.lists(st.integers(-3, 3), max_size=4),
    other_at=st.integers(0, 3)))


def run_shared(case):
  n, deltas = case["n"], case["deltas"]
  data = list(range(1, n + 1))
  src = {"stream": Stream, "iter": iter, "gen": lambda v: (t for t in v)}[case["kind"]](list(data))
  mix = Streamix(zero=0)
  t = Fraction(0)
  starts = []
  for i, d in enumerate(deltas):
    mix.add(d, src)                     # the very same object every time
    t += Fraction(d)
    starts.append(max(nearest_sample(t), starts[-1] if starts else 0))
  got = list(mix)
  # operational reference: at every sample each event that has started (in start order) draws the
  # next item of the shared source; an event that finds it exhausted is finished
  shared = iter(data)
  playing, pending, out, k = [], list(range(len(starts))), [], 0
  while True:
    while pending and starts[pending[0]] <= k:
      playing.append(pending.pop(0))
    v = 0
    done = []
    for ev in playing:
      try:
        v = v + next(shared)
      except StopIteration:
        done.append(ev)
    for ev in done:
      playing.remove(ev)
    if not playing and not pending:
      break
    out.append(v)
    k += 1
    if k > 200:
      raise Violation("reference mixer did not end")
  if got != out:
    raise Violation("events sharing one %s (items 1..%d) with deltas %r: mixer gives %r, expected %r"
                    % (case["kind"], n, deltas, got, out))
  overlap = any(starts[i + 1] < starts[i] + n for i in range(len(starts) - 1))
  return {"nontrivial": overlap and len(out) >= 3, "labels": ["source:" + case["kind"], "%d events" % len(deltas)]}


# --------------------------------------------------------------------------
# drift: long runs of equal fractional deltas, closed-form start times
# --------------------------------------------------------------------------
def run_drift(case):
  d0, d, n, keep = case["d0"], case["d"], case["n"], case["keep"]
  lens, split = case["lens"], case["split"]
  zero = Q(0)
  fd0, fd = Fraction(d0), Fraction(d)
  starts = []
  for i in range(n):
    t = fd0 + i * fd                 # closed form, no accumulation
    x = t - Fraction(1, 2)
    if isinstance(d, float) or isinstance(d0, float):
      if abs(x - round(x)) < Fraction(1, 10 ** 6):
        raise Reject("float delta too close to a half-sample tie")
    starts.append(max(int(math.ceil(x)), 0))
  datas = [[Q(i % 7 + 1)] * lens[i % len(lens)] for i in range(n)]
  total = max(s + len(dt) for s, dt in zip(starts, datas))
  exp = [zero] * total
  for s, dt in zip(starts, datas):
    for j, v in enumerate(dt):
      exp[s + j] = exp[s + j] + v
  mix = Streamix(keep=keep, zero=zero)
  it = iter(mix)
  got = []
  first = n if split is None else max(1, min(n - 1, split))
  for i in range(first):
    mix.add(d0 if i == 0 else d, list(datas[i]))
  if first < n:
    # consume up to (not including) the sample where the next event is due (so it
    # is not late), but not beyond the end of what was added so far (keep off)
    upto = starts[first]
    if not keep:
      upto = min(upto, max(s + len(dt) for s, dt in zip(starts[:first], datas[:first])))
    for _ in range(upto):
      got.append(next(it))
    for i in range(first, n):
      mix.add(d, iter(datas[i]))
  tail = 2 if keep else 0
  while len(got) < total + tail:
    try:
      got.append(next(it))
    except StopIteration:
      break
  ended = False
  if not keep:
    try:
      extra = next(it)
    except StopIteration:
      ended = True
    if not ended:
      raise Violation("drift: mixer still delivers (%r) after its %d samples (d0=%r d=%r n=%d)"
                      % (extra, total, d0, d, n))
  exp_all = exp + [zero] * tail
  if len(got) != len(exp_all):
    raise Violation("drift: %d samples delivered, model says %d (d0=%r d=%r n=%d)"
                    % (len(got), len(exp_all), d0, d, n))
  for k, (g, e) in enumerate(zip(got, exp_all)):
    if not same1(g, e):
      who = [i for i, s in enumerate(starts) if s <= k < s + len(datas[i])]
      raise Violation("drift: sample %d is %r, model says %r (d0=%r d=%r n=%d; events due "
                      "there: %r with starts %r)" % (k, g, e, d0, d, n, who, [starts[i] for i in who]))
  labels = ["drift run", "delta:" + type(d).__name__, "keep" if keep else "no keep"]
  if split is not None:
    labels.append("added in two batches")
  if any((fd0 + i * fd - Fraction(1, 2)).denominator == 1 for i in range(n)):
    labels.append("fractional tie")
  return {"nontrivial": True, "labels": labels}


# --------------------------------------------------------------------------
# ControlStream
# --------------------------------------------------------------------------
EXPRS = {
  "cs+data": (lambda cs, data: cs + data, lambda v, x: v + x),
  "data+cs": (lambda cs, data: data + cs, lambda v, x: x + v),
  "cs*data": (lambda cs, data: cs * data, lambda v, x: v * x),
  "data-cs": (lambda cs, data: data - cs, lambda v, x: x - v),
  "2*cs-data": (lambda cs, data: 2 * cs - data, lambda v, x: 2 * v - x),
  "neg": (lambda cs, data: -cs, lambda v, x: -v),
  "list+cs": (None, lambda v, x: x + v),     # finite list operand, see run_control
  # expressions that make sense for a control value of any kind
  "box": (lambda cs, data: cs.map(lambda v: (v,)), lambda v, x: (v,)),
  "pair": (lambda cs, data: Stream(zip(cs, data)), lambda v, x: (v, x)),
  # the control value selects what is applied to the data, sample by sample
  "call": (lambda cs, data: Stream(f(x) for f, x in zip(cs, data)), lambda v, x: v(x)),
}
_NUM_EXPRS = sorted(set(EXPRS) - set(["box", "pair", "call"]))


# control values that are objects rather than data: a case names them ("obj", name); they are
# compared by identity.  Most of them happen to be callable.
def _fn0():
  return 42


def _fn1(x):
  return (x, "fn1")


def _genfunc():
  yield 1


class _Call0(object):
  def __call__(self):
    return "called"


class _Call1(object):
  def __call__(self, x):
    return [x]


class _Plain(object):
  pass


class _EqAll(object):
  """An object whose == says yes to everything (hashed by identity)."""

  def __eq__(self, other):
    return True

  def __ne__(self, other):
    return False

  __hash__ = object.__hash__


_CS_OBJ = {
  # types
  "int": int, "float": float, "str": str, "tuple": tuple, "type": type, "Q": Q, "Fraction": Fraction,
  "ValueError": ValueError, "Stream": Stream, "ControlStream": ControlStream, "Plain": _Plain,
  # functions
  "fn0": _fn0, "fn1": _fn1, "lambda0": (lambda: 0), "lambda1": (lambda x: -x), "genfunc": _genfunc,
  "abs": abs, "len": len, "hann": window.hann, "bound0": [3, 1, 2].copy, "bound1": "abc".count,
  # callable objects
  "call0": _Call0(), "call1": _Call1(), "zfilter": 1 - z ** -1, "zfilter2": 1 / (1 - .5 * z ** -1),
  "poly": Poly({0: 1, 2: 3}), "window": window,
  # objects that are not callable and have no useful ==
  "object": object(), "plain": _Plain(), "list": [1, 2], "dict": {}, "stream": Stream([1, 2]),
  "gen": _genfunc(), "nan": float("nan"),
  # twins: distinct objects that compare equal (the program may go on to change one of them)
  "list2": [1, 2], "dict2": {}, "empty": [], "empty2": [], "eqall": _EqAll(), "eqall2": _EqAll(),
}
_CS_IDS = dict((id(v), k) for k, v in _CS_OBJ.items())
_CS_ONEARG = ["int", "float", "str", "Q", "Fraction", "fn1", "lambda1", "abs", "call1"]


def _cs_kind(v):
  if id(v) not in _CS_IDS:
    return None
  if isinstance(v, type):
    return "type"
  if not callable(v):
    return "opaque object"
  return "function" if type(v).__name__ in ("function", "builtin_function_or_method", "method") \
    else "callable object"


def _cs_real(v):
  if type(v) is tuple and len(v) == 2 and v[0] == "obj":
    return _CS_OBJ[v[1]]
  return v


def samev(got, exp):
  """The value read is the value assigned: identity for objects, type and == for data."""
  if got is exp:
    return True
  if id(exp) in _CS_IDS:
    return False
  if type(exp) is tuple:
    return type(got) is tuple and len(got) == len(exp) and all(samev(a, b) for a, b in zip(got, exp))
  if type(got) is not type(exp) or not bool(got == exp):
    return False
  if type(exp) is float and exp == 0:          # the two zeros of a float are different values
    return math.copysign(1, got) == math.copysign(1, exp)
  return True


def _twin(new, cur):
  """new is another value than cur, though == says they are equal."""
  if new is cur:
    return False
  try:
    if not bool(new == cur):
      return False
  except Exception:
    return False
  return not samev(new, cur) or id(new) in _CS_IDS


_BYSTANDER = "bystander"     # values of the second ControlStream: (_BYSTANDER, n)


def run_control(case):
  cur = _cs_real(case["init"])
  by = case.get("by")
  # a second ControlStream that lives next to the one under test (made before or after it) and has
  # assignments of its own: each of the two yields the value most recently assigned to *it*
  bycur = (_BYSTANDER, 0)
  other = ControlStream(bycur) if by is not None and by % 2 == 0 else None
  cs = ControlStream(cur)
  if by is not None and by % 2 == 1:
    other = ControlStream(bycur)
  expr = case["expr"]
  res = None
  period = list(case["data"])
  j = 0                      # samples of ``res`` delivered so far
  if expr is not None:
    build, g = EXPRS[expr]
    if expr == "list+cs":
      finite = [period[i % len(period)] for i in range(400)]
      res = finite + cs
    else:
      res = build(cs, Stream(*period) if len(period) > 1 else Stream(period[0]))
    if not isinstance(res, Stream):
      raise Violation("expression %s on a ControlStream gave %r" % (expr, res))
  labels = set(["expr:" + str(expr)])
  if other is not None:
    labels.add("second ControlStream alive")
  twin_pending = False
  assigned_since_read = False
  reads = 0
  nontrivial = False
  hist = []

  def fail(msg):
    raise Violation("%s || init=%r expr=%s history: %s" % (msg, case["init"], expr, " ; ".join(hist[-12:])))

  for stp in case["steps"]:
    op = stp[0]
    if op == "set":
      new = _cs_real(stp[1])
      twin_pending = _twin(new, cur) or (twin_pending and new is cur)
      cur = new
      cs.value = cur
      hist.append("value=%r" % (stp[1],))
      assigned_since_read = True
      if other is not None and by >= 2:
        bycur = (_BYSTANDER, bycur[1] + 1)
        other.value = bycur
        hist.append("other.value=%r" % (bycur,))
      continue
    how, k = stp[1], stp[2]
    target = res if (op == "eread" and res is not None) else cs
    hist.append("%s:%s*%d" % ("expr" if target is res else "cs", how, k))
    if how == "take":
      got = target.take(k)
    elif how == "take1":
      got = [target.take() for _ in range(k)]
    elif how == "next":
      it = iter(target)
      got = [next(it) for _ in range(k)]
    else:
      got = []
      if k:
        for v in target:
          got.append(v)
          if len(got) == k:
            break
    if target is res:
      exp = [g(cur, period[(j + i) % len(period)]) for i in range(k)]
      j += k
    else:
      exp = [cur] * k
    if not (isinstance(got, list) and len(got) == len(exp)
            and all(samev(a, b) for a, b in zip(got, exp))):
      fail("read gave %r, the value most recently assigned is %r (expected %r)" % (got, cur, exp))
    if other is not None:
      got = other.take(1)
      if got != [bycur]:
        fail("a second ControlStream, whose most recent assignment is %r, gave %r" % (bycur, got))
    if k:
      if twin_pending:
        labels.add("equal but different value assigned, then read")
        twin_pending = False
      if _cs_kind(cur):
        labels.add("value read:" + _cs_kind(cur))
        if callable(cur):
          labels.add("callable value read")
      if assigned_since_read and reads:
        nontrivial = True
        labels.add("assignment between reads")
      assigned_since_read = False
      reads += 1
      labels.add("read:" + how)
  if not samev(cs.value, cur):
    fail("cs.value is %r at the end" % (cs.value,))
  if other is not None and (other.value != bycur or other.take(2) != [bycur] * 2):
    fail("a second ControlStream, whose most recent assignment is %r, has the value %r at the end"
         % (bycur, other.value))
  # what was derived from the ControlStream keeps yielding the last assigned value after the
  # program drops its own reference to the ControlStream object
  import gc
  derived = iter(res) if res is not None else iter(cs)
  cs = target = res = None
  gc.collect()
  try:
    tail = [next(derived) for _ in range(3)]
  except StopIteration:
    fail("the stream derived from the ControlStream ended once the ControlStream object itself was released")
  exp = [g(cur, period[(j + i) % len(period)]) for i in range(3)] if expr is not None else [cur] * 3
  if not all(samev(a, b) for a, b in zip(tail, exp)):
    fail("after the ControlStream object was released the derived stream gave %r, expected %r" % (tail, exp))
  labels.add("owner released")
  return {"nontrivial": nontrivial, "labels": sorted(labels)}


# --------------------------------------------------------------------------
# strategies
# --------------------------------------------------------------------------
_q = lambda lo, hi, den: st.fractions(min_value=lo, max_value=hi, max_denominator=den).map(Q)
_val_q = st.one_of(st.integers(-4, 4).map(Q), _q(-3, 3, 5))
_val_int = st.integers(-9, 9)

_delta_q = st.one_of(
  st.just(0), st.just(Q(0)), st.integers(0, 4), st.integers(1, 3).map(Q),
  _q(0, 4, 7), _q(0, 4, 7),
  st.integers(0, 7).map(lambda k: Q(2 * k + 1, 2)),        # exact ties x.5
  st.sampled_from([Q(1, 2), Q(1, 3), Q(2, 3), Q(1, 7), Q(6, 7), Q(5, 2)]))
_delta_float = st.one_of(
  st.just(0.), st.integers(0, 4).map(float),
  st.integers(0, 32).map(lambda k: k / 8.),                # dyadic: exact in binary
  st.sampled_from([.5, 1.5, 2.5, .25, .75, 1.125]))
_delta_int = st.integers(0, 5)
_neg_delta = st.one_of(st.integers(-3, -1), _q(-3, Fraction(-1, 7), 7), st.sampled_from([-.5, -1e-9, -2.]))
_kinds = st.sampled_from(sorted(_DATA_KINDS))
_outside = st.sampled_from([None, None, "before", "early", "late"])
# one add() in three is first tried with a negative delta (refused), then - k samples later - made
# with the delta that was meant, for the same event object
_refusal = st.tuples(st.integers(0, 2), _neg_delta, st.integers(0, 2)).map(
  lambda t: None if t[0] else (t[1], t[2]))


def _steps(delta, val, maxlen, maxdata):
  add = st.tuples(st.just("add"), delta, st.lists(val, max_size=maxdata), _kinds, _refusal)
  neg = st.tuples(st.just("neg"), _neg_delta, st.lists(val, max_size=2))
  nxt = st.tuples(st.just("next"), st.integers(1, 4))
  loop = st.tuples(st.just("for"), st.integers(0, 4))
  take = st.tuples(st.just("take"), st.integers(0, 5))
  chain = st.tuples(st.just("add_chain"), delta, st.lists(val, max_size=maxdata), delta,
                    st.lists(val, min_size=1, max_size=maxdata))
  setkeep = st.tuples(st.just("setkeep"), st.booleans())
  hub = st.tuples(st.just("add_hub"), delta, st.lists(val, max_size=maxdata), st.integers(1, 3), _outside,
                  st.one_of(st.none(), delta), _refusal)
  again = st.tuples(st.just("add_again"), delta, _refusal)
  table = {"add": add, "neg": neg, "next": nxt, "for": loop, "take": take, "add_chain": chain,
           "setkeep": setkeep, "add_hub": hub, "add_again": again}
  # (one_of() would merge repeated alternatives, so the weights go through sampled_from)
  names = (["add"] * 7 + ["next"] * 2 + ["for", "take", "neg", "add_chain", "setkeep"]
           + ["add_hub"] * 2 + ["add_again"] * 2)
  return st.lists(st.sampled_from(names).flatmap(lambda nm: table[nm]), max_size=maxlen)


def strat_mixer(tier):
  maxlen = 10 if tier == "quick" else 24
  zero_q = st.sampled_from([Q(0), Q(0), 0, 0., Q(7, 3), 100, .5, -0.])
  qcase = st.fixed_dictionaries(dict(
    keep=st.booleans(), zero=zero_q, ctor=st.sampled_from(["kw", "pos", "mixed"]),
    steps=_steps(_delta_q, _val_q, maxlen, 6)))
  fcase = st.fixed_dictionaries(dict(
    keep=st.booleans(), zero=st.sampled_from([Q(0), 0., 0, Q(1, 2)]),
    ctor=st.sampled_from(["kw", "pos"]),
    steps=_steps(_delta_float, _val_q, maxlen, 6)))
  icase = st.fixed_dictionaries(dict(
    keep=st.booleans(), zero=st.sampled_from([0, 0, 0., 7]), ctor=st.just("kw"),
    steps=_steps(_delta_int, _val_int, maxlen, 6)))
  scase = st.fixed_dictionaries(dict(      # str "samples": a non-numeric zero value
    keep=st.booleans(), zero=st.sampled_from(["", "z"]), ctor=st.just("kw"),
    steps=_steps(_delta_q, st.sampled_from(["a", "b", "c", ""]), maxlen, 4)))
  tcase = st.fixed_dictionaries(dict(      # tuple "samples": + concatenates, zero is a tuple
    keep=st.booleans(), zero=st.sampled_from([(), (), ("z",)]), ctor=st.sampled_from(["kw", "pos", "mixed"]),
    steps=_steps(_delta_q, st.sampled_from([("a",), ("b",), ("c",), ("d", "e"), ()]), maxlen, 5)))
  return st.one_of(qcase, qcase, qcase, fcase, icase, scase, tcase)


# --------------------------------------------------------------------------
# order of the sum: zero values / items whose + is exact but not commutative
# --------------------------------------------------------------------------
_LETTERS = "abcdefghijklmnopqrstuvwxy"      # ("z" is left to the zero values)
_ORD_ZEROS = {"tuple": [(), (), ("z",)], "str": ["", "", "z"], "affine": [(1, 0), (1, 3), (2, 1)]}


def _ord_items(flavour, k, length, salt):
  """Items of the k-th event of an order-sensitive mix: every item names its event and its
  position, so any permutation of the playing events changes the sum."""
  tag = _LETTERS[k % len(_LETTERS)]
  if flavour == "str":
    return ["%s%d" % (tag, j % 10) for j in range(length)]
  if flavour == "tuple":
    if salt % 4 == 3:                        # items of width 2 / 0 among those of width 1
      return [((tag, j) if j % 3 else ()) for j in range(length)]
    return [("%s%d" % (tag, j),) for j in range(length)]
  # affine maps: slopes 2, 3, 5 (1 now and then), offsets that name event and position
  return [((1 if (salt + j) % 5 == 4 else (2, 3, 5)[(k + salt) % 3]), 7 * k + j + 1) for j in range(length)]


def _ordered_case(raw):
  flavour = raw["flavour"]
  first = raw["first"]
  lens = [l for _, l, _ in first]
  if raw["shape"] == "asc":                  # the earlier an event starts, the sooner it ends
    lens = sorted(lens)
  elif raw["shape"] == "head":               # the first one is the shortest, whatever follows
    m = lens.index(min(lens))
    lens[0], lens[m] = lens[m], lens[0]
  steps = []
  k = [0]

  def items(length, salt):
    k[0] += 1
    return _ord_items(flavour, k[0] - 1, length, salt)
  for (delta, _, kind), length in zip(first, lens):
    steps.append(("add", delta, items(length, k[0]), kind))
  for stp in raw["rest"]:
    if stp[0] == "add":
      steps.append(("add", stp[1], items(stp[2], stp[4]), stp[3], stp[5]))
    elif stp[0] == "add_chain":
      steps.append(("add_chain", stp[1], items(stp[2], stp[5]), stp[3], items(stp[4], stp[5] + 1)))
    elif stp[0] == "add_hub":
      steps.append(("add_hub", stp[1], items(stp[2], stp[6]), stp[3], stp[4], stp[5], stp[7]))
    else:
      steps.append(stp)
  case = dict(keep=raw["keep"], zero=_ORD_ZEROS[flavour][raw["zsel"]], ctor=raw["ctor"], steps=steps)
  if flavour == "affine":
    case["vs"] = "affine"
  return case


def strat_ordered(tier):
  nmax = 6 if tier == "quick" else 9
  maxlen = 8 if tier == "quick" else 18
  delta = st.sampled_from([0] * 6 + [Q(0), 1, 1, Q(1, 2), Q(1, 2), Q(1, 3), Q(2, 3), Q(3, 2), 2, .5, 1.25])
  later = st.sampled_from([0] * 4 + [Q(0), 1, Q(1, 2), Q(1, 3), Q(3, 2), 2, 3, Q(7, 2), .5, 2.5])
  salt = st.integers(0, 19)
  table = {
    "add": st.tuples(st.just("add"), later, st.integers(0, 8), _kinds, salt, _refusal),
    "add_chain": st.tuples(st.just("add_chain"), later, st.integers(0, 5), delta, st.integers(1, 6), salt),
    "next": st.tuples(st.just("next"), st.integers(1, 4)),
    "for": st.tuples(st.just("for"), st.integers(0, 4)),
    "take": st.tuples(st.just("take"), st.integers(0, 5)),
    "neg": st.tuples(st.just("neg"), _neg_delta, st.just([])),
    "setkeep": st.tuples(st.just("setkeep"), st.booleans()),
    "add_hub": st.tuples(st.just("add_hub"), later, st.integers(0, 8), st.integers(1, 3), _outside,
                         st.one_of(st.none(), later), salt, _refusal),
    "add_again": st.tuples(st.just("add_again"), later, _refusal),
  }
  names = (["add"] * 6 + ["next"] * 3 + ["take"] * 2 + ["for", "add_chain", "neg", "setkeep"]
           + ["add_hub"] * 2 + ["add_again"] * 2)
  raw = st.fixed_dictionaries(dict(
    flavour=st.sampled_from(["tuple", "tuple", "str", "str", "affine"]),
    keep=st.booleans(), zsel=st.integers(0, 2), ctor=st.sampled_from(["kw", "pos", "mixed"]),
    first=st.lists(st.tuples(delta, st.integers(0, 7), _kinds), min_size=3, max_size=nmax),
    shape=st.sampled_from(["asc", "asc", "head", "any", "any"]),
    rest=st.lists(st.sampled_from(names).flatmap(lambda nm: table[nm]), min_size=2, max_size=maxlen)))
  return raw.map(_ordered_case)


def strat_vector(tier):
  maxlen = 8 if tier == "quick" else 16
  dim = st.shared(st.integers(1, 3), key="c16dim")
  vec = dim.flatmap(lambda n: st.tuples(*([st.integers(-3, 3).map(Q)] * n)))
  zero = dim.flatmap(lambda n: st.tuples(*([st.sampled_from([Q(0), Q(0), Q(1)])] * n)))
  return st.fixed_dictionaries(dict(
    vs=st.just("vector"), keep=st.booleans(), zero=zero, ctor=st.just("kw"),
    steps=_steps(_delta_q, vec, maxlen, 4)))


def strat_drift(tier):
  nmax = 200 if tier == "quick" else 400
  qd = st.one_of(_q(Fraction(1, 7), 3, 7),
                 st.sampled_from([Q(1, 3), Q(2, 3), Q(1, 7), Q(3, 7), Q(5, 6), Q(1, 2), Q(3, 2),
                                  Q(7, 5), Q(1, 10), Q(3, 10)]))
  qcase = st.fixed_dictionaries(dict(
    d0=st.one_of(st.just(Q(0)), qd, st.just(0)), d=qd, n=st.integers(30, nmax),
    keep=st.booleans(), lens=st.lists(st.integers(0, 3), min_size=1, max_size=4),
    split=st.one_of(st.none(), st.integers(1, 150))))
  # floats p/q with q in {3,5,6,7,10} and an offset of a quarter sample: no T_i is
  # nearer than 1/(4q) to a half-sample tie, far above the rounding error of `count`
  fd = st.tuples(st.sampled_from([3, 5, 6, 7, 10]), st.integers(1, 25)).map(lambda t: t[1] / float(t[0]))
  fcase = st.fixed_dictionaries(dict(
    d0=st.sampled_from([.25, .75, 1.25]), d=fd, n=st.integers(30, nmax),
    keep=st.booleans(), lens=st.lists(st.integers(0, 3), min_size=1, max_size=4),
    split=st.one_of(st.none(), st.integers(1, 150))))
  return st.one_of(qcase, qcase, fcase)


def strat_control(tier):
  maxlen = 12 if tier == "quick" else 30
  num = st.one_of(st.integers(-9, 9), _q(-3, 3, 5))
  anyv = st.one_of(num, st.none(), st.text("ab", max_size=2), st.tuples(st.integers(0, 2)),
                   st.sampled_from([0., 1.5, -0., True, False, 1., 2 + 0j]))
  # groups of values that compare equal but are different values: another sign of zero, another type,
  # another object
  twins = [[0., -0.], [0., -0., 0, False, Q(0)], [1, 1., True, Q(1), 1 + 0j], [.5, Q(1, 2)],
           [("obj", "list"), ("obj", "list2")], [("obj", "dict"), ("obj", "dict2")],
           [("obj", "empty"), ("obj", "empty2"), ()], [("obj", "eqall"), ("obj", "eqall2"), 3],
           [(0.,), (-0.,), (0,)]]
  objv = st.sampled_from(sorted(_CS_OBJ)).map(lambda name: ("obj", name))
  # (weights through sampled_from: one_of() would merge the repeated alternative)
  mixv = st.sampled_from(["obj", "obj", "obj", "any"]).flatmap(lambda nm: objv if nm == "obj" else anyv)
  onearg = st.sampled_from(_CS_ONEARG).map(lambda name: ("obj", name))
  hows = st.sampled_from(["take", "take1", "next", "for"])

  def steps(val, maxlen=maxlen):
    table = {"set": st.tuples(st.just("set"), val),
             "read": st.tuples(st.just("read"), hows, st.integers(0, 4)),
             "eread": st.tuples(st.just("eread"), hows, st.integers(0, 4))}
    names = ["set"] * 3 + ["read"] + ["eread"] * 2
    return st.lists(st.sampled_from(names).flatmap(lambda nm: table[nm]), max_size=maxlen)
  by = st.sampled_from([None, None, 0, 1, 2, 3])
  plain = st.fixed_dictionaries(dict(init=anyv, expr=st.none(), data=st.just([0]), steps=steps(anyv), by=by))
  withx = st.fixed_dictionaries(dict(
    init=num, expr=st.sampled_from(_NUM_EXPRS),
    data=st.lists(st.integers(-5, 5), min_size=1, max_size=3), steps=steps(num), by=by))
  twinx = st.sampled_from(twins).flatmap(lambda grp: st.fixed_dictionaries(dict(
    init=st.sampled_from(grp), expr=st.sampled_from([None, None, "box", "pair"]),
    data=st.lists(st.integers(-5, 5), min_size=1, max_size=3), steps=steps(st.sampled_from(grp)), by=by)))
  # values of any kind - types, functions, callable objects, objects without a useful == -, read
  # from the stream itself or through an expression that does not compute with them
  plainobj = st.fixed_dictionaries(dict(init=mixv, expr=st.none(), data=st.just([0]), steps=steps(mixv), by=by))
  objx = st.fixed_dictionaries(dict(
    init=mixv, expr=st.sampled_from(["box", "pair"]),
    data=st.lists(st.integers(-5, 5), min_size=1, max_size=3), steps=steps(mixv), by=by))
  callx = st.fixed_dictionaries(dict(
    init=onearg, expr=st.just("call"),
    data=st.lists(st.integers(-5, 5), min_size=1, max_size=3), steps=steps(onearg), by=by))
  fam = {"plain": plain, "withx": withx, "plainobj": plainobj, "objx": objx, "callx": callx, "twinx": twinx}
  names = ["plain"] * 2 + ["withx"] * 4 + ["plainobj"] * 3 + ["objx"] * 2 + ["callx"] + ["twinx"] * 3
  return st.sampled_from(names).flatmap(lambda nm: fam[nm])


def grid(tier, shard, nshards):
  """Every mix of two or three events over a small box of deltas and lengths."""
  halves = [Q(k, 2) for k in range(0, 6)]
  thirds = [Q(1, 3), Q(2, 3), Q(4, 3)]
  deltas = halves + (thirds if tier != "quick" else thirds[:1])
  lens = (0, 1, 2)
  i = 0
  for d0 in deltas:
    for d1 in deltas:
      for l0 in lens:
        for l1 in lens:
          for mode in range(8):
            i += 1
            if i % nshards != shard:
              continue
            keep = bool(mode & 1)
            if mode >= 6:
              # the first event is a tee hub that is added a second time (an echo d1 later), one
              # more use of the hub stays outside the mixer; the third event is a user Stream
              # subclass with an iteration of its own
              outside = ("early", "late", "before")[(l0 + l1) % 3]
              # (for l0 = 0 the hub is first offered with a negative delta, for l0 = 2 the echo is)
              steps = [("add_hub", d0, [Q(1), Q(2), Q(4)][:l0 + 1], 2, outside, None,
                        (-d1 - 1, l1 % 2) if l0 == 0 else None), ("next", l1),
                       ("add_again", d1, (Q(-1, 3), 0) if l0 == 2 else None),
                       ("add", Q(1, 2), [Q(100)] * l1, ("sub_unbox", "sub_skip", "sub_live")[l0])]
              yield dict(keep=keep, zero=Q(0) if l1 else 0, ctor="kw", steps=steps)
              continue
            a0 = ("add", d0, [Q(1)] * l0, "list")
            a1 = ("add", d1, [Q(10)] * l1, "gen")
            a2 = ("add", Q(1, 2), [Q(100)], "iter")
            if mode < 2:
              steps = [a0, a1]
            elif mode < 4:
              steps = [a0, ("next", 1 + mode % 2), a1, a2]   # a1 possibly late
            else:
              steps = [a0, a1, ("next", 2), a2]
            yield dict(keep=keep, zero=Q(0) if mode % 3 else 0, ctor="kw", steps=steps)


CLAUSES = [
  Clause("mixer", strat_mixer, run_mixer, quick=4000, thorough=50000,
         floors={"late add": .04, "overlap": .1, "empty event": .1, "fractional tie": .05,
                 "keep": .15, "negative delta": .08, "ended": .15, "delta:float": .03,
                 "delta:Q": .1, "delta:int": .08,
                 "event is a Stream subclass with its own __iter__": .12, "same hub added twice": .05,
                 "hub also used outside the mixer": .05, "data:mix": .03, "data:getitem": .03,
                 "refused event added again": .15, "refused one-time event added again": .04,
                 "event iterator has an == of its own": .04, "data:oneshot": .025},
         doc="mixer histories (additions before and during playback, keep on/off, zero values, "
             "delta types, adds that are refused first and then repeated with the same event) vs MixerRef, "
             "sample by sample"),
  Clause("ordered", strat_ordered, run_mixer, quick=1500, thorough=15000,
         floors={"summation order observable": .15, "three or more play at once": .25, "late add": .05,
                 "order-sensitive +:tuple": .1, "order-sensitive +:str": .1, "order-sensitive +:Aff": .05,
                "event is a Stream subclass with its own __iter__": .25, "same hub added twice": .04,
                "hub also used outside the mixer": .05, "refused event added again": .15,
                "refused one-time event added again": .04, "event iterator has an == of its own": .15},
         doc="mixes of three and more tagged events under a zero value whose + is exact but not commutative "
             "(tuple and str concatenation, composition of integer affine maps), earlier events often "
             "ending while later ones go on, additions during playback: the sum is zero + items in the "
             "order the events start (ties: order of addition)"),
  Clause("vector", strat_vector, run_mixer, quick=600, thorough=6000,
         floors={"overlap": .06, "late add": .04, "event is a Stream subclass with its own __iter__": .1,
                 "refused event added again": .12},
         doc="the same with an array-like zero/sample type whose += works in place "
             "(zero + items must not modify the zero value)"),
  Clause("shared_source", strat_shared, run_shared, quick=400, thorough=4000,
         doc="several events given the same iterator object: each playing event draws its next item at every "
             "sample (an event is an entry of the event list, not an iterator identity)"),
  Clause("drift", strat_drift, run_drift, quick=400, thorough=4000,
         floors={"delta:float": .12, "delta:Q": .15, "added in two batches": .1},
         doc="30-400 equal fractional deltas: every start sample equals the closed form "
             "nearest(d0 + i*d)"),
  Clause("control", strat_control, run_control, quick=2400, thorough=24000,
         floors={"assignment between reads": .1, "callable value read": .07, "value read:type": .03,
                 "value read:function": .03, "value read:callable object": .025,
                 "second ControlStream alive": .15, "equal but different value assigned, then read": .025},
         doc="ControlStream: assignments interleaved with reads of the stream and of an "
             "expression built on it (values that compare equal but differ included), a second "
             "ControlStream with assignments of its own next to it"),
  Enumerated("grid", grid, run_mixer, shards={"quick": 4, "thorough": 8},
             doc="every two-/three-event mix over half- and third-sample deltas, lengths 0..2, "
                 "early / late third event, keep on/off"),
]
