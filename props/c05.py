"""C05 - Filter algebra is system algebra."""
from fractions import Fraction as F
from hypothesis import strategies as st
from vlib.core import Clause, Violation, Reject
from vlib.q import Q
from vlib.filt import diffeq_ref

from audiolazy import ZFilter, LinearFilter, CascadeFilter, ParallelFilter, z, Poly

ID = "C05"
RULE = ("cases = pairs/triples of causal rational filters with small integer coefficients "
        "(orders 0..3), integer or dyadic scalars, exponents 0..4 (and 5..16, either sign, on 1..3-term filters), delays 0..5, inputs of exact "
        "rationals, and expression trees over + - * / ** and substitution (depth <= 3); one clause widens the "
        "coefficients to ints beyond 2**53, plain (dyadic and other) Fractions - also as leading coefficient of a divisor - "
        "and pairs of exact coefficients that nearly but not exactly cancel in f+g, f-g, f+c; oracle = "
        "an independent rational-function arithmetic on (numerator, denominator) dicts of "
        "Fractions (equality by cross-multiplication) and diffeq_ref of the expected rational "
        "function for outputs, plus the identities between the library's own two sides; "
        "round 6: divisors and operands that start with a delay (common delays the constructor removes), one scalar value "
        "spelled as float / int / Fraction in turn (values spread over ~10**12 numbers), the same two filter objects as "
        "operands of every operator and of augmented assignments on a second name, filter lists holding one object several "
        "times and built by list arithmetic, substitution of c*z**k and of delay-leading filters; "
        "non-trivial = both operands have order >= 1 and are structurally different; distinct = "
        "distinct case hash")
ASSUMPTIONS = [
  "coefficients are ints (every derived coefficient prints exactly); samples are Q; zero value Q(0)",
  "wide_coefficients: polynomials are compared for any exact coefficient; outputs are compared only for filters all of "
  "whose coefficients print exactly into the generated sample expression (ints of any size, floats, Fractions p/q "
  "whose quotient is a double - e.g. dyadic ones); a Fraction such as 1/3 becomes the double 0.333.. there",
  "scalars used as divisors are powers of two (1/c is computed by the library in floating point)",
  "equal rational functions give equal outputs from rest (zero initial state), whatever common factors they carry",
  "== on filters is structural (numerator and denominator polynomials); the property only asks for ==/!=/hash consistency",
  "operators (also written as augmented assignments: ZFilter defines none, so p op= g is p = p op g) leave their operands "
  "the filters they were; a float-spelled scalar is only applied to small-int filters (float arithmetic is exact there)",
]

ZERO = Q(0)
qv = st.fractions(min_value=-3, max_value=3, max_denominator=7).map(Q)
ints = st.integers(-3, 3)
nzint = ints.filter(lambda v: v != 0)


def filt_st(min_order=0, need_b0=False):
  b0 = nzint if need_b0 else ints
  b = st.tuples(b0, st.lists(ints, max_size=3)).map(lambda t: [t[0]] + t[1])
  a = st.tuples(nzint, st.lists(ints, max_size=3)).map(lambda t: [t[0]] + t[1])
  return st.tuples(b, a)


# ---------------------------------------------------------------- model
def trim(d):
  return {k: v for k, v in d.items() if v != 0}


def p_add(a, b):
  r = dict(a)
  for k, v in b.items():
    r[k] = r.get(k, 0) + v
  return trim(r)


def p_mul(a, b):
  r = {}
  for k1, v1 in a.items():
    for k2, v2 in b.items():
      r[k1 + k2] = r.get(k1 + k2, 0) + v1 * v2
  return trim(r)


def p_scale(a, c):
  return trim({k: v * c for k, v in a.items()})


class RF(object):
  """Rational function in x = z^-1: (num, den) dicts power -> Fraction."""

  def __init__(self, num, den=None):
    self.n = trim({k: F(v) for k, v in num.items()})
    self.d = trim({k: F(v) for k, v in (den or {0: 1}).items()})
    if not self.d:
      raise ZeroDivisionError

  @staticmethod
  def lists(b, a):
    return RF(dict(enumerate(b)), dict(enumerate(a)))

  @staticmethod
  def const(c):
    return RF({0: c})

  def __add__(s, o):
    return RF(p_add(p_mul(s.n, o.d), p_mul(o.n, s.d)), p_mul(s.d, o.d))

  def __neg__(s):
    return RF(p_scale(s.n, -1), s.d)

  def __sub__(s, o):
    return s + (-o)

  def __mul__(s, o):
    return RF(p_mul(s.n, o.n), p_mul(s.d, o.d))

  def inv(s):
    if not s.n:
      raise ZeroDivisionError
    return RF(s.d, s.n)

  def __truediv__(s, o):
    return s * o.inv()

  def __pow__(s, n):
    if n < 0:
      return s.inv() ** -n
    r = RF({0: 1})
    for _ in range(n):
      r = r * s
    return r

  def subst(s, g):
    """s(g): g replaces z, i.e. x = z^-1 becomes 1/g."""
    gi = g.inv()
    num = RF({})
    for k, v in s.n.items():
      num = num + RF.const(v) * gi ** k
    den = RF({})
    for k, v in s.d.items():
      den = den + RF.const(v) * gi ** k
    return num / den

  def same(s, o):
    return p_mul(s.n, o.d) == p_mul(o.n, s.d)

  def causal_form(s):
    """(b, a) with the denominator starting at delay 0, or None if non-causal."""
    sh = min(s.d)
    b = {k - sh: v for k, v in s.n.items()}
    a = {k - sh: v for k, v in s.d.items()}
    if b and min(b) < 0:
      return None
    return b, a

  def response(s, x):
    ba = s.causal_form()
    if ba is None:
      return None
    return diffeq_ref(ba[0], ba[1], x, 0, None)


def rf_of(filt):
  return RF(dict(filt.numpoly.terms()), dict(filt.denpoly.terms()))


def mk(ba):
  return ZFilter(list(ba[0]), list(ba[1]))


def run_filt(filt, x):
  return list(filt(list(x), zero=ZERO))


def expect_same(real, model, what):
  got = rf_of(real)
  if not got.same(model):
    raise Violation("%s: library gives (%r)/(%r), expected a multiple of (%r)/(%r)"
                    % (what, got.n, got.d, model.n, model.d))


def expect_out(real, model, x, what):
  exp = model.response(x)
  if exp is None:
    return
  got = run_filt(real, x)
  if got != exp:
    raise Violation("%s: output %r, expected %r (x=%r, model (%r)/(%r))"
                    % (what, got, exp, x, model.n, model.d))
  return got


def order(ba):
  b, a = ba
  nb = max([k for k, v in enumerate(b) if v] or [0])
  na = max([k for k, v in enumerate(a) if v] or [0])
  return max(nb, na)


# ---------------------------------------------------------------- (a) signals
def strat_signals(tier):
  return st.fixed_dictionaries(dict(
    f=filt_st(), g=filt_st(need_b0=True), c=st.one_of(ints, st.sampled_from([2, 4, -2, 1, -1])),
    n=st.integers(0, 4), k=st.integers(0, 5),
    x=st.one_of(st.lists(qv, max_size=10), st.lists(qv, min_size=5, max_size=10))))


def run_signals(c):
  f, g, x = mk(c["f"]), mk(c["g"]), c["x"]
  F_, G_ = RF.lists(*c["f"]), RF.lists(*c["g"])
  cc, n, k = c["c"], c["n"], c["k"]
  fx, gx = run_filt(f, x), run_filt(g, x)
  if fx != F_.response(x) or gx != G_.response(x):
    raise Violation("plain filter output differs from the difference equation: %r / %r" % (c["f"], c["g"]))

  def chk(name, real, model, composed):
    got = expect_out(real, model, x, name)
    if got != composed:
      raise Violation("%s: composite output %r != composition of outputs %r (f=%r g=%r x=%r)"
                      % (name, got, composed, c["f"], c["g"], x))
    expect_same(real, model, name)

  chk("(f+g)(x)", mk(c["f"]) + mk(c["g"]), F_ + G_, [p + q for p, q in zip(fx, gx)])
  chk("(f-g)(x)", mk(c["f"]) - mk(c["g"]), F_ - G_, [p - q for p, q in zip(fx, gx)])
  chk("(c*f)(x)", cc * mk(c["f"]), RF.const(cc) * F_, [cc * p for p in fx])
  chk("(f*c)(x)", mk(c["f"]) * cc, RF.const(cc) * F_, [cc * p for p in fx])
  chk("(f+c)(x)", mk(c["f"]) + cc, RF.const(cc) + F_, [p + cc * v for p, v in zip(fx, x)])
  chk("(c-f)(x)", cc - mk(c["f"]), RF.const(cc) - F_, [cc * v - p for p, v in zip(fx, x)])
  chk("(-f)(x)", -mk(c["f"]), -F_, [-p for p in fx])
  chk("(+f)(x)", +mk(c["f"]), F_, fx)
  fg = run_filt(mk(c["f"]), gx)
  gf = run_filt(mk(c["g"]), fx)
  if fg != gf:
    raise Violation("f(g(x)) = %r but g(f(x)) = %r (f=%r g=%r x=%r)" % (fg, gf, c["f"], c["g"], x))
  chk("(f*g)(x)", mk(c["f"]) * mk(c["g"]), F_ * G_, fg)
  chk("((f/g)*g)(x)", (mk(c["f"]) / mk(c["g"])) * mk(c["g"]), F_, fx)
  if cc in (1, -1, 2, 4, -2):
    chk("(f/c)(x)", mk(c["f"]) / cc, F_ * RF.const(F(1, cc)), [p / cc for p in fx])
  y = list(x)
  for _ in range(n):
    y = run_filt(mk(c["f"]), y)
  chk("(f**%d)(x)" % n, mk(c["f"]) ** n, F_ ** n, y)
  delayed = ([ZERO] * k + list(x))[:len(x)]
  chk("(z**-%d)(x)" % k, z ** -k, RF({k: 1}), delayed)
  chk("(f*z**-%d)(x)" % k, mk(c["f"]) * z ** -k, F_ * RF({k: 1}), ([ZERO] * k + fx)[:len(x)])
  reuse_operands(c, x, fx, gx, F_, G_)
  labels = ["n=%d" % n, "k=%d" % k, "operands reused"]
  if c["f"][1] == c["g"][1]:
    labels.append("same denominator")
  if order(c["f"]) >= 1 and any(c["f"][1][1:]):
    labels.append("f recursive")
  nt = order(c["f"]) >= 1 and order(c["g"]) >= 1 and c["f"] != c["g"] and len(x) >= 3
  return {"nontrivial": nt, "labels": labels}


def snapshot(filt):
  return (list(filt.numpoly.terms()), list(filt.denpoly.terms()), hash(filt))


def reuse_operands(c, x, fx, gx, F_, G_):
  """The same two filter objects serve as operands of every operator, one after the other, written as binary
  expressions and as augmented assignments on a second name (p = f; p *= g is p = f * g): each result is the model's,
  and f and g - still referenced by the caller and sitting in a CascadeFilter / ParallelFilter - remain the filters
  they were (polynomials, hash, output)."""
  cc, n = c["c"], c["n"]
  f0, g0 = mk(c["f"]), mk(c["g"])
  sf, sg = snapshot(f0), snapshot(g0)
  casc, par = CascadeFilter(f0, g0), ParallelFilter(f0, g0)
  C_ = RF.const(cc)

  def untouched(after):
    if snapshot(f0) != sf or snapshot(g0) != sg:
      raise Violation("after %s the operand %s is no longer the filter it was: now (%r)/(%r), hash %s (f=%r g=%r c=%r)"
                      % (after, "f" if snapshot(f0) != sf else "g",
                         dict((f0 if snapshot(f0) != sf else g0).numpoly.terms()),
                         dict((f0 if snapshot(f0) != sf else g0).denpoly.terms()),
                         "changed" if (snapshot(f0)[2], snapshot(g0)[2]) != (sf[2], sg[2]) else "kept",
                         c["f"], c["g"], cc))

  def aug(name, left, op, right, model):
    p = left
    if op == "+":
      p += right
    elif op == "-":
      p -= right
    elif op == "*":
      p *= right
    elif op == "/":
      p /= right
    else:
      p **= right
    if not isinstance(p, ZFilter):
      raise Violation("%s leaves a %s" % (name, type(p).__name__))
    expect_same(p, model, name)
    untouched(name)
    return p

  for name, real, model in (("f+g", f0 + g0, F_ + G_), ("g-f", g0 - f0, G_ - F_), ("f*g", f0 * g0, F_ * G_),
                            ("f/g", f0 / g0, F_ / G_), ("c*f", cc * f0, C_ * F_), ("f**n", f0 ** n, F_ ** n),
                            ("-g", -g0, -G_), ("f*f", f0 * f0, F_ * F_), ("g+g", g0 + g0, G_ + G_)):
    expect_same(real, model, name + " on operands used before")
    untouched(name)
  if len((f0 - f0).numpoly) != 0 or len((g0 - g0).numpoly) != 0:
    raise Violation("f - f (one object on both sides) has numerator %r (f=%r)" % ((f0 - f0).numpoly, c["f"]))
  expect_same(g0 / g0, RF({0: 1}), "g / g (one object on both sides)")
  untouched("f - f, g / g")
  aug("p = f; p += g", f0, "+", g0, F_ + G_)
  aug("p = f; p -= g", f0, "-", g0, F_ - G_)
  prod = aug("p = f; p *= g", f0, "*", g0, F_ * G_)
  aug("p = f; p /= g", f0, "/", g0, F_ / G_)
  aug("p = g; p *= f", g0, "*", f0, F_ * G_)
  aug("p = g; p += f", g0, "+", f0, F_ + G_)
  aug("p = f; p *= c", f0, "*", cc, C_ * F_)
  aug("p = f; p += c", f0, "+", cc, C_ + F_)
  aug("p = g; p -= c", g0, "-", cc, G_ - C_)
  aug("p = f; p **= n", f0, "**", n, F_ ** n)
  aug("p = f; p *= p", f0, "*", f0, F_ * F_)
  aug("p = g; p += p", g0, "+", g0, G_ + G_)
  # accumulate the product / sum of the parts the way a loop does
  acc = f0
  acc *= g0
  acc *= f0
  tot = g0
  tot += f0
  tot += g0
  expect_same(acc, F_ * G_ * F_, "acc = f; acc *= g; acc *= f")
  expect_same(tot, G_ + F_ + G_, "tot = g; tot += f; tot += g")
  untouched("accumulating with *= and +=")
  # the operands still are the systems they were, and so are the filter lists holding them
  if run_filt(f0, x) != fx or run_filt(g0, x) != gx:
    raise Violation("f(x) or g(x) changed after f and g were used as operands: f=%r g=%r x=%r" % (c["f"], c["g"], x))
  fg = run_filt(f0, gx)
  if run_filt(prod, x) != fg or run_filt(g0, fx) != fg:
    raise Violation("p = f; p *= g: p(x) = %r, f(g(x)) = %r, g(f(x)) = %r (f=%r g=%r x=%r)"
                    % (run_filt(prod, x), fg, run_filt(g0, fx), c["f"], c["g"], x))
  if list(g0(f0(iter(list(x)), zero=ZERO), zero=ZERO)) != fg:     # composed lazily, Stream into filter
    raise Violation("g(f(x)) composed lazily differs from (f*g)(x) = %r (f=%r g=%r x=%r)" % (fg, c["f"], c["g"], x))
  expect_same(casc, F_ * G_, "CascadeFilter(f, g) polynomials after f and g were used as operands")
  expect_same(par, F_ + G_, "ParallelFilter(f, g) polynomials after f and g were used as operands")
  if list(casc(list(x), zero=ZERO)) != fg or list(par(list(x), zero=ZERO)) != [p + q for p, q in zip(fx, gx)]:
    raise Violation("CascadeFilter(f, g)(x) / ParallelFilter(f, g)(x) changed after f and g were used as operands: "
                    "f=%r g=%r x=%r" % (c["f"], c["g"], x))


# ---------------------------------------------------------------- (a') high powers
HIGH_N = [6, 8, 5, 7, 12, 13, 16, 9, 10, 11, 14, 15, 6, 7, 8, 12, 13, 16, 10, 14]


def strat_highpow(tier):
  small = st.integers(-2, 2)
  nzs = small.filter(lambda v: v != 0)
  # short filters by construction (cost guard: the n-th power has at most 2 n + 1 terms, n <= 16); mostly 2-3 terms
  tail = st.one_of(st.just([]), st.tuples(nzs).map(list), st.tuples(nzs).map(list),
                   st.tuples(small, nzs).map(list), st.tuples(small, nzs).map(list))
  b = st.tuples(nzs, tail).map(lambda t: [t[0]] + t[1])
  a = st.tuples(st.sampled_from([1, 1, -1, 2]), tail).map(lambda t: [t[0]] + t[1])
  bd = st.tuples(st.integers(0, 2), b).map(lambda t: [0] * t[0] + t[1])   # numerator may start with a delay
  return st.fixed_dictionaries(dict(
    f=st.tuples(st.one_of(b, b, bd), a), n=st.sampled_from(HIGH_N), neg=st.sampled_from([False, False, False, True]),
    x=st.one_of(st.lists(qv, min_size=3, max_size=6), st.lists(qv, min_size=3, max_size=6), st.lists(qv, max_size=6))))


def run_highpow(c):
  """f ** n for 5 <= |n| <= 16 on filters with 1..3 terms per polynomial: against f applied |n| times, against the
  |n|-fold product of filters, against the |n|-fold product of the polynomials themselves and against the model."""
  ba, x = (list(c["f"][0]), list(c["f"][1])), c["x"]
  n = c["n"]
  neg = bool(c["neg"]) and ba[0][0] != 0      # the inverse of a numerator starting with a delay is not causal
  if neg:
    ba = (ba[1], ba[0])      # f ** -n is (1/f) ** n: compose the inverse system n times
    e = -n
    base = lambda: mk(c["f"])
  else:
    e = n
    base = lambda: mk(ba)
  F_ = RF.lists(*ba)         # the system that has to be applied n times
  powered = base() ** e
  if not isinstance(powered, ZFilter):
    raise Violation("f ** %d is a %s, not a ZFilter" % (e, type(powered).__name__))
  y = list(x)
  for _ in range(n):
    y = run_filt(mk(ba), y)
  model = RF({0: 1})
  for _ in range(n):
    model = model * F_
  what = "(f**%d)(x) for f=%r" % (e, c["f"])
  got = expect_out(powered, model, x, what)
  if got != y:
    raise Violation("%s: output %r is not f%s applied %d times, %r (x=%r)"
                    % (what, got, "**-1" if neg else "", n, y, x))
  expect_same(powered, model, "f**%d polynomials for f=%r" % (e, c["f"]))
  # the library's own n-fold product of filters
  prod = base() if not neg else 1 / base()
  for _ in range(n - 1):
    prod = prod * (base() if not neg else 1 / base())
  if not (powered.numpoly * prod.denpoly == prod.numpoly * powered.denpoly):
    raise Violation("f**%d has (%r)/(%r), the %d-fold product of filters has (%r)/(%r) (f=%r)"
                    % (e, powered.numpoly, powered.denpoly, n, prod.numpoly, prod.denpoly, c["f"]))
  if run_filt(prod, x) != y:
    raise Violation("the %d-fold product of f%s does not give f applied %d times (f=%r x=%r)"
                    % (n, "**-1" if neg else "", n, c["f"], x))
  # the polynomials themselves: p ** n is the n-fold product of p (exact Poly equality and the dict model)
  for name, lst in (("numerator", c["f"][0]), ("denominator", c["f"][1])):
    p = lambda: Poly(dict((k, v) for k, v in enumerate(lst) if v))
    pn = p() ** n
    pp = p()
    pm = trim(dict(enumerate(lst)))
    mm = dict(pm)
    for _ in range(n - 1):
      pp = pp * p()
      mm = p_mul(mm, pm)
    if not (pn == pp) or (pn != pp) or trim(dict(pn.terms())) != mm:
      raise Violation("%s polynomial %r ** %d gives %r, the %d-fold product is %r"
                      % (name, lst, n, dict(pn.terms()), n, mm))
  terms = max(sum(1 for v in ba[0] if v), sum(1 for v in ba[1] if v))
  labels = ["n=%d" % n, "even n >= 6" if n % 2 == 0 else "odd n", "%d-term" % terms]
  if neg:
    labels.append("negative exponent")
  if terms >= 2:
    labels.append("multi-term")
    if n % 2 == 0:
      labels.append("multi-term, even n >= 6")
  if any(c["f"][1][1:]):
    labels.append("f recursive")
  return {"nontrivial": terms >= 2 and len(x) >= 2, "labels": labels}


# ---------------------------------------------------------------- (b) cascade / parallel
def strat_lists(tier):
  share = st.tuples(st.lists(ints, min_size=1, max_size=3), st.lists(ints, min_size=1, max_size=3),
                    st.tuples(nzint, st.lists(ints, max_size=2)).map(lambda t: [t[0]] + t[1])
                    ).map(lambda t: [(t[0], t[2]), (t[1], t[2])])
  free = st.lists(filt_st(), min_size=1, max_size=3)
  # 3..5 branches whose denominators are products of one or two factors (1 + r z^-1) out of a pool of 2..3: pairwise
  # different denominators, yet the denominator of the sum of some branches is another branch's denominator
  def pooled(t):
    roots, branches = t
    out = []
    for b, idx in branches:
      den = [1]
      for i in sorted(set(j % len(roots) for j in idx)):
        den = [u + roots[i] * v for u, v in zip(den + [0], [0] + den)]
      out.append((list(b), den))
    return out
  patterns = [[(0,), (1,), (0, 1)], [(0,), (1,), (0, 1), (2,), (0, 1, 2)], [(0, 1), (2,), (0, 1, 2)],
              [(0,), (1,), (2,), (0, 1, 2)], [(1,), (0,), (0, 1), (2,)], [(2,), (0, 1), (0, 1, 2), (0,)]]
  nums = st.lists(st.lists(ints, min_size=1, max_size=2), min_size=5, max_size=5)
  roots3 = st.lists(st.sampled_from([1, -1, 2, -2, 3]), min_size=3, max_size=3, unique=True)
  planned = st.tuples(roots3, st.sampled_from(patterns), nums).map(lambda t: (t[0], list(zip(t[2], t[1]))))
  loose = st.tuples(st.lists(st.sampled_from([1, -1, 2, -2, 3]), min_size=2, max_size=3, unique=True),
                    st.lists(st.tuples(st.lists(ints, min_size=1, max_size=2),
                                       st.lists(st.integers(0, 2), min_size=1, max_size=2, unique=True)),
                             min_size=3, max_size=5))
  pool = st.one_of(planned, planned, loose).map(pooled)
  return st.fixed_dictionaries(dict(
    parts=st.one_of(free, free, share, pool), x=st.lists(qv, max_size=9),
    how=st.sampled_from(["args", "list"]),
    feed=st.sampled_from(["list", "tuple", "iter", "gen", "stream", "stream"]),
    nest=st.booleans(),
    build=st.sampled_from(["plain", "plain", "shared", "repeat", "rrepeat", "concat", "grown"]), rep=st.integers(2, 3),
    replace=st.one_of(st.none(), st.tuples(st.integers(0, 2), filt_st(), st.sampled_from(["setitem", "imul", "slice"])))))


def run_lists(c):
  parts, x = [tuple(p) for p in c["parts"]], c["x"]
  fs = lambda: [mk(p) for p in parts]
  casc = CascadeFilter(*fs()) if c["how"] == "args" else CascadeFilter(fs())
  par = ParallelFilter(*fs()) if c["how"] == "args" else ParallelFilter(fs())
  prod_m, sum_m = RF({0: 1}), RF({})
  prod_r = sum_r = None
  for p in parts:
    prod_m = prod_m * RF.lists(*p)
    sum_m = sum_m + RF.lists(*p)
    prod_r = mk(p) if prod_r is None else prod_r * mk(p)
    sum_r = mk(p) if sum_r is None else sum_r + mk(p)
  from audiolazy import Stream
  feed = {"list": list, "tuple": tuple, "iter": iter, "gen": lambda v: (t for t in v), "stream": Stream}[c.get("feed", "list")]
  co = list(casc(feed(list(x)), zero=ZERO))
  po = list(par(feed(list(x)), zero=ZERO))
  if parts:
    # a filter list given one single part that is itself a filter list of the other kind
    wrapped_c = CascadeFilter(ParallelFilter(*fs()))
    wrapped_p = ParallelFilter(CascadeFilter(*fs()))
    if list(wrapped_c(list(x), zero=ZERO)) != sum_m.response(x):
      raise Violation("CascadeFilter(ParallelFilter(*parts)) is not the sum of the parts: parts=%r x=%r" % (parts, x))
    if list(wrapped_p(list(x), zero=ZERO)) != prod_m.response(x):
      raise Violation("ParallelFilter(CascadeFilter(*parts)) is not the product of the parts: parts=%r x=%r" % (parts, x))
    expect_same(wrapped_c, sum_m, "CascadeFilter(ParallelFilter(*parts)) polynomials")
    expect_same(wrapped_p, prod_m, "ParallelFilter(CascadeFilter(*parts)) polynomials")
  if c.get("nest") and parts:
    # a parallel bank fed by another filter's output Stream, inside a cascade
    first = mk(parts[0])
    nested = CascadeFilter(first, ParallelFilter(*fs()))
    no = list(nested(feed(list(x)), zero=ZERO))
    if no != (RF.lists(*parts[0]) * sum_m).response(x):
      raise Violation("CascadeFilter(f, ParallelFilter(...)) output %r, expected %r (parts=%r x=%r feed=%s)"
                      % (no, (RF.lists(*parts[0]) * sum_m).response(x), parts, x, c.get("feed")))
  if co != prod_m.response(x) or co != run_filt(prod_r, x):
    raise Violation("cascade output %r, product filter output %r, expected %r (parts=%r x=%r)"
                    % (co, run_filt(prod_r, x), prod_m.response(x), parts, x))
  if po != sum_m.response(x) or po != run_filt(sum_r, x):
    raise Violation("parallel output %r, sum filter output %r, expected %r (parts=%r x=%r)"
                    % (po, run_filt(sum_r, x), sum_m.response(x), parts, x))
  # polynomials: cross-multiplication, with the library's own exact Poly equality and with the model
  if not (casc.numpoly * prod_r.denpoly == prod_r.numpoly * casc.denpoly):
    raise Violation("cascade numpoly/denpoly (%r)/(%r) is not the product filter's (%r)/(%r), parts=%r"
                    % (casc.numpoly, casc.denpoly, prod_r.numpoly, prod_r.denpoly, parts))
  if not (par.numpoly * sum_r.denpoly == sum_r.numpoly * par.denpoly):
    raise Violation("parallel numpoly/denpoly (%r)/(%r) is not the sum filter's (%r)/(%r), parts=%r"
                    % (par.numpoly, par.denpoly, sum_r.numpoly, sum_r.denpoly, parts))
  expect_same(casc, prod_m, "CascadeFilter polynomials")
  expect_same(par, sum_m, "ParallelFilter polynomials")
  labels = ["%d parts" % len(parts), "feed:" + c.get("feed", "list")]
  if len(parts) >= 2 and len(set(tuple(p[1]) for p in parts)) < len(parts):
    labels.append("shared denominator")
  dens = [trim(dict(enumerate(p[1]))) for p in parts]
  if len(parts) >= 3 and all(dens[i] != dens[j] for i in range(len(dens)) for j in range(i)):
    run, hit = dens[0], False       # denominator of the running sum, the way a left fold forms it
    for d in dens[1:]:
      if run == d:
        hit = True
      else:
        run = p_mul(run, d)
    if hit:
      labels.append("different denominators, a partial sum's denominator is the next branch's")
  # a filter list is a list: it may hold the same filter object at several positions ([f] * n sections), and it is
  # built by list arithmetic (lst * n, n * lst, lst + lst, +=, append / extend / insert) as well as by the constructor
  bld = c.get("build", "plain")
  if bld != "plain" and parts:
    labels += list_arithmetic(c, parts, x, feed, bld)
  # a filter list is a mutable list: after a member is replaced in place, polynomials and output
  # must follow the current members (nothing may be remembered from the first reading)
  rep = c.get("replace")
  if rep is not None:
    i, newp, how = rep
    i %= len(parts)
    newp = tuple(newp)
    if how == "imul":
      newp = ([2 * v for v in parts[i][0]], list(parts[i][1]))
    parts2 = parts[:i] + [newp] + parts[i + 1:]
    for lst in (casc, par):
      if how == "setitem":
        lst[i] = mk(newp)
      elif how == "imul":
        lst[i] *= 2
      else:
        lst[i:i + 1] = [mk(newp)]
    prod2, sum2 = RF({0: 1}), RF({})
    for p2 in parts2:
      prod2 = prod2 * RF.lists(*p2)
      sum2 = sum2 + RF.lists(*p2)
    expect_same(casc, prod2, "CascadeFilter polynomials after replacing member %d in place (%s)" % (i, how))
    expect_same(par, sum2, "ParallelFilter polynomials after replacing member %d in place (%s)" % (i, how))
    if list(casc(list(x), zero=ZERO)) != prod2.response(x) or list(par(list(x), zero=ZERO)) != sum2.response(x):
      raise Violation("outputs after replacing member %d in place (%s) do not follow the current members %r"
                      % (i, how, parts2))
    labels.append("member replaced in place")
  return {"nontrivial": len(parts) >= 2 and all(order(p) >= 1 for p in parts) and len(x) >= 3,
          "labels": labels}


def list_arithmetic(c, parts, x, feed, bld):
  rep = c.get("rep", 2) if len(parts) <= 3 else 2
  objs = [mk(p) for p in parts]       # ONE object per part, placed several times
  if bld == "shared":
    idx = list(range(len(parts))) * 2
    cl, pl = CascadeFilter(*[objs[i] for i in idx]), ParallelFilter([objs[i] for i in idx])
  elif bld == "repeat":
    idx = list(range(len(parts))) * rep
    cl, pl = CascadeFilter(*objs) * rep, ParallelFilter(*objs) * rep
  elif bld == "rrepeat":
    idx = list(range(len(parts))) * rep
    cl, pl = rep * CascadeFilter(objs), rep * ParallelFilter(objs)
  elif bld == "concat":
    idx = list(range(len(parts))) + [0] + list(range(len(parts)))[1:]
    cl = CascadeFilter(*objs) + CascadeFilter(objs[0]) + CascadeFilter(objs[1:])
    pl = ParallelFilter(*objs) + ParallelFilter(objs[0]) + ParallelFilter(objs[1:])
  else:   # grown
    idx = [len(parts) - 1] + list(range(len(parts))) + [0, 0] + list(range(len(parts)))
    cl, pl = CascadeFilter(), ParallelFilter()
    for lst in (cl, pl):
      for o in objs:
        lst.append(o)
      lst.extend(objs[:1])
      lst.insert(0, objs[-1])
      lst += [objs[0]]
      lst += type(lst)(objs)
  if type(cl) is not CascadeFilter or type(pl) is not ParallelFilter:
    raise Violation("filter lists built as %r are a %s and a %s" % (bld, type(cl).__name__, type(pl).__name__))
  if len(cl) != len(idx) or len(pl) != len(idx) or any(a is not objs[i] for a, i in zip(cl, idx)) \
     or any(a is not objs[i] for a, i in zip(pl, idx)):
    raise Violation("filter lists built as %r do not hold the expected members (%d members, expected %d)"
                    % (bld, len(cl), len(idx)))
  prod_m, sum_m = RF({0: 1}), RF({})
  for i in idx:
    prod_m = prod_m * RF.lists(*parts[i])
    sum_m = sum_m + RF.lists(*parts[i])
  what = "built as %r from parts=%r (member order %r)" % (bld, parts, idx)
  expect_same(cl, prod_m, "CascadeFilter polynomials, " + what)
  expect_same(pl, sum_m, "ParallelFilter polynomials, " + what)
  co, po = list(cl(feed(list(x)), zero=ZERO)), list(pl(feed(list(x)), zero=ZERO))
  if co != prod_m.response(x):
    raise Violation("CascadeFilter %s: output %r, expected %r (x=%r)" % (what, co, prod_m.response(x), x))
  if po != sum_m.response(x):
    raise Violation("ParallelFilter %s: output %r, expected %r (x=%r)" % (what, po, sum_m.response(x), x))
  if len(parts) == 1 and bld in ("repeat", "rrepeat", "shared"):
    n = len(idx)
    pw = objs[0] ** n
    if not (cl.numpoly * pw.denpoly == pw.numpoly * cl.denpoly) or run_filt(pw, x) != co:
      raise Violation("CascadeFilter of the same filter %d times is not f ** %d (f=%r x=%r)" % (n, n, parts[0], x))
    if run_filt(n * objs[0], x) != po:
      raise Violation("ParallelFilter of the same filter %d times is not %d * f (f=%r x=%r)" % (n, n, parts[0], x))
  # the members are still what they were, and a second call gives the same
  if list(cl(list(x), zero=ZERO)) != co or list(pl(list(x), zero=ZERO)) != po:
    raise Violation("second call of the filter lists %s differs from the first" % what)
  return ["same member object at several positions", "built:" + bld]


# ---------------------------------------------------------------- long filters
def strat_longf(tier):
  co = st.fractions(min_value=-3, max_value=3, max_denominator=7)
  lng = st.lists(co, min_size=34, max_size=44)
  return st.fixed_dictionaries(dict(fb=lng, gb=lng, fa=st.lists(co, max_size=2), c=st.sampled_from([1, 2, -3])))


def run_longf(c):
  """Products, sums and cascades of filters with dozens of taps are still the exact products / sums of
  their polynomials (plain Fraction coefficients: a float creeping in is not absorbed)."""
  fb = [F(v) for v in c["fb"]]
  gb = [F(v) for v in c["gb"]]
  if not any(fb):
    fb[0] = F(1)
  if not any(gb):
    gb[0] = F(1)
  fa = [F(1)] + [F(v) for v in c["fa"]]
  f = lambda: ZFilter(list(fb), list(fa))
  g = lambda: ZFilter(list(gb))
  F_, G_ = RF.lists(fb, fa), RF.lists(gb, [1])
  for what, real, mod in (("f*g", f() * g(), F_ * G_), ("g*f", g() * f(), F_ * G_), ("f+g", f() + g(), F_ + G_),
                          ("c*f*g", c["c"] * f() * g(), RF.const(c["c"]) * F_ * G_),
                          ("cascade", CascadeFilter(f(), g()), F_ * G_),
                          ("parallel", ParallelFilter(f(), g()), F_ + G_)):
    got = rf_of(real)
    if any(isinstance(v, float) for _, v in list(real.numpoly.terms()) + list(real.denpoly.terms())):
      raise Violation("%s of two long filters with Fraction coefficients has float coefficients" % what)
    if not got.same(mod):
      raise Violation("%s of two long filters (%d and %d taps) is not the %s of their polynomials"
                      % (what, len(fb), len(gb), "product" if "*" in what or what == "cascade" else "sum"))
  return {"nontrivial": True, "labels": ["recursive f" if len(fa) > 1 else "FIR f"]}


# ---------------------------------------------------------------- wide exact coefficients
# Exact coefficients are not only small ints: big ints (beyond 2**53), plain Fractions and pairs of
# coefficients that nearly - but not exactly - cancel are exact too.  Polynomials are compared for all of
# them; OUTPUTS are compared whenever every coefficient of the filter that is run prints exactly into the
# generated sample expression (ints, floats, Fractions p/q whose quotient p/q is a double, e.g. dyadic ones):
# for those the exact difference equation is what any correct implementation yields on Q samples.
BIGS = [10 ** 17, 2 ** 60, 7 * 10 ** 17, 2 ** 53, 10 ** 30, 3 * 2 ** 64 + 1, 10 ** 17, 2 ** 53]
TINY = [F(1, 10 ** 18), F(1, 2 ** 70), F(1, 10 ** 30), F(1, 3 * 10 ** 20)]
WIDE_KINDS = ["bigint", "dyadic", "nearfrac", "bigint", "dyadic", "nearfrac", "dyadic"]
_small = st.integers(-3, 3)
_nzsmall = _small.filter(lambda v: v != 0)
_odd = st.sampled_from([1, -1, 3, -3, 5, 7, -5, -7])
_dy_frac = st.tuples(_odd, st.sampled_from([2, 2, 4, 8])).map(lambda t: F(t[0], t[1]))    # never an integer
_dy = st.one_of(_dy_frac, _dy_frac, _small.map(F), _small)
_dy_nz = st.one_of(_dy_frac, _dy_frac, _dy_frac, _nzsmall.map(F), _nzsmall)
_modes = st.sampled_from(["near", "near", "near", "indep", "small", "zero"])


def _den_pair(lead, tail_el):
  tail = st.lists(tail_el, max_size=2)
  one = st.tuples(lead, tail).map(lambda t: [t[0]] + t[1])
  # the same denominator (sums take the short route), the same leading coefficient only, or unrelated ones
  return st.one_of(one.map(lambda a: (a, list(a))), st.tuples(lead, tail, tail).map(lambda t: ([t[0]] + t[1], [t[0]] + t[2])),
                   st.tuples(one, one))


def _wide_kind(kind):
  x = st.one_of(st.lists(qv, min_size=3, max_size=8), st.lists(qv, max_size=8))
  if kind == "dyadic":
    num = lambda lead: st.tuples(lead, st.lists(_dy, max_size=3)).map(lambda t: [t[0]] + t[1])
    return st.fixed_dictionaries(dict(
      kind=st.just(kind), fb=num(_dy), gb=num(_dy_nz), dens=_den_pair(st.one_of(_nzsmall, _nzsmall, _dy_frac), _dy),
      c=st.one_of(_small, _dy_frac), x=x)).map(
        lambda d: dict(kind=kind, fb=d["fb"], fa=d["dens"][0], gb=d["gb"], ga=d["dens"][1], c=d["c"], x=d["x"]))
  n = st.integers(1, 4)
  per = lambda el: st.lists(el, min_size=4, max_size=4)
  base = dict(n=n, sign=st.sampled_from([1, -1]), modes=per(_modes), delta=per(_small), r=per(_small),
              m=per(_small), m2=per(_small), x=x, cmode=st.sampled_from(["small", "small", "big", "cancel", "cancel"]),
              csmall=_small)
  if kind == "bigint":
    base.update(big=st.sampled_from(BIGS), dens=_den_pair(_nzsmall, _small))

    def build(d):
      k, big, s = d["n"], d["big"], d["sign"]
      fb, gb = [], []
      for i in range(k):
        m = d["m"][i] or (1 if i == 0 else 0)
        fv = m * big + d["r"][i] if m else d["r"][i]
        mode = d["modes"][i]
        gv = (s * fv + d["delta"][i] if mode == "near" else d["m2"][i] * big + d["delta"][i] if mode == "indep"
              else d["delta"][i] if mode == "small" else 0)
        fb.append(fv)
        gb.append(gv)
      if gb[0] == 0:
        gb[0] = s * fb[0] + 1
      fa, ga = d["dens"]
      cc = (d["csmall"] if d["cmode"] == "small" else big + d["csmall"] if d["cmode"] == "big"
            else (fb[0] if fa[0] == -1 else -fb[0]) + (d["csmall"] or 1))
      return dict(kind=kind, fb=fb, fa=list(fa), gb=gb, ga=list(ga), c=cc, x=d["x"])
    return st.fixed_dictionaries(base).map(build)
  # nearfrac: rationals that differ by a tiny exact amount
  co = st.fractions(min_value=-3, max_value=3, max_denominator=7)
  base.update(tiny=st.sampled_from(TINY), q=per(co), q2=per(co),
              dens=_den_pair(st.one_of(_nzsmall, co.filter(lambda v: v != 0)), st.one_of(_small, co)))

  def build(d):
    k, tiny, s = d["n"], d["tiny"], d["sign"]
    fb, gb = [], []
    for i in range(k):
      q = d["q"][i] if (d["q"][i] or i) else F(1, 3)
      mode = d["modes"][i]
      fv = q + d["r"][i] * tiny
      gv = (s * q + d["delta"][i] * tiny if mode == "near" else d["q2"][i] if mode == "indep"
            else F(d["delta"][i]) if mode == "small" else F(0))
      fb.append(fv)
      gb.append(gv)
    if gb[0] == 0:
      gb[0] = s * fb[0] + tiny
    fa, ga = d["dens"]
    cc = (d["csmall"] if d["cmode"] == "small" else tiny.denominator if d["cmode"] == "big"
          else (fb[0] if fa[0] == -1 else -fb[0]) + (d["csmall"] or 1) * tiny)
    return dict(kind=kind, fb=fb, fa=list(fa), gb=gb, ga=list(ga), c=cc, x=d["x"])
  return st.fixed_dictionaries(base).map(build)


def _with_delays(t):
  d, gd, extra, sh = t
  d = dict(d)
  # gd: delay both numerators start with (the divisor g has no constant term: f/g reaches the constructor with a
  # denominator whose lowest power is not z**0); f may start later still; sh: the lists handed to ZFilter(b, a) for f
  # both start with sh zeros (the constructor itself has to remove the common delay)
  d.update(gdelay=gd, fdelay=gd + (extra if gd else 0), fshift=sh)
  return d


def strat_wide(tier):
  return st.tuples(st.sampled_from(WIDE_KINDS).flatmap(_wide_kind), st.sampled_from([0, 0, 0, 1, 1, 2]),
                   st.sampled_from([0, 0, 1]), st.sampled_from([0, 0, 0, 1, 2])).map(_with_delays)


def prints_exactly(filt):
  """Every coefficient is written into the generated sample expression without loss: ints and floats are,
  a Fraction p/q is when the double p/q is that rational.  A filter list runs its members, so they all have to."""
  if isinstance(filt, (CascadeFilter, ParallelFilter)):
    return all(prints_exactly(member) for member in filt)
  for _, v in list(filt.numpoly.terms()) + list(filt.denpoly.terms()):
    if isinstance(v, bool) or isinstance(v, int) or isinstance(v, float):
      continue
    if isinstance(v, F):
      try:
        if F(v.numerator / v.denominator) == v:
          continue
      except OverflowError:
        pass
    return False
  return True


def near_cancel(p, q):
  """Some power holds two non-zero coefficients whose sum is non-zero yet below 2**-52 of the larger one."""
  for k, a in p.items():
    b = q.get(k, 0)
    if a and b and a + b != 0 and abs(a + b) * 2 ** 52 <= max(abs(a), abs(b)):
      return True
  return False


def run_wide(c):
  """Sums, differences, products, quotients, cascades and parallels of two filters whose exact coefficients are
  big ints, plain (dyadic) Fractions or nearly cancelling pairs: polynomials always, outputs when printed exactly."""
  fb, fa, gb, ga, x, cc = list(c["fb"]), list(c["fa"]), list(c["gb"]), list(c["ga"]), c["x"], c["c"]
  gd, fd, sh = c.get("gdelay", 0), c.get("fdelay", 0), c.get("fshift", 0)
  fb, gb = [0] * fd + fb, [0] * gd + gb       # causal still; f/g too, since f starts no earlier than g
  f = lambda: ZFilter([0] * sh + list(fb), [0] * sh + list(fa))     # sh > 0: a common delay the constructor removes
  g = lambda: ZFilter(list(gb), list(ga))
  F_, G_, C_ = RF.lists(fb, fa), RF.lists(gb, ga), RF.const(cc)
  ran = [0]

  def out_of(filt):
    return run_filt(filt, x) if prints_exactly(filt) else None

  def chk(name, real, model, composed=None):
    if not isinstance(real, (ZFilter, CascadeFilter, ParallelFilter)):
      raise Violation("%s is a %s" % (name, type(real).__name__))
    expect_same(real, model, "%s (f=%r/%r g=%r/%r c=%r)" % (name, fb, fa, gb, ga, cc))
    if not prints_exactly(real):
      return None
    got = expect_out(real, model, x, "%s (f=%r/%r g=%r/%r c=%r)" % (name, fb, fa, gb, ga, cc))
    ran[0] += 1
    if composed is not None and got is not None and got != composed:
      raise Violation("%s: composite output %r != composition of outputs %r (f=%r/%r g=%r/%r c=%r x=%r)"
                      % (name, got, composed, fb, fa, gb, ga, cc, x))
    return got

  fx, gx = chk("f", f(), F_), chk("g", g(), G_)
  both = fx is not None and gx is not None
  zipped = lambda op: [op(p, q) for p, q in zip(fx, gx)] if both else None
  chk("(f+g)(x)", f() + g(), F_ + G_, zipped(lambda p, q: p + q))
  chk("(g+f)(x)", g() + f(), F_ + G_, zipped(lambda p, q: p + q))
  chk("(f-g)(x)", f() - g(), F_ - G_, zipped(lambda p, q: p - q))
  chk("(g-f)(x)", g() - f(), G_ - F_, zipped(lambda p, q: q - p))
  chk("(f+(-g))(x)", f() + (-g()), F_ - G_, zipped(lambda p, q: p - q))
  chk("((f+g)-g)(x)", (f() + g()) - g(), F_, fx)
  chk("((f-g)+g)(x)", (f() - g()) + g(), F_, fx)
  chk("(f+c)(x)", f() + cc, F_ + C_, [p + cc * v for p, v in zip(fx, x)] if fx is not None else None)
  chk("(c-f)(x)", cc - f(), C_ - F_, [cc * v - p for p, v in zip(fx, x)] if fx is not None else None)
  chk("(c*f)(x)", cc * f(), C_ * F_, [cc * p for p in fx] if fx is not None else None)
  lhs, rhs = cc * (f() - g()), cc * f() - cc * g()
  chk("(c*(f-g))(x)", lhs, C_ * (F_ - G_), zipped(lambda p, q: cc * (p - q)))
  chk("(c*f-c*g)(x)", rhs, C_ * (F_ - G_), zipped(lambda p, q: cc * (p - q)))
  if not (lhs.numpoly * rhs.denpoly == rhs.numpoly * lhs.denpoly):
    raise Violation("c*(f-g) = (%r)/(%r) but c*f-c*g = (%r)/(%r) (f=%r/%r g=%r/%r c=%r)"
                    % (lhs.numpoly, lhs.denpoly, rhs.numpoly, rhs.denpoly, fb, fa, gb, ga, cc))
  fg = run_filt(f(), gx) if both else None
  chk("(f*g)(x)", f() * g(), F_ * G_, fg)
  chk("CascadeFilter(f, g)(x)", CascadeFilter(f(), g()), F_ * G_, fg)
  chk("ParallelFilter(f, g)(x)", ParallelFilter(f(), g()), F_ + G_, zipped(lambda p, q: p + q))
  chk("ParallelFilter(f, g, -g)(x)", ParallelFilter(f(), g(), -g()), F_, fx)
  chk("ParallelFilter(g, f, -g)(x)", ParallelFilter(g(), f(), -g()), F_, fx)
  # quotients: g's numerator starts at delay gd <= the delay f's starts with, so f/g is causal (and 1/g when gd == 0)
  quot = f() / g()
  chk("(f/g)(x)", quot, F_ / G_)
  inv = chk("(1/g)(x)", 1 / g(), G_.inv())       # gd > 0: not causal, polynomials only
  chk("(g/g)(x)", g() / g(), RF({0: 1}), list(x))
  chk("((f/g)*g)(x)", (f() / g()) * g(), F_, fx)
  chk("(g*(f/g))(x)", g() * (f() / g()), F_, fx)
  chk("CascadeFilter(f/g, g)(x)", CascadeFilter(f() / g(), g()), F_, fx)
  if gd == 0:
    chk("CascadeFilter(g, 1/g)(x)", CascadeFilter(g(), 1 / g()), RF({0: 1}), list(x))
  else:
    expect_same(CascadeFilter(g(), 1 / g()), RF({0: 1}), "CascadeFilter(g, 1/g) polynomials (g=%r/%r)" % (gb, ga))
  if both and prints_exactly(quot):
    if run_filt(f() / g(), gx) != fx:
      raise Violation("(f/g)(g(x)) = %r but f(x) = %r (f=%r/%r g=%r/%r x=%r)"
                      % (run_filt(f() / g(), gx), fx, fb, fa, gb, ga, x))
  if inv is not None and gx is not None and run_filt(1 / g(), gx) != list(x):
    raise Violation("(1/g)(g(x)) = %r, not x = %r (g=%r/%r)" % (run_filt(1 / g(), gx), x, gb, ga))
  # labels: measured on the data, not on the construction
  labels = ["kind:" + c["kind"]]
  if gd:
    labels.append("divisor starts with a delay")
    if c["kind"] == "bigint":
      labels.append("divisor starts with a delay, ints beyond 2**53")
  if sh:
    labels.append("constructor removes a common delay")
  tn = lambda l: trim(dict(enumerate(F(v) for v in l)))
  nfb, nfa, ngb, nga = tn(fb), tn(fa), tn(gb), tn(ga)
  neg = lambda p: p_scale(p, -1)
  if nfa == nga:
    plus, minus = near_cancel(nfb, ngb), near_cancel(nfb, neg(ngb))
    route = "shared denominator"
  else:
    plus = near_cancel(p_mul(nfb, nga), p_mul(ngb, nfa))
    minus = near_cancel(p_mul(nfb, nga), neg(p_mul(ngb, nfa)))
    route = "different denominators"
  if plus or minus:
    labels += ["nearly cancelling coefficients", "nearly cancelling, " + route,
               "nearly cancelling, " + ("ints" if c["kind"] == "bigint" else "Fractions")]
  if near_cancel(nfb, p_scale(nfa, F(cc))):
    labels.append("f + c nearly cancels")
  gain = quot.denpoly[0]
  if isinstance(gain, F) and gain.denominator != 1:
    labels.append("gain of f/g is a Fraction p/q")
    if prints_exactly(quot) and fx is not None and len(x) >= 1:
      labels.append("gain p/q, output compared")
  lead = gb[0]
  if isinstance(lead, F) and lead.denominator != 1:
    labels.append("divisor leads with a Fraction p/q")
  if ran[0] >= 20:
    labels.append("outputs compared")
  order_of = lambda b, a: max(max(tn(b) or [0]), max(tn(a) or [0]))
  return {"nontrivial": order_of(fb, fa) >= 1 and order_of(gb, ga) >= 1 and (fb, fa) != (gb, ga),
          "labels": labels}


# ---------------------------------------------------------------- one scalar value, several spellings
# A scalar is a value: 5, 5.0 and Fraction(5) (2.5 and Fraction(5, 2)) are the same c.  Whatever spelling of c was
# used before - on whichever filter, on whichever side of the operator - an int / Fraction c applied to a filter with
# exact coefficients gives the exact c*f, c+f, c-f, c/f.  The float spelling is only applied to filters with small
# int coefficients (float arithmetic is exact there).  The scalar values are spread over ~10**12 numbers so that a
# case meets values no earlier case of the same process has used.
SPELL_OPS = ["c*f", "c+f", "c-f", "c/f", "c*f", "c+f", "c-f", "f*c", "f+c", "f-c"]
_spell_step = st.tuples(st.sampled_from(["float", "int", "fraction", "int"]), st.sampled_from(SPELL_OPS),
                        st.sampled_from(["wide", "wide", "wide", "small"]))
_first_step = st.tuples(st.sampled_from(["float", "float", "float", "float", "fraction", "int"]),
                        st.sampled_from(SPELL_OPS), st.just("small"))


def strat_spell(tier):
  co = st.fractions(min_value=-3, max_value=3, max_denominator=7)
  per = lambda el: st.lists(el, min_size=3, max_size=3)
  return st.fixed_dictionaries(dict(
    ma=st.integers(0, 10 ** 6), mb=st.integers(0, 10 ** 6), k=st.sampled_from([0, 0, 0, 1, 2, 3]),
    sign=st.sampled_from([1, 1, -1]),
    g=filt_st(need_b0=True),
    kind=st.sampled_from(["bigint", "bigint", "nearfrac", "sevenths"]), big=st.sampled_from(BIGS), tiny=st.sampled_from(TINY),
    n=st.integers(1, 3), m=per(_small), r=per(_small), q=per(co),
    fa=st.tuples(_nzsmall, st.lists(_small, max_size=2)).map(lambda t: [t[0]] + t[1]),
    first=_first_step, steps=st.lists(_spell_step, min_size=1, max_size=3),
    x=st.one_of(st.lists(qv, min_size=3, max_size=6), st.lists(qv, max_size=6))))


def float_exact(v):
  v = F(v)
  try:
    return F(v.numerator / v.denominator) == v
  except OverflowError:
    return False


def run_spell(c):
  m = 4 + c["ma"] + 1000003 * c["mb"]
  cv = F(c["sign"] * m, 2 ** c["k"])
  spellings = {"float": float(cv), "fraction": cv, "int": int(cv) if cv.denominator == 1 else cv}
  if F(spellings["float"]) != cv:
    raise Reject()      # cannot happen: m < 2**41
  x = c["x"]
  # the filter with wide exact coefficients
  fb = []
  for i in range(c["n"]):
    if c["kind"] == "bigint":
      mm = c["m"][i] or (1 if i == 0 else 0)
      fb.append(mm * c["big"] + c["r"][i] if mm else c["r"][i])
    elif c["kind"] == "nearfrac":
      fb.append((c["q"][i] if (c["q"][i] or i) else F(1, 3)) + c["r"][i] * c["tiny"])
    else:
      fb.append(c["q"][i] if (c["q"][i] or i) else F(1, 7))
  fa = list(c["fa"])
  targets = {"wide": (lambda: ZFilter(list(fb), list(fa)), RF.lists(fb, fa), fb + fa),
             "small": (lambda: mk(c["g"]), RF.lists(*c["g"]), list(c["g"][0]) + list(c["g"][1]))}
  C_ = RF.const(cv)
  labels = ["kind:" + c["kind"]]
  seen_float = seen_float_reflected = False
  hit = False
  for i, (sp, op, tg) in enumerate([tuple(c["first"])] + [tuple(t) for t in c["steps"]]):
    if sp == "float":
      tg = "small"        # float arithmetic on big ints / 1/3 is not exact: outside the property
    make, M_, coeffs = targets[tg]
    cc = spellings[sp]
    filt = make()
    if op == "c*f":
      real, model = cc * filt, C_ * M_
    elif op == "c+f":
      real, model = cc + filt, C_ + M_
    elif op == "c-f":
      real, model = cc - filt, C_ - M_
    elif op == "c/f":
      real, model = cc / filt, C_ / M_
    elif op == "f*c":
      real, model = filt * cc, C_ * M_
    elif op == "f+c":
      real, model = filt + cc, C_ + M_
    else:
      real, model = filt - cc, M_ - C_
    what = "step %d: %s with c = %r (%s) on f = %s; steps so far %r" % (
      i, op, cc, type(cc).__name__, "%r/%r" % ((fb, fa) if tg == "wide" else tuple(c["g"])),
      [tuple(c["first"])] + [tuple(t) for t in c["steps"]][:i])
    if not isinstance(real, ZFilter):
      raise Violation("%s gives a %s" % (what, type(real).__name__))
    expect_same(real, model, what)
    if prints_exactly(real):
      expect_out(real, model, x, what)
    if sp == "float":
      seen_float = True
      seen_float_reflected = seen_float_reflected or op.startswith("c")
    elif seen_float:
      labels.append("exact spelling after the float spelling")
      if seen_float_reflected and op.startswith("c") and op != "c/f" and any(
           not float_exact(v) or not float_exact(cv * F(v)) for v in coeffs):
        hit = True
  if tuple(c["first"])[0] == "float":
    labels.append("float spelling first")
  if hit:
    labels.append("exact c on the left after float c on the left, coefficients a float would round")
  if cv.denominator != 1:
    labels.append("c is not an integer")
  return {"nontrivial": seen_float and len(x) >= 1, "labels": sorted(set(labels))}


# ---------------------------------------------------------------- linearize (fractional delays)
def strat_lin(tier):
  frac = st.sampled_from([.5, .25, .75, 1.5, 2.25, 0.125, 3.5])
  term = st.one_of(st.tuples(st.integers(0, 4), ints), st.tuples(frac, nzint), st.tuples(frac, nzint))
  return st.fixed_dictionaries(dict(
    num=st.lists(term, min_size=1, max_size=4, unique_by=lambda t: t[0]),
    den=st.lists(st.tuples(st.sampled_from([1, 2, 1.5, 2.5, 1.25]), ints), max_size=2, unique_by=lambda t: t[0]),
    x=st.lists(qv, min_size=2, max_size=8), build=st.sampled_from(["dict", "expr", "expr_rev"])))


def run_lin(c):
  """z**-(k+a) is linearised to (1-a) z**-k + a z**-(k+1), term by term and additively, in any term order."""
  num, den = [tuple(t) for t in c["num"]], [(0, 1)] + [tuple(t) for t in c["den"]]
  def mkf(terms, how):
    if how == "dict":
      return dict(terms)
    ts = list(terms) if how == "expr" else list(reversed(terms))
    f = ZFilter(0)
    for k, v in ts:
      f = f + v * z ** -k
    return f
  if c["build"] == "dict":
    filt = ZFilter(mkf(num, "dict"), mkf(den, "dict"))
  else:
    filt = mkf(num, c["build"]) / mkf(den, c["build"])
  lin = filt.linearize()
  def model(terms):
    out = {}
    for k, v in terms:
      if v == 0:
        continue
      lo = int(k)
      w = F(k) - lo
      for kk, vv in ((lo, F(v) * (1 - w)), (lo + 1, F(v) * w)):
        if vv != 0:
          out[kk] = out.get(kk, 0) + vv
    return trim(out)
  M = RF(model(num), model(den))
  got = rf_of(lin)
  if not all(isinstance(k, int) for k in list(got.n) + list(got.d)):
    raise Violation("linearize() left non-integer delays: %r / %r" % (got.n, got.d))
  if not got.same(M):
    raise Violation("linearize() of num=%r den=%r (built as %s) gives (%r)/(%r), expected (%r)/(%r)"
                    % (num, den, c["build"], got.n, got.d, M.n, M.d))
  labels = ["build:" + c["build"]]
  ks = [k for k, v in num if v != 0]
  if any(isinstance(k, float) and any(isinstance(j, int) and j in (int(k), int(k) + 1) for j in ks) for k in ks):
    labels.append("fractional tap lands on an integer term")
  return {"nontrivial": len(ks) >= 2, "labels": labels}


# ---------------------------------------------------------------- (c) expression trees / field laws
def tree_st(depth):
  # by construction every sub-tree is a filter: bare numbers only appear as one operand of + - *
  fl = filt_st(need_b0=True).map(lambda ba: ("filt", ba))
  # c * z ** k, k != 0: a scaled delay (k < 0) or advance (k > 0; f(c * z ** k) stays causal); never a bare gain
  mono = st.tuples(st.just("zmono"), st.sampled_from([1, 1, 2, 2, 3, -1, -2]), st.sampled_from([1, 2, -1, -2, .5, 4, 2, -2]))
  leaf = st.one_of(fl, fl, fl, filt_st().map(lambda ba: ("filt", ba)),
                   st.integers(0, 3).map(lambda k: ("delay", k)))
  if depth == 0:
    return leaf
  # a divisor / substituted filter without constant term in its numerator (delay-leading), or a scaled power of z
  nolead = st.tuples(st.integers(1, 2), filt_st(need_b0=True)).map(lambda t: ("filt", ([0] * t[0] + list(t[1][0]), t[1][1])))
  target = st.one_of(fl, fl, mono, mono, nolead, nolead)
  sub = tree_st(depth - 1)
  num = st.sampled_from([1, -1, 2, -2, 3]).map(lambda v: ("int", v))
  small = tree_st(0) if depth > 1 else sub      # powers / substitutions nest shallowly: cost guard by construction
  op = st.sampled_from(["+", "-", "*"])
  return st.one_of(
    leaf,
    st.tuples(op, sub, sub), st.tuples(op, sub, sub),
    st.tuples(op, sub, num), st.tuples(op, num, sub),
    st.tuples(st.just("/"), sub, st.one_of(fl, fl, fl, mono, nolead)),
    st.tuples(st.just("**"), small, st.integers(-2, 3)),
    st.tuples(st.just("neg"), sub),
    st.tuples(st.just("subst"), small, target), st.tuples(st.just("subst"), fl, mono))


def strat_trees(tier):
  return st.fixed_dictionaries(dict(t=tree_st(2 if tier == "quick" else 3), u=tree_st(1), v=tree_st(1),
                                    x=st.lists(qv, max_size=8)))


class Undefined(Exception):
  pass


def float_power(m):
  """True when a negative power of this single-term filter leaves exact arithmetic
  (the library computes coefficient ** -n with Python's float power)."""
  if len(m.n) != 1 or len(m.d) != 1:
    return False
  pow2 = lambda v: abs(v).numerator == 1 or abs(v).denominator == 1 and abs(v).numerator & (abs(v).numerator - 1) == 0
  return not all(pow2(v) and (abs(v).denominator & (abs(v).denominator - 1)) == 0
                 for v in list(m.n.values()) + list(m.d.values()))


def ev(t, stats):
  """Evaluate the tree both ways -> (real or number, model, has_filter)."""
  tag = t[0]
  if tag == "filt":
    return mk(t[1]), RF.lists(*t[1]), True
  if tag == "int":
    return t[1], RF.const(t[1]), False
  if tag == "delay":
    return z ** -t[1], RF({t[1]: 1}), True
  if tag == "zmono":
    return t[2] * z ** t[1], RF({-t[1]: F(t[2])}), True
  if tag == "neg":
    r, m, isf = ev(t[1], stats)
    return -r, -m, isf
  if tag == "**":
    r, m, isf = ev(t[1], stats)
    n = t[2]
    if n < 0 and not m.n:
      raise Undefined
    if n < 0 and float_power(m):
      raise Undefined   # c ** -n on a single-term filter is Python's float power, not filter algebra
    if not isf:
      raise Undefined   # plain numbers: Python's own arithmetic
    stats.add("**")
    return r ** n, m ** n, True
  if tag == "subst":
    r1, m1, f1 = ev(t[1], stats)
    r2, m2, f2 = ev(t[2], stats)
    if not (f1 and f2) or not m2.n or float_power(m2):
      raise Undefined
    try:
      mm = m1.subst(m2)
    except ZeroDivisionError:
      raise Undefined
    stats.add("subst")
    if len(m2.n) == 1 and len(m2.d) == 1 and min(m2.n) != min(m2.d):
      stats.add("subst by a power of z")
      if abs(list(m2.n.values())[0]) != abs(list(m2.d.values())[0]) and (len(m1.n) > 1 or len(m1.d) > 1 or max(m1.n or [0]) > 0):
        stats.add("subst by a scaled power of z")
    elif min(m2.n) != min(m2.d):
      stats.add("subst by a filter starting with a delay")
    return r1(r2), mm, True
  r1, m1, f1 = ev(t[1], stats)
  r2, m2, f2 = ev(t[2], stats)
  if not (f1 or f2):
    raise Undefined
  stats.add(tag)
  if tag == "+":
    return r1 + r2, m1 + m2, True
  if tag == "-":
    return r1 - r2, m1 - m2, True
  if tag == "*":
    return r1 * r2, m1 * m2, True
  if tag == "/":
    if not m2.n:
      raise Undefined
    if not f2:
      # f / c multiplies by the float 1/c: coefficients become floats, which stop being exact once
      # nested products push them past 2**53 (seen in a thorough run) - division by a bare number
      # is covered by the signals clause, not inside trees
      raise Undefined
    return r1 / r2, m1 / m2, True
  raise AssertionError(tag)


def depth(t):
  return 1 + max([depth(s) for s in t[1:] if isinstance(s, tuple) and s and isinstance(s[0], str)] or [0])


def deg_bound(t):
  """Cheap upper bound of the polynomial degrees an expression tree produces (cost guard)."""
  tag = t[0]
  if tag == "filt":
    return max(len(t[1][0]), len(t[1][1]))
  if tag == "int":
    return 0
  if tag == "delay":
    return t[1] + 1
  if tag == "zmono":
    return abs(t[1]) + 1
  if tag == "neg":
    return deg_bound(t[1])
  if tag == "**":
    return deg_bound(t[1]) * max(1, abs(t[2]))
  if tag == "subst":
    return 2 * max(1, deg_bound(t[1])) * max(1, deg_bound(t[2]))
  return deg_bound(t[1]) + deg_bound(t[2])


def run_trees(c):
  stats = set()
  # the work grows exponentially with nested powers / substitutions: keep cases O(ms)
  if deg_bound(c["t"]) > 40 or deg_bound(c["u"]) + deg_bound(c["v"]) > 24:
    raise Reject()
  try:
    r, m, isf = ev(c["t"], stats)
  except Undefined:
    raise Reject()
  if not isf:
    raise Reject()
  if not isinstance(r, ZFilter):
    raise Violation("expression evaluates to %s, not a ZFilter" % type(r).__name__)
  expect_same(r, m, "expression tree %r" % (c["t"],))
  out = expect_out(r, m, c["x"], "expression tree %r" % (c["t"],)) if r.is_causal() else None
  labels = sorted(stats) + ["depth %d" % depth(c["t"])]
  if out is not None:
    labels.append("ran")
  # field laws on three independently generated sub-expressions
  try:
    (a, am, af) = ev(c["t"], set())
    (b, bm, bf) = ev(c["u"], set())
    (d, dm, df) = ev(c["v"], set())
  except Undefined:
    return {"nontrivial": depth(c["t"]) >= 2, "labels": labels}
  if not (af and bf and df):
    return {"nontrivial": depth(c["t"]) >= 2, "labels": labels}

  def same(p, q, law):
    e, ne = (p == q), (p != q)
    if e == ne or (e and hash(p) != hash(q)):
      raise Violation("%s: the two sides compare == %r, != %r, hashes %s for a=%r b=%r c=%r"
                      % (law, e, ne, "equal" if hash(p) == hash(q) else "different", c["t"], c["u"], c["v"]))
    if not rf_of(p).same(rf_of(q)):
      raise Violation("%s fails: (%r)/(%r) vs (%r)/(%r) for a=%r b=%r c=%r"
                      % (law, rf_of(p).n, rf_of(p).d, rf_of(q).n, rf_of(q).d, c["t"], c["u"], c["v"]))
  A = lambda: ev(c["t"], set())[0]
  B = lambda: ev(c["u"], set())[0]
  D = lambda: ev(c["v"], set())[0]
  same(A() + B(), B() + A(), "a+b == b+a")
  same(A() * B(), B() * A(), "a*b == b*a")
  same((A() + B()) + D(), A() + (B() + D()), "+ associative")
  same((A() * B()) * D(), A() * (B() * D()), "* associative")
  same(A() * (B() + D()), A() * B() + A() * D(), "distributive")
  if am.n:
    one = A() / A()
    expect_same(one, RF({0: 1}), "a/a == 1 for a=%r" % (c["t"],))
  zero = A() - A()
  if len(zero.numpoly) != 0:
    raise Violation("a - a has numerator %r for a=%r" % (zero.numpoly, c["t"]))
  labels.append("field laws")
  return {"nontrivial": depth(c["t"]) >= 2, "labels": labels}


# ---------------------------------------------------------------- (d) == / != / hash
def spell(v, how):
  if how == "float":
    return float(v)
  if how == "fraction":
    return F(v)
  return v


def strat_eq(tier):
  return st.fixed_dictionaries(dict(
    f=filt_st(), g=filt_st(),
    rel=st.sampled_from(["same", "same", "same num", "same den", "independent", "scaled"]),
    s1=st.sampled_from(["int", "float", "fraction"]), s2=st.sampled_from(["int", "float", "fraction"]),
    r1=st.sampled_from(["list", "dict", "zexpr", "linear", "dict_rev"]),
    r2=st.sampled_from(["list", "dict", "zexpr", "linear", "copy", "dict_rev", "zexpr_rev", "sum_rev"])))


def build(ba, sp, route):
  b = [spell(v, sp) for v in ba[0]]
  a = [spell(v, sp) for v in ba[1]]
  if route == "dict":
    return ZFilter(dict(enumerate(b)), dict(enumerate(a)))
  if route == "dict_rev":    # same terms, inserted in the opposite order
    return ZFilter(dict(reversed(list(enumerate(b)))), dict(reversed(list(enumerate(a)))))
  if route == "zexpr_rev":
    return sum((v * z ** -k for k, v in reversed(list(enumerate(b)))), ZFilter(0)) / \
      sum((v * z ** -k for k, v in reversed(list(enumerate(a)))), ZFilter(0))
  if route == "sum_rev":     # numerator assembled as a sum of one-term filters, highest delay first
    num = ZFilter(0)
    for k, v in reversed(list(enumerate(b))):
      num = ZFilter({k: v}) + num if k % 2 else num + ZFilter({k: v})
    return num / ZFilter(a)
  if route == "zexpr":
    return sum((v * z ** -k for k, v in enumerate(b)), ZFilter(0)) / sum((v * z ** -k for k, v in enumerate(a)), ZFilter(0))
  if route == "linear":
    return LinearFilter(b, a)
  if route == "copy":
    return ZFilter(b, a).copy()
  return ZFilter(b, a)


def run_eq(c):
  f = tuple(c["f"])
  g = tuple(c["g"])
  rel = c["rel"]
  if rel == "same":
    g = f
  elif rel == "same num":
    g = (f[0], g[1])
  elif rel == "same den":
    g = (g[0], f[1])
  elif rel == "scaled":
    g = ([2 * v for v in f[0]], [2 * v for v in f[1]])
  p, q = build(f, c["s1"], c["r1"]), build(g, c["s2"], c["r2"])
  tn = lambda l: trim(dict(enumerate(l)))
  num_eq = tn(f[0]) == tn(g[0])
  den_eq = tn(f[1]) == tn(g[1])
  structurally = num_eq and den_eq
  e, ne = (p == q), (p != q)
  if e is not True and e is not False or ne is not True and ne is not False:
    raise Violation("== / != return %r / %r" % (e, ne))
  if e == ne:
    raise Violation("f == g is %r and f != g is %r for f=%r g=%r (numerators %s, denominators %s)"
                    % (e, ne, f, g, "equal" if num_eq else "differ", "equal" if den_eq else "differ"))
  if e != structurally:
    raise Violation("f == g is %r but the filters are structurally %s: f=%r g=%r"
                    % (e, "equal" if structurally else "different", f, g))
  if (q == p) != e or (q != p) != ne:
    raise Violation("== / != not symmetric for f=%r g=%r" % (f, g))
  if e and hash(p) != hash(q):
    raise Violation("equal filters hash differently: f=%r (%s,%s) g=%r (%s,%s)"
                    % (f, c["s1"], c["r1"], g, c["s2"], c["r2"]))
  cp = p.copy()
  if not (p == cp) or (p != cp) or hash(p) != hash(cp):
    raise Violation("a filter is not equal / hash-equal to its copy: %r" % (f,))
  cls = "equal" if structurally else ("only denominators differ" if num_eq else
                                      "only numerators differ" if den_eq else "both differ")
  return {"nontrivial": order(f) >= 1 and order(g) >= 1, "labels": [cls, rel, c["s1"] + "/" + c["s2"]]}


# ---------------------------------------------------------------- (d') == / != / hash with fractional delays
# z ** -1.5 is a legal ZFilter term (linearize() exists for it), built by the same operators.  With a non-integer
# power the polynomial keeps its terms in creation order, so the same filter is reached in several term orders.
FRAC_DELAYS = [.5, 1.5, 2.5, .25, 1.25]


def strat_eqfrac(tier):
  delay = st.one_of(st.integers(0, 3), st.sampled_from(FRAC_DELAYS), st.sampled_from(FRAC_DELAYS))
  terms = st.lists(st.tuples(delay, nzint), min_size=1, max_size=4, unique_by=lambda t: t[0])
  dterms = st.lists(st.tuples(st.sampled_from([1, 2, 1.5, 2.5, 1.25]), nzint), max_size=2, unique_by=lambda t: t[0])
  order = st.sampled_from(["fwd", "rev", "rot", "rev"])
  return st.fixed_dictionaries(dict(
    num=terms, den=dterms, num2=terms, den2=dterms,
    rel=st.sampled_from(["same", "same", "same", "same num", "same den", "independent"]),
    o1=order, o2=order, b1=st.sampled_from(["dict", "expr"]), b2=st.sampled_from(["dict", "expr"])))


def _ordered(terms, how):
  terms = list(terms)
  return terms if how == "fwd" else terms[::-1] if how == "rev" else terms[1:] + terms[:1]


def _build_frac(num, den, order, how):
  num, den = _ordered(num, order), _ordered([(0, 1)] + list(den), order)
  if how == "dict":
    return ZFilter(dict(num), dict(den))
  def expr(ts):
    f = ZFilter(0)
    for k, v in ts:
      f = f + v * z ** -k
    return f
  return expr(num) / expr(den)


def run_eqfrac(c):
  num, den = [tuple(t) for t in c["num"]], [tuple(t) for t in c["den"]]
  num2, den2 = [tuple(t) for t in c["num2"]], [tuple(t) for t in c["den2"]]
  rel = c["rel"]
  if rel == "same":
    num2, den2 = num, den
  elif rel == "same num":
    num2 = num
  elif rel == "same den":
    den2 = den
  p, q = _build_frac(num, den, c["o1"], c["b1"]), _build_frac(num2, den2, c["o2"], c["b2"])
  structurally = dict(num) == dict(num2) and dict(den) == dict(den2)
  what = "f=%r/%r (%s, %s) g=%r/%r (%s, %s)" % (num, den, c["o1"], c["b1"], num2, den2, c["o2"], c["b2"])

  def coherent(a, b, name, expected=None):
    e, ne = (a == b), (a != b)
    if e is not True and e is not False or ne is not True and ne is not False:
      raise Violation("%s: == / != return %r / %r" % (name, e, ne))
    if e == ne:
      raise Violation("%s: == is %r and != is %r; %s" % (name, e, ne, what))
    if expected is not None and e != expected:
      raise Violation("%s: == is %r but the filters are term by term %s; %s"
                      % (name, e, "equal" if expected else "different", what))
    if (b == a) != e or (b != a) != ne:
      raise Violation("%s: == / != not symmetric; %s" % (name, what))
    if e and hash(a) != hash(b):
      raise Violation("%s: equal filters hash differently; %s" % (name, what))
    return e

  coherent(p, q, "f ? g", structurally)
  coherent(p, p.copy(), "f ? f.copy()", True)
  # both sides of the commutative laws over such filters
  coherent(p + q, q + p, "f+g ? g+f")
  coherent(p * q, q * p, "f*g ? g*f")
  frac = lambda ts: any(isinstance(k, float) for k, v in ts)
  labels = [rel, "equal" if structurally else "different"]
  if frac(num) or frac(den):
    labels.append("fractional delay")
    if structurally and (c["o1"] != c["o2"] or c["b1"] != c["b2"]) and len(num) + len(den) >= 2:
      labels.append("equal, fractional delays, other term order")
  return {"nontrivial": (frac(num) or frac(den)) and len(num) + len(den) >= 2, "labels": labels}


CLAUSES = [
  Clause("signals", strat_signals, run_signals, quick=500, thorough=12000,
         floors={"f recursive": .3},
         doc="(f+g)(x), (f-g)(x), (c*f)(x), (f*g)(x)=f(g(x))=g(f(x)), ((f/g)*g)(x), (f**n)(x), z**-k: outputs and polynomials"),
  Clause("high_powers", strat_highpow, run_highpow, quick=400, thorough=8000,
         floors={"multi-term, even n >= 6": .1, "odd n": .1, "negative exponent": .03, "f recursive": .15},
         doc="f**n, 5 <= |n| <= 16, on 1..3-term filters: f applied |n| times, |n|-fold product of filters and of polynomials"),
  Clause("cascade_parallel", strat_lists, run_lists, quick=700, thorough=15000,
         floors={"shared denominator": .1, "same member object at several positions": .3,
                 "different denominators, a partial sum's denominator is the next branch's": .06},
         doc="CascadeFilter == product, ParallelFilter == sum: outputs and numpoly/denpoly by cross-multiplication"),
  Clause("long_filters", strat_longf, run_longf, quick=40, thorough=600,
         doc="filters with 34..44 taps and Fraction coefficients: product / sum / cascade / parallel polynomials stay exact"),
  Clause("wide_coefficients", strat_wide, run_wide, quick=500, thorough=10000,
         floors={"nearly cancelling coefficients": .12, "nearly cancelling, ints": .04, "nearly cancelling, Fractions": .04,
                 "nearly cancelling, different denominators": .025, "f + c nearly cancels": .015,
                 "gain p/q, output compared": .06, "outputs compared": .2,
                 "divisor starts with a delay, ints beyond 2**53": .04, "constructor removes a common delay": .08},
         doc="+ - * / cascade parallel on big-int, plain-Fraction and nearly cancelling exact coefficients: polynomials always, outputs when every coefficient prints exactly"),
  Clause("scalar_spellings", strat_spell, run_spell, quick=400, thorough=8000,
         floors={"float spelling first": .3, "exact spelling after the float spelling": .3,
                 "exact c on the left after float c on the left, coefficients a float would round": .05},
         doc="c*f, c+f, c-f, c/f, f*c, f+c, f-c with one scalar value spelled as float, int and Fraction in turn (float on small-int filters, exact spellings on big-int / Fraction filters): every result is the exact one whatever spelling came first"),
  Clause("linearize", strat_lin, run_lin, quick=500, thorough=8000,
         floors={"fractional tap lands on an integer term": .1},
         doc="linearize(): fractional delays become the two neighbouring integer taps, additively and independently of term order"),
  Clause("expression_trees", strat_trees, run_trees, quick=800, thorough=20000,
         floors={"subst": .03, "field laws": .3, "**": .05, "ran": .4, "subst by a scaled power of z": .02,
                 "subst by a power of z": .04},
         doc="trees over + - * / ** neg and substitution vs rational-function model; commutative/associative/distributive/f/f/f-f laws"),
  Clause("eq_ne_hash", strat_eq, run_eq, quick=1500, thorough=30000,
         floors={"only denominators differ": .05, "only numerators differ": .05, "equal": .2},
         doc="exactly one of ==, != holds; equal filters hash equally; copies are equal"),
  Clause("eq_fractional_delays", strat_eqfrac, run_eqfrac, quick=500, thorough=8000,
         floors={"equal, fractional delays, other term order": .1, "different": .1},
         doc="== / != / hash on filters with fractional delays (terms kept in creation order) reached in different term orders, and on both sides of f+g = g+f, f*g = g*f"),
]
