"""C13 - Designed filters meet their documented gain, cut-off and pole contracts.

Clauses
  lowhigh     lowpass/highpass x pole, z, pole_exp, z_exp: unit gain at DC /
              Nyquist, pole strictly inside the unit circle; pole and z also:
              half power at the cut-off and monotone magnitude (257-point grid)
  edges       the same contracts on a fixed list of boundary cut-offs
              (1e-3, pi-1e-3, pi/2 +- tiny, pi/6, 5pi/6, ints), enumerated
  resonator   4 strategies: z^-2 coefficient == e^-bw (radius e^{-bw/2} when the
              poles are complex), unit gain at the resonant frequency, and no
              grid point above it
  comb        fb / tau / ff (all aliases): exact Q responses equal the stated
              recursion; tau form uses alpha = e^{-delay/tau}; delays 1..12 and long
              delay lines up to 130; the feedback forms also from a given initial
              state (memory argument: y[-1] first), not only from rest
  longcomb    delay lines of 131..48000 samples (echo / reverberator use): comb.tau's
              feedback coefficient equals e^{-delay/tau} for taus from delay/10 to
              100*delay (floats, ints, number or Stream-valued); for delays <= 3000 the
              exact Q responses of fb / tau / ff over one to three periods, and the
              impulse response at n = delay, 2*delay against the stated decay
  gammatone   sampled (eta 1..4, phase), slaney, klapuri: CascadeFilter of stable
              second-order sections with unit gain at the centre frequency
  streams     Stream-valued parameters (lowpass/highpass x4, resonator x4, comb
              alpha / tau, gammatone.klapuri): every coefficient Stream equals the
              constant design's coefficient sample by sample; comb delays 1..12 and
              131..48000; the tau form's coefficient Stream also equals e^{-delay/tau}
              itself sample by sample
  controls    one parameter object for a bank of one to three designs of every thub-based family: a
              ControlStream (value changed between reads), an endless constant Stream, or a finite
              Stream shared through thub(stream, copies); the coefficient Streams are read a few samples
              at a time in any order: index i of every coefficient of a design is the constant design
              for that design's i-th parameter sample (the control's value when index i was first pulled)
  longstreams Stream-valued parameters of 300..1500 samples (thorough: to 4000) over a pool of 257..700 (1500)
              distinct values that come again after more than 256 other values (periodic Stream(*values), cycle,
              held steps, triangle sweeps, irregular revisits), every stream-capable family: each sample of each
              coefficient equals the constant design of that sample's parameter (coefficients only)

Entry points: every family is called through attribute, item, the dictionary itself (default strategy)
and with the documented parameter names as keywords (gammatone.sampled also with phase / eta by
position); a share of the named-strategy calls runs while every dictionary has another default set.
"""
import math
import itertools
from fractions import Fraction

from hypothesis import strategies as st
from vlib.core import Clause, Enumerated, Violation, Reject
from vlib.q import Q

from audiolazy import (lowpass, highpass, resonator, comb, gammatone, Stream,
                       CascadeFilter, LinearFilter, ControlStream, thub)

ID = "C13"
RULE = ("cases = (design strategy chosen by name, parameters drawn from the "
        "documented ranges: cut-off / centre in [1e-3, pi-1e-3], bandwidth in "
        "[1e-3, 1], delay 1..12, long lines 13..130 and 131..48000 (responses computed up to 3000, tau then "
        "from delay/10 to 100*delay), alpha / tau, exact-rational input signals, "
        "feedback combs from rest or from a given memory of at least delay values) drawn "
        "by Hypothesis plus an enumerated list of boundary cut-offs; oracle = "
        "magnitude of B/A evaluated independently (fsum) from the returned "
        "coefficient lists at DC, Nyquist, cut-off, resonance and on grids, the "
        "second-order stability triangle, an exact Fraction model of the comb "
        "recursions, constant designs for Stream-valued parameters; "
        "non-trivial = parameter not at a forced boundary value (comb: signal "
        "longer than the delay, or a given state whose order matters; controls: the value changes, a later "
        "design of the bank is read, or a shared finite Stream has different values); calls by attribute, item, "
        "default strategy, keyword and position, a share of them while other default strategies are set; "
        "distinct = distinct case hash")
ASSUMPTIONS = [
  "magnitudes are evaluated from filt.numerator / filt.denominator with an independent fsum evaluation "
  "(and cross-checked against filt.freq_response at the asserted points)",
  "tolerances: edge gain 1e-9, half power 1e-6, monotone slack 1e-12, resonator gain / peak 1e-7 "
  "(probed rounding error <= 1.1e-10 at the (1e-3, 1e-3) corner), e^-bw and alpha 1e-12, gammatone gain 1e-6 + 64*2^-53*sum over sections of (sum|b|/|B(w0)| + sum|a|/|A(w0)|): "
  "eta=4 near (1e-3, 1e-3) returns numerator coefficients ~1e6 that cancel to ~5e-6 at w0, so double "
  "coefficients cannot express the gain to 1e-6 there (exact rational evaluation: 1.0000033); such cases "
  "are labelled and not counted as non-trivial",
  "freq_poles_exp / freq_z_exp: unit gain is asserted at w_r with cos w_r = cos(freq)(1+R^2)/(2R) resp. "
  "cos(freq)2R/(1+R^2), only where |cos w_r| <= 1-1e-6 (otherwise the design has no resonance peak)",
  "pole radius e^{-bw/2} is asserted through the z^-2 coefficient e^{-bw}; it is the radius whenever the "
  "poles are complex (discriminant < 0), which is labelled",
  "Stream-valued parameters are exercised for the thub-based designs only (lowpass, highpass, resonator, "
  "comb, gammatone.klapuri); gammatone.sampled / slaney take numbers",
  "comb coefficients are ints / floats (printed exactly into the generated filter source); signals are Q",
  "comb delays are bounded by 48000 samples (one second at 48 kHz) for the coefficient contracts and by 3000 "
  "samples for computed responses (at most 6500 samples per case); alpha = e^(-delay/tau) is compared with "
  "math.exp(-delay/tau) to 1e-12 absolute (impulse response at delay, 2*delay: 4e-12); a tau so small that "
  "e^(-delay/tau) underflows gives the coefficient 0.0, which is within that tolerance",
  "comb initial state: y[-k] is the k-th item of the memory argument (the documented convention of every "
  "LinearFilter call: 'the first needed elements ... will be used directly as the memory'), given as list, "
  "tuple, iterator, generator, Stream or callable(size); memories shorter than the delay are not generated "
  "(where the fill-up zeros go is undocumented); feedforward combs are always started from rest",
  "a ControlStream parameter has as its i-th sample the value the control holds when index i is first pulled "
  "by any coefficient Stream of the design (each design hubs the parameter once: documented tee semantics of "
  "thub); one control / endless constant Stream may be given to several designs, a finite Stream only through "
  "thub(stream, number of designs); a finite parameter of N samples gives coefficient Streams of N samples that "
  "then end",
  "a call through the dictionary itself (resonator(...), gammatone(...)) is held to the contract of the strategy "
  "whose name the dictionary's default carries at that moment (lowpass: pole, highpass: z are set explicitly in "
  "the source); named strategies are held to their own contract whichever defaults are set",
  "design parameters are numbers or Streams (documented: 'a value (or a Stream of values)'), plus plain "
  "lists / tuples for gammatone.klapuri (the library's own tests); other non-Stream iterables (iter(list), "
  "itertools objects) are not generated: the unchanged library rejects them in most sibling designs "
  "(pole_exp, z_exp, three resonators, comb.tau raise TypeError), so they are outside the quantifier",
]

PI = math.pi
U = 2.0 ** -53
LO, HI = 1e-3, PI - 1e-3


# ---------------------------------------------------------------- oracle side

def poly_at(c, w):
  re = math.fsum(ck * math.cos(k * w) for k, ck in enumerate(c))
  im = -math.fsum(ck * math.sin(k * w) for k, ck in enumerate(c))
  return complex(re, im)


def coeffs(filt, what="filter"):
  if not isinstance(filt, LinearFilter):
    raise Violation("%s is a %s, not a linear filter" % (what, type(filt).__name__))
  if not filt.is_lti():
    raise Violation("%s designed from numbers is not LTI" % what)
  b, a = filt.numerator, filt.denominator
  for c in b + a:
    if isinstance(c, bool) or not isinstance(c, (int, float)) or c != c or abs(c) == math.inf:
      raise Violation("%s has the coefficient %r" % (what, c))
  if not a or a[0] == 0:
    raise Violation("%s has the denominator %r" % (what, a))
  return b, a


def mag(b, a, w):
  return abs(poly_at(b, w) / poly_at(a, w))


def check_lib_mag(filt, w, m, tol, what):
  got = abs(filt.freq_response(w))
  if not abs(got - m) <= tol:
    raise Violation("%s: |freq_response(%r)| = %r but the coefficients give %r" % (what, w, got, m))


def region(c):
  if c <= LO or c >= HI:
    return "cutoff at range end"
  if abs(c - PI / 2) <= 1e-4:
    return "cutoff ~ pi/2"
  if c < PI / 6:
    return "cutoff < pi/6"
  if c > 5 * PI / 6:
    return "cutoff > 5pi/6"
  return "cutoff mid"


class other_defaults(object):
  """While active, every strategy dictionary of the designs has another default strategy (the default
  is the user's to choose: StrategyDict feature); a named strategy is what its name says whichever
  strategy currently is the default, its own dictionary's or a sibling dictionary's."""
  def __init__(self, active):
    self.active = active
    self.saved = []

  def __enter__(self):
    if self.active:
      for sd, alt in ((lowpass, "z_exp"), (highpass, "pole_exp"), (resonator, "freq_poles_exp"),
                      (gammatone, "slaney"), (comb, "ff")):
        self.saved.append((sd, sd.default))
        sd.default = sd[alt]
    return self

  def __exit__(self, *exc):
    for sd, dflt in reversed(self.saved):
      sd.default = dflt
    return False


FLIPPED = "another default strategy set in every dictionary"


# ---------------------------------------------------------------- lowpass / highpass

STRATS = ["pole", "z", "pole_exp", "z_exp"]
GRID = [k * PI / 256 for k in range(257)]
_cut_special = [LO, HI, PI / 2, PI / 2 + 1e-9, PI / 2 - 1e-9, PI / 2 + 1e-7, PI / 2 - 1e-7,
                PI / 2 + 1e-5, PI / 2 - 1e-5, PI / 2 + 1e-3, PI / 6, 5 * PI / 6, PI / 4, 1, 2, 3,
                1.0, 0.5, 3.0, 2e-3, PI - 2e-3, math.nextafter(PI / 2, 0), math.nextafter(PI / 2, 4)]
_cut = st.one_of(st.floats(LO, HI), st.floats(LO, HI), st.floats(LO, HI),
                 st.floats(LO, .1), st.floats(PI - .1, HI),
                 st.floats(-1e-3, 1e-3).map(lambda d: PI / 2 + d),
                 st.sampled_from(_cut_special))


def design_lowhigh(band, strat, call, cutoff):
  sd = lowpass if band == "low" else highpass
  if call == "attr":
    return getattr(sd, strat)(cutoff)
  if call == "item":
    return sd[strat](cutoff)
  if call == "default":       # lowpass.default is pole, highpass.default is z
    return sd(cutoff)
  if call == "kw":            # the documented parameter name
    return getattr(sd, strat)(cutoff=cutoff)
  raise AssertionError(call)


def strat_lowhigh(tier):
  def fix(c):
    if c["call"] == "default":
      c = dict(c, strat="pole" if c["band"] == "low" else "z")
    return c
  return st.fixed_dictionaries({
    "band": st.sampled_from(["low", "high"]), "strat": st.sampled_from(STRATS),
    "call": st.sampled_from(["attr", "attr", "item", "default", "kw"]), "cutoff": _cut}).map(fix)


def check_lowhigh(band, strat, c, filt):
  what = "%spass.%s(%r)" % (band, strat, c)
  b, a = coeffs(filt, what)
  if len(a) > 2 or len(b) > 2:
    raise Violation("%s is not a first-order section: b=%r a=%r" % (what, b, a))
  edge = 0. if band == "low" else PI
  g = mag(b, a, edge)
  if not abs(g - 1) <= 1e-9:
    raise Violation("%s: gain at %s is %r, not 1 (b=%r a=%r)"
                    % (what, "DC" if band == "low" else "Nyquist", g, b, a))
  check_lib_mag(filt, edge, g, 1e-9, what)
  pole = -a[1] / a[0] if len(a) == 2 else 0.
  if not abs(pole) < 1:
    raise Violation("%s: pole %r is not strictly inside the unit circle (a=%r)" % (what, pole, a))
  labels = [band + "pass." + strat, region(c)]
  if strat in ("pole", "z"):
    p = mag(b, a, c) ** 2
    if not abs(p - .5) <= 1e-6:
      raise Violation("%s: power gain at the cut-off is %r, not 1/2 (b=%r a=%r)" % (what, p, b, a))
    check_lib_mag(filt, c, math.sqrt(p), 1e-9, what)
    prev = None
    for w in GRID:
      m = mag(b, a, w)
      if prev is not None:
        bad = m > prev + 1e-12 if band == "low" else m < prev - 1e-12
        if bad:
          raise Violation("%s: magnitude is not monotone: |H(%r)| = %r after %r (b=%r a=%r)"
                          % (what, w, m, prev, b, a))
      prev = m
    labels.append("half power + monotone checked")
  labels.append("pole>0" if pole > 0 else "pole<0" if pole < 0 else "pole=0")
  return labels


def run_lowhigh(case):
  band, strat, c = case["band"], case["strat"], case["cutoff"]
  flip = case["call"] != "default" and int(c * 1e6) % 3 == 0
  with other_defaults(flip):
    filt = design_lowhigh(band, strat, case["call"], c)
  labels = check_lowhigh(band, strat, c, filt)
  labels.append("call:" + case["call"])
  if flip:
    labels.append(FLIPPED)
  if isinstance(c, int):
    labels.append("int cutoff")
  forced = c in _cut_special
  return {"nontrivial": not forced, "labels": labels}


def edges(tier, shard, nshards):
  i = 0
  extra = [] if tier == "quick" else [LO + k * (HI - LO) / 400 for k in range(401)]
  for band in ("low", "high"):
    for strat in STRATS:
      for c in _cut_special + extra:
        i += 1
        if i % nshards == shard:
          yield {"band": band, "strat": strat, "call": "item" if i % 2 else "attr", "cutoff": c}


def run_edges(case):
  rec = run_lowhigh(case)
  # every enumerated case counts: the list itself is the domain here
  rec["nontrivial"] = True
  return rec


# ---------------------------------------------------------------- resonators

RES = ["poles_exp", "freq_poles_exp", "z_exp", "freq_z_exp"]
RGRID = [k * PI / 64 for k in range(65)]
_freq = st.one_of(st.floats(LO, HI), st.floats(LO, HI), st.floats(LO, .05), st.floats(PI - .05, HI),
                  st.sampled_from([LO, HI, PI / 2, 1, 2, 3, 1.0, PI / 4, 3 * PI / 4]))
_bw = st.one_of(st.floats(1e-3, 1), st.floats(1e-3, 1), st.floats(1e-3, .02),
                st.sampled_from([1e-3, 1, 1.0, .5, .1, .01]))


def strat_resonator(tier):
  return st.fixed_dictionaries({"strat": st.sampled_from(RES), "freq": _freq, "bw": _bw,
                                "call": st.sampled_from(["attr", "item", "item", "kw", "kw", "default"])})


def check_resonator(strat, freq, bw, filt):
  what = "resonator.%s(%r, %r)" % (strat, freq, bw)
  b, a = coeffs(filt, what)
  if len(a) != 3:
    raise Violation("%s: denominator %r is not second order" % (what, a))
  a1, a2 = a[1] / a[0], a[2] / a[0]
  want = math.exp(-bw)
  if not abs(a2 - want) <= 1e-12:
    raise Violation("%s: z^-2 denominator coefficient is %r, e^-bandwidth is %r "
                    "(pole radius %r instead of %r)" % (what, a2, want, math.sqrt(abs(a2)), math.exp(-bw / 2)))
  labels = ["resonator." + strat]
  cplx = a1 * a1 - 4 * a2 < 0
  labels.append("complex poles" if cplx else "real poles")
  if not (abs(a2) < 1 and abs(a1) < 1 + a2):
    raise Violation("%s: poles are not inside the unit circle: a=%r" % (what, a))
  R = math.exp(-bw / 2)
  if strat in ("poles_exp", "z_exp"):
    wr = freq
  else:
    c = math.cos(freq) * ((1 + R * R) / (2 * R) if strat == "freq_poles_exp" else 2 * R / (1 + R * R))
    wr = math.acos(c) if abs(c) <= 1 - 1e-6 else None
  if wr is None:
    labels.append("no resonance peak (not asserted)")
    return labels, False
  g = mag(b, a, wr)
  if not abs(g - 1) <= 1e-7:
    raise Violation("%s: gain at the resonant frequency %r is %r, not 1 (b=%r a=%r)" % (what, wr, g, b, a))
  check_lib_mag(filt, wr, g, 1e-9, what)
  for w in RGRID:
    m = mag(b, a, w)
    if not m <= 1 + 1e-7:
      raise Violation("%s: gain %r at %r exceeds the gain %r at the resonant frequency %r"
                      % (what, m, w, g, wr))
  labels.append("gain at resonance checked")
  return labels, True


def run_resonator(case):
  strat, freq, bw = case["strat"], case["freq"], case["bw"]
  call = case["call"]
  flip = call != "default" and (int(freq * 1e6) + int(bw * 1e6)) % 3 == 1
  with other_defaults(flip):
    if call == "default":
      # resonator(freq, bandwidth): the contract is the one of the strategy that is the default (the first
      # one declared, poles_exp; its name is read from the dictionary so that nothing more is asserted)
      strat = resonator.default.__name__
      if strat not in RES:
        raise Violation("resonator.default is %r" % (resonator.default,))
      filt = resonator(freq, bw)
    elif call == "kw":          # documented parameter names, in either order
      filt = resonator[strat](bandwidth=bw, freq=freq) if bw < .5 else getattr(resonator, strat)(freq=freq, bandwidth=bw)
    else:
      filt = resonator[strat](freq, bw) if call == "item" else getattr(resonator, strat)(freq, bw)
  labels, asserted = check_resonator(strat, freq, bw, filt)
  labels.append("call:" + call)
  if flip:
    labels.append(FLIPPED)
  labels.append("bw<0.02" if bw < .02 else "bw>=0.02")
  forced = freq in (LO, HI) or bw in (1e-3, 1)
  return {"nontrivial": asserted and not forced, "labels": labels}


# ---------------------------------------------------------------- comb

COMB = {"fb": ["fb", "alpha", "fb_alpha", "feedback_alpha", "default"],
        "tau": ["tau", "fb_tau", "feedback_tau"],
        "ff": ["ff", "ff_alpha", "feedforward_alpha"]}
_alpha = st.one_of(st.integers(-8, 8).map(lambda k: k / 8.),
                   st.integers(-63, 63).map(lambda k: k / 64.),
                   st.sampled_from([1, -1, 0, 1.0, -1.0, 2, -2, 0.5, 1.5, 0.0]),
                   st.floats(-1, 1, allow_subnormal=False))
_tau = st.one_of(st.floats(.05, 200), st.integers(1, 50), st.sampled_from([math.inf, 1.0, 1e3, .25]))
_q = st.one_of(st.integers(-9, 9).map(Q),
               st.tuples(st.integers(-20, 20), st.integers(1, 7)).map(lambda p: Q(*p)))


# delays: the short ones as before, plus long delay lines (a comb is a delay line: echoes of tens to
# hundreds of samples are its ordinary use); 39..42 and the powers of two are sizes where an
# implementation may switch its way of keeping the past outputs
_delay = st.sampled_from(["short"] * 6 + ["mid", "long", "long", "switch"]).flatmap(lambda r: {
  "short": st.integers(1, 12), "mid": st.integers(13, 40), "long": st.integers(41, 130),
  "switch": st.sampled_from([16, 31, 32, 33, 39, 40, 41, 42, 63, 64, 65, 100, 127, 128, 129])}[r])
MEMKINDS = ["list", "list", "tuple", "iter", "generator", "stream", "callable"]


def tiled(pat, slope, n):
  """n values pat[k % len(pat)] + k*slope: long signals / states from a few drawn numbers."""
  return [Q(pat[k % len(pat)] + k * slope) for k in range(n)]


@st.composite
def strat_comb_(draw):
  kind = draw(st.sampled_from(["fb", "fb", "tau", "ff"]))
  name = draw(st.sampled_from(COMB[kind]))
  delay = draw(_delay)
  if kind == "tau":
    par = draw(st.one_of(st.none(), _tau))
  else:
    par = draw(st.one_of(st.none(), _alpha))
  n = draw(st.integers(1, 3 * delay + 4 if delay <= 12 else 2 * delay + 30))
  sig = draw(st.sampled_from(["impulse", "signal", "signal", "signal"]))
  if sig == "impulse":
    x = [Q(1)] + [Q(0)] * (n - 1)
  elif delay <= 12:
    x = draw(st.lists(_q, min_size=n, max_size=n))
  else:
    x = tiled(draw(st.lists(_q, min_size=1, max_size=9)), draw(st.sampled_from([Q(0), Q(0), Q(1, 8), Q(-1, 3)])), n)
  case = {"kind": kind, "name": name, "delay": delay, "par": par, "x": x,
          "kw": draw(st.booleans()), "zero": draw(st.sampled_from(["default", "q0", "int0"])),
          "dkw": draw(st.sampled_from([False, False, False, True]))}
  # the outputs before the first sample: zeros when nothing is given (as before), or the caller's
  # memory (y[-1] first, the documented convention of every LinearFilter call); exactly `delay`
  # values most of the time, else more (the first ones count). Fewer values than the delay are not
  # generated: where the library puts the fill-up zeros is not documented (and not C13's subject)
  if kind != "ff" and draw(st.sampled_from([False, True, True])):
    size = draw(st.sampled_from([delay, delay, delay, delay + 3, 2 * delay + 1]))
    if draw(st.booleans()) and size <= 12:
      vals = draw(st.lists(_q, min_size=size, max_size=size))
    else:
      vals = tiled(draw(st.lists(_q, min_size=1, max_size=7)), draw(st.sampled_from([Q(1, 4), Q(-2, 3), Q(1), Q(0)])), size)
    case["mem"] = {"vals": vals, "kind": draw(st.sampled_from(MEMKINDS))}
  else:
    case["mem"] = None
  return case


def strat_comb(tier):
  return strat_comb_()


def design_comb(kind, name, delay, par, kw, dkw=False):
  fn = comb if name == "default" else comb[name]
  if dkw:           # everything by its documented name
    return fn(delay=delay) if par is None else fn(**{"delay": delay, "tau" if kind == "tau" else "alpha": par})
  if par is None:
    return fn(delay)
  if kw:
    return fn(delay, **{"tau" if kind == "tau" else "alpha": par})
  return fn(delay, par)


def given_memory(kind, vals):
  if kind == "list":
    return list(vals)
  if kind == "tuple":
    return tuple(vals)
  if kind == "iter":
    return iter(list(vals))
  if kind == "generator":
    return (v for v in list(vals))
  if kind == "stream":
    return Stream(list(vals))
  if kind == "callable":      # called with the memory size, returns an iterable
    return lambda size: list(vals)
  raise AssertionError(kind)


def run_comb(case):
  kind, name, D, par, x = case["kind"], case["name"], case["delay"], case["par"], case["x"]
  # the default strategy of the dictionary is the user's to choose (StrategyDict feature): a named
  # strategy is what its name says whichever strategy currently is the default
  saved = comb.default
  flip = (D + len(x)) % 3 == 0 and name != "default"
  try:
    if flip:
      comb.default = comb.ff if kind != "ff" else comb.fb
    filt = design_comb(kind, name, D, par, case["kw"], case.get("dkw", False))
  finally:
    comb.default = saved
  what = "comb.%s(%r, %r)%s" % (name, D, par, " with another default strategy set" if flip else "")
  a = coeffs(filt, what)[1]
  labels = ["comb." + kind, "alias" if name != kind else "canonical name"]
  if case.get("dkw"):
    labels.append("delay by keyword")
  if kind == "tau":
    tau = math.inf if par is None else par
    want = math.exp(-D / tau)
    alpha = -a[D] / a[0] if len(a) > D else 0.
    if not abs(alpha - want) <= 1e-12:
      raise Violation("%s: feedback coefficient is %r, e^(-delay/tau) is %r (a=%r)" % (what, alpha, want, a))
    labels.append("tau=inf" if tau == math.inf else "tau finite")
  else:
    alpha = 1 if par is None else par
  al = Fraction(alpha)
  kw = dict({"default": {}, "q0": {"zero": Q(0)}, "int0": {"zero": 0}}[case["zero"]])
  mem = case.get("mem")
  before = {}          # before[k] is y[-k]; what is not given is zero
  if mem is not None:
    vals = list(mem["vals"])
    kw["memory"] = given_memory(mem["kind"], vals)
    before = {k + 1: Fraction(v) for k, v in enumerate(vals[:D])}
    what += " called with memory=%s%r" % (mem["kind"], vals)
  y = list(filt(list(x), **kw))
  if len(y) != len(x):
    raise Violation("%s: %d samples in, %d out" % (what, len(x), len(y)))
  exp = []
  for n, xn in enumerate(x):
    if n >= D:
      past = exp[n - D] if kind != "ff" else Fraction(x[n - D])
    else:
      past = before.get(D - n, Fraction(0)) if kind != "ff" else Fraction(0)
    exp.append(Fraction(xn) + al * past)
  for n, (g, e) in enumerate(zip(y, exp)):
    if not (isinstance(g, (Fraction, int, float)) and g == e):
      law = "x[n]+alpha*x[n-%d]" % D if kind == "ff" else "x[n]+alpha*y[n-%d]" % D
      raise Violation("%s on %r: y[%d] = %r, %s with alpha=%r gives %s" % (what, x, n, g, law, alpha, e))
  labels.append("delay=1" if D == 1 else "delay 2..4" if D <= 4 else "delay 5..12" if D <= 12 else
                "delay 13..40" if D <= 40 else "delay>40")
  if par is None:
    labels.append("default parameter")
  if len(x) > 2 * D:
    labels.append("more than two periods")
  if len(x) > D:
    labels.append("more than one period")
  state = False
  if mem is None:
    labels.append("memory:zeroed (default)")
  else:
    labels.append("memory:" + mem["kind"])
    given = [before.get(k, Fraction(0)) for k in range(1, D + 1)]
    labels.append("memory size %s delay" % ("==" if len(mem["vals"]) == D else ">"))
    if given != given[::-1]:
      # the order of the given state matters (and it is not all one value)
      state = al != 0
      labels.append("given state, order matters")
      if D > 12:
        labels.append("given state on a long delay line")
      if D > 40:
        labels.append("given state, delay>40")
  return {"nontrivial": al != 0 and (state or (len(x) > D and any(v != 0 for v in x[:len(x) - D]))),
          "labels": labels}


# ---------------------------------------------------------------- comb, delay lines of hundreds to thousands of samples
#
# A comb's delay is a number of samples: an echo or a room reflection of 20 ms..1 s is 900..48000
# samples at audio rates, and the tau form is made for exactly that use (decay time of a
# reverberator, tau several times the delay).  Cases stay small: the signals are built in run_case.

LONGDELAY = ["131..708"] * 2 + ["709..745"] * 2 + ["746..3000"] * 5 + ["special"] * 2 + [">3000"] * 3
_long_special = [256, 441, 512, 700, 708, 709, 710, 744, 745, 746, 750, 800, 1000, 1024, 1200,
                 2048, 2205, 3000, 4096, 4410, 8192, 11025, 22050, 44100, 48000]
RUNMAX = 3000         # longest delay whose response is computed (2 periods = 6001 samples)


def _long_delay():
  return st.sampled_from(LONGDELAY).flatmap(lambda r: {
    "131..708": st.integers(131, 708), "709..745": st.integers(709, 745), "746..3000": st.integers(746, 3000),
    "special": st.sampled_from(_long_special), ">3000": st.integers(3001, 48000)}[r])


def _long_tau(D):
  """taus from a tenth of the delay to a hundred times the delay (alpha from e^-10 to e^-0.01), as
  floats, ints and round multiples; a small share of the other taus (tiny, infinite)."""
  ratio = st.floats(-1, 2).map(lambda u: 10. ** u)
  return st.sampled_from(["ratio"] * 4 + ["int"] * 2 + ["round", "other"]).flatmap(lambda r: {
    "ratio": ratio.map(lambda q: D * q),
    "int": ratio.map(lambda q: max(1, int(round(D * q)))),
    "round": st.sampled_from([D, float(D), 2 * D, D / 2., 10 * D, 100. * D, D / 10., 3 * D, D + 1, 44100, 1e4]),
    "other": _tau}[r])


@st.composite
def strat_longcomb_(draw):
  kind = draw(st.sampled_from(["tau"] * 7 + ["fb", "fb", "ff"]))
  name = draw(st.sampled_from(COMB[kind]))
  mode = "run" if kind != "tau" else draw(st.sampled_from(["coef"] * 6 + ["run"] * 2 + ["stream"] * 3))
  if mode == "run":       # responses are computed: the shorter of the long lines more often
    D = draw(st.sampled_from(["a", "a", "a", "b", "b", "c", "c", "c", "d", "s", "s"]).flatmap(lambda r: {
      "a": st.integers(131, 708), "b": st.integers(709, 745), "c": st.integers(746, 1500),
      "d": st.integers(1501, RUNMAX), "s": st.sampled_from([d for d in _long_special if d <= RUNMAX])}[r]))
  else:
    D = draw(_long_delay())
  case = {"kind": kind, "name": name, "delay": D, "kw": draw(st.booleans()), "mode": mode}
  if mode == "stream":
    case["par"] = draw(st.lists(_long_tau(D), min_size=3, max_size=6))
    case["src"] = draw(st.sampled_from(["iter_stream", "list_stream", "generator_stream"]))
  elif kind == "tau":
    case["par"] = draw(_long_tau(D))
  else:
    case["par"] = draw(st.one_of(st.none(), _alpha))
  if mode == "run":
    case["sig"] = draw(st.sampled_from(["impulse", "impulse", "tiled"]))
    case["pat"] = draw(st.lists(_q, min_size=1, max_size=9))
    case["slope"] = draw(st.sampled_from([Q(0), Q(0), Q(1, 8), Q(-1, 3)]))
    case["periods"] = draw(st.sampled_from([1, 2, 2, 2, 3]))
    case["extra"] = draw(st.integers(1, 9))
    case["zero"] = draw(st.sampled_from(["default", "q0"]))
  return case


def strat_longcomb(tier):
  return strat_longcomb_()


def run_longcomb(case):
  kind, name, D, par, mode = case["kind"], case["name"], case["delay"], case["par"], case["mode"]
  labels = ["comb." + kind, "mode:" + mode,
            "delay 131..708" if D <= 708 else "delay 709..745" if D <= 745 else
            "delay 746..3000" if D <= 3000 else "delay>3000"]

  def tau_labels(taus, wants):
    if all(t != math.inf for t in taus):
      labels.append("tau finite")
    if any(.1 * D <= t <= 100 * D for t in taus):
      labels.append("tau within delay/10..100*delay")
    if any(isinstance(t, int) for t in taus):
      labels.append("int tau")
    if D >= 709 and any(t != math.inf and w >= 1e-3 for t, w in zip(taus, wants)):
      labels.append("delay>=709, finite tau, alpha>=1e-3")

  if mode == "stream":
    what = "comb.%s(%d, %sStream%r)" % (name, D, "tau=" if case["kw"] else "", tuple(par))
    sf = design_comb(kind, name, D, as_stream(case["src"], par), case["kw"])
    if not isinstance(sf, LinearFilter):
      raise Violation("%s is a %s, not a linear filter" % (what, type(sf).__name__))
    tab = coefficient_table(sf, len(par), what)
    got = tab.get(("a", D))
    wants = [math.exp(-D / t) for t in par]
    if got is None:
      raise Violation("%s: no denominator coefficient at delay %d (coefficients at %r)" % (what, D, sorted(tab)))
    for i, (g, w) in enumerate(zip(got, wants)):
      if not abs(-g - w) <= 1e-12:
        raise Violation("%s: sample %d of the feedback coefficient is %r, e^(-delay/tau) with tau=%r is %r"
                        % (what, i, -g, par[i], w))
    sf = design_comb(kind, name, D, as_stream(case["src"], par), case["kw"])
    ns = compare_tables(sf, [comb.tau(D, t) for t in par], what)
    if ns == 0:
      raise Violation("%s: no coefficient is a Stream" % what)
    tau_labels(par, wants)
    return {"nontrivial": any(t != math.inf and w >= 1e-6 for t, w in zip(par, wants)), "labels": labels}

  filt = design_comb(kind, name, D, par, case["kw"])
  what = "comb.%s(%r, %s%r)" % (name, D, ("tau=" if kind == "tau" else "alpha=") if case["kw"] else "", par)
  b, a = coeffs(filt, what)
  if kind == "tau":
    want = math.exp(-D / par)
    alpha = -a[D] / a[0] if len(a) > D else 0.
    if not abs(alpha - want) <= 1e-12:
      raise Violation("%s: feedback coefficient is %r, e^(-delay/tau) is %r" % (what, alpha, want))
    tau_labels([par], [want])
    real = par != math.inf and want >= 1e-6
  else:
    alpha = 1 if par is None else par
    want = None
    real = alpha != 0
  if mode == "coef":
    return {"nontrivial": real, "labels": labels}

  al = Fraction(alpha)
  n = min(case["periods"] * D + case["extra"], 6500)
  if case["sig"] == "impulse":
    x = [Q(1)] + [Q(0)] * (n - 1)
  else:
    x = tiled(case["pat"], case["slope"], n)
  kw = {} if case["zero"] == "default" else {"zero": Q(0)}
  y = list(filt(list(x), **kw))
  if len(y) != len(x):
    raise Violation("%s: %d samples in, %d out" % (what, len(x), len(y)))
  exp = []
  for i, xn in enumerate(x):
    past = (exp[i - D] if kind != "ff" else Fraction(x[i - D])) if i >= D else Fraction(0)
    exp.append(Fraction(xn) + al * past)
  sigtxt = "the unit impulse" if case["sig"] == "impulse" else "x[k] = %r[k %% %d] + k*%r" % (
    case["pat"], len(case["pat"]), case["slope"])
  for i, (g, w) in enumerate(zip(y, exp)):
    if not (isinstance(g, (Fraction, int, float)) and g == w):
      law = "x[n]+alpha*x[n-%d]" % D if kind == "ff" else "x[n]+alpha*y[n-%d]" % D
      raise Violation("%s on %s (%d samples): y[%d] = %r, %s with alpha=%r gives %s"
                      % (what, sigtxt, n, i, g, law, alpha, w))
  if want is not None and case["sig"] == "impulse":
    # the response itself against the stated decay: e^(-delay/tau) after one period, its square after two
    for k in (1, 2):
      if k * D < n and not abs(float(y[k * D]) - math.exp(-k * D / par)) <= 4e-12:
        raise Violation("%s: impulse response at n = %d is %r, e^(-%d*delay/tau) is %r"
                        % (what, k * D, float(y[k * D]), k, math.exp(-k * D / par)))
  labels.append("signal:" + case["sig"])
  if n > 2 * D:
    labels.append("more than two periods")
  return {"nontrivial": real and any(v != 0 for v in x[:n - D]), "labels": labels}


# ---------------------------------------------------------------- gammatone

def strat_gammatone(tier):
  return st.one_of(
    st.fixed_dictionaries({"strat": st.just("sampled"), "freq": _freq, "bw": _bw,
                           "phase": st.one_of(st.none(), st.just(0), st.floats(-PI, PI),
                                              st.sampled_from([PI / 2, -PI / 2, PI, .3])),
                           "eta": st.one_of(st.none(), st.integers(1, 4)),
                           "call": st.sampled_from(["item", "attr", "positional", "positional", "kw", "default"])}),
    st.fixed_dictionaries({"strat": st.sampled_from(["slaney", "klapuri"]), "freq": _freq, "bw": _bw,
                           "phase": st.none(), "eta": st.none(),
                           "call": st.sampled_from(["item", "attr", "kw"])}))


def run_gammatone(case):
  strat, freq, bw = case["strat"], case["freq"], case["bw"]
  kw = {}
  if case["phase"] is not None:
    kw["phase"] = case["phase"]
  if case["eta"] is not None:
    kw["eta"] = case["eta"]
  if (int(freq * 1e6) + int(bw * 1e6)) % 3 == 0:
    # the caller owns what a design function returns: changing an earlier result in place must
    # not show in a later call with equal parameters
    earlier = gammatone[strat](freq, bw, **kw)
    if isinstance(earlier, list) and len(earlier):
      earlier.append(earlier[0])
      earlier[0] = earlier[-1] * 2
  call = case.get("call", "item")
  flip = call != "default" and (int(freq * 1e6) + int(bw * 1e6)) % 3 != 2
  with other_defaults(flip):
    if call == "item":
      casc = gammatone[strat](freq, bw, **kw)
    elif call == "attr":
      casc = getattr(gammatone, strat)(freq, bw, **kw)
    elif call == "kw":          # the documented parameter names
      casc = gammatone[strat](bandwidth=bw, freq=freq, **kw)
    elif call == "positional":  # documented order: freq, bandwidth, phase, eta
      args = [freq, bw]
      if kw:
        args.append(kw.get("phase", 0))
      if "eta" in kw:
        args.append(kw["eta"])
      casc = gammatone[strat](*args)
    else:                       # gammatone(...): the contract of whichever strategy is the default (sampled)
      strat = gammatone.default.__name__
      if strat not in ("sampled", "slaney", "klapuri"):
        raise Violation("gammatone.default is %r" % (gammatone.default,))
      if strat != "sampled":
        kw = {}
      casc = gammatone(freq, bw, **kw)
  what = "gammatone.%s(%r, %r%s)%s" % (strat, freq, bw, "".join(", %s=%r" % p for p in sorted(kw.items())),
                                       {"item": "", "attr": "", "kw": " (all by keyword)", "default": " (called as gammatone(...))",
                                        "positional": " (all by position)"}[call])
  if flip:
    what += " with " + FLIPPED
  if not isinstance(casc, CascadeFilter):
    raise Violation("%s returned a %s, not a CascadeFilter" % (what, type(casc).__name__))
  if len(casc) < 1:
    raise Violation("%s returned an empty cascade" % what)
  if strat == "sampled" and len(casc) != (kw.get("eta") or 4):
    raise Violation("%s has %d sections, eta is %d" % (what, len(casc), kw.get("eta") or 4))
  total = 1.
  cond = 0.
  for i, sec in enumerate(casc):
    b, a = coeffs(sec, "%s section %d" % (what, i))
    if len(a) > 3:
      raise Violation("%s section %d is not second order: a=%r" % (what, i, a))
    a1 = a[1] / a[0] if len(a) > 1 else 0.
    a2 = a[2] / a[0] if len(a) > 2 else 0.
    if not (abs(a2) < 1 and abs(a1) < 1 + a2):
      raise Violation("%s section %d is not stable: a=%r" % (what, i, a))
    nb, na = abs(poly_at(b, freq)), abs(poly_at(a, freq))
    if nb == 0 or na == 0:
      raise Violation("%s section %d has gain %s at the centre frequency" % (what, i, "0" if nb == 0 else "inf"))
    # sum|b|/|B(w)|: how many ulps of the coefficients one ulp of the gain is worth.
    # eta = 4 at freq ~ bw ~ 1e-3 has coefficients ~1e6 cancelling to ~5e-6: the
    # double coefficients cannot express the gain to better than ~1e-5 there.
    cond += math.fsum(abs(c) for c in b) / nb + math.fsum(abs(c) for c in a) / na
    total *= nb / na
  limit = 64 * U * cond
  tol = 1e-6 + limit
  if not abs(total - 1) <= tol:
    raise Violation("%s: gain at the centre frequency is %r, not 1 (tol %.3g)" % (what, total, tol))
  got = abs(casc.freq_response(freq))
  if not abs(got - 1) <= tol:
    raise Violation("%s: |freq_response(centre)| is %r, not 1 (tol %.3g)" % (what, got, tol))
  err = max(abs(total - 1), abs(got - 1))
  labels = ["gammatone." + strat, "sections=%d" % len(casc),
            "gain err<=1e-9" if err <= 1e-9 else "gain err>1e-9",
            "bw<0.02" if bw < .02 else "bw>=0.02"]
  if case["phase"] not in (None, 0):
    labels.append("phase given")
  labels.append("call:" + call)
  if call == "positional" and kw:
    labels.append("phase / eta by position")
  if flip:
    labels.append(FLIPPED)
    if strat == "klapuri":
      labels.append("klapuri with other defaults set")
  if limit > 1e-6:
    labels.append("conditioning-limited tolerance")
  elif err > .1 * tol:
    labels.append("gain err>0.1 tol")
  forced = freq in (LO, HI) or bw in (1e-3, 1)
  return {"nontrivial": not forced and limit <= 1e-6, "labels": labels}


# ---------------------------------------------------------------- Stream-valued parameters

def coefficient_table(filt, n, what):
  """{(side, delay): list of n values} of a filter whose coefficients may be Streams."""
  out = {}
  for side, d in (("b", filt.numdict), ("a", filt.dendict)):
    for k, v in d.items():
      if isinstance(v, Stream):
        vals = list(itertools.islice(v, n + 1))   # bounded: a cyclic Stream must not hang the check
        if len(vals) != n:
          raise Violation("%s: coefficient %s[%d] has %d samples for %d parameter samples"
                          % (what, side, k, len(vals), n))
      else:
        vals = [v] * n
      out[(side, k)] = vals
  return out


def compare_tables(stream_filt, const_filts, what):
  n = len(const_filts)
  tab = coefficient_table(stream_filt, n, what)
  for i, cf in enumerate(const_filts):
    ctab = {}
    for side, d in (("b", cf.numdict), ("a", cf.dendict)):
      for k, v in d.items():
        ctab[(side, k)] = v
    for key in sorted(set(tab) | set(ctab)):
      got = tab.get(key, [0] * n)[i]
      want = ctab.get(key, 0)
      if not abs(got - want) <= 1e-12:
        raise Violation("%s: sample %d of coefficient %s[%d] is %r, the constant design has %r"
                        % (what, i, key[0], key[1], got, want))
  return sum(1 for side, d in (("b", stream_filt.numdict), ("a", stream_filt.dendict))
             for v in d.values() if isinstance(v, Stream))


@st.composite
def strat_streams_(draw):
  fam = draw(st.sampled_from(["lowhigh", "lowhigh", "lowhigh", "resonator", "resonator", "comb", "klapuri"]))
  n = draw(st.integers(3, 6))
  case = {"fam": fam, "src": draw(st.sampled_from(["iter_stream", "list_stream", "generator_stream"]))}
  if fam == "lowhigh":
    case.update(band=draw(st.sampled_from(["low", "high"])), strat=draw(st.sampled_from(STRATS)),
                cut=draw(st.lists(_cut, min_size=n, max_size=n)))
  elif fam in ("resonator", "klapuri"):
    mode = draw(st.sampled_from(["both", "both", "freq", "bw"]))
    case.update(strat=draw(st.sampled_from(RES)) if fam == "resonator" else "klapuri", mode=mode,
                freq=draw(st.lists(_freq, min_size=n, max_size=n)) if mode != "bw" else draw(_freq),
                bw=draw(st.lists(_bw, min_size=n, max_size=n)) if mode != "freq" else draw(_bw))
  else:
    kind = draw(st.sampled_from(["fb", "ff", "tau"]))
    # delays 1..12 as before, and a quarter on delay lines of hundreds to thousands of samples (taus
    # then of the order of the delay: the coefficient is not negligible)
    D = draw(st.sampled_from(["short", "short", "short", "long"]).flatmap(
      lambda r: st.integers(1, 12) if r == "short" else _long_delay()))
    taus = _tau if D <= 12 else _long_tau(D)
    case.update(kind=kind, delay=D,
                par=draw(st.lists(taus.filter(lambda t: t != math.inf) if kind == "tau" else _alpha,
                                  min_size=n, max_size=n)))
  return case


def strat_streams(tier):
  return strat_streams_()


def as_stream(src, vals):
  if src == "list_stream":
    return Stream(list(vals))
  if src == "generator_stream":
    return Stream(v for v in list(vals))
  return Stream(iter(list(vals)))


def run_streams(case):
  fam, src = case["fam"], case["src"]
  labels = ["family:" + fam, "src:" + src]
  if fam == "lowhigh":
    sd = lowpass if case["band"] == "low" else highpass
    cs = case["cut"]
    what = "%spass.%s(Stream%r)" % (case["band"], case["strat"], tuple(cs))
    sf = sd[case["strat"]](as_stream(src, cs))
    consts = [sd[case["strat"]](c) for c in cs]
    labels.append("%spass.%s" % (case["band"], case["strat"]))
  elif fam in ("resonator", "klapuri"):
    mode = case["mode"]
    n = len(case["freq"]) if mode != "bw" else len(case["bw"])
    fs = case["freq"] if mode != "bw" else [case["freq"]] * n
    bs = case["bw"] if mode != "freq" else [case["bw"]] * n
    farg = as_stream(src, fs) if mode != "bw" else case["freq"]
    barg = as_stream(src, bs) if mode != "freq" else case["bw"]
    labels.append("stream:" + mode)
    if fam == "resonator":
      what = "resonator.%s(%r, %r) with Stream parameters (%s)" % (case["strat"], fs, bs, mode)
      sf = resonator[case["strat"]](farg, barg)
      consts = [resonator[case["strat"]](f, b) for f, b in zip(fs, bs)]
      labels.append("resonator." + case["strat"])
    else:
      what = "gammatone.klapuri(%r, %r) with Stream parameters (%s)" % (fs, bs, mode)
      if n % 2:
        # plain sequences of parameter values (the library's own tests pass lists to klapuri)
        plain = tuple if n % 3 == 0 else list
        farg = plain(fs) if mode != "bw" else case["freq"]
        barg = plain(bs) if mode != "freq" else case["bw"]
        what = what.replace("Stream parameters", "%s parameters" % plain.__name__)
        labels.append("plain sequence parameters")
      casc = gammatone.klapuri(farg, barg)
      cc = [gammatone.klapuri(f, b) for f, b in zip(fs, bs)]
      if not isinstance(casc, CascadeFilter) or len(casc) != len(cc[0]):
        raise Violation("%s: returned %r" % (what, casc))
      ns = 0
      for i, sec in enumerate(casc):
        ns += compare_tables(sec, [c[i] for c in cc], "%s section %d" % (what, i))
      if ns == 0:
        raise Violation("%s: no coefficient is a Stream" % what)
      return {"nontrivial": True, "labels": labels}
  else:
    kind, D, ps = case["kind"], case["delay"], case["par"]
    what = "comb.%s(%d, Stream%r)" % (kind, D, tuple(ps))
    sf = comb[kind](D, as_stream(src, ps))
    consts = [comb[kind](D, p) for p in ps]
    labels.append("comb." + kind)
    # the constant designs themselves are tied to the statement in the comb clause;
    # here additionally: the coefficient stream is +-alpha itself, exactly
    if kind != "tau":
      tab = coefficient_table(sf, len(ps), what)
      got = tab.get(("a", D) if kind == "fb" else ("b", D))
      want = [-p for p in ps] if kind == "fb" else list(ps)
      if got is None or any(g != w for g, w in zip(got, want)):
        raise Violation("%s: coefficient at delay %d is %r, expected %r" % (what, D, got, want))
      sf = comb[kind](D, as_stream(src, ps))
    else:
      # tau form: each sample of the feedback coefficient is e^(-delay/tau) of that sample's tau
      # (stated decay, not only agreement with the constant design)
      got = coefficient_table(sf, len(ps), what).get(("a", D))
      if got is None or any(not abs(-g - math.exp(-D / p)) <= 1e-12 for g, p in zip(got, ps)):
        raise Violation("%s: feedback coefficient is %r, e^(-delay/tau) gives %r"
                        % (what, got and [-g for g in got], [math.exp(-D / p) for p in ps]))
      sf = comb[kind](D, as_stream(src, ps))
    if D > 130:
      labels.append("comb delay>130")
  ns = compare_tables(sf, consts, what)
  if ns == 0:
    raise Violation("%s: no coefficient is a Stream" % what)
  labels.append("coefficient streams=%d" % min(ns, 4))
  return {"nontrivial": True, "labels": labels}


# ---------------------------------------------------------------- control-valued parameters, banks
#
# A ControlStream is a Stream ("yields a control value that can be changed at any time"): its n-th
# sample is the value it holds when that sample is first pulled.  It is the parameter a design with
# Stream-valued coefficients is made for (a cut-off knob, one decay control for a bank of combs), so:
#   * one control object is given to one to three designs of the same parameter kind (a bank);
#   * the coefficient Streams are read a few samples at a time, in any order, and the control's
#     value is changed between reads.
# Oracle: every design pulls its own sequence of parameter samples; sample i of that sequence is the
# control's value at the moment index i was first pulled by ANY coefficient Stream of that design, and
# index i of EVERY coefficient Stream of the design is the constant design's coefficient for it.

CTRL_GROUPS = ["angle", "angle", "angle", "bw", "alpha", "tau", "tau"]


@st.composite
def strat_controls_(draw):
  group = draw(st.sampled_from(CTRL_GROUPS))
  nd = draw(st.sampled_from([1, 2, 2, 3]))
  designs = []
  for unused in range(nd):
    if group == "angle":
      fam = draw(st.sampled_from(["lowhigh", "lowhigh", "lowhigh", "resonator", "resonator", "resonator",
                                  "resonator", "klapuri", "klapuri"]))
    elif group == "bw":
      fam = draw(st.sampled_from(["resonator", "resonator", "klapuri"]))
    else:
      fam = "comb"
    if fam == "lowhigh":
      d = {"fam": fam, "band": draw(st.sampled_from(["low", "high"])), "strat": draw(st.sampled_from(STRATS))}
    elif fam == "resonator":
      d = {"fam": fam, "strat": draw(st.sampled_from(RES)), "other": draw(_bw if group == "angle" else _freq)}
    elif fam == "klapuri":
      d = {"fam": fam, "other": draw(_bw if group == "angle" else _freq)}
    else:
      kind = "tau" if group == "tau" else draw(st.sampled_from(["fb", "ff"]))
      d = {"fam": fam, "kind": kind, "name": draw(st.sampled_from(COMB[kind])),
           "delay": draw(st.one_of(st.integers(1, 12), st.integers(1, 12), st.integers(13, 400)))}
    designs.append(d)
  val = {"angle": _cut, "bw": _bw, "alpha": _alpha,
         "tau": st.one_of(st.floats(.5, 400), st.integers(1, 50), st.sampled_from([1.0, 1e3, 30., 8.]))}[group]
  ops = []
  if draw(st.booleans()):
    for unused in range(draw(st.integers(3, 9))):
      if draw(st.sampled_from([True, True, False])):
        ops.append(["read", draw(st.integers(0, nd - 1)), draw(st.integers(0, 5)), draw(st.integers(1, 4))])
      else:
        ops.append(["set", draw(val)])
  else:
    # leapfrog: the coefficients of one design are read in turns, the value changes between the turns (a
    # block-wise user: some samples of one coefficient / section, then the same samples of the next)
    j = draw(st.integers(0, nd - 1))
    for unused in range(draw(st.integers(2, 4))):
      ops.append(["read", j, draw(st.integers(0, 5)), draw(st.integers(1, 4))])
      ops.append(["set", draw(val)])
    ops.append(["read", draw(st.integers(0, nd - 1)), draw(st.integers(0, 5)), draw(st.integers(1, 4))])
  # "hub": the documented way of giving one (finite) Stream to several designs: thub(stream, copies)
  return {"group": group, "designs": designs, "value": draw(val), "ops": ops,
          "vals": draw(st.lists(val, min_size=2, max_size=7)),
          "src": draw(st.sampled_from(["control"] * 5 + ["repeat"] + ["hub"] * 3))}


def strat_controls(tier):
  return strat_controls_()


def build_control_design(group, d, par):
  """The design d with `par` (a number, or the shared parameter object) in the place of the group's parameter."""
  if d["fam"] == "lowhigh":
    return [(lowpass if d["band"] == "low" else highpass)[d["strat"]](par)]
  if d["fam"] == "resonator":
    return [resonator[d["strat"]](par, d["other"]) if group == "angle" else resonator[d["strat"]](d["other"], par)]
  if d["fam"] == "klapuri":
    casc = gammatone.klapuri(par, d["other"]) if group == "angle" else gammatone.klapuri(d["other"], par)
    if not isinstance(casc, CascadeFilter):
      raise Violation("gammatone.klapuri returned a %s, not a CascadeFilter" % type(casc).__name__)
    return list(casc)
  return [(comb if d["name"] == "default" else comb[d["name"]])(d["delay"], par)]


def describe_control_design(group, d):
  if d["fam"] == "lowhigh":
    return "%spass.%s(c)" % (d["band"], d["strat"])
  if d["fam"] == "resonator":
    return "resonator.%s(%s)" % (d["strat"], "c, %r" % d["other"] if group == "angle" else "%r, c" % d["other"])
  if d["fam"] == "klapuri":
    return "gammatone.klapuri(%s)" % ("c, %r" % d["other"] if group == "angle" else "%r, c" % d["other"])
  return "comb.%s(%d, c)" % (d["name"], d["delay"])


def section_tables(sections):
  out = {}
  for s, sec in enumerate(sections):
    if not isinstance(sec, LinearFilter):
      raise Violation("section %d is a %s, not a linear filter" % (s, type(sec).__name__))
    for side, dct in (("b", sec.numdict), ("a", sec.dendict)):
      for k, v in dct.items():
        out[(s, side, k)] = v
  return out


def run_controls(case):
  group, designs, src = case["group"], case["designs"], case["src"]
  vals = list(case["vals"]) if src == "hub" else None
  value = case["value"] if vals is None else vals[0]
  if src == "control":
    ctrl, ctxt = ControlStream(value), "ControlStream(%r)" % (value,)
  elif src == "repeat":
    ctrl, ctxt = Stream(itertools.repeat(value)), "Stream(repeat(%r))" % (value,)
  else:       # one copy for each design of the bank
    ctrl, ctxt = thub(Stream(iter(list(vals))), len(designs)), "thub(Stream(%r), %d)" % (vals, len(designs))
  names = [describe_control_design(group, d) for d in designs]
  what = "c = %s; bank = [%s]" % (ctxt, ", ".join(names))
  built = [section_tables(build_control_design(group, d, ctrl)) for d in designs]
  streams, pos, pulled, consts = [], [], [], {}
  for j, tab in enumerate(built):
    keys = sorted(k for k, v in tab.items() if isinstance(v, Stream))
    if not keys:
      raise Violation("%s: no coefficient of %s is a Stream" % (what, names[j]))
    streams.append([(k, iter(tab[k])) for k in keys])
    pos.append({k: 0 for k in keys})
    pulled.append([] if vals is None else list(vals))

  def constant(j, v):
    if (j, v, type(v)) not in consts:
      consts[(j, v, type(v))] = section_tables(build_control_design(group, designs[j], v))
    return consts[(j, v, type(v))]

  # coefficients that are plain numbers do not depend on the parameter
  for j, tab in enumerate(built):
    ctab = constant(j, value)
    for key in sorted(set(tab) | set(ctab)):
      got = tab.get(key, 0)
      if not isinstance(got, Stream) and not abs(got - ctab.get(key, 0)) <= 1e-12:
        raise Violation("%s: coefficient %s[%d] of %s (section %d) is %r, the constant design has %r"
                        % (what, key[1], key[2], names[j], key[0], got, ctab.get(key, 0)))
  labels = ["group:" + group, "src:" + src, "bank of %d" % len(designs)]
  labels += sorted(set("family:" + d["fam"] for d in designs))
  if group == "angle":
    for d in designs:
      if d["fam"] == "klapuri" or d.get("strat") == "freq_poles_exp":
        labels.append("raw parameter feeds several coefficients")
        break
  history = []
  stale = changed = later = ended = False
  for op in case["ops"]:
    if op[0] == "set":
      if src == "control" and not (op[1] == value and type(op[1]) is type(value)):
        ctrl.value = value = op[1]
        history.append("c.value = %r" % (value,))
        changed = True
      continue
    j, sel, count = op[1], op[2], op[3]
    key, it_ = streams[j][sel % len(streams[j])]
    got = list(itertools.islice(it_, count))
    if vals is not None:      # a finite parameter: the coefficient has its samples and then ends
      left = max(0, len(vals) - pos[j][key])
      if len(got) != min(count, left):
        raise Violation("%s; %s asked for, %d come: the parameter has %d samples and %d of this coefficient "
                        "were read before" % (what, "; ".join(history + ["%d samples of %s[%d] of %s" % (
                          count, key[1], key[2], names[j])]), len(got), len(vals), pos[j][key]))
      if len(got) < count:
        ended = True
      count = len(got)
    history.append("%d samples of %s[%d]%s of %s" % (count, key[1], key[2], " (section %d)" % key[0]
                                                      if designs[j]["fam"] == "klapuri" else "", names[j]))
    if len(got) != count:
      raise Violation("%s; %s: the coefficient Stream ended after %d samples" % (what, "; ".join(history), len(got)))
    for g in got:
      i = pos[j][key]
      pos[j][key] += 1
      if i == len(pulled[j]):
        pulled[j].append(value)
      par = pulled[j][i]
      if vals is None and not (par == value and type(par) is type(value)):
        stale = True
      want = constant(j, par).get(key, 0)
      if isinstance(g, bool) or not isinstance(g, (int, float)) or not abs(g - want) <= 1e-12:
        raise Violation("%s; %s: sample %d of that coefficient is %r; parameter sample %d of this design is %r, "
                        "for which the constant design has %r" % (what, "; ".join(history), i, g, i, par, want))
      if designs[j]["fam"] == "comb" and designs[j]["kind"] == "tau":
        if not abs(-g - math.exp(-designs[j]["delay"] / par)) <= 1e-12:
          raise Violation("%s; %s: sample %d of the feedback coefficient is %r, e^(-delay/tau) with tau=%r is %r"
                          % (what, "; ".join(history), i, -g, par, math.exp(-designs[j]["delay"] / par)))
      if j > 0:
        later = True
  if changed:
    labels.append("value changed")
  if ended:
    labels.append("coefficient read to its end")
  if vals is not None and later:
    labels.append("later design of a bank sharing a hub read")
  if stale:
    labels.append("sample pulled earlier read from another coefficient after a change")
    if "raw parameter feeds several coefficients" in labels:
      labels.append("raw fan-out design, earlier sample read after a change")
  if later:
    labels.append("coefficients of a later design of the bank read")
    if group == "tau":
      labels.append("later comb.tau of a bank read")
  return {"nontrivial": later or changed or (vals is not None and len(set(vals)) > 1), "labels": labels}


# ---------------------------------------------------------------- long Stream-valued parameters that revisit values
#
# A cut-off moved by an LFO or a step sequencer, a slow sweep that comes back: the parameter Stream has hundreds of
# samples taken from a pool of hundreds of distinct values, and values seen long ago come again (periodic
# Stream(*values), triangle sweeps, irregular revisits).  Every sample of every coefficient is still the constant
# design of that sample's parameter.  Cases stay small: pool and order are built in run_case from a few numbers.

LS_DOMAIN = {"angle": (LO, HI), "bw": (1e-3, 1.), "alpha": (-1., 1.), "tau": (.5, 400.)}
LS_ORDERS = ["periodic", "periodic", "periodic", "cycle", "hold", "triangle", "irregular", "irregular"]


@st.composite
def strat_longstreams_(draw, tier):
  fam = draw(st.sampled_from(["lowhigh"] * 5 + ["resonator"] * 3 + ["comb"] * 2 + ["klapuri"]))
  case = {"fam": fam}
  if fam == "lowhigh":
    case.update(band=draw(st.sampled_from(["low", "high"])), strat=draw(st.sampled_from(STRATS)), group="angle")
  elif fam == "resonator":
    case.update(strat=draw(st.sampled_from(RES)), group=draw(st.sampled_from(["angle", "angle", "bw", "both"])))
  elif fam == "klapuri":
    case.update(group=draw(st.sampled_from(["angle", "bw", "both"])))
  else:
    kind = draw(st.sampled_from(["fb", "ff", "tau", "tau"]))
    case.update(kind=kind, name=draw(st.sampled_from(COMB[kind])), group="tau" if kind == "tau" else "alpha",
                delay=draw(st.one_of(st.integers(1, 12), st.integers(13, 3000))))
  if case["group"] in ("angle", "both"):
    case["other"] = draw(_bw)
  elif case["group"] == "bw":
    case["other"] = draw(_freq)
  pmax = 700 if tier == "quick" else 1500
  P = draw(st.one_of(st.integers(260, pmax), st.sampled_from([257, 258, 260, 300, 512, 513, 600])))
  a = draw(st.floats(0, 1))
  b = draw(st.floats(0, 1).filter(lambda v: abs(v - a) >= .05))
  order = draw(st.sampled_from(LS_ORDERS))
  extra = draw(st.integers(20, 2 * P))      # samples after every pool value has been seen once
  cap = 1500 if tier == "quick" else 4000
  case.update(pool=P, a=a, b=b, stride=draw(st.sampled_from([1, 1, 7, 37, 101, 211])), order=order,
              n=min((2 * P if order == "hold" else P) + extra, max(cap, (2 * P if order == "hold" else P) + 60)),
              seed=draw(st.integers(0, 2 ** 16)), src=draw(st.sampled_from(["list_stream", "iter_stream", "generator_stream"])))
  return case


def strat_longstreams(tier):
  return strat_longstreams_(tier)


def ls_pool(group, P, a, b, stride):
  lo, hi = LS_DOMAIN[group]
  x0, x1 = lo + a * (hi - lo), lo + b * (hi - lo)
  while math.gcd(stride, P) != 1:
    stride += 1
  vals = [min(hi, max(lo, x0 + (x1 - x0) * ((k * stride) % P) / (P - 1))) for k in range(P)]
  return vals


def ls_indices(order, P, n, seed):
  if order in ("periodic", "cycle"):
    return [k % P for k in range(n)]
  if order == "hold":               # step sequencer: every value held for two samples
    return [(k // 2) % P for k in range(n)]
  if order == "triangle":           # up and down again and again
    per = 2 * P - 2
    return [k % per if k % per < P else per - k % per for k in range(n)]
  idx = list(range(P))              # irregular: once through the pool, then wherever a small LCG goes
  s = seed
  while len(idx) < n:
    s = (s * 1103515245 + 12345) % (2 ** 31)
    idx.append((s >> 8) % P)
  return idx[:n]


def run_longstreams(case):
  fam, group, P, order, n = case["fam"], case["group"], case["pool"], case["order"], case["n"]
  idx = ls_indices(order, P, n, case["seed"])
  pools = {}
  if group == "both":
    pools["angle"] = ls_pool("angle", P, case["a"], case["b"], case["stride"])
    pools["bw"] = ls_pool("bw", P, case["b"], case["a"], case["stride"] + 2)
  else:
    pools[group] = ls_pool(group, P, case["a"], case["b"], case["stride"])
  for g, pool in pools.items():
    if len(set(pool)) != P:
      raise Reject("pool values not distinct")

  def source(pool):
    if order == "periodic":         # Stream(*values): endless, periodic
      return Stream(*pool)
    if order == "cycle":
      return Stream(itertools.cycle(list(pool)))
    return as_stream(case["src"], [pool[i] for i in idx])

  def design(x, y=None):
    """x: the group's parameter (both: x angle, y bandwidth)."""
    if fam == "lowhigh":
      return [(lowpass if case["band"] == "low" else highpass)[case["strat"]](x)]
    if fam == "comb":
      return [(comb if case["name"] == "default" else comb[case["name"]])(case["delay"], x)]
    fn = resonator[case["strat"]] if fam == "resonator" else gammatone.klapuri
    res = fn(x, case["other"]) if group == "angle" else fn(case["other"], x) if group == "bw" else fn(x, y)
    return [res] if fam == "resonator" else list(res)

  if fam == "lowhigh":
    name = "%spass.%s" % (case["band"], case["strat"])
  elif fam == "comb":
    name = "comb.%s(%d, .)" % (case["name"], case["delay"])
  else:
    name = ("resonator." + case["strat"]) if fam == "resonator" else "gammatone.klapuri"
  what = "%s with a %s Stream parameter (%s) of %d samples over a pool of %d distinct values (%s order)" % (
    name, "Stream(*values)" if order == "periodic" else "cyclic" if order == "cycle" else "finite", group, n, P, order)
  if group == "both":
    tab = section_tables(design(source(pools["angle"]), source(pools["bw"])))
  else:
    tab = section_tables(design(source(pools[group])))
  endless = order in ("periodic", "cycle")
  consts = {}
  nstreams = 0
  for key in sorted(tab):
    v = tab[key]
    if not isinstance(v, Stream):
      continue
    nstreams += 1
    got = list(itertools.islice(v, n if endless else n + 1))
    if len(got) != n:
      raise Violation("%s: coefficient %s[%d] (section %d) has %d samples" % (what, key[1], key[2], key[0], len(got)))
    for k, g in enumerate(got):
      i = idx[k]
      if i not in consts:
        consts[i] = section_tables(design(pools["angle"][i], pools["bw"][i]) if group == "both"
                                   else design(pools[group][i]))
      want = consts[i].get(key, 0)
      if isinstance(g, bool) or not isinstance(g, (int, float)) or not abs(g - want) <= 1e-12:
        par = (pools["angle"][i], pools["bw"][i]) if group == "both" else pools[group][i]
        seen = [j for j in range(k) if idx[j] == i]
        raise Violation("%s: sample %d of coefficient %s[%d] (section %d) is %r; the parameter there is %r (pool "
                        "value %d, %s), for which the constant design has %r"
                        % (what, k, key[1], key[2], key[0], g, par, i,
                           "last seen at sample %d" % seen[-1] if seen else "first time", want))
  if nstreams == 0:
    raise Violation("%s: no coefficient is a Stream" % what)
  # constant coefficients
  c0 = consts[idx[0]]
  for key in sorted(set(tab) | set(c0)):
    v = tab.get(key, 0)
    if not isinstance(v, Stream) and not abs(v - c0.get(key, 0)) <= 1e-12:
      raise Violation("%s: coefficient %s[%d] (section %d) is %r, constant design has %r"
                      % (what, key[1], key[2], key[0], v, c0.get(key, 0)))
  gap = 0       # > 256 once a value comes again after more than 256 other distinct values
  last = {}
  for k, i in enumerate(idx):
    if gap <= 256 and i in last and k - last[i] > 256:
      gap = max(gap, len(set(idx[last[i] + 1:k])))
    last[i] = k
  labels = ["family:" + fam, "group:" + group, "order:" + order, name if fam != "comb" else "comb." + case["kind"],
            "pool<=300" if P <= 300 else "pool 301..700" if P <= 700 else "pool>700"]
  if gap > 256:
    labels.append("value revisited after more than 256 other distinct values")
  if n >= 2 * len(set(idx)):
    labels.append("two full passes or more")
  return {"nontrivial": gap > 256, "labels": labels}


CLAUSES = [
  Clause("lowhigh", strat_lowhigh, run_lowhigh, quick=2400, thorough=30000,
         floors=dict([("%spass.%s" % (b, s), .03) for b in ("low", "high") for s in STRATS] +
                     [("half power + monotone checked", .25), ("cutoff ~ pi/2", .03),
                      ("cutoff < pi/6", .05), ("cutoff > 5pi/6", .05), ("call:kw", .05), (FLIPPED, .06)]),
         doc="edge gain 1, pole inside the unit circle; pole/z: half power at the cut-off, monotone magnitude"),
  Enumerated("edges", edges, run_edges, shards={"quick": 2, "thorough": 8},
             doc="all 8 strategies on the fixed boundary cut-off list (thorough: plus a 401-point sweep)"),
  Clause("resonator", strat_resonator, run_resonator, quick=1600, thorough=20000,
         floors=dict([("resonator." + s, .08) for s in RES] +
                     [("gain at resonance checked", .5), ("complex poles", .5), ("call:kw", .1),
                      ("call:default", .04), (FLIPPED, .06)]),
         doc="z^-2 coefficient e^-bw, unit gain at the resonant frequency, nothing above it on a grid"),
  Clause("comb", strat_comb, run_comb, quick=1400, thorough=16000,
         floors={"comb.fb": .15, "comb.tau": .08, "comb.ff": .08, "more than two periods": .1,
                 "delay 13..40": .04, "delay>40": .08, "given state, order matters": .1,
                 "given state, delay>40": .03, "delay by keyword": .04},
         doc="exact Q response == x[n]+alpha*y[n-D] (fb, tau with alpha=e^(-D/tau)) / x[n]+alpha*x[n-D] (ff), "
             "D up to 130, from rest and (fb, tau) from a given memory"),
  Clause("longcomb", strat_longcomb, run_longcomb, quick=400, thorough=5000,
         floors={"comb.tau": .2, "comb.fb": .06, "comb.ff": .02, "delay 709..745": .03, "delay 746..3000": .12,
                 "delay>3000": .01, "delay>=709, finite tau, alpha>=1e-3": .12, "mode:coef": .04, "mode:run": .15,
                 "mode:stream": .08, "signal:impulse": .08, "more than two periods": .08,
                 "tau within delay/10..100*delay": .15},
         doc="delay lines of 131..48000 samples: comb.tau coefficient == e^(-D/tau) (tau from D/10 to 100 D, number "
             "or Stream), exact Q responses of fb / tau / ff over 1-3 periods for D <= 3000, impulse response "
             "at D and 2D against the stated decay"),
  Clause("gammatone", strat_gammatone, run_gammatone, quick=1000, thorough=10000,
         floors={"gammatone.sampled": .15, "gammatone.slaney": .08, "gammatone.klapuri": .08,
                 "call:positional": .04, "phase / eta by position": .04, "call:kw": .05, "call:default": .03,
                 FLIPPED: .15, "klapuri with other defaults set": .04},
         doc="CascadeFilter of stable second-order sections, unit gain at the centre frequency"),
  Clause("streams", strat_streams, run_streams, quick=1400, thorough=14000,
         floors={"family:lowhigh": .1, "family:resonator": .1, "family:comb": .05, "family:klapuri": .05},
         doc="Stream-valued parameters: coefficient Streams equal the constant designs sample by sample"),
  Clause("longstreams", strat_longstreams, run_longstreams, quick=288, thorough=2400,
         floors={"family:lowhigh": .12, "family:resonator": .08, "family:comb": .05, "family:klapuri": .02,
                 "value revisited after more than 256 other distinct values": .3, "order:periodic": .1,
                 "order:irregular": .08, "two full passes or more": .12},
         doc="Stream-valued parameters of 300..1500 samples (thorough: to 4000) over a pool of 257..700 (1500) distinct "
             "values that come again (periodic Stream(*values), cycle, held steps, triangle sweeps, irregular revisits), "
             "every stream-capable family: each coefficient sample equals the constant design of that sample's parameter"),
  Clause("controls", strat_controls, run_controls, quick=800, thorough=10000,
         floors={"src:control": .2, "src:hub": .08, "src:repeat": .02, "value changed": .15,
                 "group:angle": .12, "group:bw": .04, "group:alpha": .04, "group:tau": .08,
                 "family:lowhigh": .07, "family:resonator": .1, "family:klapuri": .07, "family:comb": .12,
                 "sample pulled earlier read from another coefficient after a change": .05,
                 "raw fan-out design, earlier sample read after a change": .02,
                 "later comb.tau of a bank read": .05, "later design of a bank sharing a hub read": .04,
                 "coefficient read to its end": .05},
         doc="one ControlStream (or endless constant Stream) as the parameter of a bank of one to three designs; "
             "coefficient Streams read out of lockstep while the value changes: index i of every coefficient of a "
             "design is the constant design for that design's i-th parameter sample"),
]
