"""C08 - Blocks are the hop-spaced windows of the input, padded only at the end."""
import math

from hypothesis import strategies as st
from vlib.core import Clause, Enumerated, Violation

import audiolazy
from audiolazy import blocks, zero_pad, Stream

ID = "C08"
RULE = ("cases = (items, size, hop, pad value, entry point) drawn by Hypothesis "
        "(plus an exhaustively enumerated small grid); oracle = blocks_ref "
        "(slices xs[k*hop:k*hop+size] + tail rule) compared with snapshots taken "
        "when each block is yielded; the entry point ranges over containers, iterators, "
        "Streams, Stream subclasses with their own __iter__ (used once or again), thub and "
        "objects iterable through __getitem__ only; clause mutated adds a schedule of "
        "in-place changes to the unread part of the input list, applied before the first "
        "block and after each complete block, against a step-by-step model; clause late_bound "
        "gives the function blocks() an object whose iter() would fix its state (deque, dict / "
        "OrderedDict and views, set, a Stream object) and changes it after the call and before "
        "the first pull; clause typed gives blocks() / Stream.blocks() / zero_pad() a str, bytes, "
        "bytearray, memoryview, range or array.array as it is, with pad values of the same family "
        "(text pads that are empty, one character or several characters long, bytes pads, numbers), "
        "a bytearray / array.array also changed in its unread part while read; clause big draws sizes "
        "up to 1024 (4096), hops from size/4 to size+300 and inputs of thousands of items; pad values "
        "include -0.0, nan, lists, dicts and tuples (0.0 and -0.0 are different values); "
        "non-trivial = "
        "at least 2 blocks or a padded tail (mutated: at least 2 blocks and an effective "
        "change); distinct = distinct case hash")
ASSUMPTIONS = [
  "block contents are observed through list(block) at yield time (the deque is reused by design)",
  "size >= 1 and hop >= 1 (the property's domain)",
  "Stream.blocks describes the stream's items as of the call: in-place changes to the Stream object made after the call and before the first block is read do not show in the blocks",
  "the items of a Stream subclass instance are what iterating it yields (its __iter__), as for the library's own StreamTeeHub",
  "a list changed while its blocks are read is changed only where no produced block reaches yet (index >= k*hop+size after block k): there 'the items at the moment the block is produced' and lazy reading coincide; rewriting items that an earlier block already covers is not judged",
  "the end of a changing list is decided when a block cannot be completed; nothing is expected after the padded block",
  "the function blocks() looks at its input when the first block is asked for (it is a generator): an input object changed between the call and the first pull is blocked as it is at the first pull; the items of a dict / set / view at that moment are what iterating it then yields",
]

_items = st.one_of(
  st.integers(-5, 5), st.none(), st.text(max_size=2), st.booleans(),
  st.tuples(st.integers(0, 3), st.integers(0, 3)), st.integers(-64, 64).map(lambda v: v / 8.))
_pad = st.one_of(st.none(), st.integers(-3, 3), st.sampled_from(["PAD", "", "-", "--"]), st.just(0.), st.tuples(),
                 st.sampled_from([-0.0, -0.0, float("nan")]),                      # the sign of a zero is part of the value
                 st.one_of(st.lists(st.integers(0, 1), max_size=1), st.builds(dict),   # unhashable / mutable pad objects
                           st.tuples(st.sampled_from([0, 0., False]))))


class _Tagged(Stream):
  """A user Stream subclass whose iteration transforms the items: its items are what
  iterating it yields, ("it", v) for every v it was built from."""
  def __iter__(self):
    return (("it", v) for v in super(_Tagged, self).__iter__())


class _Replay(Stream):
  """A user Stream subclass that can be iterated more than once (a fresh iterator each time)."""
  def __init__(self, data):
    self._items = list(data)
    super(_Replay, self).__init__(self._items)

  def __iter__(self):
    return iter(self._items)


class _GetItemSeq(object):
  """Sequence protocol only: sized and indexable, iterable through __getitem__ (no __iter__)."""
  def __init__(self, data):
    self.data = data          # kept by reference: the mutation clause changes it in place

  def __len__(self):
    return len(self.data)

  def __getitem__(self, idx):
    return self.data[idx]


class _GetItemNoLen(object):
  """Iterable through __getitem__ alone (IndexError ends the iteration)."""
  def __init__(self, data):
    self.data = data

  def __getitem__(self, idx):
    if not isinstance(idx, int):
      raise TypeError("integer index only")
    return self.data[idx]


class _IterOnly(object):
  """An iterable that is neither a sequence nor an iterator: __iter__ only."""
  def __init__(self, data):
    self.data = data

  def __iter__(self):
    return iter(self.data)


class _ListSub(list):
  """A list subclass (a user's work list)."""


def blocks_ref(xs, size, hop, pad):
  out = []
  k = 0
  n = len(xs)
  while k * hop + size <= n:
    out.append(xs[k * hop:k * hop + size])
    k += 1
  real = n - k * hop
  if real > max(size - hop, 0):
    out.append(xs[k * hop:] + [pad] * (size - real))
  return out


def strat_blocks(tier):
  maxlen = 40 if tier == "quick" else 200
  def sizehop(regime):
    if regime == "none":
      return st.tuples(st.integers(1, 9), st.none())
    if regime == "eq":
      return st.integers(1, 9).map(lambda s: (s, s))
    if regime == "lt":
      return st.integers(2, 9).flatmap(lambda s: st.tuples(st.just(s), st.integers(1, s - 1)))
    return st.integers(1, 9).flatmap(lambda s: st.tuples(st.just(s), st.integers(s + 1, s + 6)))
  return st.fixed_dictionaries(dict(
    xs=st.one_of(st.lists(_items, max_size=maxlen),
                 st.integers(0, maxlen).map(lambda n: list(range(n)))),
    sh=st.sampled_from(["lt", "lt", "gt", "gt", "eq", "none"]).flatmap(sizehop),
    pad=_pad,
    route=st.sampled_from(["iter", "list", "stream", "stream_method", "gen", "kw_default_pad",
                           "stream_method_then_changed", "tuple", "deque", "positional", "stream_positional",
                           "sub_tagged_method", "sub_tagged_positional", "sub_tagged_function",
                           "sub_replay_reused", "thub_method", "getitem_seq", "getitem_nolen",
                           "iter_only_obj", "list_subclass"]),
  ))


def _call(case):
  xs, (size, hop), pad, route = case["xs"], case["sh"], case["pad"], case["route"]
  kw = {} if hop is None else {"hop": hop}
  if route == "iter":
    return blocks(iter(xs), size, padval=pad, **kw), pad
  if route == "list":
    return blocks(list(xs), size=size, padval=pad, **kw), pad
  if route == "gen":
    return blocks((x for x in xs), size=size, padval=pad, **kw), pad
  if route == "stream":
    return blocks(Stream(xs), size=size, padval=pad, **kw), pad
  if route == "stream_method":
    return Stream(xs).blocks(size=size, padval=pad, **kw), pad
  if route == "positional":          # size, hop and the pad value all by position
    return blocks(iter(xs), size, size if hop is None else hop, pad), pad
  if route == "stream_positional":
    return Stream(xs).blocks(size, size if hop is None else hop, pad), pad
  if route == "tuple":
    return blocks(tuple(xs), size=size, padval=pad, **kw), pad
  if route == "deque":
    from collections import deque
    return blocks(deque(xs), size=size, padval=pad, **kw), pad
  if route == "stream_method_then_changed":
    # the blocks are those of the stream as it was when blocks() was called: changing the
    # Stream object in place afterwards (before any block is read) must not leak into them
    src = Stream(xs)
    out = src.blocks(size=size, padval=pad, **kw)
    src.map(lambda v: ("changed", v))
    src.append(["appended"])
    return out, pad
  if route == "kw_default_pad":
    return blocks(iter(xs), size=size, **kw), 0.
  raise AssertionError(route)


def _calls(case):
  """-> (thunks, pad, items): every thunk makes one blocks iterator over a sequence whose
  items (what iterating it yields) are `items`; the thunks are run and read one after the other."""
  xs, (size, hop), pad, route = case["xs"], case["sh"], case["pad"], case["route"]
  kw = {} if hop is None else {"hop": hop}
  hop_pos = size if hop is None else hop
  tagged = [("it", v) for v in xs]
  if route == "sub_tagged_method":      # a Stream subclass with its own __iter__, through the method
    return [lambda: _Tagged(xs).blocks(size=size, padval=pad, **kw)], pad, tagged
  if route == "sub_tagged_positional":
    return [lambda: _Tagged(iter(xs)).blocks(size, hop_pos, pad)], pad, tagged
  if route == "sub_tagged_function":
    return [lambda: blocks(_Tagged(xs), size=size, padval=pad, **kw)], pad, tagged
  if route == "sub_replay_reused":      # a re-iterable Stream subclass: read once, then blocked twice
    rep = _Replay(xs)
    def first():
      if not same(list(rep), list(xs)):
        raise AssertionError("helper class broken")
      return rep.blocks(size=size, padval=pad, **kw)
    return [first, lambda: blocks(rep, size, hop_pos, pad),
            lambda: rep.blocks(size, hop_pos, pad)], pad, list(xs)
  if route == "thub_method":            # the library's own __iter__-overriding subclass, both copies
    hub = audiolazy.thub(list(xs), 2)
    return [lambda: hub.blocks(size=size, padval=pad, **kw),
            lambda: blocks(hub, size=size, padval=pad, **kw)], pad, list(xs)
  if route == "getitem_seq":
    return [lambda: blocks(_GetItemSeq(list(xs)), size=size, padval=pad, **kw)], pad, list(xs)
  if route == "getitem_nolen":
    return [lambda: blocks(_GetItemNoLen(tuple(xs)), size, hop_pos, pad)], pad, list(xs)
  if route == "iter_only_obj":
    return [lambda: blocks(_IterOnly(list(xs)), size=size, padval=pad, **kw)], pad, list(xs)
  if route == "list_subclass":
    return [lambda: blocks(_ListSub(xs), size=size, padval=pad, **kw)], pad, list(xs)
  it, pad = _call(case)
  return [lambda: it], pad, list(xs)


_SUBCLASS_ROUTES = ("sub_tagged_method", "sub_tagged_positional", "sub_replay_reused", "thub_method")


def _same_item(x, y):
  if x is y:
    return True
  if type(x) is not type(y) or not x == y:
    return False
  if isinstance(x, float):               # 0.0 == -0.0, but they are not the same value
    return math.copysign(1., x) == math.copysign(1., y)
  if isinstance(x, tuple):
    return same(x, y)
  return True


def same(a, b):
  """Item-wise identity-or-equality with equal types (True != 1 and 0.0 != -0.0 here, also inside tuples)."""
  return len(a) == len(b) and all(_same_item(x, y) for x, y in zip(a, b))


def run_blocks(case):
  size, hop = case["sh"]
  hop = size if hop is None else hop
  thunks, pad, xs = _calls(case)
  exp = blocks_ref(xs, size, hop, pad)
  for use, thunk in enumerate(thunks):
    got = []
    for blk in thunk():
      got.append(list(blk))
      if len(got) > len(xs) + 3:
        raise Violation("more blocks than input items: %r" % got[:5])
    if len(got) != len(exp):
      raise Violation("block count %d != %d (use %d of the object, len=%d size=%d hop=%d) got=%r exp=%r"
                      % (len(got), len(exp), use, len(xs), size, hop, got, exp))
    for k, (g, e) in enumerate(zip(got, exp)):
      if not same(g, e):
        raise Violation("block %d is %r, expected %r (use %d of the object, len=%d size=%d hop=%d)"
                        % (k, g, e, use, len(xs), size, hop))
  regime = "hop<size" if hop < size else ("hop=size" if hop == size else "hop>size")
  labels = [regime, "route:" + case["route"]]
  if case["route"] in _SUBCLASS_ROUTES:
    labels.append("Stream subclass with its own __iter__ through .blocks")
  if case["route"] in ("getitem_seq", "getitem_nolen"):
    labels.append("iterable through __getitem__ only")
  padded = bool(exp) and len(xs) < (len(exp) - 1) * hop + size
  if padded:
    labels.append("padded tail")
  elif len(xs) > 0 and (len(exp) == 0 or len(xs) > (len(exp) - 1) * hop + size):
    labels.append("tail dropped")
  if not xs:
    labels.append("empty input")
  return {"nontrivial": len(exp) >= 2 or padded, "labels": labels}


# ---- the input list changes while its blocks are being read -----------------------------------
# Block k is the items k*hop .. k*hop+size-1 "at the moment it is produced".  The changes made
# here touch only the part of the list that no produced block covers yet (index >= k*hop+size
# after block k; the whole list before the first block is read), so every reading of the
# statement agrees on the result: the blocks of the list as it finally is, each complete block
# as it was when produced, and the end of the sequence decided when a block cannot be completed.

def _apply(lst, c, op):
  kind = op[0]
  if kind == "extend":
    lst.extend(op[1])
  elif kind == "truncate":
    del lst[c + op[1]:]
  elif kind == "set":
    if c + op[1] < len(lst):
      lst[c + op[1]] = op[2]
  elif kind == "insert":
    lst.insert(c + op[1], op[2])
  elif kind == "replace":
    lst[c:] = op[1]
  elif kind != "none":
    raise AssertionError(op)


def mutated_ref(xs, size, hop, pad, pre, muts):
  """-> (expected blocks, number of complete blocks, effects seen) for a list changed by `pre`
  before the first block is read and by muts[k] right after complete block k was produced."""
  lst = list(xs)
  effects = set()
  def change(c, op, when):
    before = list(lst)
    _apply(lst, c, op)
    if len(lst) > len(before):
      effects.add("list grew " + when)
    elif len(lst) < len(before):
      effects.add("list shrank " + when)
    elif not same(lst, before):
      effects.add("unread items replaced " + when)
  change(0, pre, "before the first block")
  out = []
  k = 0
  while k * hop + size <= len(lst):
    out.append(lst[k * hop:k * hop + size])
    if k < len(muts):
      change(k * hop + size, muts[k], "between blocks")
    k += 1
  real = len(lst) - k * hop
  if real > max(size - hop, 0):
    out.append(lst[k * hop:] + [pad] * (size - real))
  final = blocks_ref(lst, size, hop, pad)
  if len(final) != len(out) or not all(same(a, b) for a, b in zip(out, final)):
    raise AssertionError("model inconsistent")     # produced blocks are never touched afterwards
  return out, k, effects


_mut_op = st.sampled_from(["extend", "extend", "truncate", "truncate", "set", "insert", "replace",
                           "none"]).flatmap(lambda kind: {
  "extend": st.tuples(st.just("extend"), st.lists(_items, min_size=1, max_size=12)),
  "truncate": st.tuples(st.just("truncate"), st.integers(0, 5)),
  "set": st.tuples(st.just("set"), st.integers(0, 8), _items),
  "insert": st.tuples(st.just("insert"), st.integers(0, 5), _items),
  "replace": st.tuples(st.just("replace"), st.lists(_items, max_size=12)),
  "none": st.just(("none",)),
}[kind])

_MUT_ROUTES = ["list", "list", "list_positional", "list_subclass", "iter", "stream", "stream_method",
               "getitem_seq", "iter_only_obj", "zero_pad_then_blocks"]


def strat_mutated(tier):
  maxlen = 30 if tier == "quick" else 120
  def sizehop(regime):
    if regime == "none":
      return st.tuples(st.integers(1, 6), st.none())
    if regime == "eq":
      return st.integers(1, 6).map(lambda s: (s, s))
    if regime == "lt":
      return st.integers(2, 6).flatmap(lambda s: st.tuples(st.just(s), st.integers(1, s - 1)))
    return st.integers(1, 6).flatmap(lambda s: st.tuples(st.just(s), st.integers(s + 1, s + 5)))
  return st.fixed_dictionaries(dict(
    xs=st.one_of(st.lists(_items, max_size=maxlen),
                 st.integers(0, maxlen).map(lambda n: list(range(n)))),
    sh=st.sampled_from(["gt", "gt", "gt", "lt", "lt", "eq", "none"]).flatmap(sizehop),
    pad=_pad,
    route=st.sampled_from(_MUT_ROUTES),
    pre=st.sampled_from(["none", "none", "op"]).flatmap(
      lambda w: st.just(("none",)) if w == "none" else _mut_op),
    muts=st.lists(_mut_op, max_size=6),
  ))


def run_mutated(case):
  xs, (size, hop), pad, route = case["xs"], case["sh"], case["pad"], case["route"]
  pre = tuple(case["pre"])
  muts = [tuple(m) for m in case["muts"]]
  kw = {} if hop is None else {"hop": hop}
  hop = size if hop is None else hop
  exp, ncomplete, effects = mutated_ref(xs, size, hop, pad, pre, muts)
  lst = _ListSub(xs) if route == "list_subclass" else list(xs)
  if route in ("list", "list_subclass"):
    it = blocks(lst, size=size, padval=pad, **kw)
  elif route == "list_positional":
    it = blocks(lst, size, hop, pad)
  elif route == "iter":
    it = blocks(iter(lst), size=size, padval=pad, **kw)
  elif route == "stream":
    it = blocks(Stream(lst), size=size, padval=pad, **kw)
  elif route == "stream_method":
    it = Stream(lst).blocks(size=size, padval=pad, **kw)
  elif route == "getitem_seq":
    it = blocks(_GetItemSeq(lst), size=size, padval=pad, **kw)
  elif route == "iter_only_obj":
    it = blocks(_IterOnly(lst), size=size, padval=pad, **kw)
  elif route == "zero_pad_then_blocks":  # zero_pad with nothing to pad is the sequence itself
    it = blocks(zero_pad(lst), size=size, padval=pad, **kw)
  else:
    raise AssertionError(route)
  _apply(lst, 0, pre)
  got = []
  for k, blk in enumerate(it):
    got.append(list(blk))
    if len(got) > len(exp) + 3:
      raise Violation("blocks keep coming: %r, expected %r (size=%d hop=%d)" % (got, exp, size, hop))
    if k < ncomplete and k < len(muts):
      _apply(lst, k * hop + size, muts[k])
  if len(got) != len(exp):
    raise Violation("list changed while read: block count %d != %d (xs=%r size=%d hop=%d pre=%r muts=%r) "
                    "got=%r exp=%r" % (len(got), len(exp), xs, size, hop, pre, muts, got, exp))
  for k, (g, e) in enumerate(zip(got, exp)):
    if not same(g, e):
      raise Violation("list changed while read: block %d is %r, expected %r (size=%d hop=%d pre=%r "
                      "muts=%r)" % (k, g, e, size, hop, pre, muts))
  regime = "hop<size" if hop < size else ("hop=size" if hop == size else "hop>size")
  labels = [regime, "route:" + route] + sorted(effects)
  if len(exp) > ncomplete:
    labels.append("padded tail")
  between = any(e.endswith("between blocks") for e in effects)
  if between:
    labels.append("changed between blocks")
    if regime == "hop>size" and route in ("list", "list_positional", "list_subclass"):
      labels.append("hop>size, list given directly, changed between blocks")
  return {"nontrivial": len(exp) >= 2 and bool(effects), "labels": labels}


# ---- the input object is changed between the blocks(...) call and the first block ---------------
# blocks() is a generator function: nothing of the input is looked at before the first block is
# asked for.  Block k is the items k*hop .. k*hop+size-1 of the sequence "at the moment it is
# produced", so whatever was done to the input object after the call and before the first pull is
# part of the sequence the blocks describe.  For a list this is the `pre` change of clause mutated;
# here the input is an object whose iter() would fix its state: a deque, a dict / OrderedDict and
# their views, a set (their iterators refuse a container that changed since iter()), and a Stream
# object given to the FUNCTION blocks(), whose in-place methods (limit / map / filter / skip /
# append, and copy / peek which re-plumb the stream without removing anything) replace the
# iterator that iter(stream) hands out.  (Stream.blocks, the method, is iter(self) at the call by
# its definition - route stream_method_then_changed - and is not what is judged here.)

_LATE_MAPS = {"tag": lambda v: ("m", v), "pair": lambda v: [v, v], "isnone": lambda v: v is None}
_LATE_PREDS = {"notnone": lambda v: v is not None, "truthy": lambda v: bool(v),
               "number": lambda v: isinstance(v, (int, float)) and not isinstance(v, bool),
               "nothing": lambda v: False}

_plain = st.one_of(st.integers(-5, 5), st.none(), st.booleans(),
                   st.integers(-64, 64).map(lambda v: v / 8.))   # not iterable: Stream(*items) cycles

_stream_op = st.sampled_from(["limit", "limit", "map", "filter", "skip", "append", "append2", "peek",
                              "copy_read", "take"]).flatmap(lambda kind: {
  "limit": st.tuples(st.just("limit"), st.integers(-1, 45)),
  "map": st.tuples(st.just("map"), st.sampled_from(sorted(_LATE_MAPS))),
  "filter": st.tuples(st.just("filter"), st.sampled_from(sorted(_LATE_PREDS))),
  "skip": st.tuples(st.just("skip"), st.integers(0, 7)),
  "append": st.tuples(st.just("append"), st.lists(_items, max_size=8)),
  "append2": st.tuples(st.just("append2"), st.lists(_items, max_size=5), st.lists(_items, max_size=5)),
  "peek": st.tuples(st.just("peek"), st.integers(0, 9)),
  "copy_read": st.tuples(st.just("copy_read"), st.integers(0, 9)),
  "take": st.tuples(st.just("take"), st.integers(0, 5)),
}[kind])

_deque_op = st.sampled_from(["extend", "extend", "extendleft", "pop", "popleft", "rotate", "clear",
                             "set", "insert", "reverse"]).flatmap(lambda kind: {
  "extend": st.tuples(st.just("extend"), st.lists(_items, min_size=1, max_size=10)),
  "extendleft": st.tuples(st.just("extendleft"), st.lists(_items, min_size=1, max_size=6)),
  "pop": st.tuples(st.just("pop"), st.integers(1, 5)),
  "popleft": st.tuples(st.just("popleft"), st.integers(1, 5)),
  "rotate": st.tuples(st.just("rotate"), st.integers(-4, 4)),
  "clear": st.just(("clear",)),
  "set": st.tuples(st.just("set"), st.integers(0, 30), _items),
  "insert": st.tuples(st.just("insert"), st.integers(0, 30), _items),
  "reverse": st.just(("reverse",)),
}[kind])

_map_op = st.sampled_from(["add", "add", "del", "del", "clear", "setvalue", "swap", "to_end"]).flatmap(
  lambda kind: {
    "add": st.tuples(st.just("add"), st.lists(_items, min_size=1, max_size=8)),
    "del": st.tuples(st.just("del"), st.lists(st.integers(0, 30), min_size=1, max_size=4)),
    "clear": st.just(("clear",)),
    "setvalue": st.tuples(st.just("setvalue"), st.integers(0, 30), _items),
    "swap": st.tuples(st.just("swap"), st.integers(0, 30), _items),    # one key out, one in
    "to_end": st.tuples(st.just("to_end"), st.integers(0, 30)),
  }[kind])

_set_op = st.sampled_from(["add", "add", "discard", "clear", "swap"]).flatmap(lambda kind: {
  "add": st.tuples(st.just("add"), st.lists(_items, min_size=1, max_size=8)),
  "discard": st.tuples(st.just("discard"), st.lists(st.integers(0, 30), min_size=1, max_size=4)),
  "clear": st.just(("clear",)),
  "swap": st.tuples(st.just("swap"), st.integers(0, 30), _items),
}[kind])

_LATE_STREAMS = ("stream_list", "stream_iter", "stream_chain", "stream_tagged", "stream_cycle")
_LATE_MAPPINGS = ("dict", "odict", "dict_keys", "dict_values", "dict_items", "odict_values")
_LATE_KINDS = _LATE_STREAMS + ("stream_list", "stream_cycle", "deque", "deque", "deque_maxlen",
                               "set") + _LATE_MAPPINGS


def strat_late(tier):
  maxlen = 30 if tier == "quick" else 120
  def sizehop(regime):
    if regime == "none":
      return st.tuples(st.integers(1, 6), st.none())
    if regime == "eq":
      return st.integers(1, 6).map(lambda s: (s, s))
    if regime == "lt":
      return st.integers(2, 6).flatmap(lambda s: st.tuples(st.just(s), st.integers(1, s - 1)))
    return st.integers(1, 6).flatmap(lambda s: st.tuples(st.just(s), st.integers(s + 1, s + 5)))
  def ops_for(kind):
    if kind == "stream_cycle":      # endless until limited: the first change is the limit
      return st.tuples(st.tuples(st.just("limit"), st.integers(0, 45)),
                       st.lists(_stream_op, max_size=3)).map(lambda t: [t[0]] + t[1])
    if kind in _LATE_STREAMS:
      return st.lists(_stream_op, min_size=1, max_size=4)
    if kind in ("deque", "deque_maxlen"):
      return st.lists(_deque_op, min_size=1, max_size=3)
    if kind == "set":
      return st.lists(_set_op, min_size=1, max_size=3)
    return st.lists(_map_op, min_size=1, max_size=3)
  def xs_for(kind):
    if kind == "stream_cycle":
      return st.lists(_plain, min_size=1, max_size=6)
    return st.one_of(st.lists(_items, max_size=maxlen),
                     st.integers(0, maxlen).map(lambda n: list(range(n))))
  return st.sampled_from(_LATE_KINDS).flatmap(lambda kind: st.fixed_dictionaries(dict(
    kind=st.just(kind),
    xs=xs_for(kind),
    sh=st.sampled_from(["lt", "lt", "gt", "gt", "eq", "none"]).flatmap(sizehop),
    pad=_pad,
    ops=ops_for(kind),
    style=st.sampled_from(["kw", "kw", "positional", "seq_kw"]),
    sets=st.lists(st.tuples(st.integers(0, 8), _items), max_size=4),
  )))


def _late_source(kind, xs):
  """-> (object given to blocks(), object the changes are made on, items as of the call or None)"""
  from collections import deque, OrderedDict
  if kind == "stream_list":
    s = Stream(list(xs))
    return s, s, list(xs)
  if kind == "stream_iter":
    s = Stream(iter(xs))
    return s, s, list(xs)
  if kind == "stream_chain":        # several iterables are chained
    cut = len(xs) // 3
    s = Stream(list(xs[:cut]), tuple(xs[cut:]))
    return s, s, list(xs)
  if kind == "stream_tagged":
    s = _Tagged(xs)
    return s, s, [("it", v) for v in xs]
  if kind == "stream_cycle":        # Stream(a, b, ...) of non-iterables repeats them for ever
    s = Stream(*xs)
    return s, s, None
  if kind == "deque":
    d = deque(xs)
    return d, d, list(xs)
  if kind == "deque_maxlen":
    d = deque(xs, maxlen=max(len(xs), 1) + 3)
    return d, d, list(xs)
  if kind == "set":
    d = set(xs)
    return d, d, list(d)
  d = (OrderedDict if kind.startswith("odict") else dict)((x, ("v", i)) for i, x in enumerate(xs))
  src = {"dict": d, "odict": d, "dict_keys": d.keys(), "dict_values": d.values(), "odict_values": d.values(),
         "dict_items": d.items()}[kind]
  return src, d, list(src)


def _late_stream_change(s, items, op, kind):
  """Applies one in-place change to the Stream and returns the items it holds afterwards (items is
  None while the stream is endless)."""
  name = op[0]
  if name == "limit":
    n = max(op[1], 0)
    s.limit(op[1])
    if items is None:
      raise AssertionError("endless streams are limited by run_late itself")
    return items[:n]
  if name == "map":
    s.map(_LATE_MAPS[op[1]])
    if kind == "stream_tagged":       # the subclass tags what its data yields
      return [("it", _LATE_MAPS[op[1]](v[1])) for v in items]
    return [_LATE_MAPS[op[1]](v) for v in items]
  if name == "filter":
    s.filter(_LATE_PREDS[op[1]])
    if kind == "stream_tagged":
      return [v for v in items if _LATE_PREDS[op[1]](v[1])]
    return [v for v in items if _LATE_PREDS[op[1]](v)]
  if name == "skip":
    s.skip(op[1])
    return items[op[1]:]
  if name == "append":
    s.append(list(op[1]))
    more = list(op[1])
  elif name == "append2":
    s.append(list(op[1]), iter(op[2]))
    more = list(op[1]) + list(op[2])
  elif name == "peek":                # looks at the next items without removing them
    seen = s.peek(op[1])
    if kind != "stream_tagged" and not same(seen, items[:op[1]]):
      raise Violation("peek(%d) -> %r, the stream holds %r" % (op[1], seen, items))
    return items
  elif name == "copy_read":           # a copy is made and read from; the stream keeps its items
    twin = s.copy()
    seen = twin.take(op[1])
    if kind != "stream_tagged" and not same(seen, items[:op[1]]):
      raise Violation("copy().take(%d) -> %r, the stream holds %r" % (op[1], seen, items))
    return items
  elif name == "take":                # removes the first items
    s.take(op[1])
    return items[op[1]:]
  else:
    raise AssertionError(op)
  if kind == "stream_tagged":
    more = [("it", v) for v in more]
  return items + more


def _late_container_change(d, op):
  name = op[0]
  if name == "extend":
    d.extend(op[1])
  elif name == "extendleft":
    d.extendleft(op[1])
  elif name in ("pop", "popleft"):
    for _ in range(min(op[1], len(d))):
      getattr(d, name)()
  elif name == "rotate":
    d.rotate(op[1])
  elif name == "clear":
    d.clear()
  elif name == "reverse":
    d.reverse()
  elif name == "insert":                       # deque
    if d.maxlen is None or len(d) < d.maxlen:
      d.insert(op[1] % (len(d) + 1), op[2])
  elif name == "set":                          # deque
    if len(d):
      d[op[1] % len(d)] = op[2]
  elif isinstance(d, (set, frozenset)):
    members = list(d)
    if name == "add":
      d.update(op[1])
    elif name == "discard":
      for i in op[1]:
        if members:
          d.discard(members[i % len(members)])
    elif name == "swap":
      if members:
        d.discard(members[op[1] % len(members)])
      d.add(op[2])
    else:
      raise AssertionError(op)
  else:                                        # dict / OrderedDict
    keys = list(d)
    if name == "add":
      for j, key in enumerate(op[1]):
        d[key] = ("new", j)
    elif name == "del":
      for i in op[1]:
        if keys:
          d.pop(keys[i % len(keys)], None)
    elif name == "setvalue":
      if keys:
        d[keys[op[1] % len(keys)]] = ("set", op[2])
    elif name == "swap":
      if keys:
        del d[keys[op[1] % len(keys)]]
      d[op[2]] = ("swapped",)
    elif name == "to_end":                     # same keys, other order
      if keys:
        key = keys[op[1] % len(keys)]
        d[key] = d.pop(key)
    else:
      raise AssertionError(op)


def run_late(case):
  kind, xs, (size, hop), pad = case["kind"], case["xs"], case["sh"], case["pad"]
  ops = [tuple(op) for op in case["ops"]]
  kw = {} if hop is None else {"hop": hop}
  hop = size if hop is None else hop
  src, target, at_call = _late_source(kind, xs)
  if case["style"] == "positional":
    it = blocks(src, size, hop, pad)
  elif case["style"] == "seq_kw":
    it = blocks(seq=src, size=size, padval=pad, **kw)
  else:
    it = blocks(src, size=size, padval=pad, **kw)
  # --- between the call and the first pull
  if kind in _LATE_STREAMS:
    items = at_call
    for j, op in enumerate(ops):
      if items is None:                        # endless: the first change is the limit
        if j or op[0] != "limit":
          raise AssertionError(ops)
        target.limit(op[1])
        items = [xs[i % len(xs)] for i in range(max(op[1], 0))]
      else:
        items = _late_stream_change(target, items, op, kind)
    changed = at_call is None or not same(items, at_call)
    effect = "Stream changed in place before the first block"
    if not changed and any(op[0] in ("peek", "copy_read") and op[1] > 0 for op in ops):
      changed = True                           # same items, handed out by another iterator now
      effect = "Stream copied / peeked before the first block, items kept"
  else:
    for op in ops:
      _late_container_change(target, op)
    items = list(src)                          # what iterating the given object yields now
    changed = not same(items, at_call)
    effect = ("container grew before the first block" if len(items) > len(at_call) else
              "container shrank before the first block" if len(items) < len(at_call) else
              "container changed, same length, before the first block")
  exp = blocks_ref(items, size, hop, pad)
  # --- item assignments at places no block has reached, between blocks (deques only: assigning
  # an item is the one change a deque iterator lets through)
  sets = [tuple(m) for m in case["sets"]] if kind in ("deque", "deque_maxlen") else []
  model = list(items)
  got = []
  set_done = False
  try:
    for k, blk in enumerate(it):
      got.append(list(blk))
      if len(got) > len(exp) + 3:
        raise Violation("blocks keep coming: %r, expected %r (size=%d hop=%d)" % (got, exp, size, hop))
      if k < len(sets):
        idx = k * hop + size + sets[k][0]
        if idx < len(model):
          target[idx] = model[idx] = sets[k][1]
          set_done = True
  except RuntimeError as exc:
    raise Violation("%s changed by %r after blocks() was called and before the first block was asked "
                    "for: %s: %s (blocks read so far: %r)" % (kind, ops, type(exc).__name__, exc, got))
  exp = blocks_ref(model, size, hop, pad)
  if len(got) != len(exp):
    raise Violation("%s changed before the first block (%r): block count %d != %d (items at the call %r, "
                    "at the first pull %r, size=%d hop=%d) got=%r exp=%r"
                    % (kind, ops, len(got), len(exp), at_call, items, size, hop, got, exp))
  for k, (g, e) in enumerate(zip(got, exp)):
    if not same(g, e):
      raise Violation("%s changed before the first block (%r): block %d is %r, expected %r (items at the "
                      "call %r, at the first pull %r, size=%d hop=%d)"
                      % (kind, ops, k, g, e, at_call, items, size, hop))
  regime = "hop<size" if hop < size else ("hop=size" if hop == size else "hop>size")
  labels = [regime, "kind:" + kind, "style:" + case["style"]]
  labels += sorted(set("op:" + op[0] for op in ops))
  if changed:
    labels.append(effect)
    labels.append("function form, input changed before the first block")
    if kind in _LATE_STREAMS:
      labels.append("Stream given to the function")
    elif kind in _LATE_MAPPINGS:
      labels.append("dict or dict view")
    else:
      labels.append("deque or set")
  if set_done:
    labels.append("deque item assigned between blocks")
  padded = bool(exp) and len(model) < (len(exp) - 1) * hop + size
  if padded:
    labels.append("padded tail")
  return {"nontrivial": changed and (len(exp) >= 2 or padded), "labels": labels}


# ---- the input is a built-in sequence type given as it is ---------------------------------------
# "Any iterable": a str is the sequence of its characters, bytes / bytearray / memoryview of their
# integers, a range or an array.array of its numbers.  These are the types a fast path would single
# out (slicing, len, string arithmetic), and the pad value is "any pad value": for a text input a
# text pad that is empty, one character or several characters long is one pad ITEM per missing
# place, never characters spliced into the block.

_TYPED_KINDS = ("str", "str", "str", "str", "str_wide", "str_wide", "bytes", "bytearray", "memoryview", "range",
                "array_i", "array_d")
_TEXT_KINDS = ("str", "str_wide")
_TYPED_MUTABLE = ("bytearray", "array_i", "array_d")     # buffers that can grow / shrink while their blocks are read
_BYTES_KINDS = ("bytes", "bytearray", "memoryview")
_TYPED_ENTRIES = ("fn_kw", "fn_kw", "fn_positional", "fn_seq_kw", "stream_method", "stream_fn", "iter",
                  "zero_pad_noop")

_text_pad = st.one_of(st.sampled_from(["", "", "-", " ", "--", "<pad>", "\n\n", "ab"]), st.text(max_size=3))
_bytes_pad = st.sampled_from([b"", b"\x00", b"ab", 0, 255, "", "--"])


def strat_typed(tier):
  maxlen = 30 if tier == "quick" else 120
  def sizehop(regime):
    if regime == "none":
      return st.tuples(st.integers(1, 7), st.none())
    if regime == "eq":
      return st.integers(1, 7).map(lambda s: (s, s))
    if regime == "lt":
      return st.integers(2, 7).flatmap(lambda s: st.tuples(st.just(s), st.integers(1, s - 1)))
    return st.integers(1, 7).flatmap(lambda s: st.tuples(st.just(s), st.integers(s + 1, s + 5)))
  def data_for(kind):
    if kind == "str":
      return st.one_of(st.text(alphabet="abcxyz -\n", max_size=maxlen),
                       st.integers(0, maxlen).map(lambda n: ("wordwrapping text\n" * 8)[:n]))
    if kind == "str_wide":
      return st.one_of(st.text(alphabet=u"a\xe9\xdf中\U0001F600 -", max_size=maxlen),
                       st.integers(0, maxlen).map(lambda n: (u"\xe9t\xe9 中\U0001F600-" * 20)[:n]))
    if kind in _BYTES_KINDS:
      return st.binary(max_size=maxlen)
    if kind == "range":
      return st.tuples(st.integers(-5, 5), st.integers(0, maxlen), st.sampled_from([1, 1, 2, 3, -1, -2]))
    if kind == "array_i":
      return st.lists(st.integers(-100, 100), max_size=maxlen)
    return st.lists(st.integers(-64, 64).map(lambda v: v / 8.), max_size=maxlen)
  def typed_op(kind):        # in-place changes a bytearray / array.array takes (values of its item type)
    value = {"bytearray": st.integers(0, 255), "array_i": st.integers(-100, 100),
             "array_d": st.integers(-64, 64).map(lambda v: v / 8.)}[kind]
    return st.sampled_from(["extend", "extend", "truncate", "set", "insert", "none"]).flatmap(lambda name: {
      "extend": st.tuples(st.just("extend"), st.lists(value, min_size=1, max_size=12)),
      "truncate": st.tuples(st.just("truncate"), st.integers(0, 5)),
      "set": st.tuples(st.just("set"), st.integers(0, 8), value),
      "insert": st.tuples(st.just("insert"), st.integers(0, 5), value),
      "none": st.just(("none",)),
    }[name])
  def pad_for(kind):
    family = _text_pad if kind in _TEXT_KINDS else _bytes_pad if kind in _BYTES_KINDS else _pad
    return st.sampled_from([0, 0, 0, 1]).flatmap(lambda other: _pad if other else family)
  return st.sampled_from(_TYPED_KINDS).flatmap(lambda kind: st.fixed_dictionaries(dict(
    kind=st.just(kind),
    data=data_for(kind),
    sh=st.sampled_from(["lt", "lt", "gt", "gt", "eq", "none"]).flatmap(sizehop),
    pad=pad_for(kind),
    op=st.sampled_from(["blocks", "blocks", "blocks", "zero_pad"]),
    entry=st.sampled_from(_TYPED_ENTRIES),
    left=st.integers(0, 4),
    right=st.integers(0, 4),
    pre=(st.sampled_from(["none", "none", "op"]).flatmap(
      lambda w: st.just(("none",)) if w == "none" else typed_op(kind))
         if kind in _TYPED_MUTABLE else st.just(("none",))),
    muts=st.lists(typed_op(kind), max_size=5) if kind in _TYPED_MUTABLE else st.just([]),
  )))


def _typed_obj(kind, data):
  from array import array
  if kind in _TEXT_KINDS:
    return data
  if kind == "bytes":
    return bytes(data)
  if kind == "bytearray":
    return bytearray(data)
  if kind == "memoryview":
    return memoryview(bytes(data))
  if kind == "range":
    start, n, step = data
    return range(start, start + n * step, step)
  if kind == "array_i":
    return array("i", data)
  if kind == "array_d":
    return array("d", data)
  raise AssertionError(kind)


def run_typed(case):
  kind, (size, hop), pad, entry = case["kind"], case["sh"], case["pad"], case["entry"]
  kw = {} if hop is None else {"hop": hop}
  hop = size if hop is None else hop
  obj = _typed_obj(kind, case["data"])
  items = list(_typed_obj(kind, case["data"]))    # what iterating such an object yields
  labels = ["kind:" + kind, "op:" + case["op"]]
  if kind in _TEXT_KINDS and isinstance(pad, str):
    labels.append("text input, text pad")
    if len(pad) != 1:
      labels.append("text input, text pad not one character long")
  if isinstance(pad, (str, bytes, tuple, list)):
    labels.append("the pad value is a sequence itself")
  if case["op"] == "zero_pad":
    left, right = case["left"], case["right"]
    if entry == "fn_positional":
      got = list(zero_pad(obj, left, right, pad))
    elif entry == "fn_seq_kw":
      got = list(zero_pad(seq=obj, left=left, right=right, zero=pad))
    elif entry in ("stream_method", "stream_fn"):
      got = list(zero_pad(Stream(obj), left=left, right=right, zero=pad))
    elif entry == "iter":
      got = list(zero_pad(iter(obj), left=left, right=right, zero=pad))
    else:
      got = list(zero_pad(obj, left=left, right=right, zero=pad))
    exp = [pad] * left + items + [pad] * right
    if not same(got, exp):
      raise Violation("zero_pad(<%s %r>, left=%d, right=%d, zero=%r) [%s] -> %r, expected %r"
                      % (kind, obj, left, right, pad, entry, got, exp))
    if left or right:
      labels.append("zero_pad pads a typed sequence")
    return {"nontrivial": bool(items) and bool(left or right), "labels": labels}
  labels.append("entry:" + entry)
  if entry == "fn_kw":
    it = blocks(obj, size=size, padval=pad, **kw)
  elif entry == "fn_positional":
    it = blocks(obj, size, hop, pad)
  elif entry == "fn_seq_kw":
    it = blocks(seq=obj, size=size, padval=pad, **kw)
  elif entry == "stream_method":
    it = Stream(obj).blocks(size=size, padval=pad, **kw)
  elif entry == "stream_fn":
    it = blocks(Stream(obj), size, hop, pad)
  elif entry == "iter":
    it = blocks(iter(obj), size=size, padval=pad, **kw)
  elif entry == "zero_pad_noop":
    it = blocks(zero_pad(obj), size=size, padval=pad, **kw)
  else:
    raise AssertionError(entry)
  # the buffer is changed in its unread part before the first block and after complete blocks, as the
  # list of clause mutated is (same model): each block is the window of the buffer as it is then
  pre = tuple(case.get("pre", ("none",)))
  muts = [tuple(m) for m in case.get("muts", [])]
  exp, ncomplete, effects = mutated_ref(items, size, hop, pad, pre, muts)
  shown = repr(obj)
  _apply(obj, 0, pre)
  got = []
  for k, blk in enumerate(it):
    got.append(list(blk))
    if len(got) > len(exp) + 3:
      raise Violation("more blocks than expected: %r, expected %r" % (got[:8], exp))
    if k < ncomplete and k < len(muts):
      _apply(obj, k * hop + size, muts[k])
  if len(got) != len(exp):
    raise Violation("%s %s [%s]: block count %d != %d (size=%d hop=%d padval=%r pre=%r muts=%r) got=%r exp=%r"
                    % (kind, shown, entry, len(got), len(exp), size, hop, pad, pre, muts, got, exp))
  for k, (g, e) in enumerate(zip(got, exp)):
    if not same(g, e):
      raise Violation("%s %s [%s]: block %d is %r, expected %r (size=%d hop=%d padval=%r pre=%r muts=%r)"
                      % (kind, shown, entry, k, g, e, size, hop, pad, pre, muts))
  items = list(obj) if effects else items          # the sequence as it finally is
  if effects:
    labels.append("typed buffer changed while its blocks are read")
    if any(e.endswith("between blocks") for e in effects):
      labels.append("typed buffer changed between blocks")
      if entry in ("fn_kw", "fn_positional", "fn_seq_kw"):
        labels.append("typed buffer given as it is, changed between blocks")
  labels.append("hop<size" if hop < size else ("hop=size" if hop == size else "hop>size"))
  direct = entry in ("fn_kw", "fn_positional", "fn_seq_kw")
  if direct:
    labels.append("typed sequence given to the function as it is")
  padded = bool(exp) and len(items) < (len(exp) - 1) * hop + size
  if padded:
    labels.append("padded tail")
    if "text input, text pad not one character long" in labels:
      labels.append("text padded with a text pad not one character long")
      if direct:
        labels.append("str given as it is, padded with a text pad not one character long")
  return {"nontrivial": len(exp) >= 2 or padded, "labels": labels}


# ---- sizes, hops and lengths beyond the small box ------------------------------------------------
# "All size >= 1, all hop >= 1, all input lengths": the analysis settings blocks() is used with are
# windows of 256 .. 2048 items moved by a half or a quarter, or short blocks taken far apart.  The
# cases here are described by numbers (size, hop, block count, rest) and the items are built from
# them, so that long inputs stay cheap to draw and to shrink.

_BIG_ROUTES = ("iter", "list", "list", "stream", "stream_method", "gen", "tuple", "deque", "positional",
               "stream_positional", "kw_default_pad", "getitem_seq", "getitem_nolen", "iter_only_obj",
               "list_subclass", "sub_tagged_method", "thub_method")


def strat_big(tier):
  powers = [16, 32, 64, 128, 256, 512, 1024] + ([2048, 4096] if tier != "quick" else [])
  size = st.one_of(st.integers(1, 9), st.integers(10, 100), st.sampled_from(powers))
  def hop_for(size):
    near = [max(size // 4, 1), max(size // 2, 1), max(size - 1, 1), size, size + 1, 2 * size, 3 * size + 1]
    return st.one_of(st.sampled_from(near), st.none(), st.integers(1, max(2 * size, 2)),
                     st.integers(size + 10, size + 300), st.integers(size + 10, size + 300))
  def rest_of(sh):
    size, hop = sh
    step = size if hop is None else hop
    most = max(1, min(30, 40000 // max(size, step)))
    return st.fixed_dictionaries(dict(
      sh=st.just(sh),
      nblocks=st.integers(0, most),
      rest=st.one_of(st.integers(0, size + step), st.sampled_from([0, 1, max(size - step, 0),
                                                                  max(size - step, 0) + 1, size - 1, size])),
      items=st.sampled_from(["range", "range", "cycle", "cycle", "sparse"]),
      palette=st.lists(_items, min_size=1, max_size=7),
      subs=st.lists(st.tuples(st.integers(0, 10 ** 6), _items), max_size=6),
      pad=_pad,
      route=st.sampled_from(_BIG_ROUTES),
    ))
  return size.flatmap(lambda sz: st.tuples(st.just(sz), hop_for(sz))).flatmap(rest_of)


def run_big(case):
  size, hop = case["sh"]
  step = size if hop is None else hop
  n = case["nblocks"] * step + case["rest"]
  if case["items"] == "range":
    xs = list(range(n))
  elif case["items"] == "cycle":          # a heterogeneous pattern repeated (None, text, pad-like values)
    pal = case["palette"]
    xs = [pal[i % len(pal)] for i in range(n)]
  else:                                   # distinct numbers with a few other items somewhere
    xs = list(range(n))
    for pos, item in case["subs"]:
      if n:
        xs[pos % n] = item
  res = run_blocks(dict(xs=xs, sh=(size, hop), pad=case["pad"], route=case["route"]))
  labels = [lb for lb in res["labels"] if not lb.startswith("route:")] + ["items:" + case["items"]]
  if size >= 16:
    labels.append("size >= 16")
  if size >= 128:
    labels.append("size >= 128")
  if step - size >= 16:
    labels.append("hop - size >= 16")
    if any(x is None for x in xs):
      labels.append("hop - size >= 16, None among the items")
  if step >= 16 and step <= size:
    labels.append("hop >= 16, overlapping or adjacent")
  if n > 200:
    labels.append("more than 200 items")
  if n > 2000:
    labels.append("more than 2000 items")
  return {"nontrivial": res["nontrivial"], "labels": labels}


def strat_pad(tier):
  return st.fixed_dictionaries(dict(
    xs=st.lists(_items, max_size=12),
    left=st.one_of(st.none(), st.integers(0, 6)),
    right=st.one_of(st.none(), st.integers(0, 6)),
    zero=st.one_of(st.just("default"), _pad),
    route=st.sampled_from(["list", "iter", "stream", "tuple", "deque", "gen", "getitem_seq", "getitem_seq",
                           "getitem_nolen", "iter_only_obj", "sub_tagged", "sub_replay_reused", "thub",
                           "list_subclass", "str"]),
    style=st.sampled_from(["kw", "kw", "positional", "seq_kw"]),
  ))


def _pad_source(route, xs):
  """-> (object given to zero_pad, its items)"""
  from collections import deque
  if route in ("list", "iter", "stream", "tuple", "deque"):
    return {"list": list, "iter": iter, "stream": Stream, "tuple": tuple, "deque": deque}[route](xs), list(xs)
  if route == "gen":
    return (x for x in xs), list(xs)
  if route == "getitem_seq":
    return _GetItemSeq(list(xs)), list(xs)
  if route == "getitem_nolen":
    return _GetItemNoLen(tuple(xs)), list(xs)
  if route == "iter_only_obj":
    return _IterOnly(list(xs)), list(xs)
  if route == "sub_tagged":
    return _Tagged(xs), [("it", v) for v in xs]
  if route == "sub_replay_reused":
    rep = _Replay(xs)
    list(rep)
    return rep, list(xs)
  if route == "thub":
    hub = audiolazy.thub(list(xs), 1)
    return hub, list(xs)
  if route == "list_subclass":
    return _ListSub(xs), list(xs)
  if route == "str":                   # a string is the sequence of its characters
    text = "".join(x if isinstance(x, str) else repr(x) for x in xs)
    return text, list(text)
  raise AssertionError(route)


def run_pad(case):
  xs = case["xs"]
  kw = {}
  if case["left"] is not None:
    kw["left"] = case["left"]
  if case["right"] is not None:
    kw["right"] = case["right"]
  zero = 0.
  if case["zero"] != "default":
    kw["zero"] = zero = case["zero"]
  route = case.get("route", "list")
  style = case.get("style", "kw")
  src, xs = _pad_source(route, xs)
  if style == "positional":            # every parameter by position (the defaults spelled out)
    got = list(zero_pad(src, case["left"] or 0, case["right"] or 0, zero))
  elif style == "seq_kw":
    got = list(zero_pad(seq=src, **kw))
  else:
    got = list(zero_pad(src, **kw))
  exp = [zero] * (case["left"] or 0) + list(xs) + [zero] * (case["right"] or 0)
  if not same(got, exp):
    raise Violation("zero_pad(<%s of %r>, %r) [%s] -> %r, expected %r" % (route, xs, kw, style, got, exp))
  labels = ["zero_pad", "left" if kw.get("left") else "noleft",
            "right" if kw.get("right") else "noright", "route:" + route, "style:" + style]
  if route in ("getitem_seq", "getitem_nolen"):
    labels.append("iterable through __getitem__ only")
  if len(xs) == 1:
    labels.append("one item")
  return {"nontrivial": bool(xs) and bool(kw.get("left") or kw.get("right")), "labels": labels}


def grid(tier, shard, nshards):
  nmax, smax, hmax = (14, 6, 9) if tier == "quick" else (30, 9, 14)
  i = 0
  for n in range(nmax + 1):
    for size in range(1, smax + 1):
      for hop in range(1, hmax + 1):
        i += 1
        if i % nshards == shard:
          yield dict(xs=list(range(100, 100 + n)), sh=(size, hop), pad=None,
                     route="iter" if (n + size + hop) % 2 else "stream_method")


CLAUSES = [
  Clause("blocks", strat_blocks, run_blocks, quick=8000, thorough=200000, fuzz={"thorough": 160000},
         floors={"hop<size": .1, "hop>size": .1, "hop=size": .03, "padded tail": .1,
                 "Stream subclass with its own __iter__ through .blocks": .05,
                 "iterable through __getitem__ only": .03},
         doc="blocks()/Stream.blocks() vs blocks_ref on heterogeneous items, over every kind of iterable "
             "(containers, iterators, Streams, Stream subclasses with their own __iter__, thub, objects "
             "iterable through __getitem__ only)"),
  Clause("zero_pad", strat_pad, run_pad, quick=3000, thorough=40000,
         floors={"iterable through __getitem__ only": .05, "route:sub_tagged": .015, "route:str": .015},
         doc="zero_pad == [zero]*left + items + [zero]*right for every kind of iterable (containers, "
             "iterators, Streams and subclasses, objects iterable through __getitem__ only)"),
  Clause("mutated", strat_mutated, run_mutated, quick=6000, thorough=100000,
         floors={"changed between blocks": .15, "list grew between blocks": .08,
                 "list shrank between blocks": .05,
                 "hop>size, list given directly, changed between blocks": .03},
         doc="a list that is extended / truncated / rewritten in its unread part while its blocks are "
             "being read (before the first block and between blocks): each block is the window of the "
             "list as it is when the block is produced"),
  Clause("late_bound", strat_late, run_late, quick=4000, thorough=80000,
         floors={"function form, input changed before the first block": .25,
                 "Stream given to the function": .08, "dict or dict view": .08, "deque or set": .06,
                 "container grew before the first block": .06,
                 "container shrank before the first block": .05},
         doc="the function blocks() given an object that is changed after the call and before the first "
             "block is asked for - a deque, dict / OrderedDict (and their views) or set that grows, shrinks "
             "or is reordered, a Stream limited / mapped / filtered / skipped / appended / copied / peeked "
             "in place: the blocks are those of the input as it is when they are produced"),
  Clause("typed", strat_typed, run_typed, quick=5000, thorough=60000,
         floors={"typed sequence given to the function as it is": .12, "text input, text pad": .1,
                 "text padded with a text pad not one character long": .015,
                 "str given as it is, padded with a text pad not one character long": .005,
                 "the pad value is a sequence itself": .15, "zero_pad pads a typed sequence": .08,
                 "typed buffer changed between blocks": .02,
                 "typed buffer given as it is, changed between blocks": .008},
         doc="blocks() / Stream.blocks() / zero_pad() over a str, bytes, bytearray, memoryview, range or "
             "array.array given as it is (and through iter / Stream), with pad values of the same family: "
             "text pads of length 0, 1 and more, bytes pads, numbers - one pad item per missing place; a "
             "bytearray / array.array grows, shrinks or is rewritten in its unread part while its blocks are read"),
  Clause("big", strat_big, run_big, quick=1500, thorough=20000,
         floors={"size >= 16": .25, "size >= 128": .08, "hop - size >= 16": .1,
                 "hop - size >= 16, None among the items": .02, "hop >= 16, overlapping or adjacent": .08,
                 "more than 200 items": .15, "more than 2000 items": .03, "padded tail": .1},
         doc="blocks()/Stream.blocks() vs blocks_ref for sizes up to 1024 (thorough 4096), hops of a quarter, "
             "a half, size-1, size, size+1, a multiple of the size and hundreds of items beyond it, inputs of "
             "thousands of items (numbers, a repeated heterogeneous pattern, numbers with a few other items)"),
  Enumerated("grid", grid, run_blocks, shards={"quick": 4, "thorough": 16},
             doc="every (length, size, hop) in a small box"),
]
