"""C08 - Blocks are the hop-spaced windows of the input, padded only at the end."""
from hypothesis import strategies as st
from vlib.core import Clause, Enumerated, Violation

import audiolazy
from audiolazy import blocks, zero_pad, Stream

ID = "C08"
RULE = ("cases = (items, size, hop, pad value, entry point) drawn by Hypothesis "
        "(plus an exhaustively enumerated small grid); oracle = blocks_ref "
        "(slices xs[k*hop:k*hop+size] + tail rule) compared with snapshots taken "
        "when each block is yielded; non-trivial = at least 2 blocks or a padded "
        "tail; distinct = distinct case hash")
ASSUMPTIONS = [
  "block contents are observed through list(block) at yield time (the deque is reused by design)",
  "size >= 1 and hop >= 1 (the property's domain)",
  "Stream.blocks describes the stream's items as of the call: in-place changes to the Stream object made after the call and before the first block is read do not show in the blocks",
]

_items = st.one_of(
  st.integers(-5, 5), st.none(), st.text(max_size=2), st.booleans(),
  st.tuples(st.integers(0, 3), st.integers(0, 3)), st.integers(-64, 64).map(lambda v: v / 8.))
_pad = st.one_of(st.none(), st.integers(-3, 3), st.just("PAD"), st.just(0.), st.tuples())


def blocks_ref(xs, size, hop, pad):
  out = []
  k = 0
  n = len(xs)
  while k * hop + size <= n:
    out.append(xs[k * hop:k * hop + size])
    k += 1
  real = n - k * hop
  if real > max(size - hop, 0):
    out.append(xs[k * hop:] + [pad] * (size - real))
  return out


def strat_blocks(tier):
  maxlen = 40 if tier == "quick" else 200
  def sizehop(regime):
    if regime == "none":
      return st.tuples(st.integers(1, 9), st.none())
    if regime == "eq":
      return st.integers(1, 9).map(lambda s: (s, s))
    if regime == "lt":
      return st.integers(2, 9).flatmap(lambda s: st.tuples(st.just(s), st.integers(1, s - 1)))
    return st.integers(1, 9).flatmap(lambda s: st.tuples(st.just(s), st.integers(s + 1, s + 6)))
  return st.fixed_dictionaries(dict(
    xs=st.one_of(st.lists(_items, max_size=maxlen),
                 st.integers(0, maxlen).map(lambda n: list(range(n)))),
    sh=st.sampled_from(["lt", "lt", "gt", "gt", "eq", "none"]).flatmap(sizehop),
    pad=_pad,
    route=st.sampled_from(["iter", "list", "stream", "stream_method", "gen", "kw_default_pad",
                           "stream_method_then_changed", "tuple", "deque", "positional", "stream_positional"]),
  ))


def _call(case):
  xs, (size, hop), pad, route = case["xs"], case["sh"], case["pad"], case["route"]
  kw = {} if hop is None else {"hop": hop}
  if route == "iter":
    return blocks(iter(xs), size, padval=pad, **kw), pad
  if route == "list":
    return blocks(list(xs), size=size, padval=pad, **kw), pad
  if route == "gen":
    return blocks((x for x in xs), size=size, padval=pad, **kw), pad
  if route == "stream":
    return blocks(Stream(xs), size=size, padval=pad, **kw), pad
  if route == "stream_method":
    return Stream(xs).blocks(size=size, padval=pad, **kw), pad
  if route == "positional":          # size, hop and the pad value all by position
    return blocks(iter(xs), size, size if hop is None else hop, pad), pad
  if route == "stream_positional":
    return Stream(xs).blocks(size, size if hop is None else hop, pad), pad
  if route == "tuple":
    return blocks(tuple(xs), size=size, padval=pad, **kw), pad
  if route == "deque":
    from collections import deque
    return blocks(deque(xs), size=size, padval=pad, **kw), pad
  if route == "stream_method_then_changed":
    # the blocks are those of the stream as it was when blocks() was called: changing the
    # Stream object in place afterwards (before any block is read) must not leak into them
    src = Stream(xs)
    out = src.blocks(size=size, padval=pad, **kw)
    src.map(lambda v: ("changed", v))
    src.append(["appended"])
    return out, pad
  if route == "kw_default_pad":
    return blocks(iter(xs), size=size, **kw), 0.
  raise AssertionError(route)


def same(a, b):
  """Item-wise identity-or-equality with equal types (True != 1 here)."""
  return len(a) == len(b) and all(
    (x is y) or (type(x) is type(y) and x == y) for x, y in zip(a, b))


def run_blocks(case):
  xs = case["xs"]
  size, hop = case["sh"]
  hop = size if hop is None else hop
  it, pad = _call(case)
  got = []
  for blk in it:
    got.append(list(blk))
    if len(got) > len(xs) + 3:
      raise Violation("more blocks than input items: %r" % got[:5])
  exp = blocks_ref(xs, size, hop, pad)
  if len(got) != len(exp):
    raise Violation("block count %d != %d (len=%d size=%d hop=%d) got=%r exp=%r"
                    % (len(got), len(exp), len(xs), size, hop, got, exp))
  for k, (g, e) in enumerate(zip(got, exp)):
    if not same(g, e):
      raise Violation("block %d is %r, expected %r (len=%d size=%d hop=%d)"
                      % (k, g, e, len(xs), size, hop))
  regime = "hop<size" if hop < size else ("hop=size" if hop == size else "hop>size")
  labels = [regime, "route:" + case["route"]]
  padded = bool(exp) and len(xs) < (len(exp) - 1) * hop + size
  if padded:
    labels.append("padded tail")
  elif len(xs) > 0 and (len(exp) == 0 or len(xs) > (len(exp) - 1) * hop + size):
    labels.append("tail dropped")
  if not xs:
    labels.append("empty input")
  return {"nontrivial": len(exp) >= 2 or padded, "labels": labels}


def strat_pad(tier):
  return st.fixed_dictionaries(dict(
    xs=st.lists(_items, max_size=12),
    left=st.one_of(st.none(), st.integers(0, 6)),
    right=st.one_of(st.none(), st.integers(0, 6)),
    zero=st.one_of(st.just("default"), _pad),
    route=st.sampled_from(["list", "iter", "stream"]),
  ))


def run_pad(case):
  xs = case["xs"]
  kw = {}
  if case["left"] is not None:
    kw["left"] = case["left"]
  if case["right"] is not None:
    kw["right"] = case["right"]
  zero = 0.
  if case["zero"] != "default":
    kw["zero"] = zero = case["zero"]
  src = {"list": list, "iter": iter, "stream": Stream}[case["route"]](xs)
  got = list(zero_pad(src, **kw))
  exp = [zero] * (case["left"] or 0) + list(xs) + [zero] * (case["right"] or 0)
  if not same(got, exp):
    raise Violation("zero_pad(%r, %r) -> %r, expected %r" % (xs, kw, got, exp))
  return {"nontrivial": bool(xs) and bool(kw.get("left") or kw.get("right")),
          "labels": ["zero_pad", "left" if kw.get("left") else "noleft",
                     "right" if kw.get("right") else "noright"]}


def grid(tier, shard, nshards):
  nmax, smax, hmax = (14, 6, 9) if tier == "quick" else (30, 9, 14)
  i = 0
  for n in range(nmax + 1):
    for size in range(1, smax + 1):
      for hop in range(1, hmax + 1):
        i += 1
        if i % nshards == shard:
          yield dict(xs=list(range(100, 100 + n)), sh=(size, hop), pad=None,
                     route="iter" if (n + size + hop) % 2 else "stream_method")


CLAUSES = [
  Clause("blocks", strat_blocks, run_blocks, quick=8000, thorough=200000, fuzz={"thorough": 160000},
         floors={"hop<size": .1, "hop>size": .1, "hop=size": .03, "padded tail": .1},
         doc="blocks()/Stream.blocks() vs blocks_ref on heterogeneous items"),
  Clause("zero_pad", strat_pad, run_pad, quick=1500, thorough=20000,
         doc="zero_pad == [zero]*left + xs + [zero]*right"),
  Enumerated("grid", grid, run_blocks, shards={"quick": 4, "thorough": 16},
             doc="every (length, size, hop) in a small box"),
]
