"""C14 - Window functions obey their periodic/symmetric, symmetry and overlap contracts."""
import importlib.util
import math
import sys
import warnings
from fractions import Fraction

from hypothesis import strategies as st
from vlib.core import Clause, Enumerated, Violation

import audiolazy
import audiolazy.lazy_analysis
from audiolazy import window, wsymm

ID = "C14"
RULE = ("cases = (strategy name or alias, size[, alpha, call route]); every "
        "(name, size) pair with 0 <= size <= 256 (thorough 2048) is enumerated with the "
        "default alpha, cos/blackman are enumerated again over fixed alpha lists and "
        "swept by Hypothesis over float alphas (both with the alphas that invite a path of their "
        "own: roots, small integer / half-integer powers, other spellings of the documented "
        "Blackman constants); COLA cases enumerate every size "
        "divisible by 2 (hann, hamming, bartlett, rect aliases) or 4 (hann, hamming, "
        "blackman); a third of the grid / sweep cases pass the size (and alpha) by keyword; "
        "histories (Hypothesis) ask the periodic window, its size+1 symmetric counterpart and "
        "the symmetric window at different moments of a sequence of calls of other strategies / "
        "dictionaries / sizes (multiples, divisors, same, near, unrelated), on a newly executed "
        "private copy of audiolazy.lazy_analysis (2/3) or on the worker's imported one; "
        "the cross-reference identities are enumerated exhaustively. Oracle = "
        "length, exact prefix relation window.X(size) == wsymm.X(size+1)[:size], range, "
        "symmetry, wsymm.X(1) == [1.0], independently evaluated closed forms "
        "(integer-folded trigonometric arguments, exact rationals for the triangular "
        "shapes), constant hop-shifted sums. non-trivial = size >= 3 (identities: a "
        "function-level cross reference); distinct = distinct case hash")
ASSUMPTIONS = [
  "names are the keys present in the window dictionary; the symmetric counterpart of "
  "window.X is window.X.symm (wsymm lacks the dirichlet/rectangular aliases, alias parity "
  "is not part of the property); for names present in wsymm, wsymm[X] is also used directly",
  "float tolerances: 1e-12 absolute for closed forms, symmetry and range (probed rounding "
  "error < 1e-15); for cos with 0 < alpha < 1 the tolerance is (1e-12)**alpha at the samples "
  "whose closed form is exactly zero (the end points), because x**alpha has unbounded slope "
  "there (the argument error, < 1e-15, is what is bounded), and 1e-12 at every other sample; "
  "COLA: max-min of the hop-shifted sums <= 1e-12 * (size/hop)",
  "the exact prefix relation has no condition on what was called before or in between: it is "
  "asserted between results obtained at different moments of a history of other window calls; a "
  "private copy of the module executed anew (importlib, not put in sys.modules) stands for a new "
  "process, so that a case does not depend on what the worker process ran before",
  "size and alpha are the documented parameter names and may be passed by keyword",
  "every sample must be a real number (int/float, not complex): the closed forms are real",
  "calling a strategy dictionary itself (window(size), wsymm(size)) is an access path to its default strategy, which must be one of the dictionary's own strategies (CHANGES.rst: the Hann window for both)",
  "blackman range claim [0,1] only for 0 <= alpha <= 0.25 (beyond that the closed form "
  "itself is negative near the edges); cos alpha >= 0 (0**negative is undefined)",
  "the bartlett/triangular oracles are the standard definitions 1-|2n-L|/L and "
  "1-|2n-L|/(L+2), L = size (periodic) or size-1 (symmetric); the docstring LaTeX of both "
  "is typographically inconsistent with its own title and is not used",
]

TOL = 1e-12

# name -> primary strategy (closed form); only names of the property text
NAMES = {
  "hann": "hann", "hanning": "hann", "hamming": "hamming",
  "rect": "rect", "dirichlet": "rect", "rectangular": "rect",
  "bartlett": "bartlett", "triangular": "triangular", "triangle": "triangular",
  "blackman": "blackman", "cos": "cos",
}
ORDER = ["hann", "hanning", "hamming", "rect", "dirichlet", "rectangular", "bartlett",
         "triangular", "triangle", "blackman", "cos"]
DEFAULT_ALPHA = {"blackman": .16, "cos": 1}


# ---------------------------------------------------------------- reference

def _cos_q1(p, q):
  """cos(pi*p/q) for 0 <= p/q <= 1/2, argument folded into [0, pi/4]."""
  if 4 * p > q:
    return math.sin(math.pi * (q - 2 * p) / (2 * q))
  return math.cos(math.pi * p / q)


def cospi(p, q):
  """cos(pi*p/q) for integers p, q > 0 (exact at multiples of pi/2)."""
  p %= 2 * q
  if p > q:
    p = 2 * q - p
  if 2 * p > q:
    return -_cos_q1(q - p, q)
  return _cos_q1(p, q)


def sinpi(p, q):
  return cospi(q - 2 * p, 2 * q)


def ref_sample(primary, n, L, alpha):
  """Closed form of sample n of a window whose period/span is L >= 1."""
  if primary == "hann":
    return .5 - .5 * cospi(2 * n, L)
  if primary == "hamming":
    return .54 - .46 * cospi(2 * n, L)
  if primary == "rect":
    return 1.
  if primary == "bartlett":
    return float(1 - Fraction(abs(2 * n - L), L))
  if primary == "triangular":
    return float(1 - Fraction(abs(2 * n - L), L + 2))
  if primary == "blackman":
    return (1 - alpha) / 2. - .5 * cospi(2 * n, L) + alpha / 2. * cospi(4 * n, L)
  if primary == "cos":
    s = sinpi(n, L)
    if s == 0:
      return 1. if alpha == 0 else 0.
    return s ** alpha
  raise AssertionError(primary)


def ref_window(primary, size, alpha, symm):
  if symm:
    if size == 1:
      return [1.]
    return [ref_sample(primary, n, size - 1, alpha) for n in range(size)]
  return [ref_sample(primary, n, size, alpha) for n in range(size)]


def tol_at(primary, alpha, n, L):
  """Tolerance of sample n of a window of period/span L. The wide (1e-12)**alpha of cos with
  0 < alpha < 1 is needed only where the closed form is exactly zero (n a multiple of L: the
  code raises a rounding residue of sin(pi) ~ 1e-16 to a small power there); every other sample
  has sin >= sin(pi/L) with a relative error ~1e-16, which a power below 1 does not amplify."""
  if primary == "cos" and alpha is not None and 0 < alpha < 1 and L and n % L == 0:
    return TOL ** alpha
  return TOL


# ---------------------------------------------------------------- real calls

def _strategies(name, route, dicts=None):
  """(periodic function, symmetric function) reached through the given route."""
  wnd, wsy = dicts or (window, wsymm)
  if route in ("item", "pos", "kw"):
    per = wnd[name]
  else:
    per = getattr(wnd, name)
  try:
    sym = wsy[name] if route in ("item", "pos", "kw") else getattr(wsy, name)
  except (KeyError, AttributeError):
    sym = per.symm        # window-only alias
  return per, sym


def _call(f, size, alpha, route, kws=False):
  """kws: the size goes by its documented parameter name (and then alpha too, named first)."""
  if kws:
    if alpha is None:
      return f(size=size)
    return f(alpha=alpha, size=size)
  if alpha is None:
    return f(size)
  if route == "kw":
    return f(size, alpha=alpha)
  return f(size, alpha)


_FRESH_CODE = {}


def _fresh_dicts():
  """(window, wsymm) of a private, newly executed copy of audiolazy.lazy_analysis: the state a
  new process starts with, whatever earlier cases of this worker process asked for."""
  path = sys.modules["audiolazy.lazy_analysis"].__file__
  spec = importlib.util.spec_from_file_location("audiolazy.lazy_analysis", path)
  mod = importlib.util.module_from_spec(spec)
  with warnings.catch_warnings():
    warnings.simplefilter("ignore")
    if path not in _FRESH_CODE:       # compiled once per worker, executed anew for every case
      with open(path, "rb") as f:
        _FRESH_CODE[path] = compile(f.read(), path, "exec", dont_inherit=True)
    exec(_FRESH_CODE[path], mod.__dict__)
  return mod.window, mod.wsymm


def _check_list(what, got, size):
  if not isinstance(got, list):
    raise Violation("%s returned %s, not a list" % (what, type(got).__name__))
  if len(got) != size:
    raise Violation("%s has %d samples, expected %d" % (what, len(got), size))
  for n, x in enumerate(got):
    if isinstance(x, bool) or not isinstance(x, (int, float)):
      raise Violation("%s sample %d is %r (%s), not a real number"
                      % (what, n, x, type(x).__name__), site="non-real window sample")
    if x != x or x in (float("inf"), float("-inf")):
      raise Violation("%s sample %d is %r" % (what, n, x))


def _check_closed(what, got, ref, primary, a, L):
  for n, (g, r) in enumerate(zip(got, ref)):
    tol = tol_at(primary, a, n, L)
    if abs(g - r) > tol:
      raise Violation("%s sample %d is %r, closed form gives %r (|diff| %.3g > %.3g)"
                      % (what, n, g, r, abs(g - r), tol))


def _verify_periodic(tag, primary, size, a, w):
  """Claims on one periodic window on its own: list of size reals in [0, 1], closed form."""
  _check_list("window." + tag, w, size)
  range_claimed = not (primary == "blackman" and not (0 <= a <= .25))
  if range_claimed:
    for n, x in enumerate(w):
      if not (-TOL <= x <= 1 + TOL):
        raise Violation("window.%s sample %d = %r is outside [0, 1]" % (tag, n, x))
  _check_closed("window." + tag, w, ref_window(primary, size, a, False), primary, a, size)
  return range_claimed


def _verify_symm(tag, primary, size, a, ws):
  """Claims on one symmetric window on its own: list of size reals, symmetric, [1.0], closed form."""
  _check_list("wsymm." + tag, ws, size)
  for n in range(size // 2):
    if abs(ws[n] - ws[size - 1 - n]) > tol_at(primary, a, n, size - 1):
      raise Violation("wsymm.%s is not symmetric: sample %d = %r, sample %d = %r"
                      % (tag, n, ws[n], size - 1 - n, ws[size - 1 - n]))
  if size == 1 and not (ws == [1.0] and type(ws[0]) is float):
    raise Violation("wsymm.%s is %r, expected [1.0]" % (tag, ws))
  _check_closed("wsymm." + tag, ws, ref_window(primary, size, a, True), primary, a, size - 1)


def _verify_prefix(tag, name, size, w, ws1, how=""):
  """periodic == first size samples of the (size+1) symmetric one, exactly"""
  if w != ws1[:size]:
    bad = [n for n in range(size) if w[n] != ws1[n]]
    raise Violation("window.%s != wsymm.%s(size+1)[:size]%s: first difference at n=%d: %r vs %r"
                    % (tag, name, how, bad[0], w[bad[0]], ws1[bad[0]]))


def check_window(name, size, alpha, route, kws=False):
  """All per-(name, size, alpha) claims of the property."""
  primary = NAMES[name]
  a = DEFAULT_ALPHA.get(primary) if alpha is None else alpha
  per, sym = _strategies(name, route)
  tag = "%s(%d%s)" % (name, size, "" if alpha is None else ", alpha=%r" % (alpha,))

  # what an earlier caller did to the lists it was given must not matter (the periodic docstrings
  # themselves suggest appending a sample to the result): use and change earlier results first
  for f, sz in ((per, size), (sym, size + 1), (sym, size)):
    earlier = _call(f, sz, alpha, route, kws)
    if isinstance(earlier, list):
      earlier.append(7.5)
      earlier[0] = -3.25
      if len(earlier) > 2:
        del earlier[1]

  w = _call(per, size, alpha, route, kws)
  _check_list("window." + tag, w, size)
  ws1 = _call(sym, size + 1, alpha, route, kws)
  _check_list("wsymm.%s [size+1]" % tag, ws1, size + 1)
  ws = _call(sym, size, alpha, route, kws)
  _check_list("wsymm." + tag, ws, size)

  _verify_prefix(tag, name, size, w, ws1)
  range_claimed = _verify_periodic(tag, primary, size, a, w)
  _verify_symm(tag, primary, size, a, ws)
  if size == 0 and ws1 != [1.0]:
    raise Violation("wsymm.%s(1) is %r, expected [1.0]" % (name, ws1))
  _verify_symm("%s [size+1]" % tag, primary, size + 1, a, ws1)

  labels = ["strategy:" + primary, "odd size" if size % 2 else "even size",
            "route:" + route]
  if kws:
    labels.append("size by keyword")
  if name != primary:
    labels.append("alias")
  if not range_claimed:
    labels.append("range not claimed")
  return labels


def check_cola(name, size, div, alpha, route):
  per, _ = _strategies(name, route)
  w = _call(per, size, alpha, route)
  _check_list("window.%s(%d)" % (name, size), w, size)
  hop = size // div
  sums = [sum(w[i + k * hop] for k in range(div)) for i in range(hop)]
  dev = max(sums) - min(sums)
  if dev > TOL * div:
    i = sums.index(max(sums))
    j = sums.index(min(sums))
    raise Violation("window.%s(%d%s): hop=%d shifted sums are not constant: sum[%d]=%r, "
                    "sum[%d]=%r" % (name, size, "" if alpha is None else ", %r" % (alpha,),
                                    hop, i, sums[i], j, sums[j]))
  return ["cola:size/%d" % div, "cola:" + NAMES[name]]


# ---------------------------------------------------------------- clauses

def _sizes(tier):
  return 256 if tier == "quick" else 2048


# beyond the dense range: sizes around powers of two up to 8192 (both parities, symmetric and
# periodic), so that a size-dependent code path switched on for long windows is exercised too
LARGE = sorted(set(n + d for n in (512, 1024, 2048, 4096, 8192) for d in (-2, -1, 0, 1, 2, 3)) | {3000, 3001, 6001, 6002})


def _size_list(tier):
  top = _sizes(tier)
  return list(range(top + 1)) + [n for n in LARGE if n > top]


def grid_cases(tier, shard, nshards):
  i = 0
  for size in _size_list(tier):
    for name in ORDER:
      i += 1
      if i % nshards == shard:
        yield {"name": name, "size": size,
               "route": "item" if (size + len(name)) % 2 else "attr",
               "kws": (size + ORDER.index(name)) % 3 == 0}


def run_grid(case):
  labels = check_window(case["name"], case["size"], None, case["route"], case.get("kws", False))
  return {"nontrivial": case["size"] >= 3, "labels": labels}


ALPHAS = {
  "cos": [0, .5, 1, 2, 3.5, 1. / 3, 8, 1. / 64],
  "blackman": [0., .16, .25, 2.0 * 1430 / 18608, .5, 1., .1],
}


# alphas that invite a path of their own (roots, small integer and half-integer powers, the other
# spellings of the documented Blackman constants: a0 = 7938/18608 <=> alpha = 1 - 2*a0, int 0 / 1,
# the classic a0 = .42 as 1 - 2*.42, one ulp off .16): enumerated over a reduced list of sizes, which has the
# sizes whose symmetric closing sample has a negative rounding residue (14, 27, 48, 53)
SPECIAL_ALPHAS = {
  "cos": [.25, .75, 1.5, 2.5, 3, 4, 2.0, 1.0, .125],
  "blackman": [1 - 2 * 7938 / 18608., 1430 / 9304., 1 - 2 * .42, 0, 1, .2, .05, .08],
}


def _special_alpha_sizes(tier):
  top = 64 if tier == "quick" else 200
  return sorted(set(range(top + 1)) | set(SPECIAL_SIZES))


def alpha_grid_cases(tier, shard, nshards):
  i = 0
  for size in range(_sizes(tier) + 1):
    for name in ("cos", "blackman"):
      for k, alpha in enumerate(ALPHAS[name]):
        i += 1
        if i % nshards == shard:
          yield {"name": name, "size": size, "alpha": alpha,
                 "route": "kw" if (size + k) % 2 else "pos",
                 "kws": (size + k) % 3 == 0}
  for size in _special_alpha_sizes(tier):
    for name in ("cos", "blackman"):
      for k, alpha in enumerate(SPECIAL_ALPHAS[name]):
        i += 1
        if i % nshards == shard:
          yield {"name": name, "size": size, "alpha": alpha, "special": True,
                 "route": "kw" if (size + k) % 2 else "pos",
                 "kws": (size + k) % 3 == 1}


def run_alpha(case):
  name, size, alpha, route = case["name"], case["size"], case["alpha"], case["route"]
  labels = check_window(name, size, alpha, route, case.get("kws", False))
  if name == "blackman" and size % 4 == 0 and size > 0:
    labels += check_cola(name, size, 4, alpha, route)
  if name == "blackman":
    labels.append("blackman alpha<=.25" if alpha <= .25 else "blackman alpha>.25")
  else:
    labels.append("cos integer alpha" if alpha == int(alpha) else
                  ("cos alpha<1" if alpha < 1 else "cos fractional alpha>1"))
    if 0 < alpha < .125:
      labels.append("cos 0<alpha<1/8")
  if alpha in SPECIAL_ALPHAS[name]:
    labels.append("alpha:special value")
  return {"nontrivial": size >= 3, "labels": labels}


SPECIAL_SIZES = [0, 1, 2, 3, 4, 5, 7, 8, 14, 15, 16, 27, 31, 32, 33, 48, 53, 63, 64, 65, 100,
                 127, 128, 129, 255, 256, 257]


def strat_alpha(tier):
  smax = 300 if tier == "quick" else 1500
  size = st.one_of(st.integers(0, smax), st.integers(0, 64), st.sampled_from(SPECIAL_SIZES))
  cos_alpha = st.one_of(
    st.floats(0, 8, allow_nan=False), st.floats(0, 1, allow_nan=False),
    st.floats(2. ** -10, .125), st.integers(0, 6), st.sampled_from([0, .5, 1, 2, 3.5]),
    st.sampled_from(SPECIAL_ALPHAS["cos"]))
  bl_alpha = st.one_of(
    st.floats(0, .25, allow_nan=False), st.floats(0, 1, allow_nan=False),
    st.sampled_from([0., .16, .25, 2.0 * 1430 / 18608, 1.]),
    st.sampled_from(SPECIAL_ALPHAS["blackman"]))
  return st.one_of(
    st.fixed_dictionaries(dict(name=st.just("cos"), size=size, alpha=cos_alpha,
                               route=st.sampled_from(["pos", "kw"]),
                               kws=st.sampled_from([False, False, True]))),
    st.fixed_dictionaries(dict(name=st.just("blackman"), size=size, alpha=bl_alpha,
                               route=st.sampled_from(["pos", "kw"]),
                               kws=st.sampled_from([False, False, True]))))


# ---------------------------------------------------------------- histories
# The statement has no "unless another window was asked in between": the periodic window, its
# symmetric counterpart and the plain symmetric window are asked at different moments of one
# history of calls, with calls of other strategies / dictionaries / sizes (multiples and divisors
# of the period, the same size, unrelated sizes) before and between them. Every periodic result
# must equal the prefix of every symmetric result, whenever each was obtained.

COSINE_FAMILY = ["hann", "hanning", "hamming", "blackman"]
HIST_ALPHAS = [None, None, None, .5, .25, .1, 1, 2, 2.0 * 1430 / 18608]
MULS = [3, 5, 6, 7, 9, 10, 11, 12, 3, 5, 6, 2, 4, 8]


def _other_period(kind, k, size):
  if kind == "mul":
    return k * size
  if kind == "div":
    return size // k
  if kind == "near":
    return max(0, size + k)
  if kind == "same":
    return size
  return k            # "abs"


def strat_history(tier):
  smax = 160 if tier == "quick" else 400
  name = st.one_of(st.sampled_from(ORDER), st.sampled_from(COSINE_FAMILY))
  size = st.one_of(st.integers(1, 64), st.integers(0, smax), st.sampled_from([4, 12, 20, 60, 100]))
  rel = st.one_of(
    st.tuples(st.just("mul"), st.sampled_from(MULS)),
    st.tuples(st.just("mul"), st.sampled_from(MULS)),
    st.tuples(st.just("mul"), st.integers(2, 16)),
    st.tuples(st.just("div"), st.integers(2, 6)),
    st.tuples(st.just("near"), st.integers(-2, 2)),
    st.tuples(st.just("same"), st.just(0)),
    st.tuples(st.just("abs"), st.integers(0, 600)))
  other = st.tuples(st.just("O"), st.sampled_from(["window", "wsymm"]), name, rel,
                    st.sampled_from(HIST_ALPHAS))
  probe = st.sampled_from([("P",), ("S",), ("T",)])
  return st.fixed_dictionaries(dict(
    name=name, size=size, alpha=st.sampled_from(HIST_ALPHAS),
    route=st.sampled_from(["item", "attr"]), akw=st.booleans(),
    fresh=st.sampled_from([True, True, False]), first=st.sampled_from(["P", "S"]),
    spoil=st.booleans(),
    pre=st.lists(other, max_size=2),
    mid=st.lists(st.one_of(other, other, other, probe), min_size=1, max_size=4),
    tail=st.lists(st.one_of(other, probe), max_size=3)))


def _spoil(lst):
  if isinstance(lst, list):
    lst.append(7.5)
    if lst:
      lst[0] = -3.25
    if len(lst) > 2:
      del lst[1]


def run_history(case):
  name, size = case["name"], case["size"]
  primary = NAMES[name]
  alpha = case["alpha"] if primary in DEFAULT_ALPHA else None
  a = DEFAULT_ALPHA.get(primary) if alpha is None else alpha
  route = case["route"] if alpha is None else ("kw" if case["akw"] else "pos")
  dicts = _fresh_dicts() if case["fresh"] else (window, wsymm)
  per, sym = _strategies(name, route, dicts)
  second = "S" if case["first"] == "P" else "P"
  seq = list(case["pre"]) + [(case["first"],)] + list(case["mid"]) + [(second,)] + list(case["tail"])
  tag = "%s(%d%s)" % (name, size, "" if alpha is None else ", alpha=%r" % (alpha,))

  got = {"P": [], "S": [], "T": []}     # kind -> [(step, list as it is compared)]
  said = []                              # the calls, for the report
  for i, step in enumerate(seq):
    kind = step[0]
    if kind == "O":
      dname, oname, (rk, k), oalpha = step[1], step[2], step[3], step[4]
      if NAMES[oname] not in DEFAULT_ALPHA:
        oalpha = None
      p = _other_period(rk, k, size)
      f = _strategies(oname, "item", dicts)[dname == "wsymm"]
      osize = p + 1 if dname == "wsymm" else p
      res = _call(f, osize, oalpha, "pos")
      said.append("%s.%s(%d%s)" % (dname, oname, osize, "" if oalpha is None else ", %r" % (oalpha,)))
      if case["spoil"]:
        _spoil(res)
      continue
    f, sz = {"P": (per, size), "S": (sym, size + 1), "T": (sym, size)}[kind]
    res = _call(f, sz, alpha, route)
    said.append({"P": "window.%s", "S": "wsymm.%s [size+1]", "T": "wsymm.%s"}[kind] % tag)
    if case["spoil"] and isinstance(res, list):
      got[kind].append((i, list(res)))   # compared as it was handed out; the caller changes its list
      _spoil(res)
    else:
      got[kind].append((i, res))         # compared at the end, as a caller holding it would

  how = " in the history " + "; ".join(said)
  for i, w in got["P"]:
    _verify_periodic("%s [call %d%s]" % (tag, i, how), primary, size, a, w)
  for i, ws1 in got["S"]:
    _verify_symm("%s [size+1] [call %d%s]" % (tag, i, how), primary, size + 1, a, ws1)
  for i, ws in got["T"]:
    _verify_symm("%s [call %d%s]" % (tag, i, how), primary, size, a, ws)
  for i, w in got["P"]:
    for j, ws1 in got["S"]:
      _verify_prefix(tag, name, size, w, ws1,
                     " (periodic = call %d, symmetric = call %d%s)" % (i, j, how))

  # what lies between the first periodic and a symmetric result (or the other way round)
  lo = min(got["P"][0][0], got["S"][0][0])
  hi = max(got["P"][-1][0], got["S"][-1][0])
  between = [st_ for st_ in seq[lo + 1:hi] if st_[0] == "O"]
  labels = ["strategy:" + primary, "history:fresh module" if case["fresh"] else "history:process module",
            "history:%s first" % ("periodic" if case["first"] == "P" else "symmetric")]
  if primary in ("hann", "hamming", "blackman"):
    labels.append("history:raised cosine strategy")
  if between:
    labels.append("history:other call between periodic and symmetric")
    if any(NAMES[st_[2]] != primary for st_ in between):
      labels.append("history:other strategy between")
    muls = [st_[3][1] for st_ in between if st_[3][0] == "mul"]
    if muls:
      labels.append("history:multiple of the period between")
    if any(m & (m - 1) for m in muls):
      labels.append("history:non-power-of-two multiple between")
    if any(st_[3][0] == "div" and size % st_[3][1] == 0 and size >= st_[3][1] for st_ in between):
      labels.append("history:divisor of the period between")
    if any(st_[3][0] == "same" for st_ in between):
      labels.append("history:same period between")
  if case["spoil"]:
    labels.append("history:results changed in place")
  if len(got["P"]) + len(got["S"]) > 2:
    labels.append("history:repeated probe")
  return {"nontrivial": size >= 3 and bool(between), "labels": labels}


COLA = [("hann", 2), ("hanning", 2), ("hamming", 2), ("bartlett", 2), ("rect", 2),
        ("dirichlet", 2), ("rectangular", 2),
        ("hann", 4), ("hanning", 4), ("hamming", 4), ("blackman", 4)]


def cola_cases(tier, shard, nshards):
  i = 0
  for size in range(2, _sizes(tier) + 1, 2):
    for name, div in COLA:
      if size % div:
        continue
      i += 1
      if i % nshards == shard:
        yield {"name": name, "size": size, "div": div,
               "route": "item" if (size // 2) % 2 else "attr"}


def run_cola(case):
  labels = check_cola(case["name"], case["size"], case["div"], None, case["route"])
  return {"nontrivial": case["size"] // case["div"] >= 2, "labels": labels}


def identity_cases(tier, shard, nshards):
  out = [{"kind": "dict", "which": w} for w in
         ("window.symm", "window.periodic", "wsymm.symm", "wsymm.periodic")]
  out += [{"kind": "default", "size": n} for n in (0, 1, 2, 3, 8, 9, 64, 65)]
  for name in ORDER:
    for d in ("window", "wsymm"):
      for route in ("item", "attr"):
        out.append({"kind": "func", "dict": d, "name": name, "route": route})
  for i, c in enumerate(out):
    if i % nshards == shard:
      yield c


def run_identity(case):
  if case["kind"] == "default":
    # calling a dictionary itself goes to its default strategy, which is one of its own strategies:
    # the symmetric dictionary's default is a symmetric window, the periodic one's a periodic window
    n = case["size"]
    for d, dname in ((window, "window"), (wsymm, "wsymm")):
      f = d.default
      if not any(f is g for g in d):
        raise Violation("%s.default is not one of %s's own strategies" % (dname, dname))
      if d(n) != f(n):
        raise Violation("%s(%d) differs from %s.default(%d)" % (dname, n, dname, n))
    if wsymm.default.periodic is not window.default or window.default.symm is not wsymm.default:
      raise Violation("the two dictionaries' defaults are not each other's periodic / symmetric version")
    if wsymm(1) != [1.0] or window(n) != wsymm(n + 1)[:n] or window.symm(n) != wsymm(n):
      raise Violation("default call: wsymm(1)=%r, window(%d)=%r, wsymm(%d)[:%d]=%r"
                      % (wsymm(1), n, window(n), n + 1, n, wsymm(n + 1)[:n]))
    sy = wsymm(n)
    if any(abs(a - b) > 1e-12 for a, b in zip(sy, sy[::-1])):
      raise Violation("wsymm(%d) called through the default is not symmetric: %r" % (n, sy))
    return {"nontrivial": n >= 3, "labels": ["default strategy call"]}
  if case["kind"] == "dict":
    got, exp = {
      "window.symm": (window.symm, wsymm), "window.periodic": (window.periodic, window),
      "wsymm.symm": (wsymm.symm, wsymm), "wsymm.periodic": (wsymm.periodic, window),
    }[case["which"]]
    if got is not exp:
      raise Violation("%s is %r" % (case["which"], got))
    return {"nontrivial": False, "labels": ["dictionary cross reference"]}
  dname, name, route = case["dict"], case["name"], case["route"]
  d = {"window": window, "wsymm": wsymm}[dname]
  try:
    f = d[name] if route == "item" else getattr(d, name)
  except (KeyError, AttributeError):
    if dname == "wsymm" and name in ("dirichlet", "rectangular"):
      return {"nontrivial": False, "labels": ["alias absent from wsymm (not asserted)"]}
    raise Violation("%s has no strategy %r" % (dname, name))
  primary = NAMES[name]
  wp, sp = window[primary], wsymm[primary]
  tag = "%s.%s" % (dname, name)
  # aliases are the same strategy
  if f is not (wp if dname == "window" else sp):
    raise Violation("%s is not %s.%s" % (tag, dname, primary))
  if f.periodic is not wp:
    raise Violation("%s.periodic is %r, not window.%s" % (tag, f.periodic, primary))
  if f.symm is not sp:
    raise Violation("%s.symm is %r, not wsymm.%s" % (tag, f.symm, primary))
  # the same name in the other dictionary is the cross reference
  other = {"window": wsymm, "wsymm": window}[dname]
  try:
    g = other[name]
  except KeyError:
    g = None
  if g is not None:
    if dname == "window" and (f.symm is not g or g.periodic is not f):
      raise Violation("window.%s.symm / wsymm.%s.periodic do not point at each other" % (name, name))
    if dname == "wsymm" and (f.periodic is not g or g.symm is not f):
      raise Violation("wsymm.%s.periodic / window.%s.symm do not point at each other" % (name, name))
  # pointing at each other
  if f.symm.periodic is not f.periodic or f.periodic.symm is not f.symm:
    raise Violation("%s: .symm.periodic / .periodic.symm are not mutual" % tag)
  if f.symm.symm is not f.symm or f.periodic.periodic is not f.periodic:
    raise Violation("%s: .symm.symm / .periodic.periodic are not fixed points" % tag)
  # the dictionaries' own attributes lead to the same functions
  if getattr(d.symm, primary) is not sp or getattr(d.periodic, primary) is not wp:
    raise Violation("%s: dictionary-level .symm/.periodic lead elsewhere" % tag)
  return {"nontrivial": True, "labels": ["function cross reference", "dict:" + dname]}


CLAUSES = [
  Enumerated("grid", grid_cases, run_grid, shards={"quick": 8, "thorough": 16},
             floors={"size by keyword": .1},
             doc="every (name or alias, size) with the default alpha: length, exact prefix "
                 "relation, range, symmetry, wsymm(1)==[1.0], closed forms"),
  Enumerated("alpha_grid", alpha_grid_cases, run_alpha, shards={"quick": 8, "thorough": 16},
             floors={"size by keyword": .1, "cos 0<alpha<1/8": .03, "alpha:special value": .05},
             doc="cos and blackman over fixed alpha lists x every size (all claims + "
                 "blackman size/4 COLA)"),
  Clause("alpha", strat_alpha, run_alpha, quick=3000, thorough=40000,
         floors={"strategy:cos": .15, "strategy:blackman": .15, "cos alpha<1": .03,
                 "cos fractional alpha>1": .03, "blackman alpha<=.25": .06,
                 "cola:size/4": .02, "cos 0<alpha<1/8": .04, "size by keyword": .1,
                 "alpha:special value": .05},
         doc="Hypothesis sweep of float/int alpha for cos and blackman, positional and keyword"),
  Clause("history", strat_history, run_history, quick=1600, thorough=16000,
         shards={"quick": 16, "thorough": 32},
         floors={"history:other call between periodic and symmetric": .25,
                 "history:non-power-of-two multiple between": .15,
                 "history:other strategy between": .2, "history:fresh module": .2,
                 "history:process module": .1, "history:raised cosine strategy": .2,
                 "history:divisor of the period between": .015,
                 "history:same period between": .03, "history:results changed in place": .15,
                 "history:periodic first": .15, "history:symmetric first": .15},
         doc="histories of calls: the periodic window, its (size+1) symmetric counterpart and the "
             "symmetric window asked at different moments, with calls of other strategies / "
             "dictionaries / sizes (multiples, divisors, same, near, unrelated) before and "
             "between, on a newly executed private copy of the module or on the worker's own; "
             "every periodic result == prefix of every symmetric result, all other claims on each"),
  Enumerated("cola", cola_cases, run_cola, shards={"quick": 4, "thorough": 16},
             doc="constant hop-shifted sums: hop=size/2 (hann, hamming, bartlett, rect and "
                 "aliases), hop=size/4 (hann, hamming, blackman), every admissible size"),
  Enumerated("identities", identity_cases, run_identity, shards={"quick": 1, "thorough": 1},
             doc="periodic/symm cross references of both dictionaries and of every strategy, "
                 "by item and by attribute (exhaustive)"),
]
