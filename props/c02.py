"""C02 - Everything is lazy: no read before demand, bounded read per output.

A *stage table* (ROWS) lists every public stage with a builder
``build(input, p) -> iterable`` and an independent ``need(k, p, f)`` giving the
number of input items that the first ``k`` outputs may consume (``f`` is the
known value function of the input, only used by value-dependent rows such as
``filter``).  A case is plain data: the stage names + parameters of a chain, k,
the source kind / mode and the way the outputs are pulled.  ``run_case`` hands a
counting source (vlib.sources.Src, or a re-iterable object - not an iterator -
whose readers count together: Tape / GenTape / SizedTape) to the innermost
stage and asserts

  (1) reads == 0 after construction (and after ``iter()``);
  (2) after j = 1..k outputs, reads == need(j) composed over the chain
      (``<=`` for the few rows that are only maximal);
  (3) nothing is ever pulled past need(k): the source raises OverRead there
      (bounded mode) or simply ends there (finite mode, where touching the end
      is detected through the pull counter);
  (4) the same when the caller has already taken outputs from the object a stage returned before the next stage is
      stacked on it (case field ``pre``): the new stage reads nothing when built and starts where the caller stopped.
"""
import math
import operator
import itertools
from fractions import Fraction
from collections import OrderedDict

from hypothesis import strategies as st

from vlib.core import Clause, Enumerated, Violation, Reject, OverRead
from vlib.sources import Src

import audiolazy as al
from audiolazy import (Stream, thub, z, ZFilter, LinearFilter, CascadeFilter,
                       ParallelFilter, Streamix, Poly)
from audiolazy import lazy_itertools as lit
from audiolazy.lazy_poly import x as PX

ID = "C02"
RULE = ("cases = (chain of 1..4 stage rows with parameters, k, source kind, source mode bounded/finite/endless, "
        "pull mode next/take/peek+take/islice, feed = the counting iterator or a re-iterable non-iterator object "
        "[reader-object class / generator-method class / sized indexable container] whose readers count together); every row of the stage table x a parameter sample x a k grid x "
        "{bounded, finite} x {iterator, re-iterable} is enumerated, random rows / chains / tee-thub-copy fan-outs are drawn by Hypothesis; "
        "oracle = need(k) of each row (closed form written from the property text: k, n+k, max(0,k-left), "
        "(j-1)*hop+size, (ceil(k/hop)-1)*hop+size, index of the k-th passing item, resampler order+1 neighbourhood, "
        "min(k, n) against a finite second operand of n items where never more than its n outputs are asked for, "
        "furthest consumer of a tee) composed along the chain and compared with the pull counter of the source "
        "after construction, after iter() and after every single output; resumed cases: the caller takes pre[i] outputs "
        "(take / next / a for loop that breaks) from the object stage i returned before stage i+1 is stacked on it - stage "
        "i+1 starts at that position, so stage i delivers pre[i] + need(i+1) outputs in all; non-trivial = k >= 2 and the chain is not "
        "a pure pass-through (fan-out: >= 2 consumers and >= 2 items); distinct = distinct case hash")
ASSUMPTIONS = [
  "the 'source' of a stage is the signal it processes (rows of family param-stream: the coefficient / parameter "
  "stream); a filter's initial-memory iterable is a parameter: it is consumed when the filter is called (lm+1 "
  "items for a memory of lm) and that is not asserted here",
  "combinatoric itertools wrappers (product, permutations, combinations, combinations_with_replacement) are "
  "defined on finite pools and read the whole pool by (stdlib) definition; they are not stages of this property",
  "numpy-based strategies (overlap_add.numpy, default stft transforms, chunks.array) cannot run in this "
  "environment; the pure-Python strategies are exercised (stft with explicit transform/inverse/before/after)",
  "pull counts are observed on the iterator handed to the stage (Src.__next__ calls); the finite source holds "
  "exactly need(k) items, so touching its end (pulls > reads) is an over-read as well",
  "stdlib end-of-iteration behaviour (zip/map reading the left operand before noticing that the right one ended, "
  "islice consuming up to stop) is not asserted: operands other than the source outlast the demand, or (family "
  "op-finite: a finite Stream / list / generator / ones(n), zeros(n), line(n), fadeout(n), adsr envelope on either side "
  "of every binary operator) end exactly with it - then at most the n outputs the stage has are asked for, never "
  "output n+1; the end of a stage is probed only for Stream.limit and takewhile",
  "finding out that a two-operand stage is OVER is asking for an output that does not exist, and the statement bounds "
  "the reads that define 'the first k outputs': whichever operand map() asks first loses one item when the other one "
  "is the shorter (unchanged tree, finite length n, read to exhaustion: 'source op finite' reads n+1 source items, "
  "'finite op source' reads n); no evaluation order avoids this on both sides without pushing an item back, so the "
  "number of reads at the end of a binary operator is not asserted in either operand order",
  "likewise for a time-varying filter: when the input ends before a coefficient stream (or the other way round) the "
  "operand the generated loop asks first has given one item for an output that does not exist (unchanged tree: the input "
  "is asked first, so 'endless input, coefficient stream of n values' read to exhaustion pulls n+1 input items and "
  "'input of n items, endless coefficient stream' pulls n coefficient values); which of the two it is is not asserted, "
  "only that k <= n outputs read exactly k of each",
  "a Stream is a single-use iterator: using the SAME Stream object (or the same filter holding it) twice in one expression "
  "(f + f, f * f, ParallelFilter.numpoly and .denpoly taken separately, ZFilter.diff of a time-varying denominator) is the "
  "caller sharing one iterator between two readers and is not generated; thub(a, n) / a.copy() are the documented ways and "
  "are (rows param:algebra:hub:*, copy:*)",
  "resumed cases take outputs only from plain Streams and iterators (a StreamTeeHub hands out a new copy with each iter())",
  "resample order 0 and chunks.array are included only if a probe at import shows that they run at all (they do "
  "not on a tree without the repairs of DESIGN 4 #11 / #10, which belong to C07/C19 and C18); resample steps are "
  "exact (Fraction or dyadic float) so that the interpolation position has no rounding",
  "sources never end inside a stage, so the PEP-479 defects (DESIGN 4 #1 #2 #4 #5) are not reachable from this check "
  "on a lazy tree; an over-reading stage on the finite source may surface as their RuntimeError and is reported as "
  "the over-read it is",
  "a chain whose inner stage goes on for ever after its input ended (cycle, append(endless), a mixer with an endless "
  "event or keep=True) is run on the raising source instead of the finite one",
  "a source may be an iterable that is not an iterator (iter() opens a fresh reader at item 0): its reads are the "
  "total over all the readers a stage opened, so k outputs of a sample-wise stage still read k items (a ParallelFilter "
  "shares one read among its branches whatever the input type). lazy_itertools.tee is documented to hand such an object "
  "out n times as it is, so the tee rows wrap the source in iter() / Stream() first",
]

BIG = 4000     # length of finite auxiliary operands: longer than any demand
SLACK = 5000   # head-room of the "endless" source mode


# ---------------------------------------------------------------------------
# sources
# ---------------------------------------------------------------------------
class Mat(object):
  """Tiny element type implementing only ``@`` (both sides)."""

  def __init__(self, v):
    self.v = v

  def __matmul__(self, o):
    return Mat(self.v * (o.v if isinstance(o, Mat) else o))

  def __rmatmul__(self, o):
    return Mat((o.v if isinstance(o, Mat) else o) * self.v)


_NOTES = ["C4", "A#3", "Bb2", "G5", "E1", "F#7"]

SRCF = {
  "count1": lambda i: i + 1,
  "alt": lambda i: (i + 1) * (1 if i % 2 == 0 else -1),
  "mod5": lambda i: i % 5 + 1,
  "half": lambda i: (i + 1) / 2.,
  "unit": lambda i: 1. / (i + 2),
  "small": lambda i: (i % 7 + 1) / 4.,
  "fn": lambda i: (i + 1).__add__,
  "mat": lambda i: Mat(i + 1),
  "lists": lambda i: [i + 1] * (i % 3),
  "pairs": lambda i: (i + 1, 2),
  "notes": lambda i: _NOTES[i % len(_NOTES)],
  "cplx": lambda i: complex(i + 1, 1),
  "blk4": lambda i: [i + 1, -i, 2, 1],
  "sel": lambda i: i % 3 != 1,
}
GENERIC = ["count1", "alt", "mod5", "half"]

PRED = {
  "even": lambda v: v % 2 == 0,
  "m3": lambda v: v % 3 != 0,
  "pos": lambda v: v > 0,
  "big": lambda v: abs(v) > 3,
  "all": lambda v: True,
}


def _scan(f, pred, k, start=0):
  """index+1 of the k-th item (from start) satisfying pred."""
  cnt = 0
  i = start
  while cnt < k:
    if pred(f(i)):
      cnt += 1
    i += 1
    if i > 20000:
      raise Reject("predicate never satisfied")
  return i


def _first_fail(f, pred):
  i = 0
  while pred(f(i)):
    i += 1
    if i > 20000:
      raise Reject("predicate never fails")
  return i


# --- re-iterable sources ------------------------------------------------------
# "Every source" includes objects that follow the *iterable* protocol without being iterators (a tape / file /
# device reader class): ``iter(obj)`` opens a fresh reader at item 0.  A stage is handed the object itself; the
# counters are totals over all the readers it opened, so a stage that lets each of n consumers open a reader of
# its own reads n*k items for k outputs, where one shared (tee'd) read gives k.
class _TapeBase(object):
  def __init__(self, items=None, bound=None, f=None):
    self.items = None if items is None else list(items)
    self.f = f or (lambda i: i)
    self.bound = bound
    self.reads = 0       # item deliveries, all readers together
    self.pulls = 0       # reader __next__ calls, all readers together
    self.opened = 0      # readers opened

  def _deliver(self, i):
    """One ``next`` of a reader standing at item i (StopIteration at the end of a finite tape)."""
    self.pulls += 1
    if self.items is not None and i >= len(self.items):
      raise StopIteration
    if self.bound is not None and self.reads >= self.bound:
      raise OverRead("source read for the %d-th time (reader at item %d, %d reader(s) opened), bound is %d"
                     % (self.reads + 1, i + 1, self.opened, self.bound))
    self.reads += 1
    return self.items[i] if self.items is not None else self.f(i)


class _Reader(object):
  def __init__(self, tape):
    self.tape = tape
    self.i = 0

  def __iter__(self):
    return self

  def __next__(self):
    v = self.tape._deliver(self.i)
    self.i += 1
    return v


class Tape(_TapeBase):
  """Iterable, not an iterator: ``__iter__`` returns a reader object."""

  def __iter__(self):
    self.opened += 1
    return _Reader(self)


class GenTape(_TapeBase):
  """Iterable, not an iterator: ``__iter__`` is a generator method."""

  def __iter__(self):
    self.opened += 1     # (runs with the first next() of the reader)
    i = 0
    while True:
      try:
        v = self._deliver(i)
      except StopIteration:
        return
      yield v
      i += 1


class SizedTape(Tape):
  """Re-iterable that also has a length and can be indexed (a user-defined container); indexing counts as reading."""

  def __len__(self):
    return len(self.items) if self.items is not None else (self.bound if self.bound is not None else BIG)

  def __getitem__(self, idx):
    if isinstance(idx, slice):
      return [self[i] for i in range(*idx.indices(len(self)))]
    if idx < 0:
      idx += len(self)
    if idx < 0 or idx >= len(self):
      raise IndexError(idx)
    try:
      return self._deliver(idx)
    except StopIteration:
      raise IndexError(idx)


FEEDS = OrderedDict([("iter", Src), ("reiter", Tape), ("reiter-gen", GenTape), ("reiter-sized", SizedTape)])
REITER = [k for k in FEEDS if k != "iter"]


# ---------------------------------------------------------------------------
# stage table
# ---------------------------------------------------------------------------
class Row(object):
  def __init__(self, name, build, need, fam, tin, tout, src, inner, dom, exact,
               maxout, end_reads, ident, chain_dom, extends=None):
    self.name = name
    self.build = build
    self.need = need
    self.fam = fam
    self.tin = tin
    self.tout = tout
    self.src = src
    self.inner = inner
    self.dom = dom or {}
    self.exact = exact
    self.maxout = maxout
    self.end_reads = end_reads
    self.ident = ident
    self.chain_dom = chain_dom
    self.extends = extends      # p -> bool: the output goes on for ever after the input has ended

  def pstrategy(self, chain=False):
    dom = dict(self.dom)
    if chain and self.chain_dom:
      dom.update(self.chain_dom)
    if not dom:
      return st.just({})
    return st.fixed_dictionaries(dict((k, st.sampled_from(v)) for k, v in sorted(dom.items())))

  def examples(self, limit):
    keys = sorted(self.dom)
    if not keys:
      return [{}]
    sizes = [len(self.dom[k]) for k in keys]
    total = 1
    for s in sizes:
      total *= s
    if total <= limit:
      idxs = range(total)
    else:
      # first, last and evenly strided combinations (deterministic)
      idxs = sorted(set([0, total - 1] + [(i * total) // limit + (i % 3) for i in range(limit)]))
      idxs = [i for i in idxs if i < total]
    out = []
    for n in idxs:
      p = {}
      for k, s in zip(keys, sizes):
        p[k] = self.dom[k][n % s]
        n //= s
      out.append(p)
    # a diagonal as well, so that every value of every parameter appears
    for d in range(max(sizes)):
      p = dict((k, self.dom[k][d % s]) for k, s in zip(keys, sizes))
      if p not in out:
        out.append(p)
    return out


ROWS = OrderedDict()


def K(k, p, f):
  return k


def R(name, build, need=K, fam=None, tin="n", tout="n", src=None, inner=False,
      dom=None, exact=True, maxout=None, end_reads=None, ident=False, chain_dom=None, extends=None):
  assert name not in ROWS, name
  ROWS[name] = Row(name, build, need, fam or name.split(":")[0], tin, tout, src,
                   inner or src is not None, dom, exact, maxout, end_reads, ident, chain_dom, extends)


def S(s):
  return s if isinstance(s, Stream) else Stream(s)


# --- 1. Stream operators ----------------------------------------------------
_BIN = ["add", "sub", "mul", "truediv", "floordiv", "mod", "pow", "lshift",
        "rshift", "and", "or", "xor", "matmul"]
_CMP = ["lt", "le", "eq", "ne", "gt", "ge"]
_INTONLY = ("lshift", "rshift", "and", "or", "xor")


def _operand(kind, op):
  """A fresh operand that is never the limiting one and keeps ``op`` defined."""
  if op == "matmul":
    vals = [Mat(2), Mat(3)]
  elif op == "pow":
    vals = [2, 1]
  else:
    vals = [2, 3]
  if kind == "sc":
    return vals[0]
  if kind == "st":
    return Stream(*vals)
  if kind == "li":
    return vals * (BIG // 2)
  if kind == "ge":
    return (v for v in vals * (BIG // 2))
  if kind == "tu":
    return tuple(vals * (BIG // 2))
  raise AssertionError(kind)


_FIN_N = [1, 2, 5, 12]   # lengths of the finite operand: the k grid (1, 2, 5, 12) lies below, at and beyond them


def _finite(kind, op, n):
  """A fresh operand of exactly n items: the stage has n outputs and no more."""
  if op == "matmul":
    vals = [Mat(2), Mat(3)]
  elif op == "pow":
    vals = [2, 1]
  else:
    vals = [2, 3]
  items = (vals * (n // 2 + 1))[:n]
  if kind == "st":
    return Stream(items)
  if kind == "li":
    return items
  if kind == "tu":
    return tuple(items)
  if kind == "ge":
    return (v for v in items)
  if kind == "sg":
    return Stream(v for v in items)
  raise AssertionError(kind)


def _NMIN(k, p, f):
  return min(k, p["n"])


def _NMAX(p, f):
  return p["n"]


def _mk_ops():
  for op in _BIN + _CMP:
    sides = ["", "r"] if op in _BIN else [""]
    for side in sides:
      dn = "__%s%s__" % (side, op)
      tout = "n" if op != "matmul" else "x"

      def req(src_is_right):
        """(source kind, innermost only) keeping ``op`` defined on every element."""
        if op in _INTONLY:
          return "mod5", True
        if op == "matmul":
          return "mat", True
        if src_is_right and op == "pow":
          return "mod5", True            # scalar ** source: moderate exponents
        if src_is_right and op in ("truediv", "floordiv", "mod"):
          return None, True              # x / source: non-zero source values (every source kind is)
        return None, False

      src, inner = req(side == "r")
      for kind in ["sc", "st", "li", "ge", "tu"]:
        R("op:%s%s:%s" % (side, op, kind),
          (lambda s, p, dn=dn, kind=kind, op=op: getattr(S(s), dn)(_operand(kind, op))),
          fam="op", src=src, inner=inner, tout=tout)
      # the counting source is the *other* operand (Stream or raw iterator)
      src, inner = req(side == "")
      R("op:%s%s:other=Stream(src)" % (side, op),
        (lambda s, p, dn=dn, op=op: getattr(_operand("st", op), dn)(S(s))),
        fam="op-other", src=src, inner=inner, tout=tout)
      R("op:%s%s:other=src" % (side, op),
        (lambda s, p, dn=dn, op=op: getattr(_operand("st", op), dn)(iter(s))),
        fam="op-other", src=src, inner=inner, tout=tout)
      # the operand that is not the source is FINITE (n items): the stage has n outputs, and asking for its first
      # k <= n outputs (up to and including all of them - never for output n+1) reads exactly k source items,
      # whichever side the source is on.  maxout caps the demand at n; the end itself is not probed (end_reads None)
      src, inner = req(side == "r")
      R("op:%s%s:finite-other" % (side, op),
        (lambda s, p, dn=dn, op=op: getattr(S(s), dn)(_finite(p["fk"], op, p["n"]))),
        need=_NMIN, maxout=_NMAX, fam="op-finite", src=src, inner=inner, tout=tout,
        dom={"n": _FIN_N, "fk": ["st", "li", "ge", "tu"]}, chain_dom={"n": [BIG]})
      src, inner = req(side == "")
      R("op:%s%s:finite-self:other=src" % (side, op),
        (lambda s, p, dn=dn, op=op: getattr(_finite(p["fk"], op, p["n"]), dn)(S(s) if p["w"] else iter(s))),
        need=_NMIN, maxout=_NMAX, fam="op-finite", src=src, inner=inner, tout=tout,
        dom={"n": _FIN_N, "fk": ["st", "sg"], "w": [True, False]}, chain_dom={"n": [BIG]})
  for op, src in [("neg", None), ("pos", None), ("invert", "mod5"), ("abs", None)]:
    R("op:%s" % op, (lambda s, p, dn="__%s__" % op: getattr(S(s), dn)()), fam="op", src=src)
  # operator syntax with a non-Stream on the left (Python's reflected dispatch)
  R("syntax:list+Stream", lambda s, p: [1, 2] * BIG + S(s), fam="op")
  R("syntax:scalar-Stream", lambda s, p: 5 - S(s), fam="op")
  R("syntax:tuple*Stream", lambda s, p: (1, 2) * BIG * S(s), fam="op")
  R("syntax:range<Stream", lambda s, p: range(BIG) < S(s), fam="op")
  R("syntax:gen/Stream", lambda s, p: (v for v in range(BIG)) / S(s), fam="op", src="count1")
  R("syntax:Stream+Stream+Stream", lambda s, p: Stream(1, 2) + S(s) + Stream(0), fam="op")
  R("syntax:thub*thub+1", lambda s, p: (lambda h: h * h + 1)(thub(s, 2)), fam="thub")
  R("syntax:thub3", lambda s, p: (lambda h: (h - 1) * h / (abs(h) + 1))(thub(s, 3)), fam="thub")
  R("syntax:thub1", lambda s, p: 250 * thub(s, 1), fam="thub")


_mk_ops()

# --- 2. Stream constructor and methods --------------------------------------
R("Stream(src)", lambda s, p: Stream(s), fam="stream", ident=True)
R("Stream(src,list)", lambda s, p: Stream(iter(s), [7, 8]), fam="stream", ident=True)
R("Stream(list,src)", lambda s, p: Stream(list(range(p["n"])), iter(s)),
  need=lambda k, p, f: max(0, k - p["n"]), fam="stream", dom={"n": [0, 1, 3, 7]})
R("Stream(Stream(src))", lambda s, p: Stream(Stream(s)), fam="stream", ident=True)
R("map", lambda s, p: S(s).map(lambda v: v * 2), fam="stream")
R("map:abs", lambda s, p: abs(S(s)), fam="stream")
R("filter", lambda s, p: S(s).filter(PRED[p["pred"]]),
  need=lambda k, p, f: _scan(f, PRED[p["pred"]], k), fam="stream", inner=True,
  dom={"pred": ["even", "m3", "big", "all"]})
R("copy:copy", lambda s, p: S(s).copy(), fam="stream", ident=True)
R("copy:original", lambda s, p: (lambda a: (a.copy(), a)[1])(S(s)), fam="stream", ident=True)
R("copy:both", lambda s, p: (lambda a: a.copy() + a)(S(s)), fam="stream")
R("tee-method", lambda s, p: S(s).copy().copy(), fam="stream", ident=True)
R("limit", lambda s, p: S(s).limit(p["n"]), need=lambda k, p, f: min(k, int(round(p["n"]))), fam="stream",
  dom={"n": [0, 1, 2, 5, 11, 12, 13, 30, 2.6]}, chain_dom={"n": [BIG]},
  maxout=lambda p, f: int(round(p["n"])), end_reads=lambda p, f: int(round(p["n"])))
R("skip", lambda s, p: S(s).skip(p["n"]), need=lambda k, p, f: int(round(p["n"])) + k, fam="stream",
  dom={"n": [0, 1, 3, 8, 2.6]})
R("skip.skip", lambda s, p: S(s).skip(p["n"]).skip(2), need=lambda k, p, f: p["n"] + 2 + k, fam="stream",
  dom={"n": [0, 1, 5]})
R("append:after", lambda s, p: S(s).append([1, 2]), fam="stream", ident=True)
R("append:after-endless", lambda s, p: S(s).append(Stream(0)), fam="stream", ident=True, extends=lambda p: True)
R("append:before", lambda s, p: Stream(list(range(p["n"]))).append(iter(s)),
  need=lambda k, p, f: max(0, k - p["n"]), fam="stream", dom={"n": [0, 1, 4, 9]})
R("append:several", lambda s, p: Stream([5] * p["n"]).append([6], iter(s)),
  need=lambda k, p, f: max(0, k - p["n"] - 1), fam="stream", dom={"n": [0, 2, 5]})
R("getattr", lambda s, p: S(s).real, fam="stream")
R("getattr-method-call", lambda s, p: S(s).conjugate(), fam="stream")
R("call", lambda s, p: S(s)(3), fam="stream", src="fn")
R("Stream.blocks", lambda s, p: S(s).blocks(size=p["size"], hop=_hop(p)), need=lambda k, p, f: _nblk(k, p),
  fam="blocks", tout="b", dom={"size": [1, 2, 3, 4, 7], "hopd": [None, -3, -1, 0, 1, 4]})
R("thub:Stream(hub)", lambda s, p: (lambda h: [Stream(h) for _ in range(p["n"])][-1])(thub(s, p["n"])),
  fam="thub", dom={"n": [1, 2, 4]}, ident=True)
R("thub:sum-of-copies", lambda s, p: (lambda h: sum((Stream(h) for _ in range(p["n"] - 1)), Stream(h)))(thub(s, p["n"])),
  fam="thub", dom={"n": [1, 2, 4]})
R("thub.map", lambda s, p: thub(s, 1).map(lambda v: v + 1), fam="thub")
R("thub.filter", lambda s, p: thub(s, 1).filter(PRED["m3"]), need=lambda k, p, f: _scan(f, PRED["m3"], k),
  fam="thub", inner=True)
R("thub.skip", lambda s, p: thub(s, 1).skip(p["n"]), need=lambda k, p, f: p["n"] + k, fam="thub", dom={"n": [0, 2, 6]})
R("thub.limit", lambda s, p: thub(s, 1).limit(p["n"]), need=lambda k, p, f: min(k, p["n"]), fam="thub",
  dom={"n": [1, 4, 40]}, chain_dom={"n": [BIG]}, maxout=lambda p, f: p["n"], end_reads=lambda p, f: p["n"])
R("thub.append", lambda s, p: thub(s, 1).append([1]), fam="thub", ident=True)
R("thub.copy", lambda s, p: (lambda h: (h.copy(), Stream(h))[0])(thub(s, 1)), fam="thub", ident=True)
R("thub.blocks", lambda s, p: thub(s, 1).blocks(size=3, hop=2), need=lambda k, p, f: (k - 1) * 2 + 3,
  fam="blocks", tout="b")


def _hop(p):
  return None if p["hopd"] is None else max(1, p["size"] + p["hopd"])


def _nblk(j, p):
  hop = _hop(p) or p["size"]
  return (j - 1) * hop + p["size"]


# --- 3. blockenizers, padding, chunks ---------------------------------------
_BLKDOM = {"size": [1, 2, 3, 4, 7], "hopd": [None, -3, -1, 0, 1, 4]}
R("blocks", lambda s, p: al.blocks(s, p["size"], _hop(p)), need=lambda k, p, f: _nblk(k, p),
  fam="blocks", tout="b", dom=_BLKDOM)
R("blocks:kw", lambda s, p: al.blocks(iter(s), size=p["size"], hop=_hop(p), padval=None),
  need=lambda k, p, f: _nblk(k, p), fam="blocks", tout="b", dom=_BLKDOM)
R("blocks:Stream-in", lambda s, p: al.blocks(S(s), size=p["size"], hop=_hop(p)),
  need=lambda k, p, f: _nblk(k, p), fam="blocks", tout="b", dom=_BLKDOM)
R("chunks.struct", lambda s, p: al.chunks.struct(s, size=p["size"], dfmt=p["dfmt"]),
  need=lambda k, p, f: k * p["size"], fam="blocks", tout="x", src="mod5",
  dom={"size": [1, 2, 5], "dfmt": ["f", "h", "d", "b"]})
R("chunks", lambda s, p: al.chunks(s, size=p["size"], dfmt="i", byte_order="<"),
  need=lambda k, p, f: k * p["size"], fam="blocks", tout="x", src="mod5", dom={"size": [1, 3, 8]})


def _works(thunk):
  try:
    thunk()
    return True
  except Exception:
    return False


# chunks.array does not run at all on an unrepaired tree (DESIGN 4 #10, property C18): probed, not assumed
if _works(lambda: next(al.chunks.array([1, 2], size=2, dfmt="h"))):
  R("chunks.array", lambda s, p: al.chunks.array(s, size=p["size"], dfmt=p["dfmt"], byte_order=p["bo"]),
    need=lambda k, p, f: k * p["size"], fam="blocks", tout="x", src="mod5",
    dom={"size": [1, 2, 5], "dfmt": ["f", "h", "d", "b"], "bo": [None, "<", ">"]})
R("zero_pad", lambda s, p: al.zero_pad(s, left=p["left"], right=p["right"]),
  need=lambda k, p, f: max(0, k - p["left"]), fam="pad",
  dom={"left": [0, 1, 2, 5, 13], "right": [0, 3]})
R("zero_pad:zero", lambda s, p: al.zero_pad(S(s), p["left"], 0, zero=None),
  need=lambda k, p, f: max(0, k - p["left"]), fam="pad", tout="x", dom={"left": [0, 1, 4]})

# --- 4. itertools wrappers --------------------------------------------------
R("it:chain", lambda s, p: lit.chain(s, [1]), fam="itertools", ident=True)
R("it:chain:after", lambda s, p: lit.chain(list(range(p["n"])), s), need=lambda k, p, f: max(0, k - p["n"]),
  fam="itertools", dom={"n": [0, 1, 4]})
R("it:chain.from_iterable", lambda s, p: lit.chain.from_iterable(s),
  need=lambda k, p, f: _cum_lists(f, k), fam="itertools", src="lists")
R("it:chain.star", lambda s, p: lit.chain.star(s), need=lambda k, p, f: _cum_lists(f, k),
  fam="itertools", src="lists")
R("it:chain.from_iterable:blocks", lambda s, p: lit.chain.from_iterable(s),
  need=lambda k, p, f: -(-k // 4), fam="itertools", src="blk4")
R("it:izip", lambda s, p: lit.izip(s, itertools.count()), fam="itertools", tout="x")
R("it:izip:second", lambda s, p: lit.izip(itertools.count(), s), fam="itertools", tout="x")
R("it:izip.smallest", lambda s, p: lit.izip.smallest(s, Stream(1), itertools.count()), fam="itertools", tout="x")
R("it:izip.longest", lambda s, p: lit.izip.longest(s, [1, 2], fillvalue=0), fam="itertools", tout="x")
R("it:izip_longest", lambda s, p: lit.izip_longest([1], s), fam="itertools", tout="x")
R("it:imap", lambda s, p: lit.imap(abs, s), fam="itertools")
R("it:imap:2", lambda s, p: lit.imap(operator.add, itertools.count(), s), fam="itertools")
R("it:starmap", lambda s, p: lit.starmap(pow, s), fam="itertools", src="pairs")
R("it:ifilter", lambda s, p: lit.ifilter(PRED[p["pred"]], s), need=lambda k, p, f: _scan(f, PRED[p["pred"]], k),
  fam="itertools", inner=True, dom={"pred": ["even", "m3", "big"]})
R("it:ifilterfalse", lambda s, p: lit.ifilterfalse(PRED[p["pred"]], s),
  need=lambda k, p, f: _scan(f, lambda v: not PRED[p["pred"]](v), k),
  fam="itertools", inner=True, dom={"pred": ["even", "m3"]})
R("it:accumulate", lambda s, p: lit.accumulate(s), fam="itertools")
R("it:accumulate:func", lambda s, p: lit.accumulate(s, max), fam="itertools")
R("it:accumulate.itertools", lambda s, p: lit.accumulate.itertools(s), fam="itertools")
R("it:accumulate.func", lambda s, p: lit.accumulate.func(s), fam="itertools")
R("it:accumulate.pure_python", lambda s, p: lit.accumulate.pure_python(S(s)), fam="itertools")
R("it:accumulate.z", lambda s, p: lit.accumulate.z(s), fam="itertools")
R("it:takewhile", lambda s, p: lit.takewhile(lambda v: abs(v) < p["n"], s),
  need=lambda k, p, f: k, fam="itertools", src="count1", dom={"n": [1, 2, 5, 9, 60]}, chain_dom={"n": [BIG]},
  maxout=lambda p, f: p["n"] - 1, end_reads=lambda p, f: p["n"])
R("it:takewhile:true", lambda s, p: lit.takewhile(PRED["all"], s), fam="itertools", ident=True)
R("it:dropwhile", lambda s, p: lit.dropwhile(lambda v: abs(v) < p["n"], s),
  need=lambda k, p, f: p["n"] - 1 + k, fam="itertools", src="count1", dom={"n": [1, 2, 4, 9]})
R("it:islice:start", lambda s, p: lit.islice(s, p["a"], None), need=lambda k, p, f: p["a"] + k,
  fam="itertools", dom={"a": [0, 1, 2, 6]})
R("it:islice:step", lambda s, p: lit.islice(s, p["a"], None, p["step"]),
  need=lambda k, p, f: p["a"] + (k - 1) * p["step"] + 1, fam="itertools",
  dom={"a": [0, 1, 3], "step": [1, 2, 5]})
R("it:islice:stop", lambda s, p: lit.islice(s, p["b"]), need=lambda k, p, f: k, fam="itertools",
  dom={"b": [1, 3, 12, 50]}, chain_dom={"b": [BIG]}, maxout=lambda p, f: p["b"])
R("it:cycle", lambda s, p: lit.cycle(s), fam="itertools", ident=True, extends=lambda p: True)
R("it:tee:0", lambda s, p: lit.tee(iter(s), p["n"])[0], fam="tee", dom={"n": [1, 2, 3]}, ident=True)
R("it:tee:last", lambda s, p: lit.tee(S(s), p["n"])[-1], fam="tee", dom={"n": [1, 2, 3]}, ident=True)
R("it:tee:sum", lambda s, p: (lambda t: t[0] + t[1] * 2)(lit.tee(S(s))), fam="tee")
R("it:compress:data", lambda s, p: lit.compress(s, (SRCF["sel"](i) for i in itertools.count())),
  need=lambda k, p, f: _scan(SRCF["sel"], bool, k), fam="itertools")
R("it:compress:selectors", lambda s, p: lit.compress(itertools.count(), s),
  need=lambda k, p, f: _scan(f, bool, k), fam="itertools", src="sel")
R("it:groupby", lambda s, p: lit.groupby(s, lambda v: (v - 1) // p["n"]),
  need=lambda k, p, f: (k - 1) * p["n"] + 1, fam="itertools", src="count1", tout="x", dom={"n": [1, 2, 5]})
R("it:pairwise", lambda s, p: lit.pairwise(s), need=lambda k, p, f: k + 1, fam="itertools", tout="x")
R("it:batched", lambda s, p: lit.batched(s, p["n"]), need=lambda k, p, f: k * p["n"], fam="itertools",
  tout="b", dom={"n": [1, 2, 5]})


def _cum_lists(f, k):
  tot = 0
  i = 0
  while tot < k:
    tot += len(f(i))
    i += 1
  return i


# --- 5. linear filters ------------------------------------------------------
_FILT = OrderedDict([
  ("fir1", lambda: 1 + z ** -1),
  ("fir3", lambda: 1 + 2 * z ** -1 - z ** -3),
  ("gain", lambda: 3 * z ** 0),
  ("delay", lambda: z ** -2),
  ("neg", lambda: -z ** -1 - 1),
  ("iir1", lambda: 1 / (1 - .5 * z ** -1)),
  ("iir2", lambda: (1 - z ** -1) / (2 + .5 * z ** -1 + .25 * z ** -2)),
  ("iir-a0neg", lambda: 1 / (-1 + .5 * z ** -2)),
  ("tv-num", lambda: 1 + Stream(1, 2) * z ** -1),
  ("tv-den", lambda: 1 / (1 - Stream(.5, .25) * z ** -1)),
  ("tv-b0", lambda: Stream(1, 2, 3) * (1 + z ** -1)),
  ("tv-a0", lambda: (1 + z ** -1) / (Stream(2, 4) - z ** -1)),
  ("tv-both", lambda: (Stream(1, 2) + z ** -2) / (1 + Stream(.5, 0) * z ** -1)),
  ("linfilt", lambda: LinearFilter([1, 2], [1, .5])),
  ("linfilt-dict", lambda: LinearFilter({0: 1, 3: 2})),
  ("zero", lambda: ZFilter(0)),
  # many taps / long memories / long pure delays: one input per output whatever the size of the equation
  ("fir-long", lambda: ZFilter([1. + i for i in range(24)])),
  ("iir-long", lambda: ZFilter([1, .5], [1] + [.01] * 18)),
  ("both-long", lambda: ZFilter([.5] * 12, [2] + [.01] * 11)),
  ("delay-long", lambda: z ** -40),
  ("sparse-long", lambda: (1 + z ** -33) / (1 - .5 * z ** -29)),
  ("linfilt-long", lambda: LinearFilter([1] * 20, [1, .5])),
  ("tv-long", lambda: ZFilter([1.] * 19) + Stream(1, 2) * z ** -19),
  ("tv-den-long", lambda: 1 / (ZFilter([1] + [.01] * 17) - Stream(.5, .25) * z ** -18)),
])
_LONG = ["fir-long", "iir-long", "both-long", "delay-long", "sparse-long", "linfilt-long", "tv-long", "tv-den-long"]
R("zfilter", lambda s, p: _FILT[p["f"]]()(s), fam="filter", dom={"f": list(_FILT)})
R("zfilter:Stream-in", lambda s, p: _FILT[p["f"]]()(S(s), zero=0), fam="filter", dom={"f": list(_FILT)})
R("zfilter:memory", lambda s, p: _FILT[p["f"]]()(s, memory=_MEM[p["m"]]()),
  fam="filter", dom={"f": ["iir1", "iir2", "tv-den", "tv-a0", "linfilt", "fir3"], "m": ["list", "gen", "func", "short", "stream"]})
_MEM = {
  "list": lambda: [1., 2., 3.],
  "gen": lambda: iter([1., 2., 3., 4.]),
  "func": lambda: (lambda n: [.5] * n),
  "short": lambda: [1.],
  "stream": lambda: Stream(1., 2.),
}
R("cascade", lambda s, p: CascadeFilter(*[_FILT[n]() for n in p["fs"].split("+") if n])(s), fam="filter",
  dom={"fs": ["fir1+iir1", "iir2+fir3+delay", "tv-num+tv-den", "gain", "", "tv-a0+fir1", "fir-long+iir-long",
              "tv-long+delay-long"]})
R("cascade:list", lambda s, p: CascadeFilter([_FILT["fir1"](), _FILT["iir1"]()])(S(s), zero=0), fam="filter")
R("cascade:callables", lambda s, p: CascadeFilter(al.maverage.deque(3), lambda sig, **kw: S(sig) * 2, _FILT["iir1"]())(s),
  fam="filter")
R("parallel", lambda s, p: ParallelFilter(*[_FILT[n]() for n in p["fs"].split("+") if n])(s), fam="filter",
  dom={"fs": ["fir1+iir1", "fir1+iir1+delay", "tv-num+tv-den+gain", "gain", "iir2+iir2", "tv-a0+fir3",
              "fir-long+iir-long+fir1", "sparse-long+tv-den-long"]})
R("parallel:empty", lambda s, p: ParallelFilter()(s), fam="filter")
R("parallel:empty:zero", lambda s, p: ParallelFilter()(S(s), zero=0), fam="filter")
R("parallel:nested", lambda s, p: ParallelFilter(CascadeFilter(_FILT["fir1"](), _FILT["iir1"]()),
                                                 ParallelFilter(_FILT["delay"](), _FILT["gain"]()))(s), fam="filter")
R("cascade:of-parallel", lambda s, p: CascadeFilter(ParallelFilter(_FILT["fir1"](), _FILT["delay"]()),
                                                    _FILT["iir1"]())(s), fam="filter")
R("parallel:callables", lambda s, p: ParallelFilter(al.maverage.deque(3), lambda sig, **kw: S(sig) * 2, _FILT["iir1"]())(s),
  fam="filter")
R("parallel:Stream-in", lambda s, p: ParallelFilter(*[_FILT[n]() for n in p["fs"].split("+")])(S(s), zero=0), fam="filter",
  dom={"fs": ["fir1+iir1", "delay+gain+fir3"]})
R("cascade:parallel-later", lambda s, p: CascadeFilter(_FILT["iir1"](), ParallelFilter(_FILT["fir1"](), _FILT["delay"]()))(s),
  fam="filter")
R("cascade:parallel-in-parallel-first", lambda s, p: CascadeFilter(ParallelFilter(ParallelFilter(_FILT["fir1"](), _FILT["gain"]()),
                                                                                  _FILT["tv-num"]()), _FILT["delay"]())(s),
  fam="filter")
# filter banks are lists: built by list operators, from one list / tuple / generator argument, with entries given
# as coefficient lists, or changed in place after construction - the call shares ONE read of the input among the
# branches the bank has when it is called
_F = lambda n: _FILT[n]()


def _changed(bank, how):
  how(bank)
  return bank


_BANKS = OrderedDict([
  ("bank+bank", lambda C: C(_F("fir1")) + C(_F("iir1"), _F("delay"))),
  ("bank+list", lambda C: C(_F("fir1"), _F("gain")) + [_F("iir1")]),
  ("bank*2", lambda C: C(_F("fir1"), _F("iir1")) * 2),
  ("3*bank", lambda C: 3 * C(_F("iir1"))),
  ("append", lambda C: _changed(C(_F("fir1")), lambda b: b.append(_F("iir1")))),
  ("append-twice", lambda C: _changed(C(_F("fir1"), _F("delay")), lambda b: (b.append(_F("iir1")), b.append(_F("gain"))))),
  ("extend", lambda C: _changed(C(_F("iir2")), lambda b: b.extend([_F("fir1"), _F("tv-num")]))),
  ("insert", lambda C: _changed(C(_F("iir1"), _F("fir1")), lambda b: b.insert(0, _F("delay")))),
  ("iadd", lambda C: _changed(C(_F("iir1")), lambda b: b.__iadd__([_F("fir1"), _F("gain")]))),
  ("imul", lambda C: _changed(C(_F("iir1"), _F("fir1")), lambda b: b.__imul__(2))),
  ("pop", lambda C: _changed(C(_F("iir1"), _F("fir1"), _F("delay")), lambda b: b.pop())),
  ("del", lambda C: _changed(C(_F("iir1"), _F("fir1"), _F("delay")), lambda b: b.__delitem__(0))),
  ("setitem", lambda C: _changed(C(_F("iir1"), _F("fir1")), lambda b: b.__setitem__(1, _F("tv-den")))),
  ("slice-assign", lambda C: _changed(C(_F("iir1")), lambda b: b.__setitem__(slice(None), [_F("fir1"), _F("gain"), _F("iir2")]))),
  ("empty-then-filled", lambda C: _changed(C(), lambda b: b.extend([_F("fir1"), _F("iir1")]))),
  ("emptied", lambda C: _changed(C(_F("iir1"), _F("fir1")), lambda b: b.__delitem__(slice(None)))),
  ("list-arg", lambda C: C([_F("fir1"), _F("iir1"), _F("delay")])),
  ("tuple-arg", lambda C: C((_F("fir1"), _F("iir1")))),
  ("gen-arg", lambda C: C(_F(n) for n in ("fir1", "iir1", "gain"))),
  ("coefficient-list-entry", lambda C: C(_F("iir1"), [1, .5])),
  ("same-object-twice", lambda C: (lambda f: C(f, f))(_F("iir1"))),
  ("nested-changed", lambda C: _changed(C(_F("fir1")), lambda b: b.append(_changed(ParallelFilter(_F("iir1")), lambda c: c.append(_F("delay")))))),
])
R("bank:parallel", lambda s, p: _BANKS[p["b"]](ParallelFilter)(s), fam="filter-bank", dom={"b": list(_BANKS)})
R("bank:cascade", lambda s, p: _BANKS[p["b"]](CascadeFilter)(s), fam="filter-bank", dom={"b": list(_BANKS)})
R("bank:parallel:Stream-in", lambda s, p: _BANKS[p["b"]](ParallelFilter)(S(s), zero=0), fam="filter-bank", dom={"b": list(_BANKS)})
_LPHP = ["pole", "z", "pole_exp", "z_exp"]
R("lowpass", lambda s, p: al.lowpass[p["st"]](p["c"])(s), fam="filter-design", dom={"st": _LPHP, "c": [.5, 1.2]})
R("highpass", lambda s, p: al.highpass[p["st"]](p["c"])(s), fam="filter-design", dom={"st": _LPHP, "c": [.5, 1.2]})
R("lowpass:tv", lambda s, p: al.lowpass[p["st"]](Stream(.5, .6))(s), fam="filter-design", dom={"st": _LPHP})
R("highpass:tv", lambda s, p: al.highpass[p["st"]](Stream(.5, .6))(s), fam="filter-design", dom={"st": _LPHP})
_RES = ["poles_exp", "freq_poles_exp", "z_exp", "freq_z_exp"]
R("resonator", lambda s, p: al.resonator[p["st"]](.5, .1)(s), fam="filter-design", dom={"st": _RES})
R("resonator:tv-freq", lambda s, p: al.resonator[p["st"]](Stream(.5, .7), .1)(s), fam="filter-design", dom={"st": _RES})
R("resonator:tv-bw", lambda s, p: al.resonator[p["st"]](.5, Stream(.1, .2))(s), fam="filter-design", dom={"st": _RES})
R("resonator:tv-both", lambda s, p: al.resonator[p["st"]](Stream(.5, .7), Stream(.1, .2))(s), fam="filter-design",
  dom={"st": _RES})
R("comb", lambda s, p: al.comb[p["st"]](p["d"], .5)(s), fam="filter-design", dom={"st": ["fb", "ff"], "d": [1, 3, 25]})
R("comb.tau", lambda s, p: al.comb.tau(p["d"], 20.)(s), fam="filter-design", dom={"d": [1, 4]})
R("comb:tv", lambda s, p: al.comb[p["st"]](2, Stream(.5, .25))(s), fam="filter-design", dom={"st": ["fb", "ff"]})
R("gammatone", lambda s, p: al.gammatone[p["st"]](.5, .1)(s), fam="filter-design", dom={"st": ["sampled", "slaney", "klapuri"]})
R("gammatone.klapuri:tv", lambda s, p: al.gammatone.klapuri(Stream(.5, .6), Stream(.1, .2))(s), fam="filter-design")
R("linearize", lambda s, p: (z ** -1.5 + .25 * z ** -.25).linearize()(s), fam="filter")
R("diff", lambda s, p: (1 / (1 - .5 * z ** -1)).diff()(s), fam="filter")
R("freq_response", lambda s, p: (1 + .5 * z ** -1).freq_response(S(s)), fam="elementwise", tout="x")
R("freq_response:gen", lambda s, p: (1 / (1 - .5 * z ** -1)).freq_response(v for v in s), fam="elementwise", tout="x")

# the counting source is a *coefficient / parameter* stream, the signal is an endless counter
_SIG = lambda: itertools.count(1)
R("param:b1", lambda s, p: (1 + S(s) * z ** -1)(_SIG()), fam="param-stream")
R("param:b0", lambda s, p: (S(s) + z ** -1)(_SIG()), fam="param-stream")
R("param:a1", lambda s, p: (1 / (1 - S(s) * z ** -1))(_SIG()), fam="param-stream", src="unit")
R("param:a0", lambda s, p: (1 / (S(s) - .5 * z ** -1))(_SIG()), fam="param-stream", inner=True)
R("param:a0+b", lambda s, p: ((1 + Stream(1, 2) * z ** -1) / (S(s) - .5 * z ** -1))(_SIG()), fam="param-stream", inner=True)
R("param:gain-mul", lambda s, p: (S(s) * (1 + z ** -1))(_SIG()), fam="param-stream")
R("param:lowpass", lambda s, p: al.lowpass[p["st"]](S(s))(_SIG()), fam="param-stream", src="unit", dom={"st": _LPHP})
R("param:highpass", lambda s, p: al.highpass[p["st"]](S(s))(_SIG()), fam="param-stream", src="unit", dom={"st": _LPHP})
R("param:resonator:freq", lambda s, p: al.resonator[p["st"]](S(s), .1)(_SIG()), fam="param-stream", src="unit", dom={"st": _RES})
R("param:resonator:bw", lambda s, p: al.resonator[p["st"]](.5, S(s))(_SIG()), fam="param-stream", src="unit", dom={"st": _RES})
R("param:comb", lambda s, p: al.comb[p["st"]](2, S(s))(_SIG()), fam="param-stream", src="unit", dom={"st": ["fb", "ff"]})
R("param:gammatone.klapuri:freq", lambda s, p: al.gammatone.klapuri(S(s), .1)(_SIG()), fam="param-stream", src="unit")
R("param:gammatone.klapuri:bw", lambda s, p: al.gammatone.klapuri(.5, S(s))(_SIG()), fam="param-stream", src="unit")
R("param:sinusoid:freq", lambda s, p: al.sinusoid(S(s)), need=lambda k, p, f: k, fam="param-stream", src="unit")
R("param:sinusoid:phase", lambda s, p: al.sinusoid(.1, S(s)), fam="param-stream", src="unit")
R("param:table:freq", lambda s, p: al.sin_table(S(s)), fam="param-stream", src="unit")
R("param:table:phase", lambda s, p: al.saw_table(.1, S(s)), fam="param-stream", src="unit")
R("param:resample:old", lambda s, p: al.resample(itertools.count(), old=S(s), new=1, order=p["order"]),
  need=lambda k, p, f: k - 1, fam="param-stream", src="mod5", dom={"order": [1, 2, 3]})
R("param:resample:new", lambda s, p: al.resample(itertools.count(), old=1, new=S(s), order=1),
  need=lambda k, p, f: k - 1, fam="param-stream", src="mod5")

# the counting source is a coefficient stream of a filter that is then combined with numbers / FIR / IIR / other
# time-varying filters through the ZFilter operators (either side), negated, raised to a power, linearized or put in
# a cascade / parallel bank before it is called: the resulting stage still takes ONE value of the coefficient stream
# per output, however many terms of the resulting equation the coefficient ends up in
_ALG_BASE = OrderedDict([
  ("num", lambda a: 1 + a * z ** -1),
  ("den", lambda a: 1 / (1 - a * z ** -1)),
  ("b0", lambda a: a + z ** -1),
  ("a0", lambda a: 1 / (a - .5 * z ** -1)),
  ("gain", lambda a: a * (1 + z ** -1)),
  ("num-over-lti", lambda a: (1 + a * z ** -1) / (1 - .5 * z ** -1)),
  ("lti-over-den", lambda a: (1 + .5 * z ** -1) / (1 - a * z ** -2)),
  ("num3", lambda a: 1 + a * z ** -1 + .5 * z ** -2),
  ("den3", lambda a: 1 / (1 - .25 * z ** -1 - a * z ** -2)),
  # ONE coefficient stream in numerator and denominator, shared as documented (thub with the number of uses / copy)
  ("hub:num+den", lambda a: (lambda h: (1 + h * z ** -1) / (1 - h * z ** -1))(thub(a, 2))),
  ("hub:a0+a1", lambda a: (lambda h: 1 / (h - h * z ** -1))(thub(a, 2))),
  ("copy:num+den", lambda a: (1 + a.copy() * z ** -1) / (1 - a * z ** -1)),
])
_AFIR = lambda: 1 + .5 * z ** -2
_AIIR = lambda: 1 / (1 - .25 * z ** -1)
_ATV = lambda: (1 + Stream(1, 2) * z ** -1) / (1 - Stream(.5, .25) * z ** -1)
_ALG_OP = OrderedDict([
  ("f+1", lambda f: f + 1), ("1+f", lambda f: 1 + f), ("f-2", lambda f: f - 2), ("2-f", lambda f: 2 - f),
  ("f*3", lambda f: f * 3), ("3*f", lambda f: 3 * f), ("f/2", lambda f: f / 2), ("2/f", lambda f: 2 / f),
  ("f+delay", lambda f: f + z ** -1), ("delay+f", lambda f: z ** -1 + f), ("f*delay", lambda f: f * z ** -1),
  ("f-half-delay2", lambda f: f - .5 * z ** -2),
  ("f+fir", lambda f: f + _AFIR()), ("fir+f", lambda f: _AFIR() + f), ("f-fir", lambda f: f - _AFIR()),
  ("fir-f", lambda f: _AFIR() - f), ("f*fir", lambda f: f * _AFIR()), ("fir*f", lambda f: _AFIR() * f),
  ("f/fir", lambda f: f / _AFIR()), ("fir/f", lambda f: _AFIR() / f),
  ("f+iir", lambda f: f + _AIIR()), ("iir+f", lambda f: _AIIR() + f), ("f-iir", lambda f: f - _AIIR()),
  ("iir-f", lambda f: _AIIR() - f), ("f*iir", lambda f: f * _AIIR()), ("iir*f", lambda f: _AIIR() * f),
  ("f/iir", lambda f: f / _AIIR()), ("iir/f", lambda f: _AIIR() / f),
  ("f+tv", lambda f: f + _ATV()), ("tv-f", lambda f: _ATV() - f), ("f*tv", lambda f: f * _ATV()),
  ("tv/f", lambda f: _ATV() / f),
  ("-f", lambda f: -f), ("+f", lambda f: +f), ("f**1", lambda f: f ** 1), ("f**2", lambda f: f ** 2),
  ("f**-1", lambda f: f ** -1), ("f**-2", lambda f: f ** -2),
  ("f**4", lambda f: f ** 4), ("f**5", lambda f: f ** 5), ("f**6", lambda f: f ** 6), ("f**-4", lambda f: f ** -4),
  ("f**7", lambda f: f ** 7), ("(f+1)**4", lambda f: (f + 1) ** 4),
  ("(f+1)*2-delay", lambda f: (f + 1) * 2 - z ** -1), ("1/(f+fir)", lambda f: 1 / (f + _AFIR())),
  ("linearize", lambda f: f.linearize()),
  ("cascade(f,fir)", lambda f: CascadeFilter(f, _AFIR())), ("cascade(iir,f)", lambda f: CascadeFilter(_AIIR(), f)),
  ("parallel(f,iir)", lambda f: ParallelFilter(f, _AIIR())), ("parallel(fir,f,1)", lambda f: ParallelFilter(_AFIR(), f, ZFilter(1))),
])
for _b in _ALG_BASE:
  R("param:algebra:%s" % _b,
    (lambda s, p, b=_ALG_BASE[_b]: _ALG_OP[p["op"]](b(S(s)))(_SIG())),
    fam="param-algebra", src="unit", dom={"op": list(_ALG_OP)})

# --- 6. sample-wise analysis tools ------------------------------------------
R("maverage", lambda s, p: al.maverage[p["st"]](p["n"])(s), fam="analysis",
  dom={"st": ["deque", "recursive", "fir", "feedback"], "n": [1, 2, 5, 40]})
R("maverage:zero", lambda s, p: al.maverage[p["st"]](3)(S(s), zero=0), fam="analysis", dom={"st": ["deque", "recursive", "fir"]})
R("envelope", lambda s, p: al.envelope[p["st"]](s), fam="analysis", dom={"st": ["rms", "abs", "squared"]})
R("envelope:cutoff", lambda s, p: al.envelope[p["st"]](S(s), cutoff=.3), fam="analysis", dom={"st": ["rms", "abs", "squared"]})
R("envelope:default", lambda s, p: al.envelope(s), fam="analysis")
R("amdf", lambda s, p: al.amdf(p["lag"], p["n"])(s), fam="analysis", dom={"lag": [1, 2, 5, 20], "n": [1, 3, 18]})
R("amdf:zero", lambda s, p: al.amdf(2, 3)(S(s), zero=0), fam="analysis")
R("clip", lambda s, p: al.clip(s, p["lo"], p["hi"]), fam="analysis",
  dom={"lo": [None, -1., 2], "hi": [None, 3, 7.5]})
R("clip:default", lambda s, p: al.clip(S(s)), fam="analysis")
R("zcross", lambda s, p: al.zcross(s, hysteresis=p["h"], first_sign=p["fs"]), fam="analysis",
  dom={"h": [0, 1, 3, 100], "fs": [0, 1, -1]})
R("unwrap", lambda s, p: al.unwrap(s), fam="analysis")
R("unwrap:params", lambda s, p: al.unwrap(S(s), max_delta=p["d"], step=p["st"]), fam="analysis",
  dom={"d": [.5, 2], "st": [1, 3]})

# --- 7. overlap-add and STFT -------------------------------------------------
_OLADOM = {"size": [1, 2, 3, 4, 6], "hopd": [None, -5, -2, -1, 0]}


def _nola(k, p):
  size = p["size"]
  hop = _hop(p) or size
  return (-(-k // hop) - 1) * hop + size


def _wnd(name, size):
  if name is None:
    return None
  if name == "list":
    return [1. + i for i in range(size)]
  if name == "func":
    return lambda n: [.5] * n
  if name == "window":
    return al.window.triangular
  raise AssertionError(name)


R("ola.list", lambda s, p: al.overlap_add.list(S(s).blocks(p["size"], _hop(p)), size=p["size"], hop=_hop(p),
                                               wnd=_wnd(p["w"], p["size"]), normalize=p["nm"]),
  need=lambda k, p, f: _nola(k, p), fam="ola",
  dom=dict(_OLADOM, w=[None, "list", "func", "window"], nm=[True, False]))
R("ola.list:detect", lambda s, p: al.overlap_add.list(al.blocks(s, p["size"], _hop(p)), hop=_hop(p)),
  need=lambda k, p, f: _nola(k, p), fam="ola", dom=_OLADOM)
R("ola.list:blocks-in", lambda s, p: al.overlap_add.list(s, size=4, hop=p["hop"], normalize=False),
  need=lambda k, p, f: -(-k // p["hop"]), fam="ola", src="blk4", dom={"hop": [1, 2, 3, 4]})
R("ola.list:blocks-in:detect", lambda s, p: al.overlap_add.list(s, hop=p["hop"]),
  need=lambda k, p, f: -(-k // p["hop"]), fam="ola", src="blk4", dom={"hop": [1, 2, 4]})
R("ola.list:from-blocks", lambda s, p: al.overlap_add.list(s, size=p["size"], hop=_hop(p)),
  need=lambda k, p, f: k, fam="ola", tin="b", exact=False, dom={"size": [None], "hopd": [None]})


def _stft(p, ola):
  kw = dict(size=p["size"], transform=None, inverse_transform=None, before=None, after=None, ola=ola)
  if _hop(p) is not None:
    kw["hop"] = _hop(p)
  if p.get("w"):
    kw["wnd"] = _wnd(p["w"], p["size"])
  if p.get("tr"):
    kw["transform"] = lambda blk, n: [v * 2 for v in blk]
    kw["inverse_transform"] = lambda blk, n: [v / 2. for v in blk]
    kw["before"] = list
    kw["after"] = lambda blk: blk
  return kw


R("stft", lambda s, p: al.stft(lambda blk: blk, **_stft(p, al.overlap_add.list))(s),
  need=lambda k, p, f: _nola(k, p), fam="stft", dom=dict(_OLADOM, w=[None, "list", "window"], tr=[False, True]))
R("stft:decorator", lambda s, p: al.stft(size=p["size"], transform=None, inverse_transform=None, before=None,
                                         after=None, ola=al.overlap_add.list)(lambda blk: list(blk))(S(s), hop=_hop(p) or p["size"]),
  need=lambda k, p, f: _nola(k, p), fam="stft", dom=_OLADOM)
R("stft:no-ola", lambda s, p: al.stft(lambda blk: list(blk), **_stft(p, None))(s),
  need=lambda k, p, f: _nblk(k, p), fam="stft", tout="b", dom=dict(_OLADOM, w=[None, "list"], tr=[False, True]))
R("stft.base:ola-kw", lambda s, p: al.stft.base(lambda blk: blk, ola_normalize=False, ola_wnd=[1.] * p["size"],
                                                **_stft(p, al.overlap_add.list))(s),
  need=lambda k, p, f: _nola(k, p), fam="stft", dom=_OLADOM)

# --- 8. elementwise (broadcast) functions on lazy containers -----------------
_EW = OrderedDict()
for _n in ["asinh", "atan", "ceil", "cos", "degrees", "erf", "erfc", "fabs", "floor", "frexp", "isinf", "isnan",
           "modf", "radians", "sin", "tan", "tanh", "trunc", "absolute", "sign", "dB10", "dB20", "log", "ln",
           "log10", "log2", "phase"]:
  _EW[_n] = None
# bounded positive inputs for the functions that overflow / leave their domain on large or negative values
for _n in ["sqrt", "acosh", "gamma", "lgamma", "exp", "expm1", "sinh", "cosh", "log1p", "freq2midi", "freq2str",
           "cexp", "midi2freq"]:
  _EW[_n] = "small" if _n not in ("acosh",) else "count1"
for _n in ["acos", "asin", "atanh"]:
  _EW[_n] = "unit"
_EW["factorial"] = "mod5"
_EW["midi2str"] = "count1"
_EW["str2midi"] = "notes"
_EW["str2freq"] = "notes"
_NUMOUT = set(["asinh", "atan", "ceil", "cos", "degrees", "erf", "erfc", "fabs", "floor", "isinf", "isnan", "radians",
               "sin", "tanh", "trunc", "absolute", "sign"])
_CONT = OrderedDict([
  ("Stream", lambda s: S(s)),
  ("gen", lambda s: (v for v in s)),
  ("map", lambda s: map(lambda v: v, s)),
  ("filter", lambda s: filter(lambda v: True, s)),
  ("thub", lambda s: thub(s, 1)),
])
for _n, _src in _EW.items():
  if not hasattr(al, _n):
    continue
  for _c in _CONT:
    if _c not in ("Stream", "gen") and _n not in ("sin", "dB10", "midi2freq", "log", "factorial"):
      continue
    R("ew:%s:%s" % (_n, _c), (lambda s, p, fn=getattr(al, _n), c=_CONT[_c]: fn(c(s))), fam="elementwise",
      src=_src, tout="n" if _n in _NUMOUT else "x")
R("ew:log:base", lambda s, p: al.log(S(s), 3), fam="elementwise", tout="x")
R("ew:log:kw", lambda s, p: al.log(x=S(s), base=2), fam="elementwise", tout="x")
R("ew:midi2str:flat", lambda s, p: al.midi2str(S(s), sharp=False), fam="elementwise", src="count1", tout="x")
R("ew:erb.mg83", lambda s, p: al.erb.mg83(S(s), Hz=1.), fam="elementwise", src="small", tout="x")
R("ew:erb.gm90:kw", lambda s, p: al.erb.gm90(freq=(v for v in s), Hz=1.), fam="elementwise", src="small", tout="x")
R("ew:float_str.frac", lambda s, p: al.float_str.frac(S(s)), fam="elementwise", src="half", tout="x")

# --- 9. synthesis / polynomial / resampling ----------------------------------
_MC = [("start", lambda s: (s, 7, 1)), ("modulo", lambda s: (0, s, 1)), ("step", lambda s: (0, 7, s)),
       ("start+step", lambda s: (s, 7, Stream(1, 2))), ("step+start", lambda s: (Stream(1, 2), 7, s)),
       ("start+modulo", lambda s: (s, Stream(5, 7), .5)), ("modulo+start", lambda s: (Stream(0, 3), s, 1)),
       ("modulo+step", lambda s: (1.5, s, Stream(1, 2))), ("step+modulo", lambda s: (1.5, Stream(5, 7), s)),
       ("start+all", lambda s: (s, Stream(5, 7), Stream(1, 2))), ("modulo+all", lambda s: (Stream(1, 2), s, Stream(1, 2))),
       ("step+all", lambda s: (Stream(1, 2), Stream(5, 7), s)),
       ("start:step0", lambda s: (s, 7, 0)), ("start:bigstep", lambda s: (s, 7, 5)), ("start:float", lambda s: (s, 2.5, .25))]
for _n, _mk in _MC:
  # a source in the modulo position must stay non-zero: innermost only (every source kind is non-zero)
  R("modulo_counter:%s" % _n, (lambda s, p, mk=_mk: al.modulo_counter(*mk(S(s) if p["w"] else iter(s)))),
    fam="synth", inner=_n.startswith("modulo"), dom={"w": [True, False]})
# attack(a, d, sustain stream): the first sustain value fixes the decay slope (1 read with the
# first output), the following ones are the sustain samples after a + d envelope samples
R("attack:sustain-stream", lambda s, p: al.attack(p["a"], p["d"], S(s) if p["w"] else iter(s)), fam="synth",
  need=lambda k, p, f: 1 + max(0, k - (int(p["a"] + .5) + int(p["d"] + .5))),
  dom={"a": [1, 2, 3.5], "d": [1, 2.5], "w": [True, False]}, inner=True)
R("line*Stream", lambda s, p: al.line(BIG) * S(s), fam="synth")
R("Stream*ones", lambda s, p: S(s) * al.ones(), fam="synth")
R("fadein*Stream", lambda s, p: al.fadein(BIG) * S(s) + al.zeros(), fam="synth")
# "You may multiply / sum your endless stream by this to enforce an end to it" (ones, zeros; the finite envelopes
# are used alike): the n outputs of the product need n items of the endless stream, in either operand order
_ENV = OrderedDict([
  ("ones", lambda n: al.ones(n)), ("zeros", lambda n: al.zeros(n)), ("line", lambda n: al.line(n, 1, 2)),
  ("fadeout", lambda n: al.fadeout(n)), ("ones:float-dur", lambda n: al.ones(n + .25)),
  ("adsr", lambda n: al.adsr(n + 2, 1, 1, .5, 1).skip(2)),
])
_ENVOP = OrderedDict([("mul", operator.mul), ("add", operator.add), ("sub", operator.sub)])
R("idiom:Stream.op.envelope(n)", lambda s, p: _ENVOP[p["op"]](S(s), _ENV[p["env"]](p["n"])),
  need=_NMIN, maxout=_NMAX, fam="op-finite", dom={"n": _FIN_N, "env": list(_ENV), "op": list(_ENVOP)},
  chain_dom={"n": [BIG]})
R("idiom:envelope(n).op.Stream", lambda s, p: _ENVOP[p["op"]](_ENV[p["env"]](p["n"]), S(s)),
  need=_NMIN, maxout=_NMAX, fam="op-finite", dom={"n": _FIN_N, "env": list(_ENV), "op": list(_ENVOP)},
  chain_dom={"n": [BIG]})
R("idiom:envelope(n).op.src", lambda s, p: _ENVOP[p["op"]](_ENV[p["env"]](p["n"]), iter(s)),
  need=_NMIN, maxout=_NMAX, fam="op-finite", dom={"n": _FIN_N, "env": list(_ENV), "op": list(_ENVOP)},
  chain_dom={"n": [BIG]})
R("idiom:(envelope(n)*Stream)**2", lambda s, p: (_ENV[p["env"]](p["n"]) * S(s)) ** 2,
  need=_NMIN, maxout=_NMAX, fam="op-finite", dom={"n": _FIN_N, "env": list(_ENV)}, chain_dom={"n": [BIG]})
R("idiom:(Stream*envelope(n)).map", lambda s, p: (S(s) * _ENV[p["env"]](p["n"])).map(abs),
  need=_NMIN, maxout=_NMAX, fam="op-finite", dom={"n": _FIN_N, "env": list(_ENV)}, chain_dom={"n": [BIG]})
_POLY = OrderedDict([
  ("quad", lambda: PX ** 2 + PX + 1),
  ("sparse", lambda: PX ** 7 + PX ** 6 + 4),
  ("lin", lambda: 3 * PX - 2),
  ("const", lambda: Poly(5)),
  ("mono", lambda: 2 * PX ** 3),
])
R("poly", lambda s, p: _POLY[p["q"]]()(S(s), horner=p["h"]), fam="poly",
  dom={"q": list(_POLY), "h": ["auto", True, False]}, chain_dom={"q": ["quad", "lin", "const"]})
R("poly:laurent", lambda s, p: (PX ** -1 + 2 + PX)(S(s), horner=p["h"]), fam="poly", src="count1", dom={"h": ["auto", True, False]})
# the counting source is a *coefficient* of a polynomial (or a Stream the polynomial is divided by) that is combined
# with other polynomials / numbers and then evaluated at a number: a sample-wise stage, one coefficient value per output
_PPOLY = OrderedDict([
  ("a*x+1", lambda a: a * PX + 1),
  ("x*a+1", lambda a: PX * a + 1),
  ("Poly({0:1,2:a})", lambda a: Poly({0: 1, 2: a})),
  ("Poly([1,a,2])", lambda a: Poly([1, a, 2])),
  ("(a*x+1)+x**2", lambda a: (a * PX + 1) + PX ** 2),
  ("x**2+(a*x+1)", lambda a: PX ** 2 + (a * PX + 1)),
  ("(a*x+1)*(x+2)", lambda a: (a * PX + 1) * (PX + 2)),
  ("(a*x+1)*3", lambda a: (a * PX + 1) * 3),
  ("(a*x+1)**2", lambda a: (a * PX + 1) ** 2),
  ("(a*x+1)**3", lambda a: (a * PX + 1) ** 3),
  ("(a*x)**3", lambda a: (a * PX) ** 3),
  ("(a*x+1)**4", lambda a: (a * PX + 1) ** 4),
  ("(a*x+1)**5", lambda a: (a * PX + 1) ** 5),
  ("(a*x+1)**6", lambda a: (a * PX + 1) ** 6),
  ("(x+a)**4", lambda a: (PX + a) ** 4),
  ("(a*x**2+x+1)**4", lambda a: (a * PX ** 2 + PX + 1) ** 4),
  ("(x**2+a*x+2)**5", lambda a: (PX ** 2 + a * PX + 2) ** 5),
  ("(x**2+x+a)**6", lambda a: (PX ** 2 + PX + a) ** 6),
  ("((x+1)/a)**4", lambda a: ((PX + 1) / a) ** 4),
  ("(a*x)**5", lambda a: (a * PX) ** 5),
  ("-(a*x+1)", lambda a: -(a * PX + 1)),
  ("(a*x+1)/2", lambda a: (a * PX + 1) / 2),
  ("(a*x+1)/x", lambda a: (a * PX ** 2 + PX) / PX),
  ("(a*x+1)-3*x", lambda a: (a * PX + 1) - 3 * PX),
  ("3-(a*x+1)", lambda a: 3 - (a * PX + 1)),
  ("(a*x**2+1).diff()", lambda a: (a * PX ** 2 + 1).diff()),
  ("(a*x+1).integrate()", lambda a: (a * PX + 1).integrate()),
  ("(a*x+1).copy()", lambda a: (a * PX + 1).copy()),
  ("(x**2+x+1)/a", lambda a: (PX ** 2 + PX + 1) / a),
  ("(x**2+2)/a+x", lambda a: (PX ** 2 + 2) / a + PX),
  ("((x+1)/a)**2", lambda a: ((PX + 1) / a) ** 2),
  ("((3*x**2+x)/a).diff()", lambda a: ((3 * PX ** 2 + PX) / a).diff()),
  ("(x**3+x+2)/a*(x+1)", lambda a: (PX ** 3 + PX + 2) / a * (PX + 1)),
  ("(x**-1+x)/a", lambda a: (PX ** -1 + PX) / a),
])
R("param:poly", lambda s, p: _PPOLY[p["q"]](S(s))(p["v"], horner=p["h"]), fam="param-poly", src="unit", tout="x",
  dom={"q": list(_PPOLY), "v": [2, -1.5], "h": ["auto", True, False]})
R("param:poly:default-call", lambda s, p: _PPOLY[p["q"]](S(s))(3), fam="param-poly", src="unit", tout="x",
  dom={"q": list(_PPOLY)})
R("param:gain-div", lambda s, p: ((1 + z ** -1) / S(s))(_SIG()), fam="param-stream", src="unit")
R("poly:thub-in", lambda s, p: (PX ** 2 + 1)(thub(s, 1)), fam="poly")


def _resample_need(k, p, f):
  """Documented order+1 neighbourhood: the window of order+1 samples is primed
  with rint((order+1)/2) samples and advances by one input sample whenever the
  interpolation position exceeds the window centre (order+1)/2."""
  order = p["order"]
  thr = Fraction(order + 1, 2)
  prime = int(thr + Fraction(1, 2))          # round half up, thr > 0
  pos = int(thr) + (k - 1) * Fraction(p["old"], p["new"])
  return prime + max(0, math.ceil(pos - thr))


# order 0 needs a one-point Lagrange interpolator, which an unrepaired tree cannot build (DESIGN 4 #11): probed
_ORDERS = ([0] if _works(lambda: al.resample([1, 2, 3], order=0).take(1)) else []) + [1, 2, 3, 4, 5]
R("resample", lambda s, p: al.resample(s, old=Fraction(p["old"]), new=p["new"], order=p["order"]),
  need=_resample_need, fam="resample",
  dom={"old": [1, 2, 3, 5], "new": [1, 2, 3, 4], "order": _ORDERS})
R("resample:default", lambda s, p: al.resample(S(s)), need=lambda k, p, f: 2 + (k - 1), fam="resample")
R("resample:dyadic-float", lambda s, p: al.resample(s, old=p["old"], new=4., order=3),
  need=lambda k, p, f: 2 + math.ceil((k - 1) * Fraction(p["old"]) / 4), fam="resample", dom={"old": [1., 3., 6., .5]})
R("resample:tv-step", lambda s, p: al.resample(s, old=Stream(Fraction(1, 2), Fraction(3, 2), 1), new=1, order=p["order"]),
  need=lambda k, p, f: _resample_tv(k, p), fam="resample", dom={"order": [1, 2, 3]})


# heavy decimation: steps of several interpolator windows per output, for every order (constant rational / float
# steps and a time-varying step stream); the documented order+1 neighbourhood still is all a sample needs, whatever
# number of input items lies between two outputs
R("resample:decimate", lambda s, p: al.resample(s, old=Fraction(p["old"]), new=p["new"], order=p["order"]),
  need=_resample_need, fam="resample",
  dom={"old": [4, 5, 7, 9, 11, 13, 17, 25, 40], "new": [1, 2], "order": _ORDERS})
R("resample:decimate:int-step", lambda s, p: al.resample(S(s), old=p["old"], order=p["order"]),
  need=lambda k, p, f: _resample_need(k, dict(p, new=1), f), fam="resample",
  dom={"old": [4, 6, 9, 10, 16, 33], "order": _ORDERS})
R("resample:decimate:float", lambda s, p: al.resample(s, old=p["old"], new=p["new"], order=p["order"]),
  need=lambda k, p, f: _resample_need(k, dict(p, old=Fraction(p["old"]), new=Fraction(p["new"])), f), fam="resample",
  dom={"old": [9., 12.5, 20., 37.25], "new": [1., .5, 2.], "order": _ORDERS})
_TVBIG = [[9, 12], [5, 20, 11], [Fraction(19, 2), 4, 30], [16]]
R("resample:decimate:tv-step", lambda s, p: al.resample(s, old=Stream(*_TVBIG[p["st"]]) if len(_TVBIG[p["st"]]) > 1 else
                                                        Stream(_TVBIG[p["st"]][0]), new=1, order=p["order"]),
  need=lambda k, p, f: _resample_tv(k, p, _TVBIG[p["st"]]), fam="resample",
  dom={"st": [0, 1, 2, 3], "order": [o for o in _ORDERS if o <= 4]})


def _resample_tv(k, p, steps=None):
  steps = steps or [Fraction(1, 2), Fraction(3, 2), Fraction(1)]
  n = len(steps)
  thr = Fraction(p["order"] + 1, 2)
  pos = int(thr) + sum(steps[i % n] for i in range(k - 1))
  return int(thr + Fraction(1, 2)) + max(0, math.ceil(pos - thr))


# --- 10. mixer ---------------------------------------------------------------
def _mix(s, p):
  m = Streamix(keep=p["keep"], zero=0)
  deltas = p["ev"]
  for i, d in enumerate(deltas):
    if i == p["pos"]:
      m.add(d, s)
    else:
      m.add(d, [1, 2, 3] if i % 2 else Stream(1))
  return m


def _mix_start(t):
  """Start sample of an event due at cumulative time t: the nearest sample (an exact half: the earlier)."""
  import math
  return max(int(math.ceil(t - .5)), 0)


def _mix_need(k, p, f):
  start = _mix_start(sum(p["ev"][:p["pos"] + 1]))
  return max(0, k - start)


_MIXEXT = lambda p: bool(p.get("keep")) or any(i != p.get("pos") and i % 2 == 0 for i in range(len(p["ev"])))
R("streamix", _mix, need=_mix_need, fam="mixer", extends=_MIXEXT,
  dom={"ev": [(0,), (3,), (0, 2), (2, 0, 1), (1, 1, 1, 1), (0, 0, 9)], "pos": [0], "keep": [False, True]})
R("streamix:later", _mix, need=_mix_need, fam="mixer", extends=_MIXEXT,
  dom={"ev": [(0, 2), (2, 0, 1), (1, 1, 1, 1), (0, 0, 9), (5, 5), (.25, 2.5), (2.625, 2.625), (.75, .75)],
       "pos": [1], "keep": [False, True]})
R("streamix:last", lambda s, p: _mix(s, dict(p, pos=len(p["ev"]) - 1)),
  need=lambda k, p, f: max(0, k - _mix_start(sum(p["ev"]))), fam="mixer", extends=lambda p: True,
  dom={"ev": [(2, 0, 1), (1, 1, 1, 1), (0, 0, 9), (.25, 2.375, 2.375), (2.625, 2.625, 2.625)], "keep": [False]})
R("streamix:Stream-event", lambda s, p: (lambda m: (m.add(p["d"], S(s) * 2), m)[1])(Streamix()),
  need=lambda k, p, f: max(0, k - p["d"]), fam="mixer", dom={"d": [0, 1, 4]})
R("streamix:two-from-tee", lambda s, p: (lambda m, t: (m.add(0, t[0]), m.add(p["d"], t[1]), m)[2])(Streamix(zero=0), lit.tee(S(s))),
  need=lambda k, p, f: k, fam="mixer", dom={"d": [0, 2]})

# rows whose input is a stream of blocks (only reachable inside chains / from blk4 sources)
R("blk:imap-list", lambda s, p: lit.imap(list, s), fam="block-map", tin="b", tout="b")
R("blk:map-tuple", lambda s, p: S(s).map(tuple), fam="block-map", tin="b", tout="b")
R("blk:flatten", lambda s, p: lit.chain.from_iterable(s), need=lambda k, p, f: k, fam="block-map", tin="b", tout="n",
  exact=False)
R("blk:map-sum", lambda s, p: S(s).map(sum), fam="block-map", tin="b", tout="n")
R("blk:skip", lambda s, p: S(s).skip(1), need=lambda k, p, f: k + 1, fam="block-map", tin="b", tout="b")

ROWS = OrderedDict((k, v) for k, v in ROWS.items() if v.build is not None)
NAMES = list(ROWS)
FAMS = sorted(set(r.fam for r in ROWS.values()))


# ---------------------------------------------------------------------------
# running a case
# ---------------------------------------------------------------------------
def _need_chain(stages, k, f0):
  """Compose need() from the outermost stage down to the source."""
  n = k
  for pos in range(len(stages) - 1, -1, -1):
    name, p = stages[pos]
    row = ROWS[name]
    n = 0 if n <= 0 else row.need(n, p, f0 if pos == 0 else None)
    if n < 0:
      n = 0
  return n


def _need_upto(stages, upto, d, f0, pre):
  """Source reads once stage ``upto`` (the outermost one built so far) has delivered d outputs in all, where
  pre[i] outputs of stage i had been taken by the caller before stage i+1 was stacked on it: stage i+1 then starts
  at output pre[i] of stage i, so stage i delivers pre[i] + need(i+1) outputs in all."""
  n = d
  for pos in range(upto, -1, -1):
    name, p = stages[pos]
    n = 0 if n <= 0 else ROWS[name].need(n, p, f0 if pos == 0 else None)
    if n < 0:
      n = 0
    if pos > 0:
      n += pre[pos - 1]
  return n


def _describe(case):
  pre = case.get("pre") or []
  return " | ".join("%s%s%s" % (n, p if p else "",
                                " [then %d outputs taken (%s)]" % (pre[i], case.get("prepull", "take"))
                                if i < len(pre) and pre[i] else "")
                    for i, (n, p) in enumerate(case["stages"]))


def _pull_one(it, j, src, case):
  try:
    return next(it)
  except OverRead as e:
    raise Violation("%s: producing output %d pulled source item %d, more than the %d items that %d outputs need (%s)"
                    % (_describe(case), j, src.reads + 1, src.bound, case["k"], e), site=case["stages"][0][0])


def run_case(case):
  stages = [(n, dict(p)) for n, p in case["stages"]]
  k = case["k"]
  mode = case.get("mode", "bounded")
  pull = case.get("pull", "next")
  rows = []
  t = None
  for pos, (name, p) in enumerate(stages):
    row = ROWS.get(name)
    if row is None:
      raise Reject("unknown row " + name)
    if pos > 0 and (row.inner or row.tin != t):
      raise Reject("chain is not well-typed")
    if pos == 0 and row.tin != "n":
      raise Reject("block-input row needs an upstream blockenizer")
    t = row.tout
    rows.append(row)
  if mode == "finite" and any(r.extends and r.extends(p) for r, (_, p) in list(zip(rows, stages))[:-1]):
    # an inner stage that goes on for ever after its input ended would hide the end of a finite source from the
    # outer stages (and an eager outer stage would then never return): such chains get the raising source
    mode = "bounded"
  skind = rows[0].src or case.get("src", "count1")
  if skind not in SRCF:
    raise Reject("unknown source kind")
  f0 = SRCF[skind]

  # how many outputs exist / are asked for
  kk = k
  probe_end = False
  if len(rows) == 1 and rows[0].maxout is not None:
    mo = rows[0].maxout(stages[0][1], f0)
    if k > mo:
      kk = mo
      probe_end = rows[0].end_reads is not None and pull == "next"
  exact = all(r.exact for r in rows)
  # outputs the caller takes from stage i before the next stage is stacked on the same object (a stage is built on
  # an input in mid-life: "every source" includes a Stream that has already delivered part of its items)
  pre = list(case.get("pre") or [])
  if any((not isinstance(c, int)) or c < 0 for c in pre):
    raise Reject("malformed pre")
  pre = (pre + [0] * len(stages))[:len(stages) - 1]
  prepull = case.get("prepull", "take")
  if prepull not in ("take", "next", "for"):
    raise Reject("unknown prepull")
  needs = [_need_upto(stages, len(stages) - 1, j, f0, pre) for j in range(kk + 1)]
  total = needs[kk]
  if probe_end:
    total = max(total, rows[0].end_reads(stages[0][1], f0))
  if total > 3000:
    raise Reject("demand too large")

  # what the innermost stage is handed: the counting iterator, or a re-iterable object (not an iterator) whose
  # readers count together
  feed = case.get("feed", "iter")
  if feed not in FEEDS:
    raise Reject("unknown feed")
  mk = FEEDS[feed]
  if mode == "finite":
    src = mk(items=[f0(i) for i in range(total)])
  elif mode == "bounded":
    src = mk(bound=total, f=f0)
  else:
    # "endless": far more than needed is available, so the counts of an over-reading stage are reported as
    # numbers; the far bound only turns a stage that would never return (eager on an endless source) into OverRead
    src = mk(bound=total + SLACK, f=f0)

  def count_check(j, what):
    if src.pulls != src.reads:
      raise Violation("%s: %s touched the end of a source holding exactly the %d items that %d outputs need"
                      % (_describe(case), what, total, kk), site=stages[0][0])
    got, exp = src.reads, needs[j]
    if (got != exp) if exact else (got > exp):
      raise Violation("%s: %s read %d source items, expected %s%d (k=%d, source=%s/%s/%s%s)"
                      % (_describe(case), what, got, "" if exact else "at most ", exp, k, skind, mode, feed,
                         "" if feed == "iter" else ", %d reader(s) opened" % src.opened),
                      site=stages[0][0])

  def consume(cur, pos, c):
    """The caller takes c outputs from stage ``pos`` (the outermost one so far) before stacking the next one."""
    if isinstance(cur, al.StreamTeeHub) or not (isinstance(cur, Stream) or iter(cur) is cur):
      raise Reject("intermediate object is neither a plain Stream nor an iterator")
    what = "taking %d outputs (%s) after stage %d, before stage %r was built" % (c, prepull, pos + 1, stages[pos + 1][0])

    def chk(t):
      if src.pulls != src.reads:
        raise Violation("%s: %s touched the end of a source holding exactly the %d items needed"
                        % (_describe(case), what, total), site=stages[0][0])
      got, exp = src.reads, _need_upto(stages, pos, t, f0, pre)
      if (got != exp) if exact else (got > exp):
        raise Violation("%s: %s: %d source items read after %d of them, expected %s%d"
                        % (_describe(case), what, got, t, "" if exact else "at most ", exp), site=stages[0][0])
    try:
      if prepull == "take" and isinstance(cur, Stream):
        n = len(cur.take(c))
        chk(c)
      elif prepull == "for":
        n = 0
        for _ in cur:
          n += 1
          chk(n)
          if n == c:
            break
      else:
        itc = iter(cur)
        n = 0
        for _ in range(c):
          try:
            next(itc)
          except StopIteration:
            break
          n += 1
          chk(n)
    except OverRead as e:
      raise Violation("%s: %s pulled past the %d source items needed (%s)" % (_describe(case), what, total, e),
                      site=stages[0][0])
    if n != c:
      raise Violation("%s: %s gave only %d" % (_describe(case), what, n), site=stages[0][0])

  # (1) construction reads nothing
  same_object = False
  try:
    cur = src
    for pos, (row, (name, p)) in enumerate(zip(rows, stages)):
      r0, p0 = src.reads, src.pulls
      prev = cur
      cur = row.build(cur, p)
      if src.reads != r0 or src.pulls != p0:
        raise Violation("%s: building stage %r read %d item(s) from its source"
                        % (_describe(case), name, src.pulls - p0), site=name)
      if pos > 0 and pre[pos - 1] and cur is prev:
        same_object = True
      if pos < len(rows) - 1 and pre[pos]:
        consume(cur, pos, pre[pos])
    out = cur
    it = iter(out)
  except OverRead as e:
    raise Violation("%s: construction pulled the source (%s)" % (_describe(case), e), site=stages[0][0])
  count_check(0, "construction + iter()")

  # (2) outputs
  nout = 0
  try:
    if pull == "take" and isinstance(out, Stream) and not isinstance(out, al.StreamTeeHub):
      res = out.take(kk)
      nout = len(res)
      count_check(kk, "take(%d)" % kk)
    elif pull == "peek" and isinstance(out, Stream) and not isinstance(out, al.StreamTeeHub):
      res = out.peek(kk)
      nout = len(res)
      count_check(kk, "peek(%d)" % kk)
      res2 = out.take(kk)
      if len(res2) != nout:
        raise Violation("%s: take after peek gave %d items, peek gave %d" % (_describe(case), len(res2), nout))
      count_check(kk, "take(%d) after peek" % kk)
    elif pull == "islice":
      res = list(itertools.islice(it, kk))
      nout = len(res)
      count_check(kk, "islice(.., %d)" % kk)
    else:
      for j in range(1, kk + 1):
        try:
          _pull_one(it, j, src, case)
        except StopIteration:
          raise Violation("%s: ended after %d outputs, %d were asked for and are defined (source=%s/%s, reads=%d)"
                          % (_describe(case), j - 1, kk, skind, mode, src.reads), site=stages[0][0])
        nout = j
        count_check(j, "output %d" % j)
  except OverRead as e:
    raise Violation("%s: pulled past the %d source items that %d outputs need (%s)"
                    % (_describe(case), total, kk, e), site=stages[0][0])
  except Violation:
    raise
  except Exception as e:
    if src.pulls > src.reads:
      raise Violation("%s: tried to read past the %d source items that %d outputs need (the finite source ended there "
                      "and the stage raised %s: %s)" % (_describe(case), total, kk, type(e).__name__, e),
                      site=stages[0][0])
    raise
  if nout != kk:
    raise Violation("%s: got %d outputs, %d were asked for and are defined" % (_describe(case), nout, kk))

  # (3) a stage that is over ends without reading more than it needs to know that
  if probe_end:
    try:
      extra = next(it)
    except StopIteration:
      pass
    except OverRead as e:
      raise Violation("%s: deciding that the stage is over pulled past item %d (%s)" % (_describe(case), total, e))
    else:
      raise Violation("%s: produced output %d (%r) beyond its %d defined outputs" % (_describe(case), kk + 1, extra, kk))
    exp = rows[0].end_reads(stages[0][1], f0)
    if src.reads != exp:
      raise Violation("%s: after its end the stage had read %d source items, expected %d" % (_describe(case), src.reads, exp))

  ident = all(r.ident for r in rows)
  labels = ["fam:" + rows[0].fam, "len:%d" % len(rows), "mode:" + mode, "pull:" + pull, "feed:" + feed]
  if feed != "iter":
    labels.append("feed:re-iterable")
    labels.append("re-iterable into fam:" + rows[0].fam)
    if src.opened > 1:
      labels.append("re-iterable: several readers opened")
  labels.extend("in-chain:" + r.fam for r in rows[1:])
  if any(pre):
    labels.append("resumed: outputs taken before the next stage was stacked")
    labels.append("resumed: prepull " + prepull)
    if same_object:
      labels.append("resumed: in-place stage on the consumed Stream object")
    for i, c in enumerate(pre):
      if c and rows[i].fam == rows[i + 1].fam and stages[i][0].split(".")[0] == stages[i + 1][0].split(".")[0]:
        labels.append("resumed: same method again")
  if any(r.tout == "b" for r in rows):
    labels.append("has block stage")
  if total > kk:
    labels.append("look-ahead/offset")
  if total < kk:
    labels.append("fewer reads than outputs")
  if probe_end:
    labels.append("end probed")
  if rows[0].fam == "op-finite" and len(rows) == 1:
    n_fin = stages[0][1]["n"]
    labels.append("finite operand: " + ("fewer outputs asked than it has" if k < n_fin else
                                        "all its outputs asked, end not asked for"))
    if k == n_fin:
      labels.append("finite operand: k == its length")
  if not exact:
    labels.append("maximal row")
  return {"nontrivial": kk >= 2 and not ident, "labels": labels}


# ---------------------------------------------------------------------------
# strategies
# ---------------------------------------------------------------------------
_SINGLE_OK = [n for n in NAMES if ROWS[n].tin == "n"]
_BY_FAM = OrderedDict()
for _n in _SINGLE_OK:
  _BY_FAM.setdefault(ROWS[_n].fam, []).append(_n)


# what the innermost stage is handed: the counting iterator (half of the cases) or one of the re-iterable objects
_FEEDW = [f for r in REITER for f in ("iter", r)]


def _kmax(tier):
  return 12 if tier == "quick" else 24


def strat_single(tier):
  # family first (uniform over families), then row: the 170 operator rows do not drown the rest
  def stage(name):
    return ROWS[name].pstrategy().map(lambda p: [name, p])
  name = st.one_of(st.sampled_from(_SINGLE_OK),
                   st.sampled_from(list(_BY_FAM)).flatmap(lambda fam: st.sampled_from(_BY_FAM[fam])))
  return st.fixed_dictionaries(dict(
    stages=name.flatmap(stage).map(lambda sp: [sp]),
    k=st.integers(1, _kmax(tier)),
    src=st.sampled_from(GENERIC),
    mode=st.sampled_from(["bounded", "bounded", "finite", "endless"]),
    pull=st.sampled_from(["next", "next", "take", "peek", "islice"]),
    feed=st.sampled_from(_FEEDW),
  ))


def _compat(t, first, last):
  return [n for n in NAMES if ROWS[n].tin == t and (first or not ROWS[n].inner)
          and (last or ROWS[n].tout in ("n", "b"))]


_COMPAT = {}
_COMPAT_FAM = {}
for _t in "nb":
  for _first in (True, False):
    for _last in (True, False):
      _names = _compat(_t, _first, _last)
      _COMPAT[(_t, _first, _last)] = _names
      _d = OrderedDict()
      for _n in _names:
        _d.setdefault(ROWS[_n].fam, []).append(_n)
      _COMPAT_FAM[(_t, _first, _last)] = _d


@st.composite
def _chain(draw, nmin, nmax):
  n = draw(st.integers(nmin, nmax))
  t = "n"
  stages = []
  for pos in range(n):
    key = (t, pos == 0, pos == n - 1)
    fams = _COMPAT_FAM[key]
    if draw(st.integers(0, 3)) == 0:
      name = draw(st.sampled_from(_COMPAT[key]))
    else:
      name = draw(st.sampled_from(fams[draw(st.sampled_from(list(fams)))]))
    p = draw(ROWS[name].pstrategy(chain=True))
    stages.append([name, p])
    t = ROWS[name].tout
  return stages


def strat_chain(tier):
  nmax = 3 if tier == "quick" else 4
  return st.fixed_dictionaries(dict(
    stages=_chain(2, nmax),
    k=st.integers(1, 8 if tier == "quick" else 12),
    src=st.sampled_from(GENERIC),
    mode=st.sampled_from(["bounded", "finite"]),
    pull=st.sampled_from(["next", "next", "take", "islice"]),
    feed=st.sampled_from(_FEEDW),
  ))


def run_chain(case):
  if len(case["stages"]) < 2:
    raise Reject("not a chain")
  return run_case(case)


# --- resumed: a stage is stacked on a Stream that has already delivered outputs ------------------------------------
# Stream methods that re-bind the object in place or wrap it (the caller keeps using ONE object: skip a gap, take
# a record, skip the next gap, take ...), and the stages commonly stacked on a stream that is being read
_METHODS = [n for n in ["skip", "skip.skip", "limit", "map", "map:abs", "append:after", "copy:copy", "copy:original",
                        "copy:both", "tee-method", "getattr", "Stream(src)", "Stream(Stream(src))", "Stream.blocks",
                        "thub.skip", "thub.limit", "thub.map", "thub.append", "it:islice:start", "it:islice:step",
                        "it:dropwhile", "zero_pad", "it:pairwise", "it:batched", "blk:skip", "blk:map-tuple",
                        "blk:map-sum", "op:add:sc", "op:neg", "filter", "it:tee:0", "blocks:Stream-in"]
            if n in ROWS]


@st.composite
def _resumed(draw, tier):
  n = draw(st.integers(2, 3 if tier == "quick" else 4))
  t = "n"
  stages = []
  for pos in range(n):
    key = (t, pos == 0, pos == n - 1)
    meth = [m for m in _METHODS if m in _COMPAT[key]]
    if meth and draw(st.integers(0, 2)) != 0:
      name = draw(st.sampled_from(meth))
    else:
      fams = _COMPAT_FAM[key]
      name = draw(st.sampled_from(fams[draw(st.sampled_from(list(fams)))]))
    p = draw(ROWS[name].pstrategy(chain=True))
    stages.append([name, p])
    t = ROWS[name].tout
  pre = [draw(st.sampled_from([0, 1, 1, 2, 3, 5])) for _ in range(n - 1)]
  if not any(pre):
    pre[draw(st.integers(0, n - 2))] = draw(st.integers(1, 4))
  return stages, pre


def strat_resumed(tier):
  return st.builds(
    lambda sp, k, src, mode, pull, prepull, feed: dict(stages=sp[0], pre=sp[1], k=k, src=src, mode=mode, pull=pull,
                                                       prepull=prepull, feed=feed),
    _resumed(tier), st.integers(1, 8 if tier == "quick" else 12), st.sampled_from(GENERIC),
    st.sampled_from(["bounded", "finite"]), st.sampled_from(["next", "next", "take", "islice"]),
    st.sampled_from(["take", "take", "next", "for"]), st.sampled_from(_FEEDW))


def run_resumed(case):
  if len(case["stages"]) < 2 or not any(case.get("pre") or []):
    raise Reject("nothing taken between the stages")
  return run_case(case)


# every ordered pair (and a few triples) of the in-place / wrapping Stream methods with 1..3 outputs taken in between
_RES_A = [("skip", {"n": 1}), ("skip", {"n": 3}), ("skip", {"n": 2.6}), ("skip.skip", {"n": 1}), ("limit", {"n": BIG}),
          ("map", {}), ("append:after", {}), ("copy:original", {}), ("copy:copy", {}), ("thub.skip", {"n": 2}),
          ("it:islice:start", {"a": 2}), ("filter", {"pred": "m3"}), ("zero_pad", {"left": 2, "right": 0}),
          ("it:dropwhile", {"n": 4}), ("it:pairwise", {}), ("Stream(src)", {}), ("op:add:sc", {})]
_RES_B = [("skip", {"n": 1}), ("skip", {"n": 3}), ("skip.skip", {"n": 1}), ("limit", {"n": BIG}), ("map", {}),
          ("append:after", {}), ("copy:original", {}), ("copy:both", {}), ("it:islice:start", {"a": 2}),
          ("it:islice:step", {"a": 1, "step": 2}), ("zero_pad", {"left": 2, "right": 0}), ("it:pairwise", {}),
          ("Stream.blocks", {"size": 3, "hopd": -1}), ("Stream(Stream(src))", {}), ("op:neg", {}), ("getattr", {})]


def _resumed_grid(tier):
  ks = [1, 3] if tier == "quick" else [1, 2, 3, 8]
  pres = [1, 2] if tier == "quick" else [1, 2, 3, 7]
  i = 0
  for a in _RES_A:
    if a[0] not in ROWS:
      continue
    for b in _RES_B:
      if b[0] not in ROWS or ROWS[b[0]].inner or ROWS[b[0]].tin != ROWS[a[0]].tout:
        continue
      for c in pres:
        for k in ks:
          for mode in ("bounded", "finite"):
            i += 1
            yield dict(stages=[list(a), list(b)], pre=[c], k=k, src=GENERIC[i % len(GENERIC)], mode=mode,
                       pull=["next", "take", "islice"][i % 3], prepull=["take", "next", "for"][(i // 3) % 3],
                       feed=(["iter"] + REITER)[(i // 2) % 4] if i % 2 else "iter")
  # records separated by gaps, read from one Stream object: skip, take, skip, take, skip, take
  for g1 in (1, 2, 4):
    for g2 in (0, 1, 3):
      for g3 in (1, 2):
        for c1 in (1, 2):
          for c2 in (0, 1, 3):
            i += 1
            yield dict(stages=[["skip", {"n": g1}], ["skip", {"n": g2}], ["skip", {"n": g3}]], pre=[c1, c2], k=2,
                       src="count1", mode=("bounded", "finite")[i % 2], pull=["take", "next"][i % 2],
                       prepull=["take", "next", "for"][i % 3])


def resumed_grid(tier, shard, nshards):
  for i, case in enumerate(_resumed_grid(tier)):
    if i % nshards == shard:
      yield case


# --- fan-out: tee / thub / copy consumers read at different paces ------------
_FAN = ["tee(Stream)", "tee(iter)", "thub", "copy", "copy-of-copy", "thub.copy"]


def _fanout(kind, src, n):
  if kind == "tee(Stream)":
    return list(lit.tee(Stream(src), n))
  if kind == "tee(iter)":
    return list(lit.tee(iter(src), n))
  if kind == "thub":
    h = thub(src, n)
    return [Stream(h) for _ in range(n)]
  if kind == "copy":
    a = Stream(src)
    return [a.copy() for _ in range(n - 1)] + [a]
  if kind == "copy-of-copy":
    outs = [Stream(src)]
    for _ in range(n - 1):
      outs.append(outs[-1].copy())
    return outs
  if kind == "thub.copy":
    h = thub(src, 1)
    cps = [h.copy() for _ in range(n - 1)]
    return cps + [Stream(h)]
  raise AssertionError(kind)


def strat_fan(tier):
  return st.fixed_dictionaries(dict(
    kind=st.sampled_from(_FAN),
    n=st.integers(1, 4),
    sched=st.lists(st.tuples(st.integers(0, 3), st.sampled_from(["next", "next", "take2", "peek3", "+1"])),
                   min_size=1, max_size=12 if tier == "quick" else 30),
    mode=st.sampled_from(["bounded", "finite"]),
    feed=st.sampled_from(_FEEDW),
  ))


def run_fan(case):
  n = case["n"]
  # model: position of each consumer; reads == max position (peek looks ahead without moving)
  pos = [0] * n
  hi = 0
  plan = []
  for ci, act in case["sched"]:
    ci %= n
    if act == "next":
      pos[ci] += 1
      hi = max(hi, pos[ci])
    elif act == "take2":
      pos[ci] += 2
      hi = max(hi, pos[ci])
    elif act == "peek3":
      hi = max(hi, pos[ci] + 3)
    elif act == "+1":
      pass
    plan.append((ci, act, hi, pos[ci]))
  total = hi
  f0 = SRCF["count1"]
  feed = case.get("feed", "iter")
  if feed not in FEEDS:
    raise Reject("unknown feed")
  mk = FEEDS[feed]
  src = mk(items=[f0(i) for i in range(total)]) if case["mode"] == "finite" else mk(bound=total, f=f0)
  try:
    outs = _fanout(case["kind"], src, n)
    if src.pulls:
      raise Violation("fan-out %s x%d read %d item(s) at construction" % (case["kind"], n, src.pulls), site=case["kind"])
    for step, (ci, act, exp, p) in enumerate(plan):
      s = outs[ci]
      if act == "next":
        v = next(iter(s))
        vals = [v]
        first = p
      elif act == "take2":
        vals = s.take(2)
        first = p - 1
      elif act == "peek3":
        vals = s.peek(3)
        first = p + 1
      else:
        outs[ci] = s = s + 1 - 1   # wrap the consumer in a lazy expression: reads nothing
        vals = []
        first = p
      want = [f0(first - 1 + i) for i in range(len(vals))]
      if [v for v in vals] != want:
        raise Violation("fan-out %s x%d step %d (%s on consumer %d): got %r, expected %r"
                        % (case["kind"], n, step, act, ci, vals, want), site=case["kind"])
      if src.reads != exp or src.pulls != src.reads:
        raise Violation("fan-out %s x%d step %d (%s on consumer %d): source reads %d (pulls %d), expected %d = furthest consumer"
                        % (case["kind"], n, step, act, ci, src.reads, src.pulls, exp), site=case["kind"])
  except OverRead as e:
    raise Violation("fan-out %s x%d pulled past the furthest consumer position %d (%s)" % (case["kind"], n, total, e),
                    site=case["kind"])
  labels = ["fan:" + case["kind"], "consumers:%d" % n, "mode:" + case["mode"], "feed:" + feed]
  if feed != "iter":
    labels.append("feed:re-iterable")
  return {"nontrivial": n >= 2 and total >= 2, "labels": labels}


# --- enumerated: every row x parameter sample x k grid x source mode ---------
def _grid(tier):
  ks = [1, 2, 5, 12] if tier == "quick" else [1, 2, 3, 5, 8, 12, 13, 24]
  lim = 8 if tier == "quick" else 40
  for name in NAMES:
    row = ROWS[name]
    if row.tin != "n":
      continue
    exs = row.examples(lim)
    for pi, p in enumerate(exs):
      for ki, k in enumerate(ks):
        for mi, mode in enumerate(["bounded", "finite"]):
          yield dict(stages=[[name, p]], k=k, src=GENERIC[(pi + ki) % len(GENERIC)], mode=mode,
                     pull=["next", "next", "take", "islice", "peek"][(pi + ki + mi) % 5] if mi else "next")
          # the same cell with the source handed over as a re-iterable object (the three kinds rotate, so that
          # every row x parameter sample meets each of them in both modes)
          yield dict(stages=[[name, p]], k=k, src=GENERIC[(pi + ki) % len(GENERIC)], mode=mode,
                     pull=["next", "take", "next", "islice", "peek"][(pi + ki) % 5] if mi else "next",
                     feed=REITER[(pi + ki + mi) % len(REITER)])


def grid(tier, shard, nshards):
  for i, case in enumerate(_grid(tier)):
    if i % nshards == shard:
      yield case


def _grid_floors():
  """Every row is enumerated >= 8 times per run by construction (>= 1 parameter sample x >= 4 k x 2 modes); the
  floor (DESIGN: every row hit >= 5 times) is expressed as a share of the larger (thorough) grid so that it is
  valid for both tiers."""
  names = set()
  tot = 0
  for tier in ("quick", "thorough"):
    n = 0
    for case in _grid(tier):
      names.add(case["stages"][0][0])
      n += 1
    tot = max(tot, n)
  floors = dict(("row:" + n, 5. / tot) for n in names)
  # half of the grid hands the source over as a re-iterable object (3.7 % of the grid: into a filter row)
  floors["feed:re-iterable"] = .15
  floors["re-iterable into fam:filter"] = .01
  # 38 % of the grid: a binary operator / envelope idiom whose other operand is finite; 9 %: k equal to its length
  floors["fam:op-finite"] = .1
  # 22 % of the grid: filter algebra on a filter with a counted coefficient stream; 2 %: polynomials with a counted
  # coefficient; 3 %: filter banks built by list operators / changed after construction
  floors["fam:param-algebra"] = .05
  floors["fam:param-poly"] = .005
  floors["fam:filter-bank"] = .008
  floors["finite operand: all its outputs asked, end not asked for"] = .07
  floors["finite operand: k == its length"] = .03
  return floors, tot


_GRID_FLOORS, _GRID_TOTAL = _grid_floors()


def run_row(case):
  rec = run_case(case)
  rec["labels"].append("row:" + case["stages"][0][0])
  return rec


CLAUSES = [
  Enumerated("rows", grid, run_row, shards={"quick": 8, "thorough": 16}, floors=_GRID_FLOORS,
             doc="every stage row x parameter sample x k grid x {bounded, finite} source x {iterator, re-iterable object}: 0 reads at construction, "
                 "reads == need(j) after every output j <= k, never past need(k)"),
  Clause("single", strat_single, run_case, quick=4000, thorough=80000,
         floors={"mode:finite": .08, "mode:bounded": .15, "pull:take": .05, "pull:peek": .05, "look-ahead/offset": .05,
                 "fam:op": .02, "fam:op-finite": .05, "finite operand: all its outputs asked, end not asked for": .03,
                 "fam:filter": .01, "fam:blocks": .01, "fam:itertools": .01, "feed:re-iterable": .1,
                 "feed:iter": .15, "fam:param-algebra": .008, "fam:param-poly": .005, "fam:filter-bank": .005},
         doc="random row, parameters, k, source kind/mode, pull mode (next / take / peek+take / islice) and feed "
             "(iterator / re-iterable object)"),
  Clause("chain", strat_chain, run_chain, quick=4000, thorough=80000,
         floors={"len:2": .1, "len:3": .1, "has block stage": .03, "look-ahead/offset": .1, "feed:re-iterable": .1,
                 "feed:iter": .15},
         doc="chains of 2-3 (thorough 4) type-compatible stages; need() functions compose; the innermost stage is fed "
             "the iterator or a re-iterable object"),
  Enumerated("resumed_pairs", resumed_grid, run_resumed, shards={"quick": 2, "thorough": 4},
             floors={"resumed: in-place stage on the consumed Stream object": .15, "resumed: same method again": .02,
                     "resumed: prepull take": .15, "resumed: prepull next": .15, "resumed: prepull for": .15,
                     "feed:re-iterable": .1},
             doc="every ordered pair of Stream methods / wrappers (and skip-take-skip-take-skip-take records) on ONE "
                 "object with 1..3 outputs taken by the caller between building the two: the second stage starts where "
                 "the caller stopped and reads need(k) more items, nothing at construction"),
  Clause("resumed", strat_resumed, run_resumed, quick=1500, thorough=40000,
         floors={"resumed: in-place stage on the consumed Stream object": .08, "resumed: same method again": .01,
                 "resumed: prepull take": .15, "resumed: prepull next": .08, "resumed: prepull for": .08,
                 "len:3": .1, "mode:finite": .15, "feed:re-iterable": .1},
         doc="chains of 2-3 (thorough 4) stages, biased towards the in-place Stream methods, where the caller takes "
             "0..5 outputs (take / next / a for loop that breaks) from the object after each stage and before the next "
             "one is stacked on it"),
  Clause("fanout", strat_fan, run_fan, quick=1200, thorough=20000,
         floors={"consumers:2": .05, "consumers:4": .05, "feed:re-iterable": .1},
         doc="tee / thub / copy consumers advanced by a generated schedule: source reads == furthest consumer"),
]
