"""C01 - Stream operators and broadcast functions act element by element."""
import math
import cmath
import types
import operator
import itertools
import array
from collections import deque
from fractions import Fraction

from hypothesis import strategies as st
from vlib.core import Clause, Enumerated, Violation
from vlib.sources import Src

import audiolazy
from audiolazy import Stream

ID = "C01"
RULE = ("cases are plain data: (operator method, self leaf, other leaf), expression "
        "trees of leaves/operators/attribute nodes, (function, container kind, items), "
        "(attribute or method call, stream kind, items); every case builds fresh "
        "Streams/containers, runs the real operator/function and is compared element "
        "by element (value, type, float bits) plus termination (StopIteration at the "
        "shortest iterable operand, or the same element-level exception type at the same "
        "index) with an independent list interpreter that applies the builtin operator "
        "or the documented closed form to the i-th items; a complete grid "
        "35 methods x 8 self kinds x 15 other kinds is enumerated as well, and so is every binary arithmetic / "
        "comparison method x 69 scalar operands that are special for floats (powers of two over the whole exponent "
        "range, subnormals, largest floats, identities, signed zeros, infinities, nan); clause extremes draws elements "
        "and scalars from the edges of the float format; clauses used / used_trees give operands a history (0..7 items "
        "read by take / next / a for loop / zip before the operator is applied; periodic and constant Streams then "
        "also meet scalars, each other and unary operators); clause subclasses puts instances of Stream subclasses "
        "(own __iter__, StreamTeeHub, ControlStream) on either side, clause iterables further iterable kinds (user "
        "iterable / iterator classes, dict, dict view, islice, map, bytes, bytearray, memoryview, str); whenever some position's "
        "element operation raises, the expression is built a second time and read by a consumer that "
        "catches every element error and keeps pulling the same result: every later position must still "
        "be the operator applied to that position's elements and the end must come where the shortest "
        "iterable operand ends (clauses faulty / faulty_trees plant such positions on purpose); clause "
        "deep stacks 2600..12000 operators on top of each other; clauses mutated / mutated_trees change "
        "a list (or array.array) operand in place after the expression was built - grown, shrunk, items "
        "replaced, before the first read or between two reads - and compare with the operands as they are "
        "when each position is read; broadcast functions are also given instances of user-defined container "
        "classes (subclasses of list / tuple / deque, own iterable classes with and without len()); "
        "non-trivial = expected result has >= 2 positions and not every operand is a "
        "scalar (broadcast: container with >= 2 items); distinct = distinct case hash")
ASSUMPTIONS = [
  "the 35 operator methods are the hard-coded names 13 binary x (plain, reflected) + 6 comparisons + 3 unary; abs() is checked in addition",
  "endless results (both operands endless) are compared on their first 16 elements only",
  "when an operand fails (element-level exception) at the very index where another operand ends, either termination (StopIteration or that exception) is accepted: the property does not order them",
  "expression trees never put a Fraction scalar on the left of ** with a Stream on the right: CPython's Fraction.__pow__ coerces itself to float before Stream.__rpow__ is reached (not audiolazy's doing); the direct __rpow__ call covers Fraction bases",
  "exponents and shift counts are kept small (leaves) so that results stay cheap; every other element-level failure (ZeroDivisionError, TypeError, OverflowError, ValueError, AttributeError) is part of the model",
  "transcendental closed forms written independently (log with base, log10, log2, dB10, dB20, midi2freq, freq2midi, log of negatives) are compared with relative tolerance 1e-12 (freq2midi: absolute 1e-9); wrapped math/cmath functions are compared bit-exactly with math.f / cmath.f",
  "zip / enumerate inputs are checked for laziness and result kind only (their items are tuples, on which the scalar functions are undefined)",
  "after the result has ended, one more next() must not yield a value (StopIteration, or the failure of a longer operand's later element, are both accepted)",
  "set / frozenset inputs are compared with set semantics (results that compare equal collapse; any representative may survive)",
  "reading on after a caught element-level exception is asserted for operator results (the 35 methods and abs): position i is op(a_i, b_i) for every i below the shortest operand's length, whatever happened at earlier positions. When an *operand* of a nested operator could itself not produce position i (a failure inherited from a sub-expression), the result's position i fails with that class too, and the model follows the later positions only if the partner is a scalar or the operator is unary: the property does not say whether the partner iterable's i-th element counts as consumed then (the library consumes it when the failing operand is pulled second and not when it is pulled first), so nothing is asserted from that position on",
  "attribute / method-call nodes and broadcast functions are not asserted beyond their first failing position: a broadcast function must return the kind of container it was given, over a list it raises as a whole and over a generator it returns a generator, which the first exception finishes by construction; over a Stream (and for Stream.attr / Stream.method()) the library behaves the same way (the result ends after the failing position)",
  "deep chains use depths above the interpreter's default recursion limit plus the 2000 frames Hypothesis reserves, with +, -, *, comparisons and bitwise operators on small ints / halves / bools (no element failures), evaluated level by level without recursion in the check itself",
  "a list / array.array operand changed in place after the operator expression was built: the result is lazy, so its position i is the operator applied to the i-th elements as they are when position i is read (every iterable operand is read one position per pull of the result), and it ends at the first pull that finds one operand without an i-th item, i.e. with the shortest operand as it is when its end is reached; changes are only made by the consumer between two pulls (never after the result has ended, never on deques, whose iterators refuse any change)",
  "user-defined container classes given to a broadcast function are built from any iterable by their constructor (class(iterable)); the result must be an instance of exactly that class",
  "an operand from which items were read before the operator is applied (Stream.take, next(iter(s)), a for loop that breaks, zip with a finite range) has the remaining items as its elements, whatever kind of Stream or iterator it is; reading n items off Stream(a, b, c) leaves the period rotated by n",
  "operators whose operands are all endless and one of which is endless by construction (Stream(a, b, c), Stream(a), ControlStream) are first applied to bounded sources with the same elements (an eager stage raises OverRead there), then to the real operands; 16 positions are compared",
  "the elements of an instance of a Stream subclass are what iter(instance) gives (a StreamTeeHub hands out one tee copy per use: the copies an expression leaves over must still deliver every item; a user subclass may define __iter__ itself); the result of an operator is a plain Stream. The same is asserted for Stream.attr / Stream.method() on such instances (violations carry the site C01-getattr-bypasses-iter). abs() is left out for subclasses (it works in place and returns its operand)",
  "a str operand is an iterable of its characters and bytes / bytearray / memoryview operands are iterables of ints (Stream('a') itself is a Stream over the characters, so str elements are never given through the constant / periodic constructor); a dict operand stands for its keys in insertion order",
  "freq2midi / freq2str of a negative number, -inf or nan is nan / '?', of a zero -inf / '?' (the scalar function's own special cases), whatever container the element is in",
  "lazy inputs (generator, range, map, filter, zip, enumerate) must come back as a generator with zero source pulls before iteration; a Stream (or a Stream subclass such as a StreamTeeHub) comes back as a Stream, also unpulled",
]

H = 16            # horizon for endless operands / results
BOUND = 64        # endless operands are bounded sources: an eager stage over-reads at once
STOP = "stop"
ENDLESS = "endless"
inf = float("inf")
nan = float("nan")


# --------------------------------------------------------------------------
# element types
# --------------------------------------------------------------------------
class Mx(object):
  """2x2 integer matrix: the element family implementing ``@`` (not iterable,
  not commutative)."""
  __slots__ = ("m",)

  def __init__(self, a, b, c, d):
    self.m = (a, b, c, d)

  def __matmul__(self, o):
    if not isinstance(o, Mx):
      return NotImplemented
    a, b, c, d = self.m
    e, f, g, h = o.m
    return Mx(a * e + b * g, a * f + b * h, c * e + d * g, c * f + d * h)

  # the same non-commutative product through * and a non-commutative "sum" (entries joined as
  # decimal digits), |, & and ^ (entry-wise on the *left* operand's first row only): operators
  # that commute on numbers need not commute on every element type
  def __mul__(self, o):
    return self.__matmul__(o)

  def __add__(self, o):
    if not isinstance(o, Mx):
      return NotImplemented
    return Mx(*[10 * x + y for x, y in zip(self.m, o.m)])

  def __or__(self, o):
    if not isinstance(o, Mx):
      return NotImplemented
    return Mx(self.m[0] | o.m[0], self.m[1], o.m[2], self.m[3] | o.m[3])

  def __and__(self, o):
    if not isinstance(o, Mx):
      return NotImplemented
    return Mx(self.m[0] & o.m[0], self.m[1], o.m[2], self.m[3] & o.m[3])

  def __xor__(self, o):
    if not isinstance(o, Mx):
      return NotImplemented
    return Mx(self.m[0] ^ o.m[0], self.m[1], o.m[2], self.m[3] ^ o.m[3])

  def __eq__(self, o):
    if not isinstance(o, Mx):
      return NotImplemented
    return self.m == o.m

  def __ne__(self, o):
    if not isinstance(o, Mx):
      return NotImplemented
    return self.m != o.m

  def __hash__(self):
    return hash(self.m)

  def __repr__(self):
    return "Mx%r" % (self.m,)


def el(v):
  """Case datum -> element (matrices travel as {"mx": [a, b, c, d]})."""
  if isinstance(v, dict):
    return Mx(*v["mx"])
  return v


def els(vs):
  return [el(v) for v in vs]


def sig(v):
  """Value + type + float bits signature (NaN equals NaN, 0.0 differs from -0.0)."""
  t = type(v)
  if t is float:
    return ("float", v.hex())
  if t is complex:
    return ("complex", v.real.hex(), v.imag.hex())
  if t is tuple:
    return ("tuple",) + tuple(sig(x) for x in v)
  if t is Mx:
    return ("Mx", v.m)
  if t is Fraction:
    return ("Fraction", v.numerator, v.denominator)
  if t in (int, bool, str):
    return (t.__name__, v)
  return (t.__name__, repr(v))


def eqv(a, b):
  """== with NaN equal to NaN (set semantics for expected results)."""
  if type(a) is tuple and type(b) is tuple:
    return len(a) == len(b) and all(eqv(x, y) for x, y in zip(a, b))
  return a == b or (a != a and b != b)


def hasnan(v):
  if type(v) is tuple:
    return any(hasnan(x) for x in v)
  return v != v


def close(g, e, tol, atol):
  """Tolerance comparison for transcendental closed forms (same type required)."""
  if type(g) is not type(e):
    return False
  if sig(g) == sig(e):
    return True
  if isinstance(e, (float, complex)):
    if isinstance(e, float) and (math.isnan(e) or math.isinf(e)):
      return False
    try:
      return abs(g - e) <= tol * abs(e) + atol
    except Exception:
      return False
  return False


# --------------------------------------------------------------------------
# leaves: (kind, payload) -> real object / model
# --------------------------------------------------------------------------
STREAM_KINDS = ["s_list", "s_tuple", "s_gen", "s_iter", "s_range", "s_chain", "s_cyc", "s_per", "s_const",
                "s_rep", "s_rep2"]
PLAIN_KINDS = ["list", "tuple", "gen", "iter", "deque", "range", "scalar"]
# a list / array.array operand that is CHANGED (grown, shrunk, items replaced) after the expression was
# built - before the first read or between two reads; payload (items, [(at, (op, arg)), ...]), see m_mut
MUT_KINDS = ("mlist", "marray")
# Stream(a) / Stream(a, b, c) are endless by construction (itertools.repeat / cycle):
# they only ever meet a finite iterable operand of a binary operator, so that a stage
# that wrongly reads eagerly still terminates (and is then caught by value or by the
# bounded "s_cyc" sources, which raise OverRead) instead of hanging the run.
TRUE_ENDLESS = ("s_per", "s_const", "s_ctl")
NOT_FINITE = TRUE_ENDLESS + ("s_cyc", "scalar")
# an operand with a history: a Stream ("s_used") or a plain generator / iterator ("p_used") from which n items
# were read - take(n), next(), a for loop that breaks, zip with a finite range - BEFORE the operator is
# applied; its elements are the remaining ones.  payload (inner kind, inner payload, n, how)
USED_KINDS = ("s_used", "p_used")
HOWS = ["take", "next", "for", "zip"]


class USub(Stream):
  """A user's Stream subclass that adds nothing."""


class URev(Stream):
  """A user's Stream subclass with its own __iter__: its elements - what iter() gives - are the stored
  sequence backwards, anew at every iter()."""

  def __init__(self, items):
    super(URev, self).__init__(items)
    self._items = list(items)

  def __iter__(self):
    return iter(self._items[::-1])


class URot(URev):
  """... with __iter__ written as a generator function: the stored sequence from its second item on,
  the first one last."""

  def __iter__(self):
    for x in self._items[1:] + self._items[:1]:
      yield x


class UIter(object):
  """A user's iterator class (has __next__; iter() gives itself)."""

  def __init__(self, data):
    self._d = list(data)
    self._i = 0

  def __iter__(self):
    return self

  def __next__(self):
    if self._i >= len(self._d):
      raise StopIteration
    self._i += 1
    return self._d[self._i - 1]


class UBag0(object):
  """A user's re-iterable container: __iter__ only (no len(), no indexing, no __next__)."""

  def __init__(self, data=()):
    self._d = tuple(data)

  def __iter__(self):
    return iter(self._d)


# Stream subclasses as operands.  "s_hub": payload (items, copies) - a StreamTeeHub; the expression uses one
# copy per appearance, every copy left over must still deliver all the items afterwards (_check_hubs)
SUB_KINDS = ("s_sub", "s_rev", "s_rot", "s_hub", "s_ctl")
# iterable operands that are neither Streams nor list / tuple / deque / range / generator / list iterator
ITER_KINDS = ("u_bag", "u_iter", "dictkeys", "dictvals", "islice", "mapobj", "bytes", "bytearray", "memoryview",
              "str")
_HUBS = []


def _check_hubs(what):
  """Every hub made for the expression just compared: the copies it has left deliver all its items."""
  hubs = list(_HUBS)
  del _HUBS[:]
  for hub, items in hubs:
    while hub._iters:
      got = list(iter(hub))
      if [sig(v) for v in got] != [sig(v) for v in items]:
        raise Violation("%s: a copy of the StreamTeeHub operand that was left for another use yields %r, "
                        "the hub was made from %r" % (what, got, items))


def consume(obj, n, how):
  """Read n items off a Stream / iterator the way its user does before going on using it."""
  if n <= 0:
    return
  if how == "take" and isinstance(obj, Stream):
    try:
      if n == 1:
        obj.take()
      else:
        obj.take(n)
    except StopIteration:
      pass
  elif how == "for":
    k = 0
    for _ in obj:
      k += 1
      if k >= n:
        break
  elif how == "zip":
    list(zip(range(n), obj))
  else:
    it_ = iter(obj)
    for _ in range(n):
      try:
        next(it_)
      except StopIteration:
        break


def base_kind(kind, p):
  return p[0] if kind in USED_KINDS else kind


def b_leaf(kind, p):
  if kind == "scalar":
    return el(p)
  if kind in USED_KINDS:
    obj = b_leaf(p[0], p[1])
    consume(obj, p[2], p[3])
    return obj
  if kind == "s_const":
    return Stream(el(p))
  if kind == "s_ctl":
    return audiolazy.ControlStream(el(p))
  if kind == "s_sub":
    return USub(els(p))
  if kind == "s_rev":
    return URev(els(p))
  if kind == "s_rot":
    return URot(els(p))
  if kind == "s_hub":
    hub = audiolazy.thub(els(p[0]), p[1])
    _HUBS.append((hub, els(p[0])))
    return hub
  if kind == "u_bag":
    return UBag0(els(p))
  if kind == "u_iter":
    return UIter(els(p))
  if kind == "dictkeys":
    return dict.fromkeys(els(p))
  if kind == "dictvals":
    return dict(enumerate(els(p))).values()
  if kind == "islice":
    return itertools.islice(iter(els(p)), None)
  if kind == "mapobj":
    return map(_ident, els(p))
  if kind == "bytes":
    return bytes(p)
  if kind == "bytearray":
    return bytearray(p)
  if kind == "memoryview":
    return memoryview(bytes(p))
  if kind == "str":
    return p
  if kind == "s_per":
    return Stream(*els(p))
  if kind == "s_rep":       # a *finite* constant Stream: itertools.repeat(value, times)
    return Stream(itertools.repeat(el(p[0]), p[1]))
  if kind == "s_rep2":      # the same through audiolazy's own wrapper
    return audiolazy.lazy_itertools.repeat(el(p[0]), p[1])
  if kind == "s_chain":
    return Stream(els(p[0]), (v for v in els(p[1])))
  if kind == "s_cyc":
    vs = els(p)
    return Stream(Src(None, BOUND, lambda i: vs[i % len(vs)]))
  if kind == "s_list":
    return Stream(els(p))
  if kind == "s_tuple":
    return Stream(tuple(els(p)))
  if kind == "s_gen":
    return Stream(v for v in els(p))
  if kind == "s_iter":
    return Stream(iter(els(p)))
  if kind == "s_range":
    return Stream(range(*p))
  if kind == "list":
    return els(p)
  if kind == "tuple":
    return tuple(els(p))
  if kind == "gen":
    return (v for v in els(p))
  if kind == "iter":
    return iter(els(p))
  if kind == "deque":
    return deque(els(p))
  if kind == "range":
    return range(*p)
  if kind == "mlist":
    return els(p[0])
  if kind == "marray":
    return _mk_array(p)(p[0])
  raise AssertionError(kind)


def _mk_array(p):
  """array.array constructor for a marray payload: 'q' when every value (items and event arguments)
  is a plain int, 'd' otherwise."""
  vals = list(p[0])
  for _at, (op, arg) in p[1]:
    if op in ("append",):
      vals.append(arg)
    elif op in ("extend", "iadd", "rebuild"):
      vals += list(arg)
    elif op in ("insert", "set"):
      vals.append(arg[1])
  if all(type(v) is int for v in vals):
    return lambda xs: array.array("q", xs)
  return lambda xs: array.array("d", [float(x) for x in xs])


def apply_event(obj, op, arg, mk):
  """One in-place change of a list / array operand (mk builds a sequence of obj's own type)."""
  if op == "append":
    obj.append(mk([el(arg)])[0])
  elif op == "extend":
    obj.extend(mk(els(arg)))
  elif op == "iadd":
    obj += mk(els(arg))
  elif op == "insert":
    obj.insert(arg[0], mk([el(arg[1])])[0])
  elif op == "set":
    if len(obj):
      obj[arg[0] % len(obj)] = mk([el(arg[1])])[0]
  elif op == "cut":
    del obj[arg:]
  elif op == "pop":
    if len(obj):
      obj.pop(arg % len(obj))
  elif op == "clear":
    del obj[:]
  elif op == "rebuild":
    obj[:] = mk(els(arg))
  elif op == "reverse":
    obj.reverse()
  else:
    raise AssertionError(op)


def mk_for(kind, p):
  return list if kind == "mlist" else _mk_array(p)


def m_mut(kind, p, upto=None):
  """A changed operand as the lazy result sees it: the result is read one position at a time, the
  i-th read of every iterable operand happens with the i-th pull of the result, so position i is
  the operand's i-th item *as it is at that moment* (events with at == i are applied just before
  pull i) and the operand ends at the first pull i that finds no i-th item.  -> (vals, effects);
  effects = labels of the events applied up to pull `upto` (None: all the operand lives to see)."""
  cur = b_leaf(kind, p)
  mk = mk_for(kind, p)
  vals, effects = [], set()
  i = 0
  while True:
    if upto is None or i <= upto:
      for at, (op, arg) in p[1]:
        if at == i:
          before = list(cur)
          apply_event(cur, op, arg, mk)
          when = "before the first read" if i == 0 else "between two reads"
          if len(cur) > len(before):
            effects.add("operand grown " + when)
          elif len(cur) < len(before):
            effects.add("operand shrunk " + when)
          elif [sig(v) for v in cur] != [sig(v) for v in before]:
            effects.add("operand items replaced " + when)
    if i >= len(cur):
      break
    vals.append(cur[i])
    i += 1
  return vals, effects


class M(object):
  """Model value: the first elements, how it terminates, whether it is a scalar."""
  __slots__ = ("vals", "tails", "scalar")

  def __init__(self, vals, tails, scalar=False):
    self.vals = vals
    self.tails = tails      # ENDLESS or a set of {STOP, exception classes}
    self.scalar = scalar


def m_leaf(kind, p):
  if kind == "scalar":
    return M([el(p)] * H, ENDLESS, True)
  if kind in USED_KINDS:
    ik, ip, n = p[0], p[1], p[2]
    if ik in ("s_per", "s_cyc"):
      vs = els(ip)
      return M([vs[(i + n) % len(vs)] for i in range(H)], ENDLESS)
    m = m_leaf(ik, ip)
    return m if m.tails == ENDLESS else M(m.vals[n:], m.tails)
  if kind in ("s_const", "s_ctl"):
    return M([el(p)] * H, ENDLESS)
  if kind == "s_hub":
    return M(els(p[0]), {STOP})
  if kind == "s_rev":
    return M(els(p)[::-1], {STOP})
  if kind == "s_rot":
    return M(els(p)[1:] + els(p)[:1], {STOP})
  if kind == "dictkeys":
    return M(list(dict.fromkeys(els(p))), {STOP})
  if kind == "str":
    return M(list(p), {STOP})
  if kind in ("s_per", "s_cyc"):
    vs = els(p)
    return M([vs[i % len(vs)] for i in range(H)], ENDLESS)
  if kind in ("s_rep", "s_rep2"):
    return M([el(p[0])] * p[1], {STOP})
  if kind == "s_chain":
    return M(els(p[0]) + els(p[1]), {STOP})
  if kind in ("range", "s_range"):
    return M(list(range(*p)), {STOP})
  if kind in MUT_KINDS:
    return M(m_mut(kind, p)[0], {STOP})
  return M(els(p), {STOP})


def m_bin(f, a, b):
  n = min(len(a.vals), len(b.vals))
  out = []
  for i in range(n):
    try:
      out.append(f(a.vals[i], b.vals[i]))
    except Exception as e:
      return M(out, {type(e)})
  tails = set()
  for o in (a, b):
    if o.tails != ENDLESS and len(o.vals) == n:
      tails |= o.tails
  if not tails:
    return M(out, ENDLESS)
  return M(out, tails)


def m_un(f, a):
  out = []
  for v in a.vals:
    try:
      out.append(f(v))
    except Exception as e:
      return M(out, {type(e)})
  return M(out, a.tails)


def drain(res, model, sched=None):
  """Pull the real result as far as the model goes (+1) and report how it ended.
  sched: {k: [thunk, ...]} run just before pull k (changes of operands between two reads)."""
  it = iter(res)
  limit = H if model.tails == ENDLESS else len(model.vals) + 1
  out = []
  for k in range(limit):
    if sched:
      for thunk in sched.get(k, ()):
        thunk()
    try:
      out.append(next(it))
    except StopIteration:
      try:
        extra = next(it)
      except Exception:
        # StopIteration again - or the failure of a longer operand's later
        # element, which the property leaves open; a *value* is never allowed
        return out, STOP
      raise Violation("result yielded %r after raising StopIteration (prefix %r)" % (extra, out))
    except Exception as e:
      return out, type(e)
  return out, ENDLESS


def tails_txt(t):
  if t == ENDLESS:
    return ENDLESS
  return "/".join(sorted(x if isinstance(x, str) else x.__name__ for x in t))


def compare(res, model, what, sched=None):
  got, end = drain(res, model, sched)
  exp = model.vals
  if [sig(v) for v in got] != [sig(v) for v in exp]:
    k = 0
    while k < min(len(got), len(exp)) and sig(got[k]) == sig(exp[k]):
      k += 1
    raise Violation("%s: element %d differs (or length %d != %d): got %r, expected %r then %s"
                    % (what, k, len(got), len(exp), got, exp, tails_txt(model.tails)))
  if model.tails == ENDLESS:
    if end != ENDLESS:
      raise Violation("%s: endless result expected, got %r then %s" % (what, got, end))
  elif end not in model.tails:
    raise Violation("%s: after %r the result must end with %s, it ended with %s"
                    % (what, got, tails_txt(model.tails),
                       end if isinstance(end, str) else end.__name__))
  _check_hubs(what)
  return got, end


# --------------------------------------------------------------------------
# reading on after a caught element-level exception
# --------------------------------------------------------------------------
OPEN = "open"     # nothing is asserted beyond the modelled positions


class Bad(object):
  """A position whose element operation raises (one of) the given exception classes."""
  __slots__ = ("excs",)

  def __init__(self, excs):
    self.excs = frozenset(excs)

  def __repr__(self):
    return "<%s>" % "/".join(sorted(e.__name__ for e in self.excs))


class R(object):
  """Position-by-position model: outs[i] is a value or Bad; tails is ENDLESS, OPEN or a set
  of {STOP, exception classes} saying what the pull after the last position gives."""
  __slots__ = ("outs", "tails", "scalar")

  def __init__(self, outs, tails, scalar=False):
    self.outs = outs
    self.tails = tails
    self.scalar = scalar


def r_leaf(kind, p):
  m = m_leaf(kind, p)
  return R(list(m.vals), m.tails, m.scalar)


def r_bin(f, a, b):
  """Operator node.  Position i of the result is f(a_i, b_i) whatever happened at the positions
  before.  A position an *operand* could not produce (a nested failure) fails in the result too;
  the property does not say whether the partner's element of that position is consumed then, so
  the model goes on only when the partner is a scalar and is OPEN from there otherwise."""
  n = min(len(a.outs), len(b.outs))
  outs = []
  for i in range(n):
    x, y = a.outs[i], b.outs[i]
    xb, yb = isinstance(x, Bad), isinstance(y, Bad)
    if xb or yb:
      outs.append(Bad((x.excs if xb else frozenset()) | (y.excs if yb else frozenset())))
      if (xb and not b.scalar) or (yb and not a.scalar):
        return R(outs, OPEN)
      continue
    try:
      outs.append(f(x, y))
    except Exception as e:
      outs.append(Bad([type(e)]))
  tails = set()
  for o in (a, b):
    if len(o.outs) == n:
      if o.tails == OPEN:
        return R(outs, OPEN)
      if o.tails != ENDLESS:
        tails |= o.tails
    elif isinstance(o.outs[n], Bad):
      # the longer operand fails at the very index where the other one ends: either termination
      tails |= o.outs[n].excs
  if not tails:
    return R(outs, ENDLESS)
  return R(outs, tails)


def r_un(f, a, resumes=True):
  """Unary node.  resumes=False: attribute / call / broadcast-function nodes, for which the
  property does not promise anything after a failing position (a broadcast function over a
  list raises as a whole, over a generator it returns a generator, which is finished by the
  first exception): OPEN from the first failing position on."""
  outs = []
  for x in a.outs:
    if isinstance(x, Bad):
      outs.append(x)
    else:
      try:
        outs.append(f(x))
        continue
      except Exception as e:
        outs.append(Bad([type(e)]))
    if not resumes:
      return R(outs, OPEN)
  return R(outs, a.tails)


def has_bad(r):
  return any(isinstance(x, Bad) for x in r.outs)


def resume_labels(r):
  bad = [i for i, x in enumerate(r.outs) if isinstance(x, Bad)]
  if not bad:
    return []
  labels = []
  if any(not isinstance(x, Bad) for x in r.outs[bad[0] + 1:]):
    labels.append("value after a failing position")
  if len(r.outs) > bad[0] + 1 or r.tails not in (OPEN, ENDLESS):
    labels.append("read on after exception")
  if len(bad) > 1:
    labels.append("several failing positions")
  if r.tails == OPEN:
    labels.append("open after nested failure")
  return labels


def _otxt(o):
  if o == STOP:
    return STOP
  if isinstance(o, tuple):
    return repr(o[0])
  return o.__name__


def compare_resumed(res, r, what):
  """The consumer catches every element-level exception and keeps pulling the same result."""
  it = iter(res)
  limit = len(r.outs) + (0 if r.tails in (ENDLESS, OPEN) else 1)
  got = []                      # (value,) / exception class / STOP
  for _ in range(limit):
    try:
      got.append((next(it),))
    except StopIteration:
      try:
        extra = next(it)
      except Exception:
        got.append(STOP)
        break
      raise Violation("%s: result yielded %r after raising StopIteration (read so far: %s)"
                      % (what, extra, ", ".join(_otxt(g) for g in got)))
    except Exception as e:
      got.append(type(e))

  def fail(k, why):
    raise Violation("%s: reading on after caught element exceptions, pull %d %s: got [%s], expected %r then %s"
                    % (what, k, why, ", ".join(_otxt(g) for g in got), r.outs,
                       r.tails if isinstance(r.tails, str) else tails_txt(r.tails)))
  for k, e in enumerate(r.outs):
    if k >= len(got) or got[k] == STOP:
      fail(k, "ended although every iterable operand still has an element for this position")
    g = got[k]
    if isinstance(e, Bad):
      if isinstance(g, tuple):
        fail(k, "gave a value where the element operation raises")
      if g not in e.excs:
        fail(k, "raised another exception class")
    elif not isinstance(g, tuple):
      fail(k, "raised %s where the element operation gives a value" % g.__name__)
    elif sig(g[0]) != sig(e):
      fail(k, "differs")
  if r.tails not in (ENDLESS, OPEN):
    k = len(r.outs)
    end = got[k] if k < len(got) else None
    if isinstance(end, tuple) or end not in r.tails:
      fail(k, "must be the end (%s)" % tails_txt(r.tails))
  _check_hubs(what)
  return got


# --------------------------------------------------------------------------
# operator tables
# --------------------------------------------------------------------------
BIN = "add sub mul truediv floordiv mod pow rshift lshift and or xor matmul".split()
CMP = "lt le eq ne gt ge".split()
UN = "pos neg invert".split()
METHODS = BIN + ["r" + b for b in BIN] + CMP + UN
assert len(METHODS) == 35 and len(set(METHODS)) == 35
OPF = dict((n, getattr(operator, "__%s__" % n)) for n in BIN + CMP + UN)
OPF["abs"] = abs


def minfo(m):
  """method name -> (base operator name, reflected?, arity)."""
  if m in UN or m == "abs":
    return m, False, 1
  if m in BIN or m in CMP:
    return m, False, 2
  assert m[0] == "r" and m[1:] in BIN, m
  return m[1:], True, 2


# element strategies --------------------------------------------------------
def wone(*pairs):
  """Weighted one_of (one_of itself drops repeated branches): (weight, strategy)..."""
  pool = [s for w, s in pairs for _ in range(w)]
  return st.integers(0, len(pool) - 1).flatmap(lambda i: pool[i])


INTS = st.integers(-9, 9)
BOOLS = st.booleans()
FLOATS = st.one_of(st.floats(-9, 9, allow_nan=False, width=32),
                   st.sampled_from([0.0, -0.0, 0.5, -1.5, 2.0, 0.001, 1e10, 3.0]))
SPECIAL = st.sampled_from([inf, -inf, nan])
FRACS = st.fractions(-9, 9, max_denominator=6)
HALVES = st.integers(-8, 8).map(lambda k: k / 2.)
CPLX = st.builds(complex, HALVES, HALVES)
MXS = st.lists(st.integers(-3, 3), min_size=4, max_size=4).map(lambda v: {"mx": v})
FAM = {"int": INTS, "bool": BOOLS, "float": FLOATS, "frac": FRACS, "complex": CPLX,
       "floatx": wone((6, FLOATS), (1, SPECIAL)),
       "real": st.one_of(INTS, FLOATS, FRACS, BOOLS),
       "mixed": st.one_of(INTS, FLOATS, FRACS, BOOLS, CPLX),
       "mx": MXS,
       # == and != are defined for every object: None is an element (and a scalar operand) like any other
       "objects": st.sampled_from([None, None, None, 0, 1, 1.5, True]),
       "wild": wone((2, INTS), (2, FLOATS), (2, FRACS), (1, BOOLS), (2, CPLX), (1, SPECIAL), (1, MXS))}
# floats at the edges of the format: subnormals, the largest / smallest normals, powers of two over the
# whole exponent range (most of them next to its two ends), signed zeros, infinities, nan; complex numbers
# whose parts are signed zeros; a few ordinary values, small ints and bools among them
FMAX = 1.7976931348623157e308
FMIN = 2.2250738585072014e-308
POW2 = st.tuples(st.sampled_from([1.0, 1.0, -1.0]),
                 wone((3, st.integers(-1074, -1018)), (2, st.integers(1018, 1023)), (2, st.integers(-1074, 1023)),
                      (1, st.integers(-3, 3)))).map(lambda t: t[0] * 2.0 ** t[1])
EDGES = st.sampled_from([5e-320, 1e-310, -2.5e-310, 3e-320, FMAX, -FMAX, FMIN, -FMIN, 1e308, -1e308, 1e-300, 1e300,
                         1 / 3., 0.1, 2.0 ** 53, 2.0 ** 53 + 2])
EXTF = wone((4, POW2), (2, EDGES), (1, st.floats(allow_nan=False, allow_infinity=False)),
            (1, st.floats(-2.3e-308, 2.3e-308)), (2, st.sampled_from([0.0, -0.0, 1.0, -1.0, 0.5, 2.0, 3.0])),
            (1, SPECIAL), (1, st.one_of(st.integers(-3, 3), BOOLS)))
_ZPART = st.sampled_from([-0.0, 0.0, -0.0, 1.0, -1.0, 0.5, -2.0, 3.0, 1e-310, inf])
CPLXZ = st.builds(complex, _ZPART, _ZPART)
FAM["extr"] = EXTF
FAM["ext"] = wone((5, EXTF), (2, CPLXZ))
EXPONENTS = st.one_of(st.integers(-2, 3), st.integers(0, 3),
                      st.sampled_from([0.5, 2.0, Fraction(1, 2), True]))
SHIFTS = wone((8, st.integers(0, 8)), (1, st.integers(-1, 8)), (1, BOOLS))
WIDE = st.one_of(st.integers(-99, 99), BOOLS)
BITS = st.one_of(INTS, BOOLS)


def rng(lo, hi, maxlen=6):
  """range(...) payload with items inside [lo, hi]."""
  def mk(t):
    a, n, step = t
    if step > 0:
      stop = min(hi, a + (n - 1) * step) + 1 if n else a
    else:
      stop = max(lo, a + (n - 1) * step) - 1 if n else a
    return [a, stop, step]
  return st.tuples(st.integers(lo, hi), st.integers(0, maxlen),
                   st.sampled_from([1, 1, 2, -1])).map(mk)


SPECS = {"wide": (WIDE, rng(-20, 20)), "shifts": (SHIFTS, rng(0, 8)), "bits": (BITS, rng(-9, 9)),
         "exps": (EXPONENTS, rng(-2, 3, 4)), "int": (INTS, rng(-9, 9))}
for _f in FAM:
  SPECS.setdefault(_f, (FAM[_f], None))


def domain(base):
  """-> list of (family label, left side spec name, right side spec name);
  a spec (SPECS) is (element strategy, range strategy or None)."""
  if base in ("rshift", "lshift"):
    dom = [("shift", "wide", "shifts")]
  elif base in ("and", "or", "xor", "invert"):
    dom = [("bits", "bits", "bits"), ("bool", "bool", "bits")]
    if base != "invert":
      dom = dom * 3 + [("mx", "mx", "mx")]
  elif base == "pow":
    dom = [(f, f, "exps") for f in ("int", "float", "frac", "complex", "mixed", "real")]
  elif base == "matmul":
    dom = [("mx", "mx", "mx")] * 4 + [("mx", "wild", "mx")]
  else:
    fams = ["int", "bool", "float", "frac", "complex", "floatx", "real", "mixed"]
    if base in ("floordiv", "mod", "lt", "le", "gt", "ge"):
      fams = ["int", "bool", "float", "frac", "floatx", "real", "real", "mixed"]
    dom = [(f, f, f) for f in fams]
    dom += [("int*" + f, "int", f) for f in ("float", "frac", "complex")]
    dom += [(f + "*int", f, "int") for f in ("float", "frac", "complex")]
    if base in ("eq", "ne"):
      dom += [("objects", "objects", "objects")] * 3
    if base in ("add", "mul"):
      # element types on which + and * do not commute: the reflected operator must keep the order
      # (strings / tuples would do as well, but as scalar operands they are iterables, not scalars)
      dom += [("mx", "mx", "mx")] * 2
  return dom * 6 + [("wild", "wild", "wild")]


def lst(e, mn=0, mx=6):
  return wone((3, st.lists(e, min_size=max(mn, 2), max_size=mx)),
              (1, st.lists(e, min_size=mn, max_size=mx)))


def stream_leaf(spec, endless="cyc"):
  """endless: "none" (finite kinds only), "cyc" (+ bounded endless source),
  "true" (only Stream(a) / Stream(a, b, ...))."""
  e, r = spec
  if endless == "true":
    return st.one_of(st.tuples(st.just("s_per"), st.lists(e, min_size=2, max_size=4)),
                     st.tuples(st.just("s_const"), e))
  opts = [st.tuples(st.just(k), lst(e)) for k in ("s_list", "s_tuple", "s_gen", "s_iter")]
  opts.append(st.tuples(st.just("s_chain"), st.tuples(st.lists(e, max_size=3), st.lists(e, max_size=3))))
  opts.append(st.tuples(st.sampled_from(["s_rep", "s_rep2"]), st.tuples(e, st.integers(0, 5))))
  if r is not None:
    opts.append(st.tuples(st.just("s_range"), r))
  if endless == "cyc":
    opts += [st.tuples(st.just("s_cyc"), st.lists(e, min_size=1, max_size=4))] * 2
    return wone(*[(1, o) for o in opts])
  return st.one_of(opts)


def plain_leaf(spec, scalar=True):
  e, r = spec
  opts = [st.tuples(st.just(k), lst(e)) for k in ("list", "tuple", "gen", "iter", "deque")]
  if r is not None:
    opts.append(st.tuples(st.just("range"), r))
  if scalar:
    return wone(*([(1, o) for o in opts] + [(2, st.tuples(st.just("scalar"), e))]))
  return st.one_of(opts)


def used_of(leaf, kind="s_used"):
  """leaf: strategy of (kind, payload) -> the same operand with 0..7 (mostly 1..3) items read beforehand."""
  n = wone((3, st.integers(1, 3)), (1, st.integers(0, 7)))
  return st.tuples(leaf, n, st.sampled_from(HOWS)).map(lambda t: (kind, (t[0][0], t[0][1], t[1], t[2])))


def canary(dunder, ms, o, mo):
  """Before an operator is applied to operands none of which is finite and one of which is endless by
  construction (itertools.cycle / repeat inside Stream(a, b, c) / Stream(a)): the same call on bounded
  sources with the same first elements.  A stage that reads eagerly raises OverRead here instead of
  hanging the run on the endless one."""
  s = Stream(Src(None, BOUND, lambda i: ms.vals[i % len(ms.vals)]))
  if mo is None:
    res = getattr(s, dunder)()
  elif mo.scalar:
    res = getattr(s, dunder)(o)
  else:
    res = getattr(s, dunder)(Stream(Src(None, BOUND, lambda i: mo.vals[i % len(mo.vals)])))
  try:
    next(iter(res))
  except Exception:
    pass


# --------------------------------------------------------------------------
# G.a operator matrix: every dunder called directly
# --------------------------------------------------------------------------
_CACHE = {}


def cached(key, make):
  """Strategies are built once per process (never inside flatmap per draw)."""
  if key not in _CACHE:
    _CACHE[key] = make()
  return _CACHE[key]


def sleaf_c(spec, endless="cyc"):
  return cached(("sleaf", spec, endless), lambda: stream_leaf(SPECS[spec], endless))


def oleaf_c(spec):
  return cached(("oleaf", spec), lambda: wone((3, plain_leaf(SPECS[spec])), (2, stream_leaf(SPECS[spec]))))


def ofinite_c(spec):
  return cached(("ofin", spec), lambda: wone((3, plain_leaf(SPECS[spec], scalar=False)),
                                             (2, stream_leaf(SPECS[spec], "none"))))


def _for_domain(m, d):
  base, rev, arity = minfo(m)
  fam, left, right = d
  head = dict(m=st.just(m), fam=st.just(fam))
  if arity == 1:
    return st.fixed_dictionaries(dict(head, s=sleaf_c(left), o=st.none()))
  sspec, ospec = (right, left) if rev else (left, right)
  return wone(
    (6, st.fixed_dictionaries(dict(head, s=sleaf_c(sspec), o=oleaf_c(ospec)))),
    (1, st.fixed_dictionaries(dict(head, s=sleaf_c(sspec, "true"), o=ofinite_c(ospec)))),
    (1, st.fixed_dictionaries(dict(head, s=sleaf_c(sspec, "none"), o=sleaf_c(ospec, "true")))))


def _matrix_for_method(m):
  base, rev, arity = minfo(m)
  return st.sampled_from(domain(base)).flatmap(lambda d: cached(("matrix", m, d), lambda: _for_domain(m, d)))


def strat_matrix(tier):
  return st.sampled_from(METHODS + ["abs"]).flatmap(
    lambda m: cached(("matrix", m), lambda: _matrix_for_method(m)))


# the same matrix over operands in which SOME positions make the element operation raise ----------
_MX1 = {"mx": [1, 2, 3, 4]}
_REAL3 = st.one_of(st.integers(-3, 3), st.sampled_from([0.5, -1.5, 2.0, Fraction(1, 2), Fraction(-2, 3), True]))
SPECS.update({
  # shifts: a negative count raises ValueError, None / a float TypeError
  "f_wide": (wone((6, WIDE), (1, st.sampled_from([None, 1.5]))), None),
  "f_shifts": (wone((4, st.integers(0, 8)), (2, st.sampled_from([-1, -2, -1, None]))), None),
  # bitwise: floats and None do not implement them
  "f_bits": (wone((4, BITS), (1, st.sampled_from([None, 1.5, 2.0]))), None),
  # pow: 0 ** negative (ZeroDivisionError), 1e10 ** 400 (OverflowError), None (TypeError)
  "f_powb": (st.sampled_from([0, 0.0, 0, 2, 3, -1.5, 2.0, 1e10, 1e10, Fraction(1, 2), None]), None),
  "f_powe": (st.sampled_from([-1, -2, 2, 3, 0.5, 1, 400, 400, None]), None),
  # matmul: only Mx @ Mx is defined
  "f_mx": (wone((4, MXS), (1, st.sampled_from([1, None, 2.5]))), None),
  # division: zeros of every type among the divisors
  "f_num": (wone((7, _REAL3), (1, st.just(None))), None),
  "f_den": (wone((3, _REAL3), (2, st.sampled_from([0, 0.0, False, Fraction(0), 0, None]))), None),
  # order comparisons: complex numbers and None are not ordered
  "f_ord": (wone((4, _REAL3), (1, st.sampled_from([None, 1j, 2 + 0j]))), None),
  # + - * and the unary operators: None and (for the mixed pairs) a matrix among numbers
  "f_any": (wone((4, st.one_of(_REAL3, CPLX)), (1, st.sampled_from([None, None, _MX1]))), None),
})
FAULTY_METHODS = [m for m in METHODS + ["abs"] if m not in ("eq", "ne")]   # == and != never raise here


def faulty_domain(base):
  if base in ("rshift", "lshift"):
    return ("faulty", "f_wide", "f_shifts")
  if base in ("and", "or", "xor", "invert"):
    return ("faulty", "f_bits", "f_bits")
  if base == "pow":
    return ("faulty", "f_powb", "f_powe")
  if base == "matmul":
    return ("faulty", "f_mx", "f_mx")
  if base in ("truediv", "floordiv", "mod"):
    return ("faulty", "f_num", "f_den")
  if base in ("lt", "le", "gt", "ge"):
    return ("faulty", "f_ord", "f_ord")
  return ("faulty", "f_any", "f_any")


def strat_faulty(tier):
  return st.sampled_from(FAULTY_METHODS).flatmap(
    lambda m: cached(("faulty", m), lambda: _for_domain(m, faulty_domain(minfo(m)[0]))))


def twins(v):
  """Scalars that compare equal to v but have another numeric type (3 / 3.0 / Fraction(3) / 3+0j,
  1 / True, 0.5 / Fraction(1, 2))."""
  out = []
  if type(v) in (bool, int, float, Fraction, complex):
    for t in (int, float, Fraction, bool, complex):
      try:
        w = t(v)
      except Exception:
        continue
      if type(w) is not type(v) and w == v and not any(type(w) is type(x) for x in out):
        out.append(w)
  return out


def run_matrix(case):
  del _HUBS[:]
  m = case["m"]
  base, rev, arity = minfo(m)
  f = OPF[base]
  skind, sp = case["s"]
  s = b_leaf(skind, sp)
  ms = m_leaf(skind, sp)
  labels = ["op:" + m, "self:" + skind, "fam:" + case["fam"]]
  dunder = "__%s__" % m
  if dunder not in vars(Stream):
    raise Violation("Stream has no %s of its own" % dunder)
  kinds = [(skind, sp)] + ([tuple(case["o"])] if arity == 2 else [])
  models = [m_leaf(k, p) for k, p in kinds]
  if all(mm.tails == ENDLESS for mm in models) and any(base_kind(k, p) in TRUE_ENDLESS for k, p in kinds) \
     and all(mm.vals for mm in models):
    canary(dunder, ms, b_leaf(*kinds[1]) if arity == 2 and models[1].scalar else None,
           models[1] if arity == 2 else None)
    labels.append("no finite operand")
  if any(k in USED_KINDS for k, p in kinds):
    labels.append("operand partly read before the operator")
    if any(k in USED_KINDS and p[0] == "s_per" and p[2] % len(p[1]) for k, p in kinds):
      labels.append("periodic operand read off phase")
      if arity == 2 and models[1].scalar:
        labels.append("periodic operand read off phase, scalar partner")
  if arity == 1:
    res = getattr(s, dunder)()
    model = m_un(f, ms)
    operands = [ms]
    rmodel = r_un(f, r_leaf(skind, sp))
    again = lambda: getattr(b_leaf(skind, sp), dunder)()
  else:
    okind, op = case["o"]
    o = b_leaf(okind, op)
    mo = m_leaf(okind, op)
    labels.append("other:" + okind)
    if okind == "scalar":
      # history: the same operator was just used with equal scalars of other numeric types (on other
      # Streams); the operand repeated for every position is still the one given here
      tw = twins(o)
      for w in tw:
        getattr(b_leaf(skind, sp), dunder)(w)
      if tw:
        labels.append("equal scalar of another type used before")
    res = getattr(s, dunder)(o)
    if rev:
      labels.append("reflected")
      model = m_bin(f, mo, ms)
      rmodel = r_bin(f, r_leaf(okind, op), r_leaf(skind, sp))
    else:
      model = m_bin(f, ms, mo)
      rmodel = r_bin(f, r_leaf(skind, sp), r_leaf(okind, op))
    operands = [ms, mo]
    again = lambda: getattr(b_leaf(skind, sp), dunder)(b_leaf(okind, op))
  if type(res) is not Stream:
    raise Violation("%s.%s(%s) returned %r, not a Stream" % (skind, dunder, case["o"] and case["o"][0], res))
  what = "%s %s on %r / %r" % (dunder, case["fam"], case["s"], case["o"])
  compare(res, model, what)
  labels += outcome_labels(model, operands)
  if has_bad(rmodel):
    # the same expression built anew; this time the consumer catches element errors and reads on
    compare_resumed(again(), rmodel, what)
    labels += resume_labels(rmodel)
  nt = (len(model.vals) >= 2 or (has_bad(rmodel) and len(rmodel.outs) >= 2)) and not all(o.scalar for o in operands)
  return {"nontrivial": nt, "labels": labels}


def outcome_labels(model, operands):
  labels = []
  fin = [len(o.vals) for o in operands if o.tails != ENDLESS]
  if len(fin) >= 2 and len(set(fin)) > 1:
    labels.append("unequal lengths")
  if fin and any(o.tails == ENDLESS and not o.scalar for o in operands):
    labels.append("periodic truncated")
  if fin and any(o.scalar for o in operands):
    labels.append("scalar repeated")
  if model.tails == ENDLESS:
    labels.append("endless result")
  elif model.tails == {STOP}:
    labels.append("clean end")
  else:
    labels.append("element exception")
    if len(model.tails) > 1:
      labels.append("ambiguous end")
  if not model.vals:
    labels.append("empty result")
  return labels


# enumerated grid: every (method, self kind, other kind) at least twice ------
_GRID = {
  "arith": ([3, -2, 7, 0, 5, -4], [2, 5, -3, 4], 4),
  "frac": ([Fraction(1, 2), Fraction(-3, 4), 2, 0.5, Fraction(5, 3)], [Fraction(2, 3), 3, -1.5, 1], -2),
  "bits": ([5, -3, 6, True, 12, 0], [3, 6, False, -7], 10),
  "shiftl": ([5, -3, 64, True, 12, 0], [40, -9, 7, 1, 33], -77),
  "shiftr": ([1, 0, 3, 2, 1, 4], [2, 1, 0, 3], 2),
  "powb": ([2, -3, 0.5, Fraction(2, 3), 4, 1j], [3, -2, 1.5, 2], 3),
  "powe": ([2, 0, 3, -1, 1, 2], [2, 3, 1, -1], 2),
  "mx": ([{"mx": [1, 2, 3, 4]}, {"mx": [0, 1, 1, 0]}, {"mx": [2, 0, 1, 1]}, {"mx": [1, 1, 0, 1]}],
         [{"mx": [0, 1, 2, 3]}, {"mx": [1, 1, 1, 0]}, {"mx": [3, 0, 0, 1]}], {"mx": [1, 2, 0, 1]}),
}


def _grid_vectors(base):
  """-> list of (label, (left long, left short, left scalar), (right ...))."""
  if base == "lshift" or base == "rshift":
    return [("shift", _GRID["shiftl"], _GRID["shiftr"])]
  if base in ("and", "or", "xor", "invert"):
    return [("bits", _GRID["bits"], _GRID["bits"])]
  if base == "pow":
    return [("pow", _GRID["powb"], _GRID["powe"])]
  if base == "matmul":
    return [("mx", _GRID["mx"], _GRID["mx"])]
  return [("int", _GRID["arith"], _GRID["arith"]), ("frac", _GRID["frac"], _GRID["frac"])]


def _grid_leaf(kind, vec, which):
  long_, short, scalar = vec
  xs = long_ if which == 0 else short
  if kind in ("scalar", "s_const"):
    return (kind, scalar)
  if kind in ("s_per", "s_cyc"):
    return (kind, xs[:3])
  if kind in ("s_rep", "s_rep2"):
    return (kind, (scalar, max(1, len(xs) - 2)))
  if kind == "s_chain":
    return (kind, (xs[:2], xs[2:]))
  if kind in ("range", "s_range"):
    return None
  return (kind, list(xs))


def grid(tier, shard, nshards):
  i = 0
  for m in METHODS + ["abs"]:
    base, rev, arity = minfo(m)
    for fam, left, right in _grid_vectors(base):
      svec, ovec = (right, left) if rev else (left, right)
      for which in (0, 1):
        for skind in STREAM_KINDS:
          s = _grid_leaf(skind, svec, which)
          if s is None or (arity == 1 and skind in TRUE_ENDLESS):
            continue
          if arity == 1:
            i += 1
            if i % nshards == shard:
              yield dict(m=m, fam=fam, s=s, o=None)
            continue
          for okind in PLAIN_KINDS + STREAM_KINDS:
            o = _grid_leaf(okind, ovec, 1 - which)
            if o is None or (skind in TRUE_ENDLESS and okind in NOT_FINITE) or \
               (okind in TRUE_ENDLESS and skind in NOT_FINITE):
              continue
            i += 1
            if i % nshards == shard:
              yield dict(m=m, fam=fam, s=s, o=o)


# the matrix over operands with a history: some of their items were read before the operator is applied ------
def _used_for_domain(m, d):
  base, rev, arity = minfo(m)
  fam, left, right = d
  head = dict(m=st.just(m), fam=st.just(fam))
  sspec, ospec = (right, left) if rev else (left, right)
  if arity == 1:
    sspec = left
  s_any = used_of(sleaf_c(sspec))               # list / tuple / generator / chain / repeat / bounded cycle
  s_true = used_of(sleaf_c(sspec, "true"))      # Stream(a, b, c) / Stream(a)
  if arity == 1:
    return st.fixed_dictionaries(dict(head, s=wone((2, s_any), (1, s_true)), o=st.none()))
  e, r = SPECS[ospec]
  scalar = st.tuples(st.just("scalar"), e)
  o_used = wone((2, used_of(stream_leaf(SPECS[ospec])), ),
                (1, used_of(st.tuples(st.sampled_from(["gen", "iter"]), lst(e)), "p_used")))
  fd = lambda **kw: st.fixed_dictionaries(dict(head, **kw))
  return wone(
    (3, fd(s=s_true, o=scalar)),                       # endless result: the first H positions are compared
    (2, fd(s=s_true, o=ofinite_c(ospec))),
    (1, fd(s=s_true, o=used_of(sleaf_c(ospec, "true")))),
    (2, fd(s=s_any, o=scalar)),
    (2, fd(s=s_any, o=o_used)),
    (1, fd(s=s_any, o=oleaf_c(ospec))),
    (1, fd(s=sleaf_c(sspec), o=o_used)),
    (1, fd(s=sleaf_c(sspec, "none"), o=used_of(sleaf_c(ospec, "true")))))


def strat_used(tier):
  def for_method(m):
    return st.sampled_from(domain(minfo(m)[0])).flatmap(
      lambda d: cached(("used", m, d), lambda: _used_for_domain(m, d)))
  return st.sampled_from(METHODS + ["abs"]).flatmap(lambda m: cached(("used", m), lambda: for_method(m)))


# the matrix over operands that are Stream subclasses ----------------------------------------------------
def sub_leaf(spec, endless=False):
  e, r = spec
  opts = [(w, st.tuples(st.just(k), lst(e))) for w, k in ((1, "s_sub"), (2, "s_rev"), (2, "s_rot"))]
  opts.append((4, st.tuples(st.just("s_hub"), st.tuples(lst(e), st.integers(1, 3)))))
  if endless:
    opts.append((1, st.tuples(st.just("s_ctl"), e)))
  return wone(*opts)


def _sub_for_domain(m, d):
  base, rev, arity = minfo(m)
  fam, left, right = d
  head = dict(m=st.just(m), fam=st.just(fam))
  sspec, ospec = (right, left) if rev else (left, right)
  if arity == 1:
    return st.fixed_dictionaries(dict(head, s=sub_leaf(SPECS[left]), o=st.none()))
  fd = lambda **kw: st.fixed_dictionaries(dict(head, **kw))
  return wone(
    (3, fd(s=sub_leaf(SPECS[sspec]), o=oleaf_c(ospec))),
    (3, fd(s=sleaf_c(sspec), o=sub_leaf(SPECS[ospec]))),
    (2, fd(s=sub_leaf(SPECS[sspec]), o=sub_leaf(SPECS[ospec]))),
    (1, fd(s=st.tuples(st.just("s_ctl"), SPECS[sspec][0]), o=ofinite_c(ospec))),
    (1, fd(s=sleaf_c(sspec, "none"), o=st.tuples(st.just("s_ctl"), SPECS[ospec][0]))))


def strat_subclasses(tier):
  def for_method(m):
    return st.sampled_from(domain(minfo(m)[0])).flatmap(
      lambda d: cached(("sub", m, d), lambda: _sub_for_domain(m, d)))
  # (abs() is not one of the 35 methods and works in place: it returns its operand, see operand_kept)
  return st.sampled_from(METHODS).flatmap(lambda m: cached(("sub", m), lambda: for_method(m)))


def run_kinds(case):
  """run_matrix + labels for the operand kinds of the clauses subclasses / iterables."""
  rec = run_matrix(case)
  kinds = [case["s"][0]] + ([case["o"][0]] if case["o"] is not None else [])
  if any(k in ("s_rev", "s_rot") for k in kinds):
    rec["labels"].append("Stream subclass with its own __iter__")
  if any(k == "s_hub" for k in kinds):
    rec["labels"].append("StreamTeeHub operand")
    if any(k == "s_hub" and p[1] > 1 for k, p in [case["s"]] + ([case["o"]] if case["o"] is not None else [])):
      rec["labels"].append("StreamTeeHub operand with copies left for other uses")
  if kinds[0] in SUB_KINDS:
    rec["labels"].append("self is an instance of a Stream subclass")
  if any(k in ITER_KINDS for k in kinds):
    rec["labels"].append("iterable operand of another kind")
  return rec


# the matrix over iterable operands of further kinds ----------------------------------------------------
_GEN_ITER = ["u_bag", "u_iter", "dictkeys", "dictvals", "islice", "mapobj"]
_BYTES = ["bytes", "bytearray", "memoryview"]
_BYTE_RANGE = {"shifts": 8, "exps": 3, "int": 255, "wide": 255, "bits": 255, "bool": 1, "real": 255, "mixed": 255}
STRS = st.sampled_from(["a", "b", "ab", "", "x", "%s!", "<%s>", "Z", "\xe9", "a", "b"])
FAM["str"] = STRS
FAM["count"] = st.integers(0, 3)
SPECS["str"] = (STRS, None)
SPECS["count"] = (FAM["count"], None)
TEXT = wone((3, st.text(alphabet="abxZ%s \xe9", min_size=2, max_size=6)), (1, st.text(alphabet="ab%", max_size=3)))
# method -> (family label, spec of self's elements); the other operand is a str (its elements: its characters)
STR_METHODS = {"add": "str", "radd": "str", "mul": "count", "rmul": "count", "mod": "str", "rmod": "str",
               "lt": "str", "le": "str", "gt": "str", "ge": "str", "eq": "str", "ne": "str"}


def _iter_for_domain(m, d):
  base, rev, arity = minfo(m)
  fam, left, right = d
  head = dict(m=st.just(m), fam=st.just(fam))
  sspec, ospec = (right, left) if rev else (left, right)
  e = SPECS[ospec][0]
  s = wone((4, sleaf_c(sspec)), (1, sleaf_c(sspec, "true")))
  o = st.tuples(st.sampled_from(_GEN_ITER), lst(e))
  if ospec in _BYTE_RANGE and base != "matmul":
    # bytes / bytearray / memoryview: iterables of ints
    ob = st.tuples(st.sampled_from(_BYTES), lst(st.integers(0, _BYTE_RANGE[ospec])))
    o = wone((1, o), (1, ob))
  return st.fixed_dictionaries(dict(head, s=s, o=o))


def _iter_str(m):
  spec = STR_METHODS[m]
  # (Stream("a") / Stream("a", "b") are Streams over the characters, not constant / periodic ones)
  s = sleaf_c(spec) if spec == "str" else wone((4, sleaf_c(spec)), (1, sleaf_c(spec, "true")))
  o = wone((3, st.tuples(st.just("str"), TEXT)),
           (1, st.tuples(st.sampled_from(_GEN_ITER + ["list", "tuple"]), lst(STRS))))
  return st.fixed_dictionaries(dict(m=st.just(m), fam=st.just("str"), s=s, o=o))


def strat_iterables(tier):
  def for_method(m):
    return st.sampled_from(domain(minfo(m)[0])).flatmap(
      lambda d: cached(("iter", m, d), lambda: _iter_for_domain(m, d)))
  generic = st.sampled_from(MUT_METHODS).flatmap(lambda m: cached(("iter", m), lambda: for_method(m)))
  strs = st.sampled_from(sorted(STR_METHODS)).flatmap(lambda m: cached(("iterstr", m), lambda: _iter_str(m)))
  return wone((5, generic), (2, strs))


# the matrix over floats at the edges of the format --------------------------------------------------
EXT_ARITH = "add sub mul truediv floordiv mod pow".split()
EXT_METHODS = EXT_ARITH + ["r" + b for b in EXT_ARITH] + CMP + ["pos", "neg", "abs"]


def _ext_for_method(m):
  base, rev, arity = minfo(m)
  fam = "extr" if base in ("lt", "le", "gt", "ge", "floordiv", "mod") else "ext"
  head = dict(m=st.just(m), fam=st.just(fam))
  if arity == 1:
    return st.fixed_dictionaries(dict(head, s=sleaf_c(fam), o=st.none()))
  # half of the partners are scalars (the operand repeated for every position)
  return wone(
    (4, st.fixed_dictionaries(dict(head, s=sleaf_c(fam), o=st.tuples(st.just("scalar"), wone((3, POW2), (2, FAM[fam])))))),
    (3, st.fixed_dictionaries(dict(head, s=sleaf_c(fam), o=oleaf_c(fam)))),
    (1, st.fixed_dictionaries(dict(head, s=sleaf_c(fam, "true"), o=ofinite_c(fam)))))


def strat_extremes(tier):
  return st.sampled_from(EXT_METHODS).flatmap(lambda m: cached(("ext", m), lambda: _ext_for_method(m)))


def _is_edge(v):
  if isinstance(v, complex):
    return _is_edge(v.real) or _is_edge(v.imag)
  return isinstance(v, float) and (v != v or v in (inf, -inf) or (v == 0 and math.copysign(1, v) < 0) or
                                   (v != 0 and not 1e-300 < abs(v) < 1e300))


def run_extremes(case):
  rec = run_matrix(case)
  if case["o"] is not None and case["o"][0] == "scalar":
    v = case["o"][1]
    if _is_edge(v):
      rec["labels"].append("scalar at the edge of the float format")
    if isinstance(v, float) and v == v and v not in (inf, -inf, 0.0) and math.frexp(v)[0] in (.5, -.5):
      rec["labels"].append("scalar power of two")
      if abs(v) < FMIN:
        rec["labels"].append("scalar subnormal power of two")
  return rec


# every binary method x a list of scalars that are special for floats (all kinds of powers of two, subnormals,
# the largest floats, identities, signed zeros, infinities, nan) x two element vectors
_EDGE_SCALARS = ([sgn * 2.0 ** k for k in (-1074, -1073, -1060, -1050, -1030, -1025, -1024, -1023, -1022, -1021,
                                            -1000, -512, -15, -1, 0, 1, 15, 512, 1000, 1021, 1022, 1023)
                  for sgn in (1.0, -1.0)] +
                 [5e-320, -1e-310, 3e-320, FMAX, -FMAX, 1e308, 1e-300, 1 / 3., 0.1, 3.0, 0.0, -0.0, inf, -inf, nan,
                  1, -1, 0, 2, True, False, 2 ** 53 + 1, Fraction(1, 2), 1j, complex(-0.0, 2.0), complex(4.0, -0.0)])
_EDGE_VECTORS = {
  "extr": [1.5, -2.5e-310, 0.0, -0.0, 5e-324, 1e-300, True, -3, FMAX, inf, 2 ** 53 + 1],
  "ext": [complex(-0.0, 1.0), complex(3.0, -0.0), complex(-0.0, -0.0), complex(1e-300, -2.0), 2.5, -0.0],
}
_EDGE_KINDS = ["s_list", "s_gen", "s_tuple", "s_iter", "s_chain", "s_cyc"]


def scalar_grid(tier, shard, nshards):
  i = 0
  for m in EXT_METHODS:
    base, rev, arity = minfo(m)
    if arity == 1:
      continue
    for fam in ("extr", "ext"):
      if fam == "ext" and base in ("lt", "le", "gt", "ge", "floordiv", "mod"):
        continue
      vec = _EDGE_VECTORS[fam]
      if base == "pow":
        vec = [x for x in vec if type(x) is not int]       # no int ** big int
      for v in _EDGE_SCALARS:
        if base == "pow" and type(v) is int and abs(v) > 9:
          continue
        if fam == "extr" and isinstance(v, complex) and base not in ("eq", "ne", "add", "sub", "mul", "truediv", "pow"):
          continue
        i += 1
        if i % nshards != shard:
          continue
        kind = _EDGE_KINDS[i % len(_EDGE_KINDS)]
        if kind == "s_chain":
          sp = (vec[:2], vec[2:])
        elif kind == "s_cyc":
          sp = vec[:4]
        else:
          sp = list(vec)
        yield dict(m=m, fam=fam, s=(kind, sp), o=("scalar", v))


# --------------------------------------------------------------------------
# G.b expression trees through operator syntax
# --------------------------------------------------------------------------
FN_NODES = {"absolute": abs, "floor": math.floor, "ceil": math.ceil, "trunc": math.trunc}


def ref_sign(x):
  if x > 0:
    return 1
  if x < 0:
    return -1
  return 0


FN_NODES["sign"] = ref_sign
ATTR_NODES = ["real", "imag"]
CALL_NODES = ["conjugate"]
SYN = dict(OPF)     # operator.__add__(a, b) is exactly the syntax a + b (full dispatch)

MODES = {
  # mode: (leaf element families, binary ops, unary ops, fn/attr nodes allowed)
  "arith": (["int", "float", "frac", "bool", "real", "real"],
            ["add", "sub", "mul", "truediv", "floordiv", "mod", "pow", "lt", "le", "eq", "ne", "gt", "ge"],
            ["pos", "neg", "abs"], True),
  "complex": (["complex", "mixed", "int", "float"],
              ["add", "sub", "mul", "truediv", "pow", "eq", "ne"], ["pos", "neg", "abs"], True),
  "bits": (["int", "bool"],
           ["and", "or", "xor", "lshift", "rshift", "add", "sub", "mul", "lt", "eq", "ge", "floordiv", "mod"],
           ["invert", "neg", "pos", "abs"], False),
  "mx": (["mx"], ["matmul", "matmul", "eq", "ne"], [], False),
  "wild": (["wild", "mixed", "int"], BIN + CMP, UN + ["abs"], True),
  # leaves in which some positions make an operation of the expression raise (None among the numbers,
  # zeros met by a division) while the other positions are fine: the consumer reads on (run_trees)
  "faulty": (["p_int", "p_real", "p_int"],
             ["add", "sub", "mul", "truediv", "floordiv", "mod", "truediv", "mod", "lt", "le", "eq", "gt"],
             ["pos", "neg", "abs"], True),
  "faulty_ops": (["p_int", "p_real", "p_int"],
                 ["add", "sub", "mul", "truediv", "floordiv", "mod", "truediv", "mod", "lt", "ge", "ne"],
                 ["pos", "neg", "abs"], False),
  "faulty_bits": (["p_bits"], ["and", "or", "xor", "add", "sub", "floordiv", "mod", "lshift", "rshift", "ge"],
                  ["invert", "neg", "pos"], False),
}
FAM["p_int"] = wone((6, st.integers(-3, 3)), (1, st.just(None)))
FAM["p_real"] = wone((6, _REAL3), (1, st.just(None)))
FAM["p_bits"] = wone((6, st.one_of(st.integers(-4, 4), BOOLS)), (1, st.sampled_from([None, 1.5])))


def tree_strategy(mode, depth, mut=False, used=False):
  fams, bins, uns, extra = MODES[mode]
  small = {"pow": (st.integers(-2, 3), rng(-2, 3, 4)),
           "lshift": (st.integers(0, 6), rng(0, 6)), "rshift": (st.integers(0, 6), rng(0, 6))}
  pow_base = st.one_of(st.integers(-4, 4), st.sampled_from([0.5, 2.0, -1.5]))

  def spec_for(f):
    return (FAM[f], rng(-9, 9) if f in ("int",) else None)

  _sleaf = st.one_of([stream_leaf(spec_for(f)) for f in fams]).map(lambda kp: ("L",) + tuple(kp))
  _pleaf = st.one_of([plain_leaf(spec_for(f)) for f in fams]).map(lambda kp: ("L",) + tuple(kp))

  def sleaf():
    return _sleaf

  def pleaf():
    return _pleaf

  def small_leaf(op, stream):
    sp = small[op]
    mk = stream_leaf(sp) if stream else plain_leaf(sp)
    return mk.map(lambda kp: ("L",) + tuple(kp))

  mkl = lambda kp: ("L",) + tuple(kp)
  _tleaf = st.one_of([stream_leaf(spec_for(f), "true") for f in fams]).map(mkl)
  _fleaf = st.one_of([stream_leaf(spec_for(f), "none") for f in fams] +
                      [plain_leaf(spec_for(f), scalar=False) for f in fams]).map(mkl)
  if mut:
    # most plain operands are lists / arrays that will be changed after the expression is built
    _mleaf = st.one_of([mut_leaf(FAM[f], ARR.get(f)) for f in fams]).map(mkl)
    _pleaf = wone((3, _mleaf), (1, _pleaf))
    _fleaf = wone((2, _mleaf), (1, _fleaf))

  if used:
    # most leaves were partly read before the expression is built; periodic / constant Streams with such a
    # history also meet scalars and unary operators (an endless sub-expression, truncated one level up)
    _uleaf = st.one_of([used_of(stream_leaf(spec_for(f))) for f in fams]).map(mkl)
    _utrue = st.one_of([used_of(stream_leaf(spec_for(f), "true")) for f in fams]).map(mkl)
    _upl = st.one_of([used_of(st.tuples(st.sampled_from(["gen", "iter"]), lst(FAM[f])), "p_used")
                      for f in fams]).map(mkl)
    _scal = st.one_of([st.tuples(st.just("scalar"), FAM[f]) for f in fams]).map(mkl)
    _sleaf = wone((2, _uleaf), (1, _sleaf))
    _pleaf = wone((1, _upl), (2, _pleaf))
    _tleaf = wone((2, _utrue), (1, _tleaf))

  def build(d):
    if d == 0:
      return sleaf()
    sub = build(d - 1)
    normal = [b for b in bins if b not in small]
    guarded = [b for b in bins if b in small]
    opts = []
    if normal:
      nb = st.sampled_from(normal)
      opts += [st.tuples(st.just("B"), nb, _tleaf, _fleaf), st.tuples(st.just("B"), nb, _fleaf, _tleaf),
               st.tuples(st.just("B"), nb, sub, sub),
               st.tuples(st.just("B"), nb, sub, st.one_of(pleaf(), sleaf())),
               st.tuples(st.just("B"), nb, st.one_of(pleaf(), pleaf(), sleaf()), sub)]
    for g in guarded:
      # exponent / shift count is always a small leaf; on the left of a small
      # Stream leaf anything but a Fraction scalar (see ASSUMPTIONS)
      opts.append(st.tuples(st.just("B"), st.just(g), sub,
                            st.one_of(small_leaf(g, False), small_leaf(g, True))))
      left = pow_base if g == "pow" else st.integers(-20, 20)
      opts.append(st.tuples(st.just("B"), st.just(g),
                            st.one_of(st.tuples(st.just("L"), st.just("scalar"), left),
                                      st.tuples(st.just("L"), st.sampled_from(["list", "tuple", "gen", "deque"]),
                                                st.lists(left, min_size=2, max_size=6))),
                            small_leaf(g, True)))
    if uns:
      opts.append(st.tuples(st.just("U"), st.sampled_from(uns), sub))
    if extra:
      opts.append(st.one_of(
        st.tuples(st.just("F"), st.sampled_from(sorted(FN_NODES)), sub),
        st.tuples(st.just("A"), st.sampled_from(ATTR_NODES), sub),
        st.tuples(st.just("C"), st.sampled_from(CALL_NODES), sub)))
    if used and normal:
      inner = [st.tuples(st.just("B"), nb, _utrue, _scal), st.tuples(st.just("B"), nb, _scal, _utrue)]
      if uns:
        inner.append(st.tuples(st.just("U"), st.sampled_from(uns), _utrue))
      inner = st.one_of(inner)
      return wone((1, st.tuples(st.just("B"), nb, inner, _fleaf)), (1, st.tuples(st.just("B"), nb, _fleaf, inner)),
                  (1, st.tuples(st.just("B"), nb, inner, sub)), (4, st.one_of(opts)))
    if mut and normal:
      # at every level, most nodes get a list operand that will be changed, on either side
      return wone((2, st.tuples(st.just("B"), nb, sub, _mleaf)), (2, st.tuples(st.just("B"), nb, _mleaf, sub)),
                  (1, st.tuples(st.just("B"), nb, _tleaf, _mleaf)), (1, st.tuples(st.just("B"), nb, _mleaf, _tleaf)),
                  (3, st.one_of(opts)))
    return st.one_of(opts)

  return build(depth)


def strat_trees(tier):
  depths = [1, 2, 2, 3, 3, 3] if tier == "quick" else [1, 2, 3, 3, 4, 4]
  modes = ["arith"] * 5 + ["complex"] * 2 + ["bits"] * 3 + ["mx"] + ["wild"]
  return st.tuples(st.sampled_from(modes), st.sampled_from(depths)).flatmap(
    lambda md: cached(("tree", md), lambda: st.fixed_dictionaries(
      dict(mode=st.just(md[0]), tree=tree_strategy(*md)))))


def strat_faulty_trees(tier):
  depths = [1, 2, 2, 3] if tier == "quick" else [1, 2, 3, 3, 4]
  modes = ["faulty"] * 2 + ["faulty_ops"] * 3 + ["faulty_bits"] * 2
  return st.tuples(st.sampled_from(modes), st.sampled_from(depths)).flatmap(
    lambda md: cached(("tree", md), lambda: st.fixed_dictionaries(
      dict(mode=st.just(md[0]), tree=tree_strategy(*md)))))


def strat_used_trees(tier):
  depths = [1, 2, 2, 3] if tier == "quick" else [1, 2, 3, 3, 4]
  modes = ["arith"] * 5 + ["complex"] * 2 + ["bits"] * 3 + ["mx"] + ["wild"]
  return st.tuples(st.sampled_from(modes), st.sampled_from(depths)).flatmap(
    lambda md: cached(("utree", md), lambda: st.fixed_dictionaries(
      dict(mode=st.just(md[0]), tree=tree_strategy(md[0], md[1], used=True)))))


def _tree_canary(t):
  """See canary(): an operator node all of whose operands are leaves, none finite, one endless by construction."""
  kids = [c for c in t[2:] if isinstance(c, tuple)]
  if not kids or any(c[0] != "L" for c in kids):
    return
  ms = [m_leaf(c[1], c[2]) for c in kids]
  if not (all(m.tails == ENDLESS and m.vals for m in ms) and
          any(base_kind(c[1], c[2]) in TRUE_ENDLESS for c in kids)):
    return
  objs = [b_leaf(c[1], c[2]) if m.scalar else Stream(Src(None, BOUND, lambda i, m=m: m.vals[i % len(m.vals)]))
          for c, m in zip(kids, ms)]
  try:
    next(iter(SYN[t[1]](*objs)))
  except Exception:
    pass


def ev_real(t, path="t", reg=None):
  """reg: list collecting (object, kind, payload) of the leaves that are changed after the build."""
  tag = t[0]
  if tag == "L":
    obj = b_leaf(t[1], t[2])
    if reg is not None and t[1] in MUT_KINDS:
      reg.append((obj, t[1], t[2]))
    return obj
  if tag == "B":
    _tree_canary(t)
    left = ev_real(t[2], path + ".l", reg)
    right = ev_real(t[3], path + ".r", reg)
    res = SYN[t[1]](left, right)
  elif tag == "U":
    _tree_canary(t)
    res = SYN[t[1]](ev_real(t[2], path + ".c", reg))
  elif tag == "F":
    res = getattr(audiolazy, t[1])(ev_real(t[2], path + ".c", reg))
  elif tag == "A":
    res = getattr(ev_real(t[2], path + ".c", reg), t[1])
  elif tag == "C":
    res = getattr(ev_real(t[2], path + ".c", reg), t[1])()
  else:
    raise AssertionError(tag)
  if type(res) is not Stream:
    raise Violation("node %s (%s %s) evaluated to %r, not a Stream" % (path, tag, t[1], res))
  return res


def ev_model(t, stats):
  tag = t[0]
  if tag == "L":
    m = m_leaf(t[1], t[2])
    stats["leaves"].append((t[1], m))
    return m, 0
  if tag == "B":
    a, da = ev_model(t[2], stats)
    b, db = ev_model(t[3], stats)
    stats["ops"].add(t[1])
    if t[2][0] == "L" and not t[2][1].startswith("s_"):
      stats["reflected"] = True
    return m_bin(OPF[t[1]], a, b), 1 + max(da, db)
  a, da = ev_model(t[2], stats)
  if tag == "U":
    f = OPF[t[1]]
  elif tag == "F":
    f = FN_NODES[t[1]]
  elif tag == "A":
    f = operator.attrgetter(t[1])
  else:
    f = operator.methodcaller(t[1])
  stats["ops"].add(t[1])
  return m_un(f, a), 1 + da


def ev_rmodel(t):
  """The tree as a position-by-position model (see r_bin / r_un)."""
  tag = t[0]
  if tag == "L":
    return r_leaf(t[1], t[2])
  if tag == "B":
    return r_bin(OPF[t[1]], ev_rmodel(t[2]), ev_rmodel(t[3]))
  a = ev_rmodel(t[2])
  if tag == "U":
    return r_un(OPF[t[1]], a)
  if tag == "F":
    return r_un(FN_NODES[t[1]], a, resumes=False)
  if tag == "A":
    return r_un(operator.attrgetter(t[1]), a, resumes=False)
  return r_un(operator.methodcaller(t[1]), a, resumes=False)


def run_trees(case):
  del _HUBS[:]
  tree = case["tree"]
  stats = {"leaves": [], "ops": set(), "reflected": False}
  model, depth = ev_model(tree, stats)
  res = ev_real(tree)
  if type(res) is not Stream:
    raise Violation("expression evaluated to %r, not a Stream" % (res,))
  compare(res, model, "tree %r" % (tree,))
  rmodel = ev_rmodel(tree)
  rlabels = []
  if has_bad(rmodel):
    compare_resumed(ev_real(tree), rmodel, "tree %r" % (tree,))
    rlabels = resume_labels(rmodel)
  operands = [m for _, m in stats["leaves"]]
  labels = ["depth:%d" % depth, "mode:" + case["mode"], "leaves:%d" % min(len(operands), 6)]
  labels += outcome_labels(model, operands)
  if stats["reflected"]:
    labels.append("plain operand on the left")
  labels += sorted("leaf:" + k for k in set(k for k, _ in stats["leaves"]))
  nt = ((len(model.vals) >= 2 or (has_bad(rmodel) and len(rmodel.outs) >= 2)) and
        not all(o.scalar for o in operands) and depth >= 1)
  if depth >= 2:
    labels.append("nested")
  used = [(k, p) for k, p in _leaves(tree, []) if k in USED_KINDS]
  if used:
    labels.append("operand partly read before the operator")
    if any(p[0] == "s_per" and p[2] % len(p[1]) for k, p in used):
      labels.append("periodic operand read off phase")
  if _endless_inner(tree):
    labels.append("endless sub-expression truncated one level up")
  return {"nontrivial": nt, "labels": labels + rlabels}


def _leaves(t, acc):
  if t[0] == "L":
    acc.append((t[1], t[2]))
  else:
    for c in t[2:]:
      if isinstance(c, tuple):
        _leaves(c, acc)
  return acc


def _endless_inner(t):
  """Some operator node below the root has only endless operands (scalars, periodic / constant Streams)."""
  def walk(t, root):
    if t[0] == "L":
      return m_leaf(t[1], t[2]).tails == ENDLESS, False
    kids = [walk(c, False) for c in t[2:] if isinstance(c, tuple)]
    endless = all(k[0] for k in kids)
    return endless, any(k[1] for k in kids) or (endless and not root and
                                                   any(base_kind(l[0], l[1]) in TRUE_ENDLESS for l in _leaves(t, [])))
  return walk(t, True)[1]


# --------------------------------------------------------------------------
# laziness of the result towards its operands: a list operand changed after the expression was built
# --------------------------------------------------------------------------
# array.array operands hold plain ints or floats only
ARR = {"wide": st.integers(-99, 99), "shifts": st.integers(0, 8), "bits": INTS, "exps": st.integers(0, 3),
       "int": INTS, "float": HALVES, "floatx": HALVES, "real": INTS, "mixed": HALVES}


def mut_leaf(e, ea=None):
  """("mlist" | "marray", (items, [(at, (op, arg)), ...])): the operand as built and what is done
  to it afterwards; at = number of result items read before the change (0: before the first read)."""
  def one(kind, e):
    vals = st.lists(e, min_size=1, max_size=4)
    grow = st.one_of(st.tuples(st.just("extend"), vals), st.tuples(st.just("append"), e),
                     st.tuples(st.just("iadd"), vals),
                     st.tuples(st.just("insert"), st.tuples(st.integers(0, 6), e)))
    other = st.one_of(st.tuples(st.just("set"), st.tuples(st.integers(0, 8), e)),
                      st.tuples(st.just("cut"), st.integers(0, 5)),
                      st.tuples(st.just("pop"), st.integers(0, 8)),
                      st.tuples(st.just("clear"), st.none()),
                      st.tuples(st.just("rebuild"), st.lists(e, max_size=6)),
                      st.tuples(st.just("reverse"), st.none()))
    event = st.tuples(wone((1, st.just(0)), (1, st.integers(0, 3))), wone((1, grow), (1, other)))
    items = wone((4, st.lists(e, min_size=1, max_size=5)), (1, st.just([])))
    return st.tuples(st.just(kind), st.tuples(items, st.lists(event, min_size=1, max_size=3)))
  if ea is None:
    return one("mlist", e)
  return wone((3, one("mlist", e)), (1, one("marray", ea)))


MUT_METHODS = [m for m in METHODS if minfo(m)[2] == 2]
assert len(MUT_METHODS) == 32


def _mut_for_domain(m, d):
  base, rev, arity = minfo(m)
  fam, left, right = d
  sspec, ospec = (right, left) if rev else (left, right)
  o = mut_leaf(SPECS[ospec][0], ARR.get(ospec))
  # the Stream side: every kind; the endless ones (Stream(a), Stream(a, b, c), a bounded cycle) are
  # the operands "truncated by a finite one" whatever length the finite one has when it is read
  s = wone((3, sleaf_c(sspec)), (2, sleaf_c(sspec, "true")))
  return st.fixed_dictionaries(dict(m=st.just(m), fam=st.just(fam), s=s, o=o))


def strat_mutated(tier):
  def for_method(m):
    return st.sampled_from(domain(minfo(m)[0])).flatmap(
      lambda d: cached(("mutated", m, d), lambda: _mut_for_domain(m, d)))
  return st.sampled_from(MUT_METHODS).flatmap(lambda m: cached(("mutated", m), lambda: for_method(m)))


def strat_mutated_trees(tier):
  depths = [1, 1, 2, 2, 3] if tier == "quick" else [1, 2, 2, 3, 4]
  modes = ["arith"] * 5 + ["complex"] * 2 + ["bits"] * 3 + ["mx"] + ["wild"]
  return st.tuples(st.sampled_from(modes), st.sampled_from(depths)).flatmap(
    lambda md: cached(("mtree", md), lambda: st.fixed_dictionaries(
      dict(mode=st.just(md[0]), tree=tree_strategy(md[0], md[1], mut=True)))))


def _schedule(reg):
  """{pull index: [thunks]} from the registered (object, kind, payload) leaves."""
  sched = {}
  for obj, kind, p in reg:
    mk = mk_for(kind, p)
    for at, (op, arg) in p[1]:
      sched.setdefault(at, []).append(lambda obj=obj, op=op, arg=arg, mk=mk: apply_event(obj, op, arg, mk))
  return sched


def _mut_labels(leaves, model):
  """leaves: [(kind, payload)] of the changed operands; labels of what the changes did to the result."""
  labels = set()
  nread = len(model.vals)       # events scheduled for pulls 0..nread are carried out
  for kind, p in leaves:
    labels.add("changed:" + kind)
    effects = m_mut(kind, p, upto=nread)[1]
    labels |= effects
    if any(e.startswith("operand grown") for e in effects) and nread > len(p[0]):
      # the conjunction that matters: the result has positions the operand did not have when built
      labels.add("result longer than the operand was when built")
    if any(e.startswith("operand shrunk") for e in effects) and len(m_mut(kind, p)[0]) == nread < len(p[0]):
      labels.add("result ends with the shrunk operand")
  if labels and not any(l.startswith("operand ") for l in labels):
    labels.add("changes without effect")
  return sorted(labels)


def run_mutated(case):
  """s.__op__(lst) called directly; lst is changed afterwards, then the result is read: position i is
  the operator on the i-th elements as they are when read, the end is where the shortest operand
  ends as it is when its end is reached."""
  m = case["m"]
  base, rev, arity = minfo(m)
  f = OPF[base]
  skind, sp = case["s"]
  okind, op = case["o"]
  s = b_leaf(skind, sp)
  o = b_leaf(okind, op)
  ms, mo = m_leaf(skind, sp), m_leaf(okind, op)
  dunder = "__%s__" % m
  res = getattr(s, dunder)(o)
  if type(res) is not Stream:
    raise Violation("%s.%s(%s) returned %r, not a Stream" % (skind, dunder, okind, res))
  model = m_bin(f, mo, ms) if rev else m_bin(f, ms, mo)
  what = "%s %s on %r / %r changed after the call" % (dunder, case["fam"], case["s"], case["o"])
  compare(res, model, what, _schedule([(o, okind, op)]))
  labels = ["op:" + m, "self:" + skind, "fam:" + case["fam"]] + (["reflected"] if rev else [])
  labels += outcome_labels(model, [ms, mo])
  ml = _mut_labels([(okind, op)], model)
  nt = len(model.vals) >= 2 and any(l.startswith("operand ") for l in ml)
  return {"nontrivial": nt, "labels": labels + ml}


def _mut_leaves(t, acc):
  if t[0] == "L":
    if t[1] in MUT_KINDS:
      acc.append((t[1], t[2]))
  else:
    for c in t[2:]:
      _mut_leaves(c, acc)
  return acc


def run_mutated_trees(case):
  tree = case["tree"]
  stats = {"leaves": [], "ops": set(), "reflected": False}
  model, depth = ev_model(tree, stats)
  reg = []
  res = ev_real(tree, reg=reg)
  if type(res) is not Stream:
    raise Violation("expression evaluated to %r, not a Stream" % (res,))
  compare(res, model, "tree %r with its list operands changed after the build" % (tree,), _schedule(reg))
  operands = [m for _, m in stats["leaves"]]
  labels = ["depth:%d" % depth, "mode:" + case["mode"]]
  labels += outcome_labels(model, operands)
  if stats["reflected"]:
    labels.append("plain operand on the left")
  if depth >= 2:
    labels.append("nested")
  leaves = _mut_leaves(tree, [])
  ml = _mut_labels(leaves, model)
  if len(leaves) >= 2:
    ml.append("several changed operands")
  nt = len(model.vals) >= 2 and any(l.startswith("operand ") for l in ml)
  return {"nontrivial": nt, "labels": labels + ml}


# --------------------------------------------------------------------------
# "arbitrarily nested": chains thousands of operators deep (a sum of partials built in a loop)
# --------------------------------------------------------------------------
DEEP = {
  # mode: (element strategy, binary operators, unary operators)
  "num": (st.one_of(st.integers(-3, 3), st.integers(-3, 3), st.sampled_from([0.5, -1.5, 2.0, True])),
          ["add", "add", "sub", "mul", "lt", "ge", "ne"], ["neg", "pos", "abs"]),
  "bits": (st.one_of(st.integers(-9, 9), BOOLS), ["and", "or", "xor", "add", "sub", "eq"], ["invert", "neg", "pos"]),
}


def strat_deep(tier):
  lo, hi = (2600, 6000) if tier == "quick" else (2600, 12000)

  def for_mode(mode):
    e, bins, uns = DEEP[mode]
    spec = (e, None)
    base = st.one_of([st.tuples(st.just(k), st.lists(e, min_size=3, max_size=6))
                      for k in ("s_list", "s_tuple", "s_gen", "s_iter")])
    flist = st.lists(e, min_size=3, max_size=7)
    operand = wone(
      (3, st.tuples(st.just("scalar"), e)),
      (3, st.tuples(st.sampled_from(["list", "tuple", "gen", "iter", "deque"]), flist)),
      (2, st.tuples(st.sampled_from(["s_list", "s_gen", "s_tuple"]), flist)),
      (1, st.tuples(st.just("s_cyc"), st.lists(e, min_size=1, max_size=4))),
      (1, stream_leaf(spec, "true")))
    step = wone(
      (7, st.tuples(st.just("B"), st.sampled_from(bins), st.sampled_from(["l", "r"]), operand)),
      (1, st.tuples(st.just("U"), st.sampled_from(uns))))
    return st.fixed_dictionaries(dict(mode=st.just(mode), base=base, depth=st.integers(lo, hi),
                                      steps=st.lists(step, min_size=1, max_size=4)))
  return st.sampled_from(["num", "num", "bits"]).flatmap(lambda m: cached(("deep", m, tier), lambda: for_mode(m)))


def run_deep(case):
  """base, then `depth` operators applied one on top of the other (the steps, cycled): every level
  is an operator result used as an operand of the next; evaluated without recursion here."""
  bkind, bp = case["base"]
  steps = case["steps"]
  depth = case["depth"]
  cur = b_leaf(bkind, bp)
  model = r_leaf(bkind, bp)
  labels = ["mode:" + case["mode"], "depth:%dk" % (depth // 1000), "period:%d" % len(steps)]
  kinds = set()
  for k in range(depth):
    st_ = steps[k % len(steps)]
    if st_[0] == "U":
      cur = SYN[st_[1]](cur)
      model = r_un(OPF[st_[1]], model)
      kinds.add("unary step")
    else:
      _, op, side, (okind, opl) = st_
      operand = b_leaf(okind, opl)
      mo = r_leaf(okind, opl)
      if side == "l":
        cur = SYN[op](operand, cur)
        model = r_bin(OPF[op], mo, model)
        kinds.add("chain on the right" if okind.startswith("s_") else "plain operand on the left")
      else:
        cur = SYN[op](cur, operand)
        model = r_bin(OPF[op], model, mo)
        kinds.add("chain on the left")
      kinds.add("operand:" + okind)
    if type(cur) is not Stream:
      raise Violation("level %d of the chain (%r) evaluated to %r, not a Stream" % (k, st_, cur))
  compare_resumed(cur, model, "chain of %d operators %r over %r" % (depth, steps, case["base"]))
  labels += sorted(kinds) + resume_labels(model)
  if model.tails == {STOP}:
    labels.append("clean end")
  return {"nontrivial": len(model.outs) >= 2, "labels": labels}


# --------------------------------------------------------------------------
# G.c broadcast functions
# --------------------------------------------------------------------------
def _pos(x):
  return not isinstance(x, complex) and x > 0


def ref_log(x, base=None):
  if x == 0:
    return -inf
  if base is None:
    if _pos(x):
      return math.log(x)
    if isinstance(x, complex):
      return cmath.log(x)
    return complex(math.log(-x), math.pi)
  if _pos(x):
    return math.log(x) / math.log(base)
  return ref_log(x) / math.log(base)


def ref_log1p(x):
  if x == -1:
    return -inf
  if not isinstance(x, complex) and x > -1:
    return math.log1p(x)
  return ref_log(1 + x)


def ref_log10(x):
  if _pos(x):
    return math.log10(x)
  return ref_log(x, 10)


def ref_log2(x):
  if _pos(x):
    return math.log2(x)
  return ref_log(x, 2)


def ref_factorial(n):
  if isinstance(n, float) and n.is_integer():
    n = int(n)
  if not isinstance(n, int):
    raise TypeError("non-integer")
  return math.factorial(n)       # ValueError when negative


def ref_db(k):
  def ref(x):
    if x == 0:
      return -inf
    return k * math.log10(abs(x))
  return ref


def ref_midi2freq(m):
  return 440. * 2. ** ((float(m) - 69.) / 12.)


def ref_freq2midi(f):
  # the scalar function's own special cases: not a frequency (negative, -inf, nan) -> nan, 0 Hz -> -inf
  if f != f or f < 0:
    return nan
  if f == 0:
    return -inf
  if f == inf:
    return inf
  return 12. * math.log2(float(f) / 440.) + 69.


def ref_freq2str(f):
  m = ref_freq2midi(f)
  if math.isinf(m) or math.isnan(m):
    return "?"
  return ref_midi2str(int(round(m)))


_NAMES = {"c": 0, "d": 2, "e": 4, "f": 5, "g": 7, "a": 9, "b": 11}
_ACC = {"b": -1, "#": 1, "x": 2}


def ref_str2midi(s):
  if s == "?":
    return nan
  t = s.strip().lower()
  k = 1
  delta = 0
  while k < len(t) and t[k] in _ACC:
    delta += _ACC[t[k]]
    k += 1
  return 12 * (int(t[k:]) + 1) + _NAMES[t[0]] + delta


_SHARP = ["C", "C#", "D", "D#", "E", "F", "F#", "G", "G#", "A", "A#", "B"]
_FLAT = ["C", "Db", "D", "Eb", "E", "F", "Gb", "G", "Ab", "A", "Bb", "B"]


def ref_midi2str(m, sharp=True):
  if math.isinf(m) or math.isnan(m):
    return "?"
  r = int(math.floor(m + .5))
  err = m - r
  name = (_SHARP if sharp else _FLAT)[r % 12] + str(r // 12 - 1)
  if err == 0:
    return name
  return name + ("+" if err > 0 else "-") + str(round(100 * abs(err), 2)) + "%"


REALS = st.one_of(st.floats(-50, 50, allow_nan=False), st.integers(-50, 50),
                  st.sampled_from([0.0, -0.0, math.pi / 2, math.pi, 1.0, -1.0, 0.5]))
BIGREALS = st.one_of(st.floats(-1e6, 1e6, allow_nan=False), st.integers(-10 ** 6, 10 ** 6),
                     st.fractions(-99, 99, max_denominator=9), st.sampled_from([0.5, -0.5, 2.5, -0.0]))
UNIT = st.one_of(st.floats(-1, 1, allow_nan=False), st.sampled_from([-1, 0, 1, 1.0, -1.0, 0.5]))
OPENUNIT = st.one_of(st.floats(-0.99, 0.99, allow_nan=False), st.sampled_from([0, 0.5, -0.5]))
GE1 = st.one_of(st.floats(1, 1e6, allow_nan=False), st.integers(1, 1000))
NONNEG = st.one_of(st.floats(0, 1e6, allow_nan=False), st.integers(0, 1000), st.sampled_from([0.0, 4, 2.25]))
GAMMAS = st.one_of(st.floats(0.1, 20, allow_nan=False), st.integers(1, 20),
                   st.integers(-9, -1).map(lambda k: k + .5))
WITHSPECIAL = wone((7, REALS), (1, SPECIAL))
POSF = st.one_of(st.floats(1e-6, 1e6, allow_nan=False, exclude_min=False), st.integers(1, 10 ** 6),
                 st.sampled_from([1, 1.0, 2, 8, 10, 100, 1000, 0.5, math.e]))
LOGS = wone((10, POSF), (3, st.sampled_from([2 ** 29, 2 ** 31, 2 ** 39, 2 ** 47, 2 ** 51, 2 ** 58, 8, 1024, 10 ** 15, 3 ** 20])),
            (1, st.sampled_from([0, 0.0])), (2, st.floats(-1e3, -1e-3)), (1, st.integers(-50, -1)),
            (2, CPLX.filter(lambda z: z != 0)))
LOG1PS = wone((6, st.floats(-0.999, 1e6, allow_nan=False)), (4, POSF), (1, st.sampled_from([-1, -1.0])),
              (2, st.floats(-1e3, -1.001)), (2, CPLX.filter(lambda z: z != -1)))
GAINS = wone((6, POSF), (3, st.floats(-1e6, -1e-6)), (3, st.integers(-1000, 1000)), (1, st.sampled_from([0, 0.0])),
             (2, CPLX), (2, st.fractions(0, 99, max_denominator=9)))
SIGNS = wone((3, INTS), (3, FLOATS), (3, FRACS), (1, BOOLS), (1, SPECIAL))
ANYNUM = FAM["mixed"]
MIDIS = wone((8, st.one_of(st.integers(0, 127), st.integers(0, 127).map(float), st.floats(0, 127, allow_nan=False),
                            st.fractions(0, 127, max_denominator=4))),
             # outside the 0..127 range the formula is the same; infinities and nan go through it as floats
             (2, st.one_of(st.integers(-60, 300), st.floats(-60, 300, allow_nan=False))), (1, SPECIAL))
_FREQ_OK = st.one_of(st.floats(10, 20000, allow_nan=False), st.integers(10, 20000),
                     st.sampled_from([440., 880, 27.5, 261.6255653005986]))
# values for which the scalar function takes one of its special-cased branches (the logarithm is complex
# or infinite): negative numbers, -inf -> nan; zeros -> -inf; inf, nan
_FREQ_ODD = wone((4, st.floats(-20000, -1e-3)), (2, st.integers(-20000, -1)), (2, st.sampled_from([-inf, -440., -1])),
                 (2, st.sampled_from([0, 0.0, -0.0, False])), (1, st.sampled_from([inf, nan, True, 1e-3])))
FREQS = wone((5, _FREQ_OK), (2, _FREQ_ODD))
FACTS = st.one_of(st.integers(0, 30), st.integers(0, 30), st.integers(0, 25).map(float))
NOTES = st.one_of(
  st.tuples(st.sampled_from(["", " ", "  "]), st.sampled_from("CDEFGABcdefgab"),
            st.sampled_from(["", "", "#", "b", "x", "##", "bb", "#b"]),
            st.integers(-1, 9), st.sampled_from(["", " "])).map(lambda t: "%s%s%s%d%s" % t),
  st.just("?"))
MIDISTR = wone((5, st.integers(-12, 140)), (3, st.integers(0, 127).map(float)),
               (3, st.tuples(st.integers(0, 127), st.sampled_from([.25, -.25, .125])).map(sum)),
               (1, SPECIAL))
OUTSIDE = st.one_of(st.integers(-30, 30), st.floats(-1e3, 1e3, allow_nan=False), SPECIAL,
                    st.sampled_from([0, -1, 1, 2.5, 1e308, -1e308, 800.0]))

_EXACT = ("exact", 0, 0)
_TOL = ("tol", 1e-12, 1e-300)


def _fn(ref, dom, idom, mode=_EXACT, kw=None, outside=None):
  """ref = closed form; dom = in-domain items; idom = int interval for range();
  kw = name of the broadcast parameter (python-level functions only);
  outside = occasional out-of-domain item (its exception is part of the model)."""
  return dict(ref=ref, dom=dom, idom=idom, mode=mode, kw=kw, outside=outside)


FN = {}
for _n, _d, _i in [
    ("acos", UNIT, (-1, 1)), ("asin", UNIT, (-1, 1)), ("acosh", GE1, (1, 40)), ("asinh", REALS, (-20, 20)),
    ("atan", REALS, (-20, 20)), ("atanh", OPENUNIT, (0, 0)), ("ceil", BIGREALS, (-20, 20)),
    ("cos", REALS, (-20, 20)), ("cosh", REALS, (-20, 20)), ("degrees", REALS, (-20, 20)),
    ("erf", REALS, (-20, 20)), ("erfc", REALS, (-20, 20)), ("exp", REALS, (-20, 20)),
    ("expm1", REALS, (-20, 20)), ("fabs", WITHSPECIAL, (-20, 20)), ("floor", BIGREALS, (-20, 20)),
    ("frexp", WITHSPECIAL, (-20, 20)), ("gamma", GAMMAS, (1, 20)), ("isinf", WITHSPECIAL, (-20, 20)),
    ("isnan", WITHSPECIAL, (-20, 20)), ("lgamma", GAMMAS, (1, 20)), ("modf", WITHSPECIAL, (-20, 20)),
    ("radians", REALS, (-20, 20)), ("sin", REALS, (-20, 20)), ("sinh", REALS, (-20, 20)),
    ("sqrt", NONNEG, (0, 50)), ("tan", REALS, (-20, 20)), ("tanh", REALS, (-20, 20)),
    ("trunc", BIGREALS, (-20, 20))]:
  FN[_n] = _fn(getattr(math, _n), _d, _i, outside=OUTSIDE)
assert len(FN) == 29 and sorted(FN) == sorted(audiolazy.lazy_math._math_names)
FN["log"] = _fn(ref_log, LOGS, (0, 40), _TOL, kw="x")
FN["ln"] = _fn(ref_log, LOGS, (0, 40), _TOL, kw="x")
FN["log1p"] = _fn(ref_log1p, LOG1PS, (-1, 40), _TOL, kw="x")
FN["log10"] = _fn(ref_log10, LOGS, (0, 40), _TOL, kw="x")
FN["log2"] = _fn(ref_log2, LOGS, (0, 40), _TOL, kw="x")
FN["cexp"] = _fn(cmath.exp, st.one_of(CPLX, REALS), (-20, 20))
FN["phase"] = _fn(cmath.phase, st.one_of(CPLX, CPLX, REALS), (-20, 20))
FN["absolute"] = _fn(abs, ANYNUM, (-20, 20))
FN["factorial"] = _fn(ref_factorial, FACTS, (0, 25), kw="n",
                      outside=st.one_of(st.integers(-5, -1), st.sampled_from([2.5, -1.0, Fraction(1, 2)])))
FN["dB10"] = _fn(ref_db(10), GAINS, (-20, 20), _TOL, kw="data")
FN["dB20"] = _fn(ref_db(20), GAINS, (-20, 20), _TOL, kw="data")
FN["sign"] = _fn(ref_sign, SIGNS, (-5, 5), kw="x")
FN["midi2freq"] = _fn(ref_midi2freq, MIDIS, (0, 127), _TOL, kw="midi_number")
FN["freq2midi"] = _fn(ref_freq2midi, FREQS, (20, 5000), ("tol", 0, 1e-9), kw="freq")
FN["str2midi"] = _fn(ref_str2midi, NOTES, None, kw="note_string")
FN["midi2str"] = _fn(ref_midi2str, MIDISTR, (-12, 140), kw="midi_number")
# the two composed MIDI helpers (broadcast through their inner elementwise functions)
FN["str2freq"] = _fn(lambda t: ref_midi2freq(ref_str2midi(t)), NOTES, None, _TOL)
FN["freq2str"] = _fn(ref_freq2str, wone((5, st.integers(0, 127).map(ref_midi2freq)), (2, _FREQ_ODD.filter(
  lambda f: not (f == f and 0 < f < inf)))), None)
FNAMES = sorted(FN)
assert len(FNAMES) == 47

class UBag(object):
  """A user's re-iterable container: iterable, built from any iterable, but no len() and no indexing."""

  def __init__(self, data=()):
    self._d = tuple(data)

  def __iter__(self):
    return iter(self._d)


class UGenBag(UBag):
  """The same with __iter__ written as a generator function."""

  def __iter__(self):
    for x in self._d:
      yield x


class USized(UBag):
  """... with len()."""

  def __len__(self):
    return len(self._d)


class UList(list):
  pass


class UTuple(tuple):
  pass


class UDeque(deque):
  pass


USER = {"u_bag": UBag, "u_genbag": UGenBag, "u_sized": USized, "u_list": UList, "u_tuple": UTuple,
        "u_deque": UDeque}
EAGER = {"list": list, "tuple": tuple, "deque": deque, "set": set, "frozenset": frozenset}
EAGER.update(USER)
LAZY = ["gen", "stream", "stream_list", "stream_endless", "thub", "range", "map", "filter", "iter_gen", "zip", "enumerate"]
CONTAINERS = ["scalar"] * 4 + sorted(EAGER) * 2 + LAZY + ["gen", "stream"]


def strat_broadcast(tier):
  def for_fn(name):
    spec = FN[name]
    conts = [c for c in CONTAINERS if not (c == "range" and spec["idom"] is None)]

    def for_cont(cont):
      if cont == "range":
        xs = rng(*spec["idom"])
      elif cont == "scalar":
        xs = spec["dom"].map(lambda v: [v])
      elif cont == "stream_endless":
        xs = st.lists(spec["dom"], min_size=1, max_size=4)
      else:
        xs = lst(spec["dom"], 0, 7)
        if spec["outside"] is not None and cont not in ("zip", "enumerate"):
          xs = wone((8, xs), (1, st.tuples(xs, spec["outside"], st.integers(0, 7)).map(
            lambda t: t[0][:t[2]] + [t[1]] + t[0][t[2]:])))
      extra = st.none()
      if name in ("log", "ln"):
        extra = st.one_of(st.none(), st.sampled_from([("base", 2), ("base", 10), ("base", 0.5), ("base", math.e),
                                                      ("pbase", 3), ("pbase", 10), ("pbase", 0.5)]))
      elif name == "midi2str":
        extra = wone((1, st.none()), (2, st.just(("sharp", False))), (1, st.just(("sharp", True))))
      kw = st.booleans() if spec["kw"] else st.just(False)
      return st.fixed_dictionaries(dict(f=st.just(name), cont=st.just(cont), xs=xs, extra=extra, kw=kw))
    return st.one_of([for_cont(c) for c in conts])
  # the functions with a secondary argument, and log2 (exactness at integer powers of two), are drawn
  # more often than the others (Hypothesis draws in clumps: a 1/47 share can stay empty in a shard)
  # ... and so are the python-level MIDI functions, whose body is arithmetic that a whole Stream supports too
  return st.sampled_from(FNAMES + ["midi2str", "midi2str", "log", "ln", "log2", "log2", "freq2midi", "freq2midi",
                                   "freq2str", "midi2freq"]).flatmap(
    lambda n: cached(("fn", n), lambda: for_fn(n)))


def _ident(x):
  return x


def _true(x):
  return True


def run_broadcast(case):
  name, cont, extra = case["f"], case["cont"], case["extra"]
  spec = FN[name]
  fn = getattr(audiolazy, name)
  items = list(range(*case["xs"])) if cont == "range" else list(case["xs"])
  # one NaN object per case (a decoded replay must build the same set as the live run)
  items = [nan if isinstance(x, float) and x != x else x for x in items]
  mode, rtol, atol = spec["mode"]
  refkw = {}
  callargs, callkw = (), {}
  if extra is not None:
    if extra[0] == "pbase":
      callargs = (extra[1],)
      refkw = {"base": extra[1]}
    else:
      callkw = {extra[0]: extra[1]}
      refkw = dict(callkw)
  ref = spec["ref"]

  def call(arg):
    if case["kw"]:
      if callargs:
        return fn(**{spec["kw"]: arg, "base": callargs[0]})
      return fn(**dict(callkw, **{spec["kw"]: arg}))
    return fn(arg, *callargs, **callkw)

  # expected elements, up to the first element-level exception
  exp, exc = [], None
  for x in (items if cont != "stream_endless" else [items[i % len(items)] for i in range(H)]):
    try:
      exp.append(ref(x, **refkw))
    except Exception as e:
      exc = type(e)
      break
  labels = ["fn:" + name, "in:" + cont, "mode:" + mode]
  if case["kw"]:
    labels.append("keyword call")
  if extra is not None:
    labels.append("secondary argument")
  if exc is not None:
    labels.append("element exception")
  if cont != "scalar" and len(exp) >= 2 and any(
      e == "?" or (isinstance(e, float) and (e != e or e in (inf, -inf))) for e in exp) and not all(
      sig(e) == sig(exp[0]) for e in exp):
    # an element for which the scalar function answers through a special-cased branch, among ordinary ones
    labels.append("special result among ordinary ones")
    if cont.startswith("stream") or cont == "thub":
      labels.append("special result among ordinary ones in a Stream")

  def same(g, e):
    return sig(g) == sig(e) if mode == "exact" else close(g, e, rtol, atol)

  def check_seq(got, what):
    if len(got) != len(exp) or not all(same(g, e) for g, e in zip(got, exp)):
      raise Violation("%s(%s of %r%s): got %r, expected %r"
                      % (name, cont, items, " , %r" % (extra,) if extra else "", got, exp))
    if what != "scalar":
      # "the i-th output equals the function applied to the i-th element": the very same function,
      # so each element of the broadcast result is bit-identical to the scalar call on that element
      for i, (g, x) in enumerate(zip(got, items * (len(got) // max(1, len(items)) + 1))):
        try:
          one = call(x)
        except Exception:
          continue
        if sig(one) != sig(g):
          raise Violation("%s broadcast over a %s gives %r at position %d, the scalar call %s(%r) gives %r"
                          % (name, cont, g, i, name, x, one))

  if cont == "scalar":
    x = items[0]
    try:
      got = call(x)
    except Exception as e:
      if exc is None or type(e) is not exc:
        raise
      return {"nontrivial": False, "labels": labels}
    if exc is not None:
      raise Violation("%s(%r) returned %r, the closed form raises %s" % (name, x, got, exc.__name__))
    check_seq([got], "scalar")
    return {"nontrivial": False, "labels": labels + ["scalar in, scalar out"]}

  if cont in EAGER:
    ctor = EAGER[cont]
    uniq = items
    if cont in ("set", "frozenset"):
      # an exception position is undefined in a set: keep the first occurrence order
      # for the expectation only when no element raises
      uniq = list(ctor(items))
    arg = ctor(items)
    try:
      got = call(arg)
    except Exception as e:
      if cont in ("set", "frozenset"):
        bad = set()
        for x in uniq:
          try:
            ref(x, **refkw)
          except Exception as e2:
            bad.add(type(e2))
        if type(e) in bad:
          return {"nontrivial": False, "labels": labels}
      elif exc is not None and type(e) is exc:
        return {"nontrivial": len(items) >= 2, "labels": labels}
      raise
    if exc is not None:
      raise Violation("%s(%s %r) returned %r, element %d must raise %s"
                      % (name, cont, items, got, len(exp), exc.__name__))
    if type(got) is not ctor:
      raise Violation("%s(%s) returned a %s: %r" % (name, cont, type(got).__name__, got))
    if cont in ("set", "frozenset"):
      expset = [ref(x, **refkw) for x in uniq]
      gl = list(got)
      # set semantics: equal results collapse (1 == True == Fraction(1)), any
      # of the collapsing representatives may survive
      if mode == "exact":
        ok = (all(any(same(g, e) for e in expset) for g in gl) and
              all(any(eqv(g, e) for g in gl) for e in expset) and
              (any(hasnan(e) for e in expset) or len(gl) == len(ctor(expset))))
      else:
        ok = (all(any(same(g, e) for e in expset) for g in gl) and
              all(any(same(g, e) for g in gl) for e in expset))
      if not ok:
        raise Violation("%s(%s %r) = %r, expected the set of %r" % (name, cont, items, got, expset))
    else:
      check_seq(list(got), cont)
    if cont in USER:
      labels.append("user container class")
      if not hasattr(ctor, "__len__"):
        labels.append("container without len()")
    return {"nontrivial": len(exp) >= 2, "labels": labels + ["container kept"]}

  # lazy kinds
  src = Src(items)
  if cont == "gen":
    arg = (x for x in src)
  elif cont == "iter_gen":
    arg = (x for x in iter(src))
  elif cont == "stream":
    arg = Stream(src)
  elif cont == "stream_list":
    arg = Stream(items)
  elif cont == "thub":
    arg = audiolazy.thub(Stream(src), 1)      # a Stream subclass: comes back as a Stream
  elif cont == "stream_endless":
    src = Src(None, BOUND, lambda i: items[i % len(items)])
    arg = Stream(src)
  elif cont == "range":
    arg = range(*case["xs"])
  elif cont == "map":
    arg = map(_ident, src)
  elif cont == "filter":
    arg = filter(_true, src)
  elif cont == "zip":
    arg = zip(src, itertools.repeat(0))
  elif cont == "enumerate":
    arg = enumerate(src)
  else:
    raise AssertionError(cont)
  got = call(arg)
  want = Stream if cont.startswith("stream") or cont == "thub" else types.GeneratorType
  if type(got) is not want and not (cont == "thub" and isinstance(got, Stream)):
    raise Violation("%s(%s) returned a %s, expected %s"
                    % (name, cont, type(got).__name__, want.__name__))
  if src.pulls != 0:
    raise Violation("%s(%s) pulled its input %d times before any iteration" % (name, cont, src.pulls))
  labels.append("lazy in, lazy out")
  if cont in ("zip", "enumerate"):
    it = iter(got)
    try:
      next(it)
    except StopIteration:
      if items:
        raise Violation("%s(%s over %r) ended at once" % (name, cont, items))
    except Exception:
      pass        # the scalar function is undefined on tuples
    if src.pulls > 1:
      raise Violation("%s(%s): one step pulled the input %d times" % (name, cont, src.pulls))
    return {"nontrivial": False, "labels": labels}
  model = M(exp, {exc} if exc is not None else ENDLESS if cont == "stream_endless" else {STOP})
  out, end = drain(got, model)
  check_seq(out, cont)
  if end != model.tails and end not in model.tails:
    raise Violation("%s(%s of %r) gave %r and then ended with %s, expected %s"
                    % (name, cont, items, out, end if isinstance(end, str) else end.__name__,
                       tails_txt(model.tails)))
  return {"nontrivial": len(exp) >= 2, "labels": labels}


# --------------------------------------------------------------------------
# G.d elementwise attribute access and call
# --------------------------------------------------------------------------
ATTRS = {
  # name: (call args or None, kwargs, primary family)
  "real": (None, {}, "mixed"), "imag": (None, {}, "mixed"),
  "numerator": (None, {}, "rat"), "denominator": (None, {}, "rat"),
  "conjugate": ((), {}, "mixed"), "bit_length": ((), {}, "intb"),
  "as_integer_ratio": ((), {}, "real"), "is_integer": ((), {}, "float"), "hex": ((), {}, "float"),
  "limit_denominator": ((3,), {}, "frac"), "limit_denominator/kw": ((), {"max_denominator": 2}, "frac"),
}
FAM_D = dict(FAM, rat=st.one_of(INTS, FRACS, BOOLS), intb=st.one_of(st.integers(-300, 300), BOOLS))


def strat_attr(tier, subs=False):
  def for_attr(a):
    fam = ATTRS[a][2]
    main = stream_leaf((FAM_D[fam], None))
    odd = stream_leaf((st.one_of(FAM_D[fam], FAM["wild"]), None))
    # Streams some items of which were read before; instances of Stream subclasses (own __iter__, tee hub) in a
    # clause of their own
    used = used_of(main)
    if subs:
      return st.fixed_dictionaries(dict(a=st.just(a), s=sub_leaf((FAM_D[fam], None))))
    return st.fixed_dictionaries(dict(a=st.just(a), s=wone((6, main), (1, odd), (2, used))))
  return st.one_of([for_attr(a) for a in sorted(ATTRS)])


def strat_attr_sub(tier):
  return strat_attr(tier, subs=True)


def run_attr(case):
  a = case["a"]
  args, kwargs, _ = ATTRS[a]
  name = a.split("/")[0]
  kind, p = case["s"]
  if name in vars(Stream) or name in ("_data",):
    raise Violation("attribute %s is Stream's own" % name)
  del _HUBS[:]
  s = b_leaf(kind, p)
  ms = m_leaf(kind, p)
  res = getattr(s, name)
  if type(res) is not Stream:
    raise Violation("Stream.%s is %r, not a Stream" % (name, res))
  if args is None:
    model = m_un(operator.attrgetter(name), ms)
  else:
    res = res(*args, **kwargs)
    if type(res) is not Stream:
      raise Violation("Stream.%s(...) is %r, not a Stream" % (name, res))
    model = m_un(lambda v: getattr(v, name)(*args, **kwargs), ms)
  what = "Stream(%r).%s%s" % (case["s"], name, "" if args is None else "(*%r, **%r)" % (args, kwargs))
  if kind in SUB_KINDS:
    try:
      compare(res, model, what)
    except Violation as e:
      # the elements of a Stream subclass instance are what iter() gives (as for every operator)
      raise Violation(e.detail, site="C01-getattr-bypasses-iter")
  else:
    compare(res, model, what)
  labels = ["attr:" + a, "self:" + kind, "call" if args is not None else "attribute"]
  if kind in SUB_KINDS:
    labels.append("self is an instance of a Stream subclass")
  if kind in USED_KINDS:
    labels.append("operand partly read before the operator")
  labels += outcome_labels(model, [ms])
  return {"nontrivial": len(model.vals) >= 2, "labels": labels}


# --------------------------------------------------------------------------
# an operator builds a new Stream: its operand is not altered
# --------------------------------------------------------------------------
KEEP_OPS = {
  # (abs() is not one of the 35 operator methods the property quantifies over; Stream.__abs__ maps
  #  its operand in place on the unchanged tree, which is why it is not listed here)
  "neg": lambda s: -s, "pos": lambda s: +s, "invert": lambda s: ~s,
  "add": lambda s: s + 3, "radd": lambda s: 3 + s, "mul": lambda s: s * 2, "rsub": lambda s: 1 - s,
  "eq": lambda s: s == 1, "neg_neg": lambda s: -(-s),
}
KEEP_REF = {
  "neg": lambda v: -v, "pos": lambda v: +v, "invert": lambda v: ~v,
  "add": lambda v: v + 3, "radd": lambda v: 3 + v, "mul": lambda v: v * 2, "rsub": lambda v: 1 - v,
  "eq": lambda v: v == 1, "neg_neg": lambda v: -(-v),
}


def strat_keep(tier):
  return st.fixed_dictionaries(dict(
    v=st.one_of(st.integers(-9, 9), st.fractions(-3, 3, max_denominator=4)),
    ops=st.lists(st.sampled_from(sorted(KEEP_OPS)), min_size=1, max_size=3),
    kind=st.sampled_from(["const", "const", "control"]), k=st.integers(1, 4)))


def run_keep(case):
  """Stream(v) (an endless constant) and a ControlStream may be used in several expressions:
  building -s, abs(s), s + 3 ... must leave s itself yielding v."""
  v = case["v"]
  ops = [o for o in case["ops"] if not (o == "invert" and not isinstance(v, int))]
  if not ops:
    ops = ["neg"]
  s = audiolazy.ControlStream(v) if case["kind"] == "control" else Stream(v)
  results = [(o, KEEP_OPS[o](s)) for o in ops]
  k = case["k"]
  got = s.take(k)
  if got != [v] * k or any(type(g) is not type(v) for g in got):
    raise Violation("after building %s from s = %s(%r), s itself yields %r" % (
      ", ".join(ops), "ControlStream" if case["kind"] == "control" else "Stream", v, got))
  for o, r in results:
    if not isinstance(r, Stream):
      raise Violation("%s on a Stream gave %r" % (o, r))
    g = r.take(k)
    e = [KEEP_REF[o](v)] * k
    if g != e:
      raise Violation("%s of the constant stream %r yields %r, expected %r (expressions built: %s)"
                      % (o, v, g, e, ", ".join(ops)))
  return {"nontrivial": len(ops) >= 2, "labels": ["kind:" + case["kind"]] + sorted(set(ops))}


CLAUSES = [
  Clause("operand_kept", strat_keep, run_keep, quick=600, thorough=6000,
         doc="an operator returns a new Stream and leaves its (reusable: constant / control) operand untouched"),
  Clause("matrix", strat_matrix, run_matrix, quick=3200, thorough=60000,
         floors={"reflected": .1, "unequal lengths": .1, "periodic truncated": .06,
                 "scalar repeated": .02, "clean end": .25, "element exception": .03,
                 "equal scalar of another type used before": .012},
         doc="each of the 35 dunders (and abs) called directly on 8 Stream kinds x 15 operand kinds x element families"),
  Enumerated("grid", grid, run_matrix, shards={"quick": 8, "thorough": 16},
             doc="every (method, self kind, other kind) with fixed element vectors, both length orders"),
  Clause("used", strat_used, run_matrix, quick=1600, thorough=20000,
         floors={"operand partly read before the operator": .5, "periodic operand read off phase": .08,
                 "periodic operand read off phase, scalar partner": .035, "no finite operand": .1,
                 "reflected": .1, "scalar repeated": .03, "clean end": .15, "unequal lengths": .025},
         doc="the operator matrix over operands with a history: 0..7 items of the Stream (every kind, the periodic "
             "Stream(a, b, c) and constant Stream(a) among them) or of the generator / iterator partner were read "
             "- take, next, a for loop that breaks, zip - before the operator is applied; the i-th element of such "
             "an operand is the i-th remaining one.  Periodic / constant Streams also meet scalars, each other and "
             "the unary operators here (endless results, first 16 positions compared)"),
  Clause("used_trees", strat_used_trees, run_trees, quick=1000, thorough=12000,
         floors={"operand partly read before the operator": .5, "periodic operand read off phase": .1,
                 "endless sub-expression truncated one level up": .08, "nested": .2, "clean end": .2},
         doc="nested expressions (operator syntax) over such operands, with periodic-with-scalar and unary-over-"
             "periodic sub-expressions truncated by a finite operand one level up"),
  Clause("subclasses", strat_subclasses, run_kinds, quick=1200, thorough=12000,
         floors={"Stream subclass with its own __iter__": .13, "StreamTeeHub operand": .1,
                 "StreamTeeHub operand with copies left for other uses": .045,
                 "self is an instance of a Stream subclass": .18, "reflected": .1, "clean end": .25,
                 "unequal lengths": .1},
         doc="the operator matrix with instances of Stream subclasses on either side: a subclass that adds "
             "nothing, user subclasses whose own __iter__ decides what their elements are (the stored sequence "
             "backwards / rotated, anew at every iter()), a StreamTeeHub with 1..3 copies (the copies the "
             "expression leaves over must still deliver every item) and a ControlStream"),
  Clause("iterables", strat_iterables, run_kinds, quick=1200, thorough=12000,
         floors={"iterable operand of another kind": .9, "other:str": .05, "other:bytes": .02, "other:u_bag": .06,
                 "other:dictkeys": .02, "other:u_iter": .025, "reflected": .1, "clean end": .25,
                 "unequal lengths": .1},
         doc="the 32 binary dunders with an iterable operand that is neither a Stream nor a list / tuple / deque "
             "/ range / generator: a user's re-iterable class without len(), a user's iterator class, a dict "
             "(its keys), a dict values view, itertools.islice, a map object, bytes / bytearray / memoryview "
             "(iterables of ints) and a str (an iterable of its characters, with str elements on the Stream side)"),
  Clause("extremes", strat_extremes, run_extremes, quick=1200, thorough=12000,
         floors={"scalar repeated": .2, "scalar at the edge of the float format": .1, "scalar power of two": .06,
                 "scalar subnormal power of two": .015, "reflected": .1, "clean end": .25},
         doc="the arithmetic and comparison dunders over floats at the edges of the format (subnormals, largest "
             "normals, powers of two over the whole exponent range, signed zeros, infinities, nan) and complex "
             "numbers with signed-zero parts, as elements and - half of the cases - as the scalar operand"),
  Enumerated("scalar_grid", scalar_grid, run_extremes, shards={"quick": 4, "thorough": 4},
             doc="every binary arithmetic / comparison dunder x 69 scalar operands that are special for floats "
                 "(powers of two 2**-1074 .. 2**1023 of both signs, subnormals, largest floats, identities, "
                 "signed zeros, infinities, nan, a big int, a Fraction, complex numbers with signed-zero parts) "
                 "x a real and a complex element vector"),
  Clause("trees", strat_trees, run_trees, quick=2400, thorough=40000,
         floors={"nested": .2, "plain operand on the left": .1, "clean end": .25, "unequal lengths": .12},
         doc="nested expressions via operator syntax (reflected dispatch), unary, abs, attribute/call and broadcast nodes"),
  Clause("faulty", strat_faulty, run_matrix, quick=1600, thorough=30000,
         floors={"read on after exception": .15, "value after a failing position": .08,
                 "several failing positions": .08, "reflected": .1, "scalar repeated": .02},
         doc="the operator matrix over operands in which some positions make the element operation raise "
             "(zero divisors, 0 ** negative, overflow, negative shift counts, None / matrices / floats where "
             "the operator is undefined): the consumer catches the error and reads on - the later positions "
             "are still op(i-th elements) and the end comes where the shortest operand ends"),
  Clause("faulty_trees", strat_faulty_trees, run_trees, quick=1200, thorough=20000,
         floors={"read on after exception": .08, "value after a failing position": .035, "nested": .17},
         doc="nested expressions over such operands, read on after every caught element error"),
  Clause("mutated", strat_mutated, run_mutated, quick=1600, thorough=30000,
         floors={"reflected": .1, "result longer than the operand was when built": .12,
                 "operand grown before the first read": .2, "operand grown between two reads": .03,
                 "operand shrunk before the first read": .05, "operand items replaced before the first read": .025,
                 "result ends with the shrunk operand": .04, "periodic truncated": .15, "changed:marray": .03},
         doc="each of the 32 binary dunders called directly with a list (or array.array) operand that is "
             "grown / shrunk / has items replaced after the call - before the first read or between two "
             "reads: the result is lazy, so position i is the operator on the i-th elements as they are "
             "when read and the end comes with the shortest operand as it is when its end is reached"),
  Clause("mutated_trees", strat_mutated_trees, run_mutated_trees, quick=1000, thorough=20000,
         floors={"nested": .1, "plain operand on the left": .15, "several changed operands": .06,
                 "result longer than the operand was when built": .1,
                 "operand grown before the first read": .15, "operand grown between two reads": .03,
                 "operand shrunk before the first read": .05},
         doc="nested expressions (operator syntax, reflected dispatch) whose list operands are changed "
             "after the expression was built"),
  Clause("deep", strat_deep, run_deep, quick=160, thorough=1600,
         floors={"plain operand on the left": .15, "chain on the left": .15, "clean end": .3},
         doc="chains 2600..6000 (thorough ..12000) operators deep, plain and reflected, every operand kind"),
  Clause("broadcast", strat_broadcast, run_broadcast, quick=3200, thorough=50000,
         floors={"scalar in, scalar out": .02, "container kept": .15, "lazy in, lazy out": .15,
                 "keyword call": .04, "user container class": .1, "container without len()": .03,
                 "special result among ordinary ones": .02, "special result among ordinary ones in a Stream": .002},
         doc="47 one-argument math/dB/MIDI functions x 23 container kinds (incl. user-defined container classes "
             "with and without len()): kind kept, elements = closed form, laziness"),
  Clause("attr", strat_attr, run_attr, quick=800, thorough=10000,
         floors={"call": .2, "attribute": .1, "clean end": .25, "operand partly read before the operator": .05},
         doc="Stream.attr / Stream.method(*args, **kwargs) elementwise (fresh Streams and Streams some items of "
             "which were read before)"),
  # KNOWN FINDING (known_findings.json, site C01-getattr-bypasses-iter): the unchanged tree fails this clause (genuine defect,
  # recorded, not repaired - see DESIGN.md 7.3 sixth round).  Every failure of this clause carries that site and is
  # reported as KNOWN-FINDING, not as a violation; the clause is the canary that shows the defect is still there.  When
  # /repo is repaired (proposed-fixes/C01-getattr-call-bypass-iter.diff) move proposed-fixes/C01-getattr-regress/*.json to
  # regress/C01/ and turn the entry into a "fixed" one.
  Clause("attr_subclasses", strat_attr_sub, run_attr, quick=400, thorough=5000,
         floors={"call": .2, "attribute": .1, "clean end": .25, "self is an instance of a Stream subclass": .9},
         doc="the same on instances of Stream subclasses (own __iter__, StreamTeeHub with copies left over): their "
             "elements are what iter() gives, as for every operator"),
]
