"""C18 - PCM byte codecs are exact: chunk packing and WAV sample decoding."""
import io
import os
from collections import deque
from collections.abc import Sequence
import shutil
import struct
import tempfile
import wave

from hypothesis import strategies as st
from vlib.core import Clause, Enumerated, Reject, Violation

import audiolazy
from audiolazy import chunks, WavStream, Stream

ID = "C18"
RULE = ("chunks cases = (strategy struct/array/default, format b h i f d B H, byte order "
        "None < > = ! @, chunk size 1..300 or None (chunks.size), a short base list of "
        "in-range values incl. the extremes cycled to a length 0..3*size+delta, pad value "
        "or default, source kind list/tuple/iterator/generator/Stream/array.array/collections.deque/"
        "user Sequence answering integer indexes only/object with only __getitem__, "
        "positional/keyword call; float values include inf, -inf and NaNs of both signs; with size "
        "left out chunks.size is set to 1..300 beforehand in part of the cases; pad left out = the "
        "integer 0 on every format; one float list in six holds zeros of both signs only); oracle = one-shot "
        "struct.pack(order + str(n) + fmt, *(xs + pads)) compared with the joined chunks, "
        "each chunk size*itemsize bytes, struct.unpack of the join gives the padded "
        "sequence. WAV cases = (width 1..4, channels 1..2, sample list incl. min/max/-1/0, "
        "rate 0..2**32-1 (0, the 32-bit extremes and every rate whose byte rate overflows 32 bits "
        "included: the header is then written with rate 1 and its rate / byte-rate fields are set "
        "by hand), keep, open route path/file object/BytesIO, placement of the WAV inside the opened "
        "object: alone at offset 0 / after a foreign preamble / after another WAV (other header, "
        "same header and more frames, same header and every low bit flipped) / between two WAVs "
        "/ followed or surrounded by foreign bytes - the object is handed over positioned at the "
        "RIFF header of the wanted WAV, consumption route) written with "
        "the stdlib wave module (24-bit frames packed by hand) into a per-case temp dir; "
        "oracle = the written integers (keep) or (v - 128*[bits==8]) / 2**(bits-1) as exact "
        "floats, header mirror (before and after reading), file closed after exhaustion; keep is a bool "
        "or 1/0/2/None; a quarter of the files is laid out by hand instead (fmt chunk of 16/18/40 "
        "bytes, further chunks before fmt, between fmt and data and after the data, pad byte after odd "
        "data), self-checked against the stdlib reader. Several objects at once: two chunk generators "
        "(same format and size in half of the cases) advanced in turns or one run / advanced inside "
        "the lazy input of the other or re-chunking its decoded output; two or three WavStreams read "
        "in portions in any order, forgotten, unfinished, over the same file or over a file that "
        "replaced another under the same name - each object judged against its own oracle. "
        "non-trivial = at least 2 "
        "chunks / at least 3 frames with a negative sample; distinct = distinct case hash")
ASSUMPTIONS = [
  "chunk values and pad values lie in the format's range (ints for integer formats, "
  "float32-representable floats for 'f', which includes the infinities and quiet NaNs: both float "
  "formats store them exactly; a NaN counts as given back when a NaN with the same bytes comes "
  "back); out-of-range values raise in both strategies and are outside the property's domain",
  "the default pad value is the integer 0 (since the repair of the float default 0., which integer "
  "formats could not pack): it pads every format, giving zero bytes",
  "byte order None means struct's native mode; for the formats used (b h i f d B H) native "
  "and standard sizes coincide on this platform and array item sizes equal struct sizes",
  "WAV files are produced by wave.open(..., 'wb') on a little-endian host, or put together by hand "
  "following the RIFF/WAVE layout rules (fmt chunk of 16, 18 or 40 bytes with the PCM sub-format, "
  "further chunks around fmt and data, pad byte after odd chunks) and then accepted only when the "
  "stdlib reader returns the very same frames; only PCM mono/stereo",
  "with size left out the chunk size is the value of chunks.size at the time the chunks are made "
  "(documented as changeable); the check sets it on the strategy dict or its class and restores it",
  "every chunks generator and every WavStream answers for its own input only: other generators / "
  "streams of the same process (alive, unfinished, forgotten, running inside this one's lazily "
  "evaluated input) are part of 'all inputs / configurations'; a file replaced under the same name "
  "(os.replace) is a new file, a reader opened before keeps the old one",
  "the header's rate field is any unsigned 32-bit value: what the fmt chunk can store and the "
  "stdlib reader reports, not only what wave.setframerate agrees to write; the dependent byte-rate "
  "field holds rate*channels*width modulo 2**32 (the reader does not look at it)",
  "'the file is closed' is observed as: no /proc/self/fd entry resolves to the temp path "
  "(path route) and the wave reader held by the stream reports getfp() is None; a file object "
  "supplied by the caller stays the caller's responsibility (the wave module never closes it)",
  "a PCM file handed over as an open file-like object is the RIFF stream that starts at the "
  "object's current position (what wave.open decodes, which WavStream documents to accept): "
  "bytes before that position and after the end of the RIFF chunk belong to the container, "
  "not to the file",
]

INT_RANGE = {"b": (-128, 127), "B": (0, 255), "h": (-32768, 32767), "H": (0, 65535),
             "i": (-2 ** 31, 2 ** 31 - 1)}
FMTS = ["b", "h", "i", "f", "d", "B", "H"]
ORDERS = [None, "<", ">", "=", "!", "@"]
EDGE_SIZES = [1, 2, 127, 128, 129, 255, 256, 257, 300]


# ------------------------------------------------------------------ chunks

# the values outside the finite range that both float formats store exactly: the infinities and
# (quiet) NaNs of either sign, one of them with a payload in the mantissa bits that float32 keeps
_INF = float("inf")
_NAN = float("nan")
_NAN_PAYLOAD = struct.unpack("<d", bytes.fromhex("000000a0e5f1f87f"))[0]
NONFINITE = [_INF, -_INF, _NAN, -_NAN, _INF, -_INF, _NAN_PAYLOAD, -_NAN_PAYLOAD]


def _values(dfmt):
  if dfmt in INT_RANGE:
    lo, hi = INT_RANGE[dfmt]
    edge = [lo, hi, 0, 1, hi - 1, lo + 1] + ([-1] if lo < 0 else [128])
    return st.one_of(st.sampled_from(edge), st.integers(lo, hi))
  if dfmt == "f":
    return st.one_of(st.floats(width=32, allow_nan=False, allow_infinity=False),
                     st.sampled_from([0., -0., 1., -1., .5, 3.4028234663852886e+38,
                                      -3.4028234663852886e+38, 1.401298464324817e-45]),
                     st.sampled_from(NONFINITE),
                     st.integers(-1000, 1000))
  return st.one_of(st.floats(allow_nan=False, allow_infinity=False),
                   st.sampled_from([0., -0., 1., -1., 1e308, 5e-324, .1, 1.7976931348623157e308,
                                    -1.7976931348623157e308]),
                   st.sampled_from(NONFINITE),
                   st.integers(-1000, 1000))


def _nonfinite(v):
  return isinstance(v, float) and (v != v or v in (_INF, -_INF))


def _same_items(got, exp):
  """Item-wise equality in which a NaN equals a NaN (bytes are compared separately)."""
  if len(got) != len(exp):
    return False
  for g, e in zip(got, exp):
    if isinstance(e, float) and e != e:
      if not (isinstance(g, float) and g != g):
        return False
    elif g != e or (isinstance(g, float) and g != g):
      return False
  return True


def _bases(dfmt):
  """Short value lists that are cycled to the wanted length.  For the float formats one list in six
  holds zeros of both signs (and ints 0) only: consecutive chunks then compare equal item by item
  while their bytes differ."""
  plain = st.lists(_values(dfmt), min_size=1, max_size=8)
  if dfmt in INT_RANGE:
    return plain
  zeros = st.lists(st.sampled_from([0., -0., 0., -0., 0]), min_size=2, max_size=7)
  return st.one_of(plain, plain, plain, plain, plain, zeros)


def strat_chunks(tier):
  smax = 300 if tier == "quick" else 600
  size = st.one_of(st.integers(1, 9), st.integers(1, 9), st.integers(1, smax),
                   st.sampled_from(EDGE_SIZES))

  def body(dfmt):
    return st.fixed_dictionaries(dict(
      strategy=st.sampled_from(["struct", "array", "struct", "array", "default"]),
      dfmt=st.just(dfmt),
      order=st.sampled_from([None, "<", ">", None, "<", ">", "=", "!", "@"]),
      size=st.one_of(size, size, size, size, size, size, size, size, size, st.none()),
      base=_bases(dfmt),
      blocks=st.integers(0, 3),        # number of complete chunks
      extra=st.integers(0, 400),       # ragged tail length, taken modulo size
      pad=st.one_of(st.just("default"), _values(dfmt), _values(dfmt)),
      src=st.sampled_from(["list", "iter", "stream", "gen", "tuple", "array", "array",
                           "deque", "deque", "intseq", "intseq", "getitem"]),
      kw=st.booleans(),
      # size None only: the default size is what chunks.size holds at the time, and the documentation
      # invites to change it ("Default chunk size can be accessed (and changed) via chunks.size")
      defsize=st.one_of(st.none(), st.integers(1, 12), st.integers(1, 300)),
      defvia=st.sampled_from(["instance", "class"]),
    ))
  return st.sampled_from(FMTS).flatmap(body)


class IntSeq(Sequence):
  """A user Sequence (abc mixins for the rest) whose __getitem__ answers integer indexes only."""
  def __init__(self, data):
    self._data = list(data)
  def __len__(self):
    return len(self._data)
  def __getitem__(self, idx):
    if isinstance(idx, bool) or not isinstance(idx, int):
      raise TypeError("sequence index must be integer, not '%s'" % type(idx).__name__)
    return self._data[idx]


class GetItemOnly(object):
  """Iterable through the old protocol only: __getitem__(0), (1), ... until IndexError."""
  def __init__(self, data):
    self._data = list(data)
  def __getitem__(self, idx):
    if isinstance(idx, bool) or not isinstance(idx, int):
      raise TypeError("index must be integer, not '%s'" % type(idx).__name__)
    return self._data[idx]


def _chunks_call(case, xs, pad):
  f = {"struct": chunks.struct, "array": chunks.array, "default": chunks}[case["strategy"]]
  import array as _array
  src = {"list": list, "iter": iter, "stream": Stream, "tuple": tuple,
         "deque": deque,        # a registered Sequence that refuses slices
         "intseq": IntSeq, "getitem": GetItemOnly,
         "array": lambda v: _array.array(case["dfmt"], v),   # already packed input of the same type code
         "asis": lambda v: v,       # a ready-made lazy input (the clauses on several generators at once)
         "gen": lambda v: (x for x in v)}[case["src"]](xs)
  kwargs = {}
  if pad != "default":
    kwargs["padval"] = pad
  if case["kw"]:
    if case["size"] is not None:
      kwargs["size"] = case["size"]
    kwargs["dfmt"] = case["dfmt"]
    if case["order"] is not None:
      kwargs["byte_order"] = case["order"]
    return f(src, **kwargs)
  return f(src, case["size"], case["dfmt"], case["order"], **kwargs)


def _set_default_size(value, via):
  """chunks.size = value (on the strategy dict itself or on its class); returns the undo function."""
  cls = type(chunks)
  had_inst = "size" in vars(chunks)
  old_inst = vars(chunks).get("size")
  old_cls = cls.size
  if via == "class":
    vars(chunks).pop("size", None)     # an instance attribute would hide the class one
    cls.size = value
  else:
    chunks.size = value
  if chunks.size != value:
    raise RuntimeError("harness: chunks.size could not be set")

  def undo():
    cls.size = old_cls
    vars(chunks).pop("size", None)
    if had_inst:
      vars(chunks)["size"] = old_inst
  return undo


def run_chunks(case):
  dfmt, order = case["dfmt"], case["order"]
  defsize = case.get("defsize") if case["size"] is None else None
  size = case["size"] if case["size"] is not None else defsize or chunks.size
  if not (isinstance(size, int) and size >= 1):
    raise Violation("chunks.size is %r" % (size,))
  nblocks = case["blocks"] if case["size"] is not None or defsize else min(case["blocks"], 1)
  tail = case["extra"] % size
  pad = case["pad"]
  base = case["base"]
  length = nblocks * size + tail
  xs = [base[i % len(base)] for i in range(length)]
  padv = 0 if pad == "default" else pad     # the default pad is the integer 0: packable in every format
  n = -(-length // size) * size
  padded = xs + [padv] * (n - length)
  fmt = (order or "") + "%d%s" % (n, dfmt)
  exp = struct.pack(fmt, *padded)
  item = struct.calcsize((order or "") + dfmt)

  site = "chunks." + ("struct" if case["strategy"] == "default" else case["strategy"])
  what = "%s(len %d, size=%r, dfmt=%r, byte_order=%r, padval=%r)" % (
    site, length, case["size"], dfmt, order, pad)
  got = []
  restore = None
  if defsize:
    what += " with chunks.size = %d set before (%s attribute)" % (defsize, case.get("defvia", "instance"))
    restore = _set_default_size(defsize, case.get("defvia", "instance"))
  try:
    for c in _chunks_call(case, xs, pad):
      got.append(c)
      if len(got) > n // size + 2:
        break
  except Exception as e:
    raise Violation("%s raised %s: %s after %d chunk(s); xs[:6]=%r"
                    % (what, type(e).__name__, e, len(got), xs[:6]), site=site)
  finally:
    if restore:
      restore()
  for k, c in enumerate(got):
    if not isinstance(c, bytes):
      raise Violation("%s chunk %d is %s, not bytes" % (what, k, type(c).__name__), site=site)
    if len(c) != size * item:
      raise Violation("%s chunk %d has %d bytes, expected %d*%d"
                      % (what, k, len(c), size, item), site=site)
  if len(got) != n // size:
    raise Violation("%s yielded %d chunks, expected %d" % (what, len(got), n // size), site=site)
  joined = b"".join(got)
  if joined != exp:
    k = next(i for i in range(len(exp)) if joined[i] != exp[i])
    el = k // item
    raise Violation("%s: bytes differ from struct.pack(%r, ...) at byte %d (element %d, value "
                    "%r): got %s, expected %s"
                    % (what, fmt, k, el, padded[el], joined[el * item:(el + 1) * item].hex(),
                       exp[el * item:(el + 1) * item].hex()), site=site)
  back = struct.unpack(fmt, joined)
  if not _same_items(list(back), padded):
    raise Violation("%s: unpacking gives %r..., expected %r..." % (what, back[:6], padded[:6]),
                    site=site)

  labels = ["strategy:" + case["strategy"], "fmt:" + dfmt, "order:%s" % order,
            "src:" + case["src"]]
  if case["src"] in ("deque", "intseq") and length >= size:
    labels.append("unsliceable Sequence holding a whole chunk")
  if n > length:
    labels.append("padded tail")
  if length == 0:
    labels.append("empty input")
  if size > 128:
    labels.append("size>128")
  if case["size"] is None:
    labels.append("default size")
    if defsize:
      labels.append("default size changed through chunks.size")
  if pad == "default":
    labels.append("default pad")
    if n > length and dfmt in INT_RANGE:
      labels.append("default pad filling the tail of an integer format")
  if n // size >= 2:
    labels.append("multi-chunk")
  if order in (">", "!") and item > 1:
    labels.append("non-native multi-byte")
  if any(_nonfinite(v) for v in padded):
    labels.append("non-finite value (inf / nan) among data or pad")
  if dfmt in "fd" and any(
      padded[k:k + size] == padded[k + size:k + 2 * size] and
      exp[k * item:(k + size) * item] != exp[(k + size) * item:(k + 2 * size) * item]
      for k in range(0, n - size, size)):
    labels.append("consecutive chunks equal by value, different in bytes (signed zeros)")
  return {"nontrivial": n // size >= 2, "labels": labels}


def chunk_grid(tier, shard, nshards):
  """Every strategy x format x byte order at sizes around the 127/255 boundaries."""
  sizes = [1, 3, 127, 128, 129, 255, 256, 257] if tier == "quick" else \
          [1, 2, 3, 4, 5, 8, 64, 126, 127, 128, 129, 130, 254, 255, 256, 257, 258, 300, 1024]
  i = 0
  for strategy in ("struct", "array"):
    for dfmt in FMTS:
      if dfmt in INT_RANGE:
        lo, hi = INT_RANGE[dfmt]
        base = [lo, hi, 1, 0, hi - 1]
      else:
        base = [-1.5, 0.25, 3., -0., 1e-3 if dfmt == "d" else 0.0009765625]
      for order in ORDERS:
        for size in sizes:
          for blocks, extra in ((2, 0), (1, 1), (0, size - 1)):
            i += 1
            if i % nshards == shard:
              yield dict(strategy=strategy, dfmt=dfmt, order=order, size=size, base=base,
                         blocks=blocks, extra=extra, pad=base[1], src="iter", kw=bool(i % 2))
  # the non-finite values the float formats store (inf, -inf, NaNs of both signs) as data and as pad
  for strategy in ("struct", "array", "default"):
    for dfmt in ("f", "d"):
      base = [_INF, 1.5, -_INF, _NAN, -0., -_NAN, _NAN_PAYLOAD]
      for order in ORDERS:
        for size in (1, 2, 3, 8, 129):
          for blocks, extra in ((2, 0), (1, 1), (0, size - 1)):
            i += 1
            if i % nshards == shard:
              yield dict(strategy=strategy, dfmt=dfmt, order=order, size=size, base=base,
                         blocks=blocks, extra=extra, pad=(_INF, _NAN, -_INF, 0.25)[i % 4],
                         src=("iter", "list", "gen")[i % 3], kw=bool(i % 2))
  # zeros of both signs: consecutive chunks (and data vs pad) that compare equal but differ in bytes
  for strategy in ("struct", "array", "default"):
    for dfmt in ("f", "d"):
      for order in (None, ">"):
        for size in (1, 2, 3, 8):
          for base in ([0., -0.], [-0., 0., 0.], [0., 0., -0., 0., -0.], [0, -0., 0.]):
            for blocks, extra, pad in ((3, 0, 0.), (2, 1, -0.), (2, 1, 0.), (1, size - 1, -0.)):
              i += 1
              if i % nshards == shard:
                yield dict(strategy=strategy, dfmt=dfmt, order=order, size=size, base=base,
                           blocks=blocks, extra=extra, pad=pad, src=("iter", "list")[i % 2],
                           kw=bool(i % 2))
  # pad value left out (the default pads every format with zeros), ragged tails
  for strategy in ("struct", "array", "default"):
    for dfmt in FMTS:
      base = [1, 0, 2, 3, 5] if dfmt in INT_RANGE else [1.5, -0.25, 3., -0., 7.]
      for order in (None, "<", ">"):
        for size in (2, 3, 129):
          for blocks, extra in ((1, 1), (0, size - 1), (2, size // 2)):
            i += 1
            if i % nshards == shard:
              yield dict(strategy=strategy, dfmt=dfmt, order=order, size=size, base=base,
                         blocks=blocks, extra=extra, pad="default", src=("iter", "list")[i % 2],
                         kw=bool(i % 2))
  # size left out after chunks.size was changed (on the strategy dict or on its class)
  for strategy in ("struct", "array", "default"):
    for dfmt in FMTS:
      base = [1, 0, 2, 3, 5] if dfmt in INT_RANGE else [1.5, -0.25, 3., -0., 7.]
      for defsize in (1, 2, 3, 129, 2047):
        for via in ("instance", "class"):
          for blocks, extra in ((2, 0), (1, 1), (0, defsize - 1)):
            i += 1
            if i % nshards == shard:
              yield dict(strategy=strategy, dfmt=dfmt, order=(None, "<", ">")[i % 3], size=None,
                         base=base, blocks=blocks, extra=extra, pad=base[1], src=("iter", "list")[i % 2],
                         kw=bool(i % 2), defsize=defsize, defvia=via)
  # sources that are Sequences without slice support (deque, integer-index-only user Sequence) or
  # iterable through __getitem__ alone: every strategy x format, shorter / equal / longer than a chunk
  for strategy in ("struct", "array", "default"):
    for dfmt in FMTS:
      if dfmt in INT_RANGE:
        lo, hi = INT_RANGE[dfmt]
        base = [hi, lo, 0, 1, lo + 1, hi - 1, 2]
      else:
        base = [2.5, -0.75, 0., -3., 0.0009765625, 7., -0.]
      for order in (None, "<", ">"):
        for size in (1, 2, 5, 128, 257):
          for src in ("deque", "intseq", "getitem"):
            for blocks, extra in ((1, 0), (3, 0), (2, 1), (0, size - 1), (1, size - 1)):
              i += 1
              if i % nshards == shard:
                yield dict(strategy=strategy, dfmt=dfmt, order=order, size=size, base=base,
                           blocks=blocks, extra=extra, pad=base[0], src=src, kw=bool(i % 2))


# ------------------------------------------- several chunk generators at once

# Every call of chunks makes its own generator.  The statement holds for each of them whatever else
# goes on in the process: other generators of either strategy alive at the same time and advanced in
# any order, or started / advanced from *inside* the lazily evaluated input of this one (a sequence
# computed from the chunks of another stage, a generator that has something else chunked as a side
# job) - also with the same format and size, and while a chunk of this one is partly filled.
MODES = ["alternate", "sidejob", "step", "pipeline"]
PAIRS = [("array", "array")] * 3 + [("struct", "struct"), ("array", "struct"), ("struct", "array"),
                                     ("default", "array"), ("default", "default")]


def strat_nested(tier):
  small = st.one_of(st.integers(1, 6), st.integers(1, 6), st.integers(1, 40))

  def spec(dfmt, size, strategy):
    return st.fixed_dictionaries(dict(
      strategy=st.just(strategy), dfmt=st.just(dfmt), size=st.just(size),
      order=st.sampled_from([None, "<", ">", None, "<", ">", "=", "!", "@"]),
      base=st.lists(_values(dfmt), min_size=1, max_size=6),
      blocks=st.integers(0, 3), extra=st.integers(0, 40),
      pad=_values(dfmt),
      src=st.sampled_from(["list", "iter", "gen", "stream", "deque", "tuple"]),
      kw=st.booleans()))

  def body(t):
    dfmt, dfmt_b, size, size_b, pair, mode = t
    if mode == "pipeline":
      dfmt_b = dfmt           # the second stage re-chunks what the first one delivered
    return st.fixed_dictionaries(dict(
      mode=st.just(mode),
      a=spec(dfmt, size, pair[0]),
      b=spec(dfmt_b, size_b, pair[1]),
      sched=st.lists(st.integers(0, 1), max_size=10),     # alternate: which generator moves next
      hooks=st.lists(st.integers(0, 60), min_size=1, max_size=4),   # nested: before which items of a
      lead=st.integers(0, 7),                             # pipeline: items of a ahead of stage b
      b_first=st.booleans()))

  def pick(t):
    dfmt, size = t[0], t[1]
    # the other generator: same format and same size in about half of the cases
    return st.tuples(st.just(dfmt),
                     st.sampled_from([dfmt, dfmt, dfmt, None]).flatmap(
                       lambda d: st.just(d) if d else st.sampled_from(FMTS)),
                     st.just(size),
                     st.sampled_from([size, size, None]).flatmap(
                       lambda z: st.just(z) if z else small),
                     st.sampled_from(PAIRS), st.sampled_from(MODES)).flatmap(body)
  return st.tuples(st.sampled_from(FMTS), small).flatmap(pick)


def _plan(spec, xs=None):
  """What one chunks call has to deliver (oracle: one-shot struct.pack of sequence + pads)."""
  size, dfmt, order = spec["size"], spec["dfmt"], spec["order"]
  if xs is None:
    base = spec["base"]
    length = spec["blocks"] * size + spec["extra"] % size
    xs = [base[i % len(base)] for i in range(length)]
  n = -(-len(xs) // size) * size
  padded = list(xs) + [spec["pad"]] * (n - len(xs))
  fmt = (order or "") + "%d%s" % (n, dfmt)
  site = "chunks." + ("struct" if spec["strategy"] == "default" else spec["strategy"])
  return dict(spec=spec, xs=list(xs), n=n, size=size, padded=padded, fmt=fmt,
              exp=struct.pack(fmt, *padded), item=struct.calcsize((order or "") + dfmt),
              site=site, got=[],
              what="%s(len %d, size=%d, dfmt=%r, byte_order=%r, padval=%r)"
                   % (site, len(xs), size, dfmt, order, spec["pad"]))


def _start(plan, seq=None):
  spec = plan["spec"]
  if seq is None:
    case = dict(spec)
  else:                     # a ready-made (lazy) input
    case = dict(spec, src="asis")
  return _chunks_call(case, plan["xs"] if seq is None else seq, spec["pad"])


def _advance(plan, gen, how, count=None):
  """Take `count` chunks (None: all that remain) from a generator; True once it has ended."""
  k = 0
  while count is None or k < count:
    try:
      c = next(gen)
    except StopIteration:
      return True
    except Exception as e:
      raise Violation("%s %s: raised %s: %s after %d chunk(s)"
                      % (plan["what"], how, type(e).__name__, e, len(plan["got"])),
                      site=plan["site"])
    plan["got"].append(c)
    k += 1
    if len(plan["got"]) > plan["n"] // plan["size"] + 2:
      raise Violation("%s %s: more than the %d expected chunks"
                      % (plan["what"], how, plan["n"] // plan["size"]), site=plan["site"])
  return False


def _verify(plan, how):
  what, site, size, item = plan["what"] + " " + how, plan["site"], plan["size"], plan["item"]
  got, exp, padded = plan["got"], plan["exp"], plan["padded"]
  for k, c in enumerate(got):
    if not isinstance(c, bytes):
      raise Violation("%s: chunk %d is %s, not bytes" % (what, k, type(c).__name__), site=site)
    if len(c) != size * item:
      raise Violation("%s: chunk %d has %d bytes, expected %d*%d" % (what, k, len(c), size, item),
                      site=site)
  if len(got) != plan["n"] // size:
    raise Violation("%s: yielded %d chunks, expected %d" % (what, len(got), plan["n"] // size),
                    site=site)
  joined = b"".join(got)
  if joined != exp:
    k = next(i for i in range(len(exp)) if joined[i] != exp[i])
    el = k // item
    raise Violation("%s: bytes differ from struct.pack(%r, ...) at byte %d (element %d of %d, value "
                    "%r): got %s, expected %s; sequence + pad = %r"
                    % (what, plan["fmt"], k, el, len(padded), padded[el],
                       joined[el * item:(el + 1) * item].hex(), exp[el * item:(el + 1) * item].hex(),
                       padded[:12]), site=site)
  if not _same_items(list(struct.unpack(plan["fmt"], joined)), padded):
    raise Violation("%s: unpacking does not give the sequence + pads %r" % (what, padded[:12]),
                    site=site)


def run_nested(case):
  mode = case["mode"]
  a_spec, b_spec = case["a"], case["b"]
  pb = _plan(b_spec)
  labels = ["mode:" + mode, "pair:%s+%s" % (a_spec["strategy"], b_spec["strategy"])]
  partly = False          # did the other generator move while a chunk of `a` was partly filled?
  if mode == "alternate":
    pa = _plan(a_spec)
    plans = [pa, pb]
    gens = [_start(pa), _start(pb)]
    how = "advanced in turns with " + pb["what"]
    done = [False, False]
    for k in case["sched"]:
      if not done[k]:
        done[k] = _advance(plans[k], gens[k], how, 1)
    for k in ((1, 0) if case["b_first"] else (0, 1)):
      if not done[k]:
        _advance(plans[k], gens[k], how)
    if len(set(case["sched"])) == 2:
      labels.append("both generators moved before either ended")
  elif mode in ("sidejob", "step"):
    pa = _plan(a_spec)
    hooks = set(h % (len(pa["xs"]) + 1) for h in case["hooks"])
    how = "whose input, between two of its items, %s %s" % (
      "runs" if mode == "sidejob" else "takes the next chunk of", pb["what"])
    state = {"gen": None, "done": False, "fired": []}

    def fire(i):
      state["fired"].append(i)
      if mode == "sidejob":           # a complete call of its own, verified on the spot
        job = _plan(b_spec)
        _advance(job, _start(job), "run inside the input of " + pa["what"])
        _verify(job, "run inside the input of " + pa["what"])
      else:
        if state["gen"] is None:
          state["gen"] = _start(pb)
        if not state["done"]:
          state["done"] = _advance(pb, state["gen"], "advanced inside the input of " + pa["what"], 1)

    def seq():
      for i, x in enumerate(pa["xs"]):
        if i in hooks:
          fire(i)
        yield x
      if len(pa["xs"]) in hooks:
        fire(len(pa["xs"]))

    _advance(pa, _start(pa, seq()), how)
    if mode == "step":
      if state["gen"] is None:
        state["gen"] = _start(pb)
      if not state["done"]:
        _advance(pb, state["gen"], "finished after " + pa["what"])
    else:
      _advance(pb, _start(pb), "after " + pa["what"])
    partly = any(i % pa["size"] for i in state["fired"])
  elif mode == "pipeline":
    # stage b chunks its data; stage a chunks `lead` items of its own followed by everything that
    # stage b delivered, decoded again (lazily: stage b runs inside the input of stage a)
    lead = [a_spec["base"][i % len(a_spec["base"])] for i in range(case["lead"])]
    pa = _plan(a_spec, lead + pb["padded"])
    how = "fed with %d item(s) and then the decoded chunks of %s" % (len(lead), pb["what"])
    one = (b_spec["order"] or "") + "%d%s" % (pb["size"], b_spec["dfmt"])
    gb = _start(pb)

    def seq():
      for x in lead:
        yield x
      while True:
        before = len(pb["got"])
        if _advance(pb, gb, "read as the first stage of " + pa["what"], 1):
          return
        for x in struct.unpack(one, pb["got"][before]):
          yield x

    _advance(pa, _start(pa, seq()), how)
    partly = any((len(lead) + k * pb["size"]) % pa["size"] for k in range(pb["n"] // pb["size"]))
  else:
    raise ValueError(mode)
  _verify(pa, how)
  _verify(pb, "(the other generator) while " + pa["what"] + " was " + how)

  eff = lambda name: "struct" if name == "default" else name
  same = a_spec["dfmt"] == b_spec["dfmt"] and a_spec["size"] == b_spec["size"]
  twins = same and eff(a_spec["strategy"]) == eff(b_spec["strategy"])
  if a_spec["dfmt"] == b_spec["dfmt"]:
    labels.append("same format")
  if same:
    labels.append("same format and size")
  if twins:
    labels.append("same strategy, format and size")
  if partly:
    labels.append("other generator moved while a chunk was partly filled")
    if twins:
      labels.append("same strategy, format and size, other moved while a chunk was partly filled")
      if eff(a_spec["strategy"]) == "array":
        labels.append("array twins, other moved while a chunk was partly filled")
  if any(_nonfinite(v) for v in pa["padded"] + pb["padded"]):
    labels.append("non-finite value (inf / nan) among data or pad")
  return {"nontrivial": pa["n"] // pa["size"] >= 2 and pb["n"] > 0, "labels": labels}


def nested_grid(tier, shard, nshards):
  """strategy pair x format x mode with the same format and size on both generators."""
  i = 0
  for pair in sorted(set(PAIRS)):
    for dfmt in FMTS:
      if dfmt in INT_RANGE:
        lo, hi = INT_RANGE[dfmt]
        base_a, base_b = [hi, lo, 1, 0, hi - 1], [lo + 1, 2, hi, 3, lo]
      else:
        base_a, base_b = [1.5, -0.25, 3., -0., 0.0009765625], [-2.5, 7., _INF, 0.5, -1.]
      for size in (1, 2, 3, 5):
        for mode in MODES:
          for order in (None, ">"):
            for blocks, extra, lead in ((2, 1, 1), (1, size - 1, size + 1), (3, 0, 2)):
              i += 1
              if i % nshards == shard:
                yield dict(
                  mode=mode, lead=lead, b_first=bool(i % 2), sched=[0, 1, 1, 0, 1, 0][:2 + i % 5],
                  hooks=[1, size + 1, 2 * size + 2][:1 + i % 3],
                  a=dict(strategy=pair[0], dfmt=dfmt, size=size, order=order, base=base_a,
                         blocks=blocks, extra=extra, pad=base_a[1], src="gen", kw=bool(i % 2)),
                  b=dict(strategy=pair[1], dfmt=dfmt, size=size, order=(order, "<")[i % 2],
                         base=base_b, blocks=3 - blocks % 3, extra=extra + 1, pad=base_b[0],
                         src=("list", "iter", "deque")[i % 3], kw=bool(i % 3)))


# --------------------------------------------------------------------- WAV

def _lohi(width):
  return (0, 255) if width == 1 else (-(1 << (8 * width - 1)), (1 << (8 * width - 1)) - 1)


KEEPS = [False, True, False, True, False, True, 1, 0, 2, None]


def strat_wav(tier):
  maxfr = 64 if tier == "quick" else 300

  def body(width):
    lo, hi = _lohi(width)
    mid = 128 if width == 1 else 0
    edge = [lo, hi, mid, mid - 1, mid + 1, lo + 1, hi - 1]
    if width == 3:
      edge += [-256, 255, 256, -257, 0x7fff00, -0x800000 + 255, 0x00ff00, -0x010000]
    val = st.one_of(st.sampled_from(edge), st.integers(lo, hi))
    return st.fixed_dictionaries(dict(
      width=st.just(width),
      ch=st.sampled_from([1, 2]),
      vals=st.lists(val, max_size=2 * maxfr),
      keep=st.sampled_from(KEEPS),     # a flag: any true / false value
      rate=st.sampled_from(RATE_KINDS).flatmap(RATES.__getitem__),
      how=st.sampled_from(HOWS),
      pre=st.binary(min_size=1, max_size=48),   # foreign bytes around the WAV (placements with pre/tail)
      decoy=st.sampled_from(DECOYS),            # the other WAV stored in the same container
      dn=st.integers(0, 12),
      consume=st.sampled_from(["list", "list", "next", "take"]),
      layout=st.one_of(st.none(), st.none(), st.none(), LAYOUTS, LAYOUTS),
    )).map(_split_how)
  return st.sampled_from([1, 2, 3, 4]).flatmap(body)


# The fmt chunk stores the rate as an unsigned 32-bit integer and the reader reports it as stored.  The
# wave *writer* only takes rate >= 1 with rate*channels*width < 2**32 (its byte-rate field): the
# other header values are reached by patching the written header (_write).
RATES = {
  "common": st.sampled_from([8000, 44100, 48000, 1, 192000, 11025, 22050, 96000]),
  "writable": st.integers(1, 2 ** 28),
  "zero": st.just(0),
  "edge32": st.sampled_from([2 ** 32 - 1, 2 ** 32 - 2, 2 ** 31, 2 ** 31 - 1, 2 ** 31 + 1, 2 ** 30,
                             2 ** 29, 2 ** 28 + 1, 2 ** 24, 2 ** 16, 2 ** 16 - 1, 2 ** 16 + 1,
                             44100 << 16, 0xffff0000, 0x0000ac44 | 0x80000000, 2, 3, 255, 256]),
  "any32": st.integers(0, 2 ** 32 - 1),        # (drawn with a bias towards the small values)
  "high32": st.integers(2 ** 31, 2 ** 32 - 1),
  "over28": st.integers(2 ** 28 + 1, 2 ** 32 - 1),
}
RATE_KINDS = ["common", "common", "writable", "writable", "writable", "zero", "zero", "edge32",
              "any32", "high32", "high32", "over28"]


def _writable(rate, ch, width):
  """Does wave.open(..., 'wb') agree to write this rate?"""
  return rate >= 1 and rate * ch * width < 2 ** 32


# How the PCM file is laid out.  The wave module writes the canonical 44-byte header followed by the
# data chunk and nothing else.  RIFF/WAVE files in the wild carry further chunks before the fmt chunk,
# between fmt and data and after the data (LIST/INFO, fact, cue, bext, JUNK, id3 ...), an fmt chunk of
# 18 bytes (cbSize = 0) or the 40-byte WAVE_FORMAT_EXTENSIBLE one with the PCM sub-format, and a pad
# byte after a data chunk of odd length.  They store the same samples; a layout is
# (fmt kind, chunks before fmt, chunks between fmt and data, chunks after data, pad an odd last chunk).
FMT_KINDS = ["16", "18", "ext"]
CHUNK_IDS = [b"LIST", b"fact", b"JUNK", b"bext", b"id3 ", b"cue ", b"DATA", b"Fmt ", b"PAD ", b"smpl"]
_payload = st.one_of(st.binary(max_size=24),
                     st.sampled_from([b"", b"\x00", b"INFOISFT\x05\x00\x00\x00c18\x00\x00", b"data\x04\x00\x00\x00\x01\x02\x03\x04",
                                      b"\x7f" * 13, b"RIFF\x04\x00\x00\x00WAVE", bytes(range(1, 40)),
                                      b"\xff\x7f\x00\x80" * 6]))
_extra = st.lists(st.tuples(st.sampled_from(CHUNK_IDS), _payload), max_size=2)
LAYOUTS = st.fixed_dictionaries(dict(
  fmt=st.sampled_from(FMT_KINDS), pre=_extra, mid=_extra,
  post=st.one_of(_extra, st.lists(st.tuples(st.sampled_from(CHUNK_IDS), _payload), min_size=1,
                                  max_size=2)),
  padlast=st.booleans()))
_SUBTYPE_PCM = b"\x01\x00\x00\x00\x00\x00\x10\x00\x80\x00\x00\xaa\x00\x38\x9b\x71"


def _riff_chunk(cid, payload, pad=True):
  return bytes(cid) + struct.pack("<I", len(payload)) + bytes(payload) + \
         (b"\x00" if pad and len(payload) % 2 else b"")


def _laid_out(width, ch, rate, vals, layout):
  """Bytes of a RIFF/WAVE PCM file with the given chunk layout, put together by hand."""
  head = struct.pack("<HIIHH", ch, rate, (rate * ch * width) & 0xffffffff, ch * width, 8 * width)
  if layout["fmt"] == "16":
    fmt = struct.pack("<H", 1) + head
  elif layout["fmt"] == "18":
    fmt = struct.pack("<H", 1) + head + struct.pack("<H", 0)
  else:
    fmt = struct.pack("<H", 0xfffe) + head + \
          struct.pack("<HHI", 22, 8 * width, 3 if ch == 2 else 4) + _SUBTYPE_PCM
  raw = _raw(vals, width)
  post = [tuple(c) for c in layout["post"]]
  body = b"WAVE" + b"".join(_riff_chunk(*c) for c in layout["pre"]) + _riff_chunk(b"fmt ", fmt) + \
         b"".join(_riff_chunk(*c) for c in layout["mid"]) + \
         _riff_chunk(b"data", raw, pad=bool(post) or layout["padlast"]) + \
         b"".join(_riff_chunk(c[0], c[1], pad=k < len(post) - 1 or layout["padlast"])
                  for k, c in enumerate(post))
  blob = b"RIFF" + struct.pack("<I", len(body)) + body
  # the layout must be one the standard reader decodes to the very same frames (harness self-check)
  try:
    r = wave.open(io.BytesIO(blob), "rb")
    seen = (r.getnchannels(), r.getsampwidth(), r.getframerate(), r.getnframes(),
            r.readframes(r.getnframes() + 1))
  except Exception as e:
    raise RuntimeError("harness: hand-made WAV layout %r is not readable: %s: %s"
                       % (layout, type(e).__name__, e))
  if seen != (ch, width, rate, len(vals) // ch, raw):
    raise RuntimeError("harness: hand-made WAV layout %r reads back as %r" % (layout, seen[:4]))
  return blob


# (open route, placement of the wanted WAV inside the opened object).  A name can only denote a file
# whose RIFF data starts at offset 0; an open file object / BytesIO is decoded from where it stands.
PLACES = ["start", "preamble", "after_wav", "between", "pre_tail", "tail"]
DECOYS = ["other", "longer", "flipped"]
HOWS = [("path", "start")] * 4 + \
       [(r, p) for r in ("fileobj", "bytesio") for p in ["start"] + PLACES]


def _split_how(d):
  d = dict(d)
  d["route"], d["place"] = d.pop("how")
  return d


def _wav_bytes(width, ch, rate, vals, layout=None):
  buf = io.BytesIO()
  _write(buf, dict(width=width, ch=ch, rate=rate, layout=layout), vals)
  return buf.getvalue()


def _decoy(case, vals, kind):
  """Bytes of another valid PCM WAV that differs observably from the wanted one."""
  width, ch, rate, dn = case["width"], case["ch"], case["rate"], case.get("dn", 3)
  if kind == "flipped" and vals:      # same header, same length, every sample differs in its low bit
    return _wav_bytes(width, ch, rate, [v ^ 1 for v in vals])
  if kind in ("longer", "flipped"):   # same header, more frames
    lo, hi = _lohi(width)
    more = [lo + ((k * 40503 + 7) % (hi - lo + 1)) for k in range(ch * (1 + dn))]
    return _wav_bytes(width, ch, rate, list(vals) + more)
  w2 = width % 4 + 1                  # another width, channel count and rate
  lo, hi = _lohi(w2)
  other = [lo + ((k * 2654435761 + 11) % (hi - lo + 1)) for k in range((3 - ch) * dn)]
  return _wav_bytes(w2, 3 - ch, rate % 100000 + 1, other)


def _container(case, vals):
  """(bytes of the container, offset of the wanted WAV's RIFF header in it)."""
  place = case.get("place", "start")
  blob = _wav_bytes(case["width"], case["ch"], case["rate"], vals, case.get("layout"))
  pre = case.get("pre", b"\x00junk")
  kind = case.get("decoy", "other")
  if place == "start":
    head, tail = b"", b""
  elif place == "preamble":
    head, tail = pre, b""
  elif place == "after_wav":
    head, tail = _decoy(case, vals, kind), b""
  elif place == "between":
    head, tail = _decoy(case, vals, kind), _decoy(case, vals, "other")
  elif place == "pre_tail":
    head, tail = pre, pre[::-1]
  elif place == "tail":
    head, tail = b"", pre
  else:
    raise ValueError(place)
  return head + blob + tail, len(head)


def _raw(vals, width):
  if width == 1:
    return bytes(vals)
  return b"".join(v.to_bytes(width, "little", signed=True) for v in vals)


def _write(target, case, vals):
  rate, ch, width = case["rate"], case["ch"], case["width"]
  if case.get("layout"):
    blob = _laid_out(width, ch, rate, vals, case["layout"])
    if hasattr(target, "write"):
      target.write(blob)
    else:
      with open(target, "wb") as f:
        f.write(blob)
    return
  if not _writable(rate, ch, width):
    # the writer refuses this header: write it with rate 1, then set the 4-byte rate field and
    # the byte-rate field that depends on it (modulo 2**32; the reader ignores it) by hand
    buf = io.BytesIO()
    _write(buf, dict(case, rate=1), vals)
    blob = bytearray(buf.getvalue())
    if bytes(blob[:4]) != b"RIFF" or bytes(blob[8:16]) != b"WAVEfmt " or \
       struct.unpack_from("<II", blob, 24) != (1, ch * width):
      raise RuntimeError("harness: unexpected layout of the header written by the wave module")
    struct.pack_into("<II", blob, 24, rate, (rate * ch * width) & 0xffffffff)
    if hasattr(target, "write"):
      target.write(bytes(blob))
    else:
      with open(target, "wb") as f:
        f.write(bytes(blob))
    return
  w = wave.open(target, "wb")
  try:
    w.setnchannels(case["ch"])
    w.setsampwidth(case["width"])
    w.setframerate(case["rate"])
    w.writeframes(_raw(vals, case["width"]))
  finally:
    w.close()


def _open_fds(path):
  real = os.path.realpath(path)
  hits = []
  for fd in os.listdir("/proc/self/fd"):
    try:
      if os.path.realpath(os.path.join("/proc/self/fd", fd)) == real:
        hits.append(fd)
    except OSError:
      pass
  return hits


def _opened(what, make):
  try:
    return make()
  except Exception as e:
    raise Violation("%s cannot be opened: %s: %s" % (what, type(e).__name__, e))


def run_wav(case):
  width, ch, keep = case["width"], case["ch"], case["keep"]
  bits = 8 * width
  vals = list(case["vals"])
  if len(vals) % ch:
    vals = vals[:-1]
  nfr = len(vals) // ch
  place = case.get("place", "start")
  if case["route"] == "path" and place != "start":
    raise Reject("a file name denotes a WAV that starts at offset 0")
  what = "WavStream(%d-bit, %d ch, %d frames, keep=%r, %s%s)" % (
    bits, ch, nfr, keep, case["route"], "" if place == "start" else " placed " + place)
  if case.get("layout"):
    what += " [file laid out by hand: %r]" % (case["layout"],)
  tmp = tempfile.mkdtemp(prefix="c18-case-")
  mine = None
  offset = 0
  try:
    path = os.path.join(tmp, "t.wav")
    if case["route"] == "bytesio":
      data, offset = _container(case, vals)
      mine = io.BytesIO(data)
      mine.seek(offset)
      what += " at offset %d of %d bytes" % (offset, len(data))
      ws = _opened(what, lambda: WavStream(mine, keep=keep) if keep else WavStream(mine))
    elif case["route"] == "fileobj":
      data, offset = _container(case, vals)
      if place == "start":
        _write(path, case, vals)        # the wave module writes the disk file itself
      else:
        with open(path, "wb") as f:
          f.write(data)
      mine = open(path, "rb")
      mine.seek(offset)
      what += " at offset %d of %d bytes" % (offset, len(data))
      ws = _opened(what, lambda: WavStream(mine, keep))
    else:
      _write(path, case, vals)
      ws = WavStream(path, keep=keep)
    hdr = (ws.rate, ws.channels, ws.bits)
    if hdr != (case["rate"], ch, bits):
      raise Violation("%s: (rate, channels, bits) = %r, header says %r"
                      % (what, hdr, (case["rate"], ch, bits)))
    if case["consume"] == "list":
      got = list(ws)
    elif case["consume"] == "next":
      got = []
      it = iter(ws)
      while True:
        try:
          got.append(next(it))
        except StopIteration:
          break
        if len(got) > len(vals) + 4:
          raise Violation("%s yields more samples than stored" % what)
    else:
      k = len(vals) // 2
      got = list(ws.take(k)) + list(ws)
    if keep:
      exp = vals
    else:
      off = 128 if bits == 8 else 0
      exp = [(v - off) / float(1 << (bits - 1)) for v in vals]
    if len(got) != len(exp):
      raise Violation("%s yields %d samples, %d stored" % (what, len(got), len(exp)))
    for i, (g, e) in enumerate(zip(got, exp)):
      if isinstance(g, bool) or type(g) is not type(e) or g != e:
        raise Violation("%s sample %d (stored %d = 0x%s) decodes to %r, expected %r"
                        % (what, i, vals[i], _raw([vals[i]], width).hex(), g, e))
      if not keep and not (-1 <= g < 1):
        raise Violation("%s sample %d = %r outside [-1, 1)" % (what, i, g))
    hdr = (ws.rate, ws.channels, ws.bits)
    if hdr != (case["rate"], ch, bits):
      raise Violation("%s: after exhaustion (rate, channels, bits) = %r, header says %r"
                      % (what, hdr, (case["rate"], ch, bits)))
    # closed after exhaustion
    if case["route"] == "path":
      fds = _open_fds(path)
      if fds:
        raise Violation("%s: file still open after exhaustion (fd %s)" % (what, ",".join(fds)))
    rd = getattr(ws, "_file", None)
    if rd is not None and hasattr(rd, "getfp") and rd.getfp() is not None:
      raise Violation("%s: wave reader not closed after exhaustion" % what)
  finally:
    if mine is not None:
      mine.close()
    shutil.rmtree(tmp, ignore_errors=True)
  neg = any(v < (128 if width == 1 else 0) for v in vals)
  lo, hi = _lohi(width)
  labels = ["width:%d" % bits, "stereo" if ch == 2 else "mono", "keep" if keep else "scaled",
            "route:" + case["route"], "consume:" + case["consume"]]
  if not isinstance(keep, bool):
    labels.append("keep flag not a bool")
  if neg:
    labels.append("negative sample")
  if lo in vals or hi in vals:
    labels.append("extreme value")
  if nfr == 0:
    labels.append("no frames")
  labels.append("place:" + place)
  if case["rate"] == 0:
    labels.append("rate:0")
  if case["rate"] >= 2 ** 31:
    labels.append("rate>=2**31")
  if not _writable(case["rate"], ch, width):
    labels.append("rate beyond the wave writer (header patched)")
  lay = case.get("layout")
  if lay:
    labels.append("layout:by hand")
    labels.append("layout:fmt chunk " + lay["fmt"])
    if lay["post"]:
      labels.append("layout:further chunks after the data")
    if lay["pre"] or lay["mid"]:
      labels.append("layout:further chunks before the data")
    if (len(vals) * width) % 2 and (lay["post"] or lay["padlast"]):
      labels.append("layout:odd data length with pad byte")
  if offset > 0:
    labels.append("RIFF header at offset>0")
    if place in ("after_wav", "between"):
      labels.append("decoy:" + case.get("decoy", "other"))
  return {"nontrivial": nfr >= 3 and neg, "labels": labels}


def wav_grid(tier, shard, nshards):
  """Every width x channels x keep x route on a fixed probe list of boundary samples."""
  i = 0
  for width in (1, 2, 3, 4):
    lo, hi = _lohi(width)
    mid = 128 if width == 1 else 0
    probes = [lo, hi, mid, mid - 1, mid + 1, lo + 1, hi - 1, lo, hi, mid - 1]
    if width > 1:
      probes += [-(1 << k) for k in range(0, 8 * width, 3)] + \
                [(1 << k) - 1 for k in range(1, 8 * width, 3)] + \
                [-(1 << k) - 1 for k in range(1, 8 * width - 1, 5)]
    else:
      probes += list(range(0, 256, 17))
    for ch in (1, 2):
      for keep in (False, True):
        for route in ("path", "fileobj", "bytesio"):
          for consume in ("list", "next", "take"):
            i += 1
            if i % nshards == shard:
              yield dict(width=width, ch=ch, vals=probes, keep=keep, rate=8000 + i,
                         route=route, consume=consume)
  # the same probes inside a container: every width x channels x keep x file object kind x placement
  # with the RIFF header away from offset 0 (consumption route, decoy kind, foreign bytes rotate)
  pres = [b"\x00", b"MYCONTAINER\x00\x01\x02\x03\x04\x05\x06\x07\x08", b"RIFF", b"RIFF\x04\x00\x00\x00WAVE",
          b"RIFX\xff\xff\xff\xffWAVEfmt ", bytes(range(256)), b"\n" * 7]
  for width in (1, 2, 3, 4):
    lo, hi = _lohi(width)
    mid = 128 if width == 1 else 0
    probes = [lo, hi, mid, mid - 1, mid + 1, lo + 1, hi - 1, lo, hi, mid - 1, mid + 2]
    for ch in (1, 2):
      for keep in (False, True):
        for route in ("fileobj", "bytesio"):
          for place in PLACES:
            for nvals in (len(probes), 0) if place in ("preamble", "after_wav") else (len(probes),):
              i += 1
              if i % nshards == shard:
                yield dict(width=width, ch=ch, vals=probes[:nvals], keep=keep, rate=8000 + i,
                           route=route, place=place, pre=pres[i % len(pres)],
                           decoy=DECOYS[i % 3], dn=i % 5,
                           consume=("list", "next", "take")[i % 3])
  # long files (thousands of frames, lengths around multiples of 4096 bytes): whatever the reader's
  # internal buffering, every frame is decoded and the stream ends with the file
  j = 0
  for width in (1, 2, 3, 4):
    lo, hi = _lohi(width)
    for ch in (1, 2):
      for nfr in (1365, 1366, 1367, 2731, 4096 // (width * ch), 4096 // (width * ch) + 1, 3000):
        j += 1
        if j % nshards == shard:
          span = hi - lo + 1
          vals = [lo + ((k * 2654435761 + width) % span) for k in range(nfr * ch)]
          yield dict(width=width, ch=ch, vals=vals, keep=bool(j % 2), rate=44100,
                     route=("path", "fileobj", "bytesio")[j % 3], consume=("list", "next", "take")[j % 3])
          if j % 3:    # the long file again as the second of two WAVs / after foreign bytes in the same object
            yield dict(width=width, ch=ch, vals=vals, keep=bool(j % 2), rate=44100,
                       route=("path", "fileobj", "bytesio")[j % 3], place=PLACES[1 + j % 4],
                       pre=b"\x7f" * (1 + j % 9), decoy=DECOYS[j % 3], dn=j % 7,
                       consume=("list", "next", "take")[(j + 1) % 3])
  # header rates at and beyond what the wave writer agrees to write: 0, the largest rate whose byte rate
  # fits 32 bits and the next one, 2**31, 2**32-1; every width x channels x keep x open route
  k = 0
  for width in (1, 2, 3, 4):
    lo, hi = _lohi(width)
    mid = 128 if width == 1 else 0
    probes = [mid - 1, lo, hi, mid, mid + 1, hi - 1, lo + 1, mid - 2]
    for ch in (1, 2):
      top = (2 ** 32 - 1) // (ch * width)      # largest rate the writer takes
      for keep in (False, True):
        for route in ("path", "fileobj", "bytesio"):
          for rate in (0, top, min(top + 1, 2 ** 32 - 2), 2 ** 31, 2 ** 32 - 1, 1):
            k += 1
            if k % nshards == shard:
              place = "start" if route == "path" or k % 2 else PLACES[k // 2 % len(PLACES)]
              yield dict(width=width, ch=ch, vals=probes[:len(probes) - 2 * (k % 3 == 0)], keep=keep,
                         rate=rate, route=route, place=place, pre=pres[k % len(pres)],
                         decoy=DECOYS[k % 3], dn=k % 5, consume=("list", "next", "take")[k % 3])
  # files laid out by hand: fmt chunk of 16 / 18 / 40 (extensible) bytes, further chunks before fmt,
  # between fmt and data and after the data, odd data lengths with and without the pad byte
  info = (b"LIST", b"INFOISFT\x0e\x00\x00\x00c18 layout test")
  odd = (b"JUNK", b"\x01\x02\x03")
  lays = [dict(fmt="16", pre=[], mid=[], post=[info], padlast=False),
          dict(fmt="16", pre=[], mid=[], post=[odd, (b"id3 ", b"\xff\x7f\x00\x80" * 5)], padlast=True),
          dict(fmt="18", pre=[], mid=[(b"fact", b"\x0b\x00\x00\x00")], post=[], padlast=True),
          dict(fmt="ext", pre=[], mid=[], post=[], padlast=False),
          dict(fmt="ext", pre=[odd], mid=[info], post=[(b"cue ", b"\x00" * 4)], padlast=False),
          dict(fmt="16", pre=[(b"JUNK", b"\x00" * 28)], mid=[odd], post=[], padlast=False),
          dict(fmt="18", pre=[], mid=[], post=[(b"DATA", b"data\x02\x00\x00\x00\x01\x02")], padlast=False)]
  m = 0
  for width in (1, 2, 3, 4):
    lo, hi = _lohi(width)
    mid = 128 if width == 1 else 0
    probes = [lo, hi, mid, mid - 1, mid + 1, lo + 1, hi - 1, lo, hi, mid - 1, mid + 2]
    for ch in (1, 2):
      for keep in (False, True):
        for route in ("path", "fileobj", "bytesio"):
          for lay in lays:
            for nvals in (len(probes), len(probes) - 2 * ch, 0):
              m += 1
              if m % nshards == shard:
                place = "start" if route == "path" or m % 2 else PLACES[m // 2 % len(PLACES)]
                yield dict(width=width, ch=ch, vals=probes[:nvals], keep=keep, rate=16000 + m,
                           route=route, place=place, pre=pres[m % len(pres)], decoy=DECOYS[m % 3],
                           dn=m % 5, consume=("list", "next", "take")[m % 3], layout=lay)
  # the keep flag given as something else than a bool
  for width in (1, 2, 3, 4):
    lo, hi = _lohi(width)
    mid = 128 if width == 1 else 0
    for ch in (1, 2):
      for keep in (1, 0, 2, None):
        for route in ("path", "fileobj", "bytesio"):
          m += 1
          if m % nshards == shard:
            yield dict(width=width, ch=ch, vals=[lo, hi, mid, mid - 1, mid + 1, lo + 1], keep=keep,
                       rate=32000 + m, route=route, consume=("list", "next", "take")[m % 3])
  if tier == "thorough" and shard == 0:
    # every 8-bit and every 16-bit value once
    yield dict(width=1, ch=1, vals=list(range(256)), keep=True, rate=8000, route="bytesio",
               consume="list")
    yield dict(width=1, ch=2, vals=list(range(256)), keep=False, rate=8000, route="bytesio",
               consume="list")
    for keep in (False, True):
      yield dict(width=2, ch=2, vals=list(range(-32768, 32768)), keep=keep, rate=8000,
                 route="bytesio", consume="list")


# ---------------------------------------------------- several WavStreams at once

# "WavStream over any ... PCM file yields exactly the stored integers" holds for every stream object,
# whatever other WavStreams the process has made: left unfinished and forgotten, still alive and read
# in turns with this one, over a file of another or the same layout, over the very same file, or over
# a file that meanwhile replaced another one under the same name.
def strat_wav_multi(tier):
  maxv = 24 if tier == "quick" else 80

  def stream(width, ch, k):
    lo, hi = _lohi(width)
    mid = 128 if width == 1 else 0
    val = st.one_of(st.sampled_from([lo, hi, mid, mid - 1, mid + 1, lo + 1, hi - 1]),
                    st.integers(lo, hi))
    return st.fixed_dictionaries(dict(
      width=st.just(width), ch=st.just(ch),
      vals=st.lists(val, min_size=0 if k else 2 * ch, max_size=maxv),
      keep=st.booleans(),
      rate=st.sampled_from([8000, 44100, 48000, 1, 11025, 22050, 96000, 2 ** 31, 0, 12345]),
      route=st.sampled_from(["path", "path", "fileobj", "bytesio"]),
      via=st.sampled_from(["take", "next"]),
      link=st.sampled_from(["none", "none", "none", "same", "replace"]) if k else st.just("none"),
      to=st.integers(0, max(k - 1, 0))))

  def streams(t):
    width, ch, n = t
    other = st.one_of(st.just((width, ch)), st.just((width, ch)),
                      st.tuples(st.sampled_from([1, 2, 3, 4]), st.sampled_from([1, 2])))
    return st.tuples(stream(width, ch, 0), *[other.flatmap(lambda wc, k=k: stream(wc[0], wc[1], k))
                                             for k in range(1, n)]).map(list)

  count = st.sampled_from([1, 1, 2, 3, 5, 0, -1, -1, 30])
  return st.tuples(st.sampled_from([1, 2, 3, 4]), st.sampled_from([1, 2]),
                   st.sampled_from([2, 2, 3])).flatmap(
    lambda t: st.fixed_dictionaries(dict(
      streams=streams(t),
      ops=st.lists(st.tuples(st.integers(0, t[2] - 1), count), min_size=1, max_size=8),
      drain=st.lists(st.booleans(), min_size=t[2], max_size=t[2]))))


def _expected(content, keep):
  width, ch, rate, vals = content
  if keep:
    return list(vals)
  off = 128 if width == 1 else 0
  return [(v - off) / float(1 << (8 * width - 1)) for v in vals]


def run_wav_multi(case):
  specs = case["streams"]
  n = len(specs)
  # the name each stream's file is stored under: its own, or the one of the stream it is linked to
  owner = []
  for k, sp in enumerate(specs):
    owner.append(k if sp["link"] == "none" or k == 0 else owner[sp["to"] % k])
  shared = set(o for o in owner if owner.count(o) > 1)

  def own(k):
    sp = specs[k]
    vals = list(sp["vals"])
    if len(vals) % sp["ch"]:
      vals = vals[:-1]
    return (sp["width"], sp["ch"], sp["rate"], vals)

  tmp = tempfile.mkdtemp(prefix="c18-multi-")
  disk = {}                  # name index -> content currently stored under that name
  mine = []                  # file objects of the harness
  ws = [None] * n
  content = [None] * n
  exp = [None] * n
  got = [[] for _ in range(n)]
  asked = [0] * n
  state = ["unopened"] * n   # unopened / open / ended (StopIteration seen) / dropped
  labels = set()
  name = lambda k: os.path.join(tmp, "s%d.wav" % owner[k])
  what = lambda k: "WavStream #%d of %d (%d-bit, %d ch, %d samples, keep=%r, %s%s)" % (
    k, n, 8 * content[k][0], content[k][1], len(content[k][3]), specs[k]["keep"], specs[k]["route"],
    "" if specs[k]["link"] == "none" or k == 0 else
    ", %s #%d" % ({"same": "same file as", "replace": "its file replaces the one of"}[specs[k]["link"]],
                  owner[k]))

  def store(k, cont):
    blob = _wav_bytes(*cont)
    part = name(k) + ".part"
    with open(part, "wb") as f:
      f.write(blob)
    os.replace(part, name(k))        # a new file under the name: open readers keep the old one
    disk[owner[k]] = (cont, blob)

  def others_partly_read(k):
    return [j for j in range(n) if j != k and state[j] in ("open", "dropped") and
            0 < len(got[j]) < len(exp[j])]

  def open_stream(k):
    sp = specs[k]
    link = sp["link"] if k else "none"
    if link == "same":
      if owner[k] not in disk:
        store(k, own(owner[k]))
    else:
      if link == "replace" and owner[k] in disk and disk[owner[k]][0] != own(k):
        labels.add("a file replaced by another one under the same name")
      store(k, own(k))
    content[k], blob = disk[owner[k]]
    exp[k] = _expected(content[k], sp["keep"])
    keep = sp["keep"]
    if sp["route"] == "bytesio":
      f = io.BytesIO(blob)
      mine.append(f)
      ws[k] = _opened(what(k), lambda: WavStream(f, keep))
    elif sp["route"] == "fileobj":
      f = open(name(k), "rb")
      mine.append(f)
      ws[k] = _opened(what(k), lambda: WavStream(f, keep=keep))
    else:
      ws[k] = _opened(what(k), lambda: WavStream(name(k), keep) if keep else WavStream(name(k)))
    state[k] = "open"
    hdr = (ws[k].rate, ws[k].channels, ws[k].bits)
    width, ch, rate, vals = content[k]
    if hdr != (rate, ch, 8 * width):
      raise Violation("%s: (rate, channels, bits) = %r, header says %r"
                      % (what(k), hdr, (rate, ch, 8 * width)))
    live = [j for j in range(n) if j != k and state[j] == "open" and len(got[j]) < len(exp[j])]
    if live:
      labels.add("opened while another stream had samples left")
    if link == "same" and any(state[j] != "unopened" for j in range(n) if j != k and owner[j] == owner[k]):
      labels.add("the same file opened again")

  def read(k, count):
    """count samples (None: all that remain)"""
    if others_partly_read(k):
      labels.add("read after / beside a partly read stream")
      if any(content[j][:2] == content[k][:2] for j in others_partly_read(k)):
        labels.add("read after / beside a partly read stream of the same frame layout")
    before = len(got[k])
    try:
      if count is None:
        got[k].extend(ws[k])
        state[k] = "ended"
      elif specs[k]["via"] == "take":
        got[k].extend(ws[k].take(count))
        if len(got[k]) - before < count:
          state[k] = "ended"
      else:
        it = iter(ws[k])
        for _ in range(count):
          try:
            got[k].append(next(it))
          except StopIteration:
            state[k] = "ended"
            break
    except Violation:
      raise
    except Exception as e:
      raise Violation("%s: reading raised %s: %s after %d sample(s)"
                      % (what(k), type(e).__name__, e, len(got[k])))
    if count is not None:
      asked[k] += count
    check(k, final=False)

  def check(k, final):
    e, g = exp[k], got[k]
    want = len(e) if state[k] == "ended" else min(len(e), asked[k])
    if len(g) != want:
      raise Violation("%s yielded %d samples so far, expected %d (asked for %d, %d stored%s)"
                      % (what(k), len(g), want, asked[k], len(e),
                         ", stream ended" if state[k] == "ended" else ""))
    width = content[k][0]
    for i, (x, y) in enumerate(zip(g, e)):
      if isinstance(x, bool) or type(x) is not type(y) or x != y:
        raise Violation("%s sample %d (stored %d = 0x%s) decodes to %r, expected %r; other streams: %s"
                        % (what(k), i, content[k][3][i], _raw([content[k][3][i]], width).hex(), x, y,
                           "; ".join("#%d %s, %d of %d samples read" % (j, state[j], len(got[j]),
                                                                        len(exp[j]))
                                     for j in range(n) if j != k and exp[j] is not None)))
      if not specs[k]["keep"] and not (-1 <= x < 1):
        raise Violation("%s sample %d = %r outside [-1, 1)" % (what(k), i, x))
    if state[k] == "ended":
      rd = getattr(ws[k], "_file", None)
      if rd is not None and hasattr(rd, "getfp") and rd.getfp() is not None:
        raise Violation("%s: wave reader not closed after exhaustion" % what(k))
      if final and specs[k]["route"] == "path" and owner[k] not in shared:
        fds = _open_fds(name(k))
        if fds:
          raise Violation("%s: file still open after exhaustion (fd %s)" % (what(k), ",".join(fds)))

  try:
    last = None
    for k, count in case["ops"]:
      k %= n
      if state[k] == "dropped":
        continue
      if state[k] == "unopened":
        open_stream(k)
      if count < 0:
        if 0 < len(got[k]) < len(exp[k]):
          labels.add("a partly read stream forgotten")
        ws[k] = None                # the caller forgets the stream
        state[k] = "dropped"
        continue
      if state[k] == "ended":
        continue
      if last is not None and last != k and state[last] == "open" and 0 < len(got[last]) < len(exp[last]):
        labels.add("reads switched between streams with samples left")
      last = k
      read(k, count)
    for k in range(n):
      if state[k] == "unopened":
        open_stream(k)
      if case["drain"][k] and state[k] == "open":
        read(k, None)
    for k in range(n):
      if state[k] != "dropped":
        check(k, final=True)
  finally:
    ws = None
    for f in mine:
      f.close()
    shutil.rmtree(tmp, ignore_errors=True)

  out = ["streams:%d" % n] + sorted(labels)
  out += sorted(set("route:" + sp["route"] for sp in specs))
  if len(set(c[:2] for c in content)) > 1:
    out.append("streams of different frame layouts")
  nt = len([k for k in range(n) if state[k] == "ended" and len(exp[k]) >= 3]) >= 1 and \
       "read after / beside a partly read stream" in labels
  return {"nontrivial": nt, "labels": out}


def wav_multi_grid(tier, shard, nshards):
  """Two streams: first left unfinished / both read in turns / same file twice / file replaced."""
  i = 0
  for width in (1, 2, 3, 4):
    lo, hi = _lohi(width)
    mid = 128 if width == 1 else 0
    first = [mid - 1, lo, hi, mid, mid + 1, hi - 1, lo + 1, mid - 2, mid + 3, lo + 2, hi - 3, mid]
    second = [hi, mid - 1, lo, mid + 2, lo + 5, hi - 7, mid - 3, mid + 1]
    for ch in (1, 2):
      for keep in (False, True):
        for route in ("path", "fileobj", "bytesio"):
          for other in ("alike", "wider"):
            w2 = width if other == "alike" else width % 4 + 1
            lo2, hi2 = _lohi(w2)
            sec = second if other == "alike" else [lo2, hi2, lo2 + 1, hi2 - 1, (lo2 + hi2) // 2, lo2 + 9]
            for scen in ("forgotten", "unfinished", "turns", "same", "replace"):
              i += 1
              if i % nshards != shard:
                continue
              a = dict(width=width, ch=ch, vals=first, keep=keep, rate=8000 + i, route=route,
                       via=("take", "next")[i % 2], link="none", to=0)
              b = dict(width=w2, ch=ch, vals=sec, keep=bool((i // 2) % 2) if scen == "same" else keep,
                       rate=9000 + i, route=route, via=("next", "take")[i % 2], link="none", to=0)
              if scen == "forgotten":
                ops, drain = [(0, 1 + i % 3), (0, -1), (1, 2)], [False, True]
              elif scen == "unfinished":
                ops, drain = [(0, 2 * ch + i % 2), (1, 1)], [bool(i % 2), True]
                if i % 2:
                  ops.append((1, 30))
              elif scen == "turns":
                ops, drain = [(0, 1), (1, 1), (0, 2), (1, 3), (0, 1), (1, 1)], [True, True]
              elif scen == "same":
                b["link"] = "same"
                ops, drain = [(0, 3), (1, 2), (0, 1)], [True, True]
              else:
                b["link"] = "replace"
                ops = [(0, 30), (1, 2)] if i % 2 else [(0, 3), (1, 2), (0, 2)]
                drain = [True, True]
              yield dict(streams=[a, b], ops=ops, drain=drain)


CLAUSES = [
  Clause("chunks", strat_chunks, run_chunks, quick=3000, thorough=50000, fuzz={"thorough": 60000},
         floors={"strategy:struct": .1, "strategy:array": .1, "strategy:default": .05,
                 "padded tail": .15, "multi-chunk": .1, "size>128": .03,
                 "non-native multi-byte": .05, "order:None": .08,
                 "src:deque": .04, "src:intseq": .04, "src:getitem": .02, "src:list": .02,
                 "src:array": .04, "unsliceable Sequence holding a whole chunk": .06,
                 "non-finite value (inf / nan) among data or pad": .04,
                 "default size changed through chunks.size": .03,
                 "default pad filling the tail of an integer format": .04,
                 "consecutive chunks equal by value, different in bytes (signed zeros)": .006},
         doc="joined chunks == one-shot struct.pack for both strategies, every byte order, finite "
             "and non-finite floats, explicit size or chunks.size (also changed beforehand); "
             "chunk length size*itemsize; unpack gives sequence + pads; inputs: list, tuple, "
             "iterator, generator, Stream, array.array, deque, integer-index-only Sequence, "
             "__getitem__-only object"),
  Enumerated("chunk_grid", chunk_grid, run_chunks, shards={"quick": 8, "thorough": 16},
             doc="strategy x format x byte order x sizes around 127/128/255/256 x "
                 "(2 full chunks, 1 full + 1 item, size-1 items); strategy x format x 3 byte "
                 "orders x 5 sizes x unsliceable Sequence / __getitem__-only inputs shorter, "
                 "equal to and longer than a chunk; inf / nan data and pads x float formats x every "
                 "byte order; size left out after chunks.size was set to 1 / 2 / 3 / 129 / 2047; pad value "
                 "left out on ragged tails of every format"),
  Clause("nested", strat_nested, run_nested, quick=1200, thorough=25000,
         floors={"mode:alternate": .1, "mode:sidejob": .1, "mode:step": .1, "mode:pipeline": .1,
                 "same format and size": .15, "same strategy, format and size": .08,
                 "other generator moved while a chunk was partly filled": .1,
                 "same strategy, format and size, other moved while a chunk was partly filled": .03},
         doc="two chunk generators of either strategy alive at once (same format and size in half "
             "of the cases): advanced in turns, or the second one run / advanced from inside the "
             "lazily evaluated input of the first (side job, step by step, or as the first stage "
             "whose decoded chunks the second re-chunks after some leading items); each one's joined "
             "chunks == one-shot struct.pack of its own sequence + pads"),
  Enumerated("nested_grid", nested_grid, run_nested, shards={"quick": 4, "thorough": 8},
             doc="strategy pair x format x size 1/2/3/5 x the four ways of running two generators at "
                 "once, same format and size on both"),
  Clause("wav", strat_wav, run_wav, quick=2500, thorough=40000, fuzz={"thorough": 60000},
         floors={"width:8": .08, "width:16": .08, "width:24": .08, "width:32": .08,
                 "stereo": .15, "keep": .15, "scaled": .15, "negative sample": .2,
                 "route:path": .15, "route:fileobj": .07, "route:bytesio": .07,
                 "RIFF header at offset>0": .1, "place:start": .15, "place:preamble": .025,
                 "place:after_wav": .025, "place:between": .025, "place:pre_tail": .025,
                 "place:tail": .025, "decoy:other": .015, "decoy:longer": .015,
                 "decoy:flipped": .015, "rate:0": .05, "rate>=2**31": .04,
                 "rate beyond the wave writer (header patched)": .1,
                 "layout:by hand": .08, "layout:further chunks after the data": .04,
                 "layout:further chunks before the data": .06, "layout:fmt chunk 18": .03,
                 "layout:fmt chunk ext": .02, "layout:odd data length with pad byte": .006,
                 "keep flag not a bool": .1},
         doc="WavStream on files written by the wave module, given by name, as an open file "
             "object or BytesIO standing at the RIFF header (alone, after foreign bytes, after / "
             "between other WAVs): keep/scaled values, types, [-1,1), header mirror for every "
             "32-bit rate field value (0 and rates the writer refuses by header patch), closed "
             "after exhaustion; keep given as bool / 1 / 0 / 2 / None; files also laid out by hand "
             "(fmt chunk 16 / 18 / extensible, further chunks before and after the data, pad bytes)"),
  Clause("wav_multi", strat_wav_multi, run_wav_multi, quick=1000, thorough=20000,
         floors={"streams:2": .2, "streams:3": .1,
                 "read after / beside a partly read stream": .2,
                 "read after / beside a partly read stream of the same frame layout": .1,
                 "a partly read stream forgotten": .05,
                 "reads switched between streams with samples left": .1,
                 "opened while another stream had samples left": .2,
                 "the same file opened again": .03,
                 "a file replaced by another one under the same name": .03,
                 "streams of different frame layouts": .08,
                 "route:path": .3, "route:fileobj": .15, "route:bytesio": .15},
         doc="two or three WavStreams in one process (same width and channels in most cases): read "
             "in portions in any order, some forgotten or left unfinished, some over the very same "
             "file or over a file that replaced another one under the same name; every stream "
             "yields its own file's values (prefix for unfinished ones), mirrors its own header "
             "and is closed once exhausted"),
  Enumerated("wav_multi_grid", wav_multi_grid, run_wav_multi, shards={"quick": 4, "thorough": 8},
             doc="width x channels x keep x route x (second file alike / of another width) x "
                 "(first stream forgotten after a few samples, left unfinished, both read in "
                 "turns, same file twice, file replaced under the same name)"),
  Enumerated("wav_grid", wav_grid, run_wav, shards={"quick": 8, "thorough": 16},
             doc="width x channels x keep x open route x consumption route on boundary "
                 "samples; x placement inside a container for file objects (preamble, after / "
                 "between other WAVs, trailing bytes; empty and long files too); x header rate "
                 "0 / largest writable / first unwritable / 2**31 / 2**32-1; x seven hand-made "
                 "chunk layouts x three lengths; keep as 1 / 0 / 2 / None "
                 "(thorough: every 8- and 16-bit value)"),
]
