"""C18 - PCM byte codecs are exact: chunk packing and WAV sample decoding."""
import io
import os
from collections import deque
from collections.abc import Sequence
import shutil
import struct
import tempfile
import wave

from hypothesis import strategies as st
from vlib.core import Clause, Enumerated, Reject, Violation

import audiolazy
from audiolazy import chunks, WavStream, Stream

ID = "C18"
RULE = ("chunks cases = (strategy struct/array/default, format b h i f d B H, byte order "
        "None < > = ! @, chunk size 1..300 or None (chunks.size), a short base list of "
        "in-range values incl. the extremes cycled to a length 0..3*size+delta, pad value "
        "or default, source kind list/tuple/iterator/generator/Stream/array.array/collections.deque/"
        "user Sequence answering integer indexes only/object with only __getitem__, "
        "positional/keyword call); oracle = one-shot "
        "struct.pack(order + str(n) + fmt, *(xs + pads)) compared with the joined chunks, "
        "each chunk size*itemsize bytes, struct.unpack of the join gives the padded "
        "sequence. WAV cases = (width 1..4, channels 1..2, sample list incl. min/max/-1/0, "
        "rate 0..2**32-1 (0, the 32-bit extremes and every rate whose byte rate overflows 32 bits "
        "included: the header is then written with rate 1 and its rate / byte-rate fields are set "
        "by hand), keep, open route path/file object/BytesIO, placement of the WAV inside the opened "
        "object: alone at offset 0 / after a foreign preamble / after another WAV (other header, "
        "same header and more frames, same header and every low bit flipped) / between two WAVs "
        "/ followed or surrounded by foreign bytes - the object is handed over positioned at the "
        "RIFF header of the wanted WAV, consumption route) written with "
        "the stdlib wave module (24-bit frames packed by hand) into a per-case temp dir; "
        "oracle = the written integers (keep) or (v - 128*[bits==8]) / 2**(bits-1) as exact "
        "floats, header mirror, file closed after exhaustion. non-trivial = at least 2 "
        "chunks / at least 3 frames with a negative sample; distinct = distinct case hash")
ASSUMPTIONS = [
  "chunk values and pad values lie in the format's range (ints for integer formats, "
  "float32-representable floats for 'f'); out-of-range values raise in both strategies and "
  "are outside the property's domain",
  "the default pad value 0. is only used where it is packable (float formats, or no ragged tail)",
  "byte order None means struct's native mode; for the formats used (b h i f d B H) native "
  "and standard sizes coincide on this platform and array item sizes equal struct sizes",
  "WAV files are produced by wave.open(..., 'wb') on a little-endian host; only PCM mono/stereo",
  "the header's rate field is any unsigned 32-bit value: what the fmt chunk can store and the "
  "stdlib reader reports, not only what wave.setframerate agrees to write; the dependent byte-rate "
  "field holds rate*channels*width modulo 2**32 (the reader does not look at it)",
  "'the file is closed' is observed as: no /proc/self/fd entry resolves to the temp path "
  "(path route) and the wave reader held by the stream reports getfp() is None; a file object "
  "supplied by the caller stays the caller's responsibility (the wave module never closes it)",
  "a PCM file handed over as an open file-like object is the RIFF stream that starts at the "
  "object's current position (what wave.open decodes, which WavStream documents to accept): "
  "bytes before that position and after the end of the RIFF chunk belong to the container, "
  "not to the file",
]

INT_RANGE = {"b": (-128, 127), "B": (0, 255), "h": (-32768, 32767), "H": (0, 65535),
             "i": (-2 ** 31, 2 ** 31 - 1)}
FMTS = ["b", "h", "i", "f", "d", "B", "H"]
ORDERS = [None, "<", ">", "=", "!", "@"]
EDGE_SIZES = [1, 2, 127, 128, 129, 255, 256, 257, 300]


# ------------------------------------------------------------------ chunks

def _values(dfmt):
  if dfmt in INT_RANGE:
    lo, hi = INT_RANGE[dfmt]
    edge = [lo, hi, 0, 1, hi - 1, lo + 1] + ([-1] if lo < 0 else [128])
    return st.one_of(st.sampled_from(edge), st.integers(lo, hi))
  if dfmt == "f":
    return st.one_of(st.floats(width=32, allow_nan=False, allow_infinity=False),
                     st.sampled_from([0., -0., 1., -1., .5, 3.4028234663852886e+38,
                                      1.401298464324817e-45]),
                     st.integers(-1000, 1000))
  return st.one_of(st.floats(allow_nan=False, allow_infinity=False),
                   st.sampled_from([0., -0., 1., -1., 1e308, 5e-324, .1]),
                   st.integers(-1000, 1000))


def strat_chunks(tier):
  smax = 300 if tier == "quick" else 600
  size = st.one_of(st.integers(1, 9), st.integers(1, 9), st.integers(1, smax),
                   st.sampled_from(EDGE_SIZES))

  def body(dfmt):
    return st.fixed_dictionaries(dict(
      strategy=st.sampled_from(["struct", "array", "struct", "array", "default"]),
      dfmt=st.just(dfmt),
      order=st.sampled_from([None, "<", ">", None, "<", ">", "=", "!", "@"]),
      size=st.one_of(size, size, size, size, size, size, size, size, size, st.none()),
      base=st.lists(_values(dfmt), min_size=1, max_size=8),
      blocks=st.integers(0, 3),        # number of complete chunks
      extra=st.integers(0, 400),       # ragged tail length, taken modulo size
      pad=st.one_of(st.just("default"), _values(dfmt), _values(dfmt)),
      src=st.sampled_from(["list", "iter", "stream", "gen", "tuple", "array", "array",
                           "deque", "deque", "intseq", "intseq", "getitem"]),
      kw=st.booleans(),
    ))
  return st.sampled_from(FMTS).flatmap(body)


class IntSeq(Sequence):
  """A user Sequence (abc mixins for the rest) whose __getitem__ answers integer indexes only."""
  def __init__(self, data):
    self._data = list(data)
  def __len__(self):
    return len(self._data)
  def __getitem__(self, idx):
    if isinstance(idx, bool) or not isinstance(idx, int):
      raise TypeError("sequence index must be integer, not '%s'" % type(idx).__name__)
    return self._data[idx]


class GetItemOnly(object):
  """Iterable through the old protocol only: __getitem__(0), (1), ... until IndexError."""
  def __init__(self, data):
    self._data = list(data)
  def __getitem__(self, idx):
    if isinstance(idx, bool) or not isinstance(idx, int):
      raise TypeError("index must be integer, not '%s'" % type(idx).__name__)
    return self._data[idx]


def _chunks_call(case, xs, pad):
  f = {"struct": chunks.struct, "array": chunks.array, "default": chunks}[case["strategy"]]
  import array as _array
  src = {"list": list, "iter": iter, "stream": Stream, "tuple": tuple,
         "deque": deque,        # a registered Sequence that refuses slices
         "intseq": IntSeq, "getitem": GetItemOnly,
         "array": lambda v: _array.array(case["dfmt"], v),   # already packed input of the same type code
         "gen": lambda v: (x for x in v)}[case["src"]](xs)
  kwargs = {}
  if pad != "default":
    kwargs["padval"] = pad
  if case["kw"]:
    if case["size"] is not None:
      kwargs["size"] = case["size"]
    kwargs["dfmt"] = case["dfmt"]
    if case["order"] is not None:
      kwargs["byte_order"] = case["order"]
    return f(src, **kwargs)
  return f(src, case["size"], case["dfmt"], case["order"], **kwargs)


def run_chunks(case):
  dfmt, order = case["dfmt"], case["order"]
  size = case["size"] if case["size"] is not None else chunks.size
  if not (isinstance(size, int) and size >= 1):
    raise Violation("chunks.size is %r" % (size,))
  nblocks = case["blocks"] if case["size"] is not None else min(case["blocks"], 1)
  tail = case["extra"] % size
  pad = case["pad"]
  if pad == "default" and dfmt in INT_RANGE:
    tail = 0            # 0. is not packable as an integer: no ragged tail in this case
    nblocks = max(nblocks, 1)
  base = case["base"]
  length = nblocks * size + tail
  xs = [base[i % len(base)] for i in range(length)]
  padv = 0. if pad == "default" else pad
  n = -(-length // size) * size
  padded = xs + [padv] * (n - length)
  fmt = (order or "") + "%d%s" % (n, dfmt)
  exp = struct.pack(fmt, *padded)
  item = struct.calcsize((order or "") + dfmt)

  site = "chunks." + ("struct" if case["strategy"] == "default" else case["strategy"])
  what = "%s(len %d, size=%r, dfmt=%r, byte_order=%r, padval=%r)" % (
    site, length, case["size"], dfmt, order, pad)
  got = []
  try:
    for c in _chunks_call(case, xs, pad):
      got.append(c)
      if len(got) > n // size + 2:
        break
  except Exception as e:
    raise Violation("%s raised %s: %s after %d chunk(s); xs[:6]=%r"
                    % (what, type(e).__name__, e, len(got), xs[:6]), site=site)
  for k, c in enumerate(got):
    if not isinstance(c, bytes):
      raise Violation("%s chunk %d is %s, not bytes" % (what, k, type(c).__name__), site=site)
    if len(c) != size * item:
      raise Violation("%s chunk %d has %d bytes, expected %d*%d"
                      % (what, k, len(c), size, item), site=site)
  if len(got) != n // size:
    raise Violation("%s yielded %d chunks, expected %d" % (what, len(got), n // size), site=site)
  joined = b"".join(got)
  if joined != exp:
    k = next(i for i in range(len(exp)) if joined[i] != exp[i])
    el = k // item
    raise Violation("%s: bytes differ from struct.pack(%r, ...) at byte %d (element %d, value "
                    "%r): got %s, expected %s"
                    % (what, fmt, k, el, padded[el], joined[el * item:(el + 1) * item].hex(),
                       exp[el * item:(el + 1) * item].hex()), site=site)
  back = struct.unpack(fmt, joined)
  if list(back) != padded:
    raise Violation("%s: unpacking gives %r..., expected %r..." % (what, back[:6], padded[:6]),
                    site=site)

  labels = ["strategy:" + case["strategy"], "fmt:" + dfmt, "order:%s" % order,
            "src:" + case["src"]]
  if case["src"] in ("deque", "intseq") and length >= size:
    labels.append("unsliceable Sequence holding a whole chunk")
  if n > length:
    labels.append("padded tail")
  if length == 0:
    labels.append("empty input")
  if size > 128:
    labels.append("size>128")
  if case["size"] is None:
    labels.append("default size")
  if pad == "default":
    labels.append("default pad")
  if n // size >= 2:
    labels.append("multi-chunk")
  if order in (">", "!") and item > 1:
    labels.append("non-native multi-byte")
  return {"nontrivial": n // size >= 2, "labels": labels}


def chunk_grid(tier, shard, nshards):
  """Every strategy x format x byte order at sizes around the 127/255 boundaries."""
  sizes = [1, 3, 127, 128, 129, 255, 256, 257] if tier == "quick" else \
          [1, 2, 3, 4, 5, 8, 64, 126, 127, 128, 129, 130, 254, 255, 256, 257, 258, 300, 1024]
  i = 0
  for strategy in ("struct", "array"):
    for dfmt in FMTS:
      if dfmt in INT_RANGE:
        lo, hi = INT_RANGE[dfmt]
        base = [lo, hi, 1, 0, hi - 1]
      else:
        base = [-1.5, 0.25, 3., -0., 1e-3 if dfmt == "d" else 0.0009765625]
      for order in ORDERS:
        for size in sizes:
          for blocks, extra in ((2, 0), (1, 1), (0, size - 1)):
            i += 1
            if i % nshards == shard:
              yield dict(strategy=strategy, dfmt=dfmt, order=order, size=size, base=base,
                         blocks=blocks, extra=extra, pad=base[1], src="iter", kw=bool(i % 2))
  # sources that are Sequences without slice support (deque, integer-index-only user Sequence) or
  # iterable through __getitem__ alone: every strategy x format, shorter / equal / longer than a chunk
  for strategy in ("struct", "array", "default"):
    for dfmt in FMTS:
      if dfmt in INT_RANGE:
        lo, hi = INT_RANGE[dfmt]
        base = [hi, lo, 0, 1, lo + 1, hi - 1, 2]
      else:
        base = [2.5, -0.75, 0., -3., 0.0009765625, 7., -0.]
      for order in (None, "<", ">"):
        for size in (1, 2, 5, 128, 257):
          for src in ("deque", "intseq", "getitem"):
            for blocks, extra in ((1, 0), (3, 0), (2, 1), (0, size - 1), (1, size - 1)):
              i += 1
              if i % nshards == shard:
                yield dict(strategy=strategy, dfmt=dfmt, order=order, size=size, base=base,
                           blocks=blocks, extra=extra, pad=base[0], src=src, kw=bool(i % 2))


# --------------------------------------------------------------------- WAV

def _lohi(width):
  return (0, 255) if width == 1 else (-(1 << (8 * width - 1)), (1 << (8 * width - 1)) - 1)


def strat_wav(tier):
  maxfr = 64 if tier == "quick" else 300

  def body(width):
    lo, hi = _lohi(width)
    mid = 128 if width == 1 else 0
    edge = [lo, hi, mid, mid - 1, mid + 1, lo + 1, hi - 1]
    if width == 3:
      edge += [-256, 255, 256, -257, 0x7fff00, -0x800000 + 255, 0x00ff00, -0x010000]
    val = st.one_of(st.sampled_from(edge), st.integers(lo, hi))
    return st.fixed_dictionaries(dict(
      width=st.just(width),
      ch=st.sampled_from([1, 2]),
      vals=st.lists(val, max_size=2 * maxfr),
      keep=st.booleans(),
      rate=st.sampled_from(RATE_KINDS).flatmap(RATES.__getitem__),
      how=st.sampled_from(HOWS),
      pre=st.binary(min_size=1, max_size=48),   # foreign bytes around the WAV (placements with pre/tail)
      decoy=st.sampled_from(DECOYS),            # the other WAV stored in the same container
      dn=st.integers(0, 12),
      consume=st.sampled_from(["list", "list", "next", "take"]),
    )).map(_split_how)
  return st.sampled_from([1, 2, 3, 4]).flatmap(body)


# The fmt chunk stores the rate as an unsigned 32-bit integer and the reader reports it as stored.  The
# wave *writer* only takes rate >= 1 with rate*channels*width < 2**32 (its byte-rate field): the
# other header values are reached by patching the written header (_write).
RATES = {
  "common": st.sampled_from([8000, 44100, 48000, 1, 192000, 11025, 22050, 96000]),
  "writable": st.integers(1, 2 ** 28),
  "zero": st.just(0),
  "edge32": st.sampled_from([2 ** 32 - 1, 2 ** 32 - 2, 2 ** 31, 2 ** 31 - 1, 2 ** 31 + 1, 2 ** 30,
                             2 ** 29, 2 ** 28 + 1, 2 ** 24, 2 ** 16, 2 ** 16 - 1, 2 ** 16 + 1,
                             44100 << 16, 0xffff0000, 0x0000ac44 | 0x80000000, 2, 3, 255, 256]),
  "any32": st.integers(0, 2 ** 32 - 1),        # (drawn with a bias towards the small values)
  "high32": st.integers(2 ** 31, 2 ** 32 - 1),
  "over28": st.integers(2 ** 28 + 1, 2 ** 32 - 1),
}
RATE_KINDS = ["common", "common", "writable", "writable", "writable", "zero", "zero", "edge32",
              "any32", "high32", "high32", "over28"]


def _writable(rate, ch, width):
  """Does wave.open(..., 'wb') agree to write this rate?"""
  return rate >= 1 and rate * ch * width < 2 ** 32


# (open route, placement of the wanted WAV inside the opened object).  A name can only denote a file
# whose RIFF data starts at offset 0; an open file object / BytesIO is decoded from where it stands.
PLACES = ["start", "preamble", "after_wav", "between", "pre_tail", "tail"]
DECOYS = ["other", "longer", "flipped"]
HOWS = [("path", "start")] * 4 + \
       [(r, p) for r in ("fileobj", "bytesio") for p in ["start"] + PLACES]


def _split_how(d):
  d = dict(d)
  d["route"], d["place"] = d.pop("how")
  return d


def _wav_bytes(width, ch, rate, vals):
  buf = io.BytesIO()
  _write(buf, dict(width=width, ch=ch, rate=rate), vals)
  return buf.getvalue()


def _decoy(case, vals, kind):
  """Bytes of another valid PCM WAV that differs observably from the wanted one."""
  width, ch, rate, dn = case["width"], case["ch"], case["rate"], case.get("dn", 3)
  if kind == "flipped" and vals:      # same header, same length, every sample differs in its low bit
    return _wav_bytes(width, ch, rate, [v ^ 1 for v in vals])
  if kind in ("longer", "flipped"):   # same header, more frames
    lo, hi = _lohi(width)
    more = [lo + ((k * 40503 + 7) % (hi - lo + 1)) for k in range(ch * (1 + dn))]
    return _wav_bytes(width, ch, rate, list(vals) + more)
  w2 = width % 4 + 1                  # another width, channel count and rate
  lo, hi = _lohi(w2)
  other = [lo + ((k * 2654435761 + 11) % (hi - lo + 1)) for k in range((3 - ch) * dn)]
  return _wav_bytes(w2, 3 - ch, rate % 100000 + 1, other)


def _container(case, vals):
  """(bytes of the container, offset of the wanted WAV's RIFF header in it)."""
  place = case.get("place", "start")
  blob = _wav_bytes(case["width"], case["ch"], case["rate"], vals)
  pre = case.get("pre", b"\x00junk")
  kind = case.get("decoy", "other")
  if place == "start":
    head, tail = b"", b""
  elif place == "preamble":
    head, tail = pre, b""
  elif place == "after_wav":
    head, tail = _decoy(case, vals, kind), b""
  elif place == "between":
    head, tail = _decoy(case, vals, kind), _decoy(case, vals, "other")
  elif place == "pre_tail":
    head, tail = pre, pre[::-1]
  elif place == "tail":
    head, tail = b"", pre
  else:
    raise ValueError(place)
  return head + blob + tail, len(head)


def _raw(vals, width):
  if width == 1:
    return bytes(vals)
  return b"".join(v.to_bytes(width, "little", signed=True) for v in vals)


def _write(target, case, vals):
  rate, ch, width = case["rate"], case["ch"], case["width"]
  if not _writable(rate, ch, width):
    # the writer refuses this header: write it with rate 1, then set the 4-byte rate field and
    # the byte-rate field that depends on it (modulo 2**32; the reader ignores it) by hand
    buf = io.BytesIO()
    _write(buf, dict(case, rate=1), vals)
    blob = bytearray(buf.getvalue())
    if bytes(blob[:4]) != b"RIFF" or bytes(blob[8:16]) != b"WAVEfmt " or \
       struct.unpack_from("<II", blob, 24) != (1, ch * width):
      raise RuntimeError("harness: unexpected layout of the header written by the wave module")
    struct.pack_into("<II", blob, 24, rate, (rate * ch * width) & 0xffffffff)
    if hasattr(target, "write"):
      target.write(bytes(blob))
    else:
      with open(target, "wb") as f:
        f.write(bytes(blob))
    return
  w = wave.open(target, "wb")
  try:
    w.setnchannels(case["ch"])
    w.setsampwidth(case["width"])
    w.setframerate(case["rate"])
    w.writeframes(_raw(vals, case["width"]))
  finally:
    w.close()


def _open_fds(path):
  real = os.path.realpath(path)
  hits = []
  for fd in os.listdir("/proc/self/fd"):
    try:
      if os.path.realpath(os.path.join("/proc/self/fd", fd)) == real:
        hits.append(fd)
    except OSError:
      pass
  return hits


def _opened(what, make):
  try:
    return make()
  except Exception as e:
    raise Violation("%s cannot be opened: %s: %s" % (what, type(e).__name__, e))


def run_wav(case):
  width, ch, keep = case["width"], case["ch"], case["keep"]
  bits = 8 * width
  vals = list(case["vals"])
  if len(vals) % ch:
    vals = vals[:-1]
  nfr = len(vals) // ch
  place = case.get("place", "start")
  if case["route"] == "path" and place != "start":
    raise Reject("a file name denotes a WAV that starts at offset 0")
  what = "WavStream(%d-bit, %d ch, %d frames, keep=%r, %s%s)" % (
    bits, ch, nfr, keep, case["route"], "" if place == "start" else " placed " + place)
  tmp = tempfile.mkdtemp(prefix="c18-case-")
  mine = None
  offset = 0
  try:
    path = os.path.join(tmp, "t.wav")
    if case["route"] == "bytesio":
      data, offset = _container(case, vals)
      mine = io.BytesIO(data)
      mine.seek(offset)
      what += " at offset %d of %d bytes" % (offset, len(data))
      ws = _opened(what, lambda: WavStream(mine, keep=keep) if keep else WavStream(mine))
    elif case["route"] == "fileobj":
      data, offset = _container(case, vals)
      if place == "start":
        _write(path, case, vals)        # the wave module writes the disk file itself
      else:
        with open(path, "wb") as f:
          f.write(data)
      mine = open(path, "rb")
      mine.seek(offset)
      what += " at offset %d of %d bytes" % (offset, len(data))
      ws = _opened(what, lambda: WavStream(mine, keep))
    else:
      _write(path, case, vals)
      ws = WavStream(path, keep=keep)
    hdr = (ws.rate, ws.channels, ws.bits)
    if hdr != (case["rate"], ch, bits):
      raise Violation("%s: (rate, channels, bits) = %r, header says %r"
                      % (what, hdr, (case["rate"], ch, bits)))
    if case["consume"] == "list":
      got = list(ws)
    elif case["consume"] == "next":
      got = []
      it = iter(ws)
      while True:
        try:
          got.append(next(it))
        except StopIteration:
          break
        if len(got) > len(vals) + 4:
          raise Violation("%s yields more samples than stored" % what)
    else:
      k = len(vals) // 2
      got = list(ws.take(k)) + list(ws)
    if keep:
      exp = vals
    else:
      off = 128 if bits == 8 else 0
      exp = [(v - off) / float(1 << (bits - 1)) for v in vals]
    if len(got) != len(exp):
      raise Violation("%s yields %d samples, %d stored" % (what, len(got), len(exp)))
    for i, (g, e) in enumerate(zip(got, exp)):
      if isinstance(g, bool) or type(g) is not type(e) or g != e:
        raise Violation("%s sample %d (stored %d = 0x%s) decodes to %r, expected %r"
                        % (what, i, vals[i], _raw([vals[i]], width).hex(), g, e))
      if not keep and not (-1 <= g < 1):
        raise Violation("%s sample %d = %r outside [-1, 1)" % (what, i, g))
    # closed after exhaustion
    if case["route"] == "path":
      fds = _open_fds(path)
      if fds:
        raise Violation("%s: file still open after exhaustion (fd %s)" % (what, ",".join(fds)))
    rd = getattr(ws, "_file", None)
    if rd is not None and hasattr(rd, "getfp") and rd.getfp() is not None:
      raise Violation("%s: wave reader not closed after exhaustion" % what)
  finally:
    if mine is not None:
      mine.close()
    shutil.rmtree(tmp, ignore_errors=True)
  neg = any(v < (128 if width == 1 else 0) for v in vals)
  lo, hi = _lohi(width)
  labels = ["width:%d" % bits, "stereo" if ch == 2 else "mono", "keep" if keep else "scaled",
            "route:" + case["route"], "consume:" + case["consume"]]
  if neg:
    labels.append("negative sample")
  if lo in vals or hi in vals:
    labels.append("extreme value")
  if nfr == 0:
    labels.append("no frames")
  labels.append("place:" + place)
  if case["rate"] == 0:
    labels.append("rate:0")
  if case["rate"] >= 2 ** 31:
    labels.append("rate>=2**31")
  if not _writable(case["rate"], ch, width):
    labels.append("rate beyond the wave writer (header patched)")
  if offset > 0:
    labels.append("RIFF header at offset>0")
    if place in ("after_wav", "between"):
      labels.append("decoy:" + case.get("decoy", "other"))
  return {"nontrivial": nfr >= 3 and neg, "labels": labels}


def wav_grid(tier, shard, nshards):
  """Every width x channels x keep x route on a fixed probe list of boundary samples."""
  i = 0
  for width in (1, 2, 3, 4):
    lo, hi = _lohi(width)
    mid = 128 if width == 1 else 0
    probes = [lo, hi, mid, mid - 1, mid + 1, lo + 1, hi - 1, lo, hi, mid - 1]
    if width > 1:
      probes += [-(1 << k) for k in range(0, 8 * width, 3)] + \
                [(1 << k) - 1 for k in range(1, 8 * width, 3)] + \
                [-(1 << k) - 1 for k in range(1, 8 * width - 1, 5)]
    else:
      probes += list(range(0, 256, 17))
    for ch in (1, 2):
      for keep in (False, True):
        for route in ("path", "fileobj", "bytesio"):
          for consume in ("list", "next", "take"):
            i += 1
            if i % nshards == shard:
              yield dict(width=width, ch=ch, vals=probes, keep=keep, rate=8000 + i,
                         route=route, consume=consume)
  # the same probes inside a container: every width x channels x keep x file object kind x placement
  # with the RIFF header away from offset 0 (consumption route, decoy kind, foreign bytes rotate)
  pres = [b"\x00", b"MYCONTAINER\x00\x01\x02\x03\x04\x05\x06\x07\x08", b"RIFF", b"RIFF\x04\x00\x00\x00WAVE",
          b"RIFX\xff\xff\xff\xffWAVEfmt ", bytes(range(256)), b"\n" * 7]
  for width in (1, 2, 3, 4):
    lo, hi = _lohi(width)
    mid = 128 if width == 1 else 0
    probes = [lo, hi, mid, mid - 1, mid + 1, lo + 1, hi - 1, lo, hi, mid - 1, mid + 2]
    for ch in (1, 2):
      for keep in (False, True):
        for route in ("fileobj", "bytesio"):
          for place in PLACES:
            for nvals in (len(probes), 0) if place in ("preamble", "after_wav") else (len(probes),):
              i += 1
              if i % nshards == shard:
                yield dict(width=width, ch=ch, vals=probes[:nvals], keep=keep, rate=8000 + i,
                           route=route, place=place, pre=pres[i % len(pres)],
                           decoy=DECOYS[i % 3], dn=i % 5,
                           consume=("list", "next", "take")[i % 3])
  # long files (thousands of frames, lengths around multiples of 4096 bytes): whatever the reader's
  # internal buffering, every frame is decoded and the stream ends with the file
  j = 0
  for width in (1, 2, 3, 4):
    lo, hi = _lohi(width)
    for ch in (1, 2):
      for nfr in (1365, 1366, 1367, 2731, 4096 // (width * ch), 4096 // (width * ch) + 1, 3000):
        j += 1
        if j % nshards == shard:
          span = hi - lo + 1
          vals = [lo + ((k * 2654435761 + width) % span) for k in range(nfr * ch)]
          yield dict(width=width, ch=ch, vals=vals, keep=bool(j % 2), rate=44100,
                     route=("path", "fileobj", "bytesio")[j % 3], consume=("list", "next", "take")[j % 3])
          if j % 3:    # the long file again as the second of two WAVs / after foreign bytes in the same object
            yield dict(width=width, ch=ch, vals=vals, keep=bool(j % 2), rate=44100,
                       route=("path", "fileobj", "bytesio")[j % 3], place=PLACES[1 + j % 4],
                       pre=b"\x7f" * (1 + j % 9), decoy=DECOYS[j % 3], dn=j % 7,
                       consume=("list", "next", "take")[(j + 1) % 3])
  # header rates at and beyond what the wave writer agrees to write: 0, the largest rate whose byte rate
  # fits 32 bits and the next one, 2**31, 2**32-1; every width x channels x keep x open route
  k = 0
  for width in (1, 2, 3, 4):
    lo, hi = _lohi(width)
    mid = 128 if width == 1 else 0
    probes = [mid - 1, lo, hi, mid, mid + 1, hi - 1, lo + 1, mid - 2]
    for ch in (1, 2):
      top = (2 ** 32 - 1) // (ch * width)      # largest rate the writer takes
      for keep in (False, True):
        for route in ("path", "fileobj", "bytesio"):
          for rate in (0, top, min(top + 1, 2 ** 32 - 2), 2 ** 31, 2 ** 32 - 1, 1):
            k += 1
            if k % nshards == shard:
              place = "start" if route == "path" or k % 2 else PLACES[k // 2 % len(PLACES)]
              yield dict(width=width, ch=ch, vals=probes[:len(probes) - 2 * (k % 3 == 0)], keep=keep,
                         rate=rate, route=route, place=place, pre=pres[k % len(pres)],
                         decoy=DECOYS[k % 3], dn=k % 5, consume=("list", "next", "take")[k % 3])
  if tier == "thorough" and shard == 0:
    # every 8-bit and every 16-bit value once
    yield dict(width=1, ch=1, vals=list(range(256)), keep=True, rate=8000, route="bytesio",
               consume="list")
    yield dict(width=1, ch=2, vals=list(range(256)), keep=False, rate=8000, route="bytesio",
               consume="list")
    for keep in (False, True):
      yield dict(width=2, ch=2, vals=list(range(-32768, 32768)), keep=keep, rate=8000,
                 route="bytesio", consume="list")


CLAUSES = [
  Clause("chunks", strat_chunks, run_chunks, quick=3000, thorough=50000, fuzz={"thorough": 60000},
         floors={"strategy:struct": .1, "strategy:array": .1, "strategy:default": .05,
                 "padded tail": .15, "multi-chunk": .1, "size>128": .03,
                 "non-native multi-byte": .05, "order:None": .08,
                 "src:deque": .04, "src:intseq": .04, "src:getitem": .02, "src:list": .02,
                 "src:array": .04, "unsliceable Sequence holding a whole chunk": .06},
         doc="joined chunks == one-shot struct.pack for both strategies, every byte order; "
             "chunk length size*itemsize; unpack gives sequence + pads; inputs: list, tuple, "
             "iterator, generator, Stream, array.array, deque, integer-index-only Sequence, "
             "__getitem__-only object"),
  Enumerated("chunk_grid", chunk_grid, run_chunks, shards={"quick": 8, "thorough": 16},
             doc="strategy x format x byte order x sizes around 127/128/255/256 x "
                 "(2 full chunks, 1 full + 1 item, size-1 items); strategy x format x 3 byte "
                 "orders x 5 sizes x unsliceable Sequence / __getitem__-only inputs shorter, "
                 "equal to and longer than a chunk"),
  Clause("wav", strat_wav, run_wav, quick=2500, thorough=40000, fuzz={"thorough": 60000},
         floors={"width:8": .08, "width:16": .08, "width:24": .08, "width:32": .08,
                 "stereo": .15, "keep": .15, "scaled": .15, "negative sample": .2,
                 "route:path": .15, "route:fileobj": .07, "route:bytesio": .07,
                 "RIFF header at offset>0": .1, "place:start": .15, "place:preamble": .025,
                 "place:after_wav": .025, "place:between": .025, "place:pre_tail": .025,
                 "place:tail": .025, "decoy:other": .015, "decoy:longer": .015,
                 "decoy:flipped": .015, "rate:0": .05, "rate>=2**31": .04,
                 "rate beyond the wave writer (header patched)": .1},
         doc="WavStream on files written by the wave module, given by name, as an open file "
             "object or BytesIO standing at the RIFF header (alone, after foreign bytes, after / "
             "between other WAVs): keep/scaled values, types, [-1,1), header mirror for every "
             "32-bit rate field value (0 and rates the writer refuses by header patch), closed "
             "after exhaustion"),
  Enumerated("wav_grid", wav_grid, run_wav, shards={"quick": 8, "thorough": 16},
             doc="width x channels x keep x open route x consumption route on boundary "
                 "samples; x placement inside a container for file objects (preamble, after / "
                 "between other WAVs, trailing bytes; empty and long files too); x header rate "
                 "0 / largest writable / first unwritable / 2**31 / 2**32-1 "
                 "(thorough: every 8- and 16-bit value)"),
]
