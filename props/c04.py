"""C04 - A constant-coefficient filter computes its difference equation."""
from fractions import Fraction as F
from hypothesis import strategies as st
from vlib.core import Clause, Enumerated, Violation, mix
from vlib.q import Q
from vlib.filt import diffeq_ref, magnitude_ref
from vlib.sources import Src

from audiolazy import ZFilter, LinearFilter, z, Stream

ID = "C04"
RULE = ("cases = (numerator taps, denominator taps with a[0] != 0, input of exact rationals, "
        "zero value, memory kind + values, construction route) drawn by Hypothesis with "
        "forced coefficient classes (0, +1, -1, other ints, arbitrary finite floats of any magnitude, dyadic "
        "and non-dyadic Fractions, sparse high delays, numerator equal to / twice the denominator by value, "
        "feedback orders up to 900 (thorough 2000) with explicit memories), samples scaled up to 10**400 / down to 2**-1100, "
        "memories as list / tuple / generator / Stream / endless iterator / callables returning a list, a generator or more "
        "than asked; plain float samples k * 2**e (subnormal to 2**980) where IEEE arithmetic is exact; a complete grid of "
        "cheap filters x input lengths 2**k-1..2**k+1 up to 2**15 (thorough 150001); calls interleaved, line by line, with "
        "calls of other filters (or of the same object) made from another thread; oracle = diffeq_ref, the difference "
        "equation evaluated in Fractions, compared exactly (tolerance only when a non-dyadic "
        "Fraction coefficient forces the code into float arithmetic); non-trivial = order >= 1, "
        "len(x) > order and some coefficient outside {0,1}; distinct = distinct case hash")
ASSUMPTIONS = [
  "samples, memories and non-integer zero values are Q (exact rationals absorbing floats exactly)",
  "a plain-int zero is only 0 (int/int true division is Python's arithmetic, not the filter's); long_inputs uses other int zeros with a[0] = +-1, where nothing is divided",
  "float_samples compares outputs only while every product, partial sum (in any order) and quotient of the difference equation is exactly a double; from the first output where that is not guaranteed on, nothing is asserted",
  "an endless memory iterator may be read up to 64 items past the filter order (the property does not say how far a memory is read, only that the first items are used)",
  "other_calls_between stands for a thread switch: the traced thread is held at a line of audiolazy/lazy_filters.py while another thread completes a call; no timing is involved",
  "memories have at least as many items as the filter order (the property's 'sufficient length')",
  "non-dyadic Fraction coefficients are printed as n/d and evaluated by the code in double precision: compared within 1e-12 x the magnitude recursion",
]

qv = st.fractions(min_value=-4, max_value=4, max_denominator=7).map(Q)
_float = st.floats(-4, 4, allow_nan=False, allow_infinity=False).filter(lambda v: v == 0 or abs(v) > 1e-3)
exact_coef = st.one_of(st.sampled_from([0, 1, -1, 1.0, -1.0, 0.0]), st.integers(-4, 4), _float,
                       st.sampled_from([F(1, 2), F(-3, 4), F(5, 8), F(-1, 1), F(1, 1), F(3, 1)]))
exact_a0 = st.one_of(st.sampled_from([1, -1, 1.0, -1.0, 2, -3, 0.5, 0.1, -0.75, F(3, 1), F(1, 2), F(-1, 4), F(1, 1), F(-1, 1)]),
                     _float.filter(lambda v: v != 0))
frac_coef = st.one_of(st.sampled_from([F(1, 3), F(-2, 3), F(5, 7), F(-1, 9), F(7, 5)]),
                      st.fractions(min_value=-3, max_value=3, max_denominator=9).filter(lambda f: f != 0))
# magnitudes at which str() switches to exponent notation, powers of two far from 1, the ends of the
# double range, and any finite double at all (samples are Q: every product stays exact)
WIDE = [1e-05, -1.5e-07, 2.5e-05, 1e+16, -3e+16, 1e+22, 2.0 ** -30, 2.0 ** 70, -3e-10, 5e-324, 1.7976931348623157e+308,
        -2.2250738585072014e-308, 123456789012345678, 0.0001, 1e-04 / 3]
wide_coef = st.one_of(st.sampled_from(WIDE), st.floats(allow_nan=False, allow_infinity=False))
wide_a0 = st.one_of(st.sampled_from([1e-05, 2.0 ** 70, -3e-10, 1e+16, 2.0 ** -30, 1e+22, -2.5e-05]),
                    st.floats(allow_nan=False, allow_infinity=False).filter(lambda v: v != 0))
# sample magnitudes: "every sample value" is not only values near 1
SCALES = [F(1), F(10) ** 400, F(1, 2 ** 1100), F(1, 10 ** 30), F(2) ** 70]
ROUTES = ["list", "dict", "zexpr", "LinearFilter", "LinearFilter_dict"]
MEMS = ["none", "list", "tuple", "gen", "call", "long", "stream", "endless", "call gen", "call long"]
ZEROS = [0, 0.0, Q(0), Q(2), Q(1, 3), Q(-5, 2)]
# the numerator may be *related* to the denominator: the same values (same objects, or the
# same numbers spelled in another type), or a multiple of them. H(z) is then a constant, but the
# difference equation still has its feedback part and its memory
TIES = ["none"] * 5 + ["b=a", "b=a respelled", "b=2a"]


def taps(coef, maxlen, sparse=True):
  dense = st.lists(coef, min_size=0, max_size=maxlen).map(lambda l: list(enumerate(l)))
  if not sparse:
    return dense
  high = st.tuples(st.integers(6, 9), coef)
  return st.one_of(dense, dense, st.tuples(dense, high).map(lambda t: t[0][:3] + [t[1]]))


def strat_exact(tier):
  def cases(coef, a0, scale):
    return st.fixed_dictionaries(dict(
      b=taps(coef, 6), a0=a0, a=taps(coef, 4), scale=scale,
      x=st.one_of(st.lists(qv, max_size=12), st.lists(qv, min_size=5, max_size=12)), zero=st.sampled_from(ZEROS),
      mem=st.sampled_from(MEMS), memv=st.lists(qv, min_size=10, max_size=10),
      route=st.sampled_from(ROUTES), tie=st.sampled_from(TIES)))
  plain = cases(exact_coef, exact_a0, st.just(0))
  # a share of the cases has coefficients and / or samples of any magnitude
  wide = cases(st.one_of(exact_coef, exact_coef, wide_coef), st.one_of(exact_a0, exact_a0, wide_a0),
               st.sampled_from([0, 0, 1, 2, 3, 4]))
  scaled = cases(exact_coef, exact_a0, st.sampled_from([1, 2, 3, 4]))
  # (one_of would merge the repeated branches: the shares are drawn explicitly)
  return st.sampled_from([0] * 7 + [1, 1, 2]).flatmap(lambda i: (plain, wide, scaled)[i])


def build(b, a, route):
  """b, a: dict delay -> coeff (a has key 0)."""
  if route in ("list", "LinearFilter"):
    cls = ZFilter if route == "list" else LinearFilter
    bl = [b.get(k, 0) for k in range(max(b) + 1)] if b else [0]
    al = [a.get(k, 0) for k in range(max(a) + 1)]
    return cls(bl, al)
  if route in ("dict", "LinearFilter_dict"):
    cls = ZFilter if route == "dict" else LinearFilter
    return cls(dict(b), dict(a))
  num = ZFilter(0)
  for k, c in b.items():
    num = num + c * z ** -k
  den = ZFilter(0)
  for k, c in a.items():
    den = den + c * z ** -k
  return num / den


def memory(kind, memv, lm, zero, seen):
  if kind == "none":
    return None, None
  eff = list(memv[:lm])
  if kind == "list":
    return list(eff), eff
  if kind == "tuple":
    return tuple(eff), eff
  if kind == "gen":
    return (v for v in eff), eff
  if kind == "stream":
    return Stream(memv), eff
  if kind == "long":
    return list(memv), eff
  if kind == "endless":
    # never ends; the first items are the memory ("the first needed elements"). Bounded generously, so
    # that reading it to its end is reported instead of hanging
    return Src(f=lambda i: memv[i] if i < len(memv) else memv[i % len(memv)] + i, bound=lm + 64), eff

  def call(size):
    seen.append(size)
    if kind == "call gen":                        # "should return an iterable"
      return (v for v in memv[:size])
    if kind == "call long":                       # an iterable with more than the size asked for
      return list(memv)
    return list(memv[:size])
  return call, eff


def dyadic(c):
  f = F(c)
  return f.denominator & (f.denominator - 1) == 0


def respell(v):
  """The same number in another type, when that is exact."""
  if isinstance(v, bool):
    return v
  if isinstance(v, int):
    return float(v) if abs(v) < 2 ** 53 else v
  if isinstance(v, float):
    return int(v) if v.is_integer() else F(v)
  if isinstance(v, F):
    return float(v) if dyadic(v) else v
  return v


def prepare(c):
  b = {k: v for k, v in c["b"]}
  a = {k + 1: v for k, v in c["a"]}
  a[0] = c["a0"]
  tie = c.get("tie", "none")
  if tie == "b=a":
    b = dict(a)
  elif tie == "b=a respelled":
    b = {k: respell(v) for k, v in a.items()}
  elif tie == "b=2a":
    b = {k: 2 * v for k, v in a.items()}
    if any(isinstance(v, float) and abs(v) == float("inf") for v in b.values()):
      b = dict(a)                                 # twice the largest doubles is not a number
  nzb = {k: v for k, v in b.items() if v != 0}
  nza = {k: v for k, v in a.items() if v != 0}
  return b, a, nzb, nza


def run_exact(c, tolerant=False):
  b, a, nzb, nza = prepare(c)
  lm = max(nza)
  x = c["x"]
  zero = c["zero"]
  scale = SCALES[c.get("scale", 0)]
  if scale != 1:
    x = [v * scale for v in x]
    c = dict(c, memv=[v * scale for v in c["memv"]])
    zero = zero * scale if isinstance(zero, Q) else zero
  if len(nzb) == 0 and lm == 0:
    return run_allzero(dict(x=x, zero=zero, route=c["route"], a0=c["a0"]))
  seen = []
  filt = build(b, a, c["route"])
  mem, eff = memory(c["mem"], c["memv"], lm, zero, seen)
  # the input may be any iterable; memory and zero may be given by position or by keyword
  sel = (len(x) + lm + len(nzb)) % 6
  xin = [list, tuple, iter, (lambda v: (t for t in v)), Stream, (lambda v: Stream(v).map(lambda t: t))][sel](list(x))
  if sel % 2:
    out = filt(xin, mem, zero)
  else:
    out = filt(xin, zero=zero, memory=mem)
  if not isinstance(out, Stream):
    raise Violation("filter call returned %s, not a Stream" % type(out).__name__)
  if c["mem"] in ("list", "long") and mem:
    # the memory is what was *given*: what the caller does to the list afterwards is irrelevant
    mem.reverse()
    mem[:] = [v + 7 for v in mem]
  got = list(out)
  if c["mem"].startswith("call") and seen != [lm]:
    raise Violation("callable memory asked for sizes %r, filter order is %d" % (seen, lm))
  exp = diffeq_ref(nzb, nza, x, zero, eff)
  if len(got) != len(x):
    raise Violation("%d outputs for %d inputs (b=%r a=%r)" % (len(got), len(x), nzb, nza))
  inexact = tolerant and not all(dyadic(v) for v in list(nzb.values()) + list(nza.values()))
  if inexact:
    mag = magnitude_ref(nzb, nza, x, zero, eff)
    for n, (g, e) in enumerate(zip(got, exp)):
      if abs(F(g) - e) > F(1, 10 ** 12) * (n + 2) * (mag[n] + 1):
        raise Violation("y[%d] = %r, expected %r within 1e-12 (b=%r a=%r x=%r zero=%r mem=%r route=%s)"
                        % (n, g, e, nzb, nza, x, zero, eff, c["route"]))
  else:
    for n, (g, e) in enumerate(zip(got, exp)):
      if not (g == e):
        raise Violation("y[%d] = %r, expected exactly %r (b=%r a=%r x=%r zero=%r mem=%r/%s route=%s) full=%r"
                        % (n, g, e, nzb, nza, x, zero, eff, c["mem"], c["route"], got))
  # the same filter object is reusable: a second call with another input, zero value and
  # memory must again be the difference equation (nothing may be carried over or cached)
  if not tolerant and len(x) >= 2:
    x2 = [v + 1 for v in reversed(x)]
    zero2 = Q(3, 2) if zero != Q(3, 2) else Q(-1)
    mem2v = [v - 2 for v in reversed(c["memv"])]
    kind2 = {"none": "list", "list": "gen", "tuple": "call", "gen": "none", "call": "tuple",
             "long": "stream", "stream": "long", "endless": "call long", "call gen": "endless",
             "call long": "call gen"}[c["mem"]]
    seen2 = []
    mem2, eff2 = memory(kind2, mem2v, lm, zero2, seen2)
    got2 = list(filt(list(x2), memory=mem2, zero=zero2))
    exp2 = diffeq_ref(nzb, nza, x2, zero2, eff2)
    if got2 != exp2:
      raise Violation("second call of the same filter object: %r, expected %r (b=%r a=%r x=%r zero=%r mem=%r/%s; "
                      "first call had zero=%r mem kind %s)" % (got2, exp2, nzb, nza, x2, zero2, eff2, kind2, zero, c["mem"]))
    if kind2.startswith("call") and seen2 != [lm]:
      raise Violation("second call: callable memory asked for sizes %r, order is %d" % (seen2, lm))
  labels = ["route:" + c["route"], "mem:" + c["mem"]]
  a0 = nza[0]
  labels.append("a0=1" if a0 == 1 else "a0=-1" if a0 == -1 else
                "a0 " + type(a0).__name__)
  if any(v in (1, -1) for k, v in list(nzb.items()) + [(k, v) for k, v in nza.items() if k]):
    labels.append("special-cased +-1 coefficient")
  if (nzb and max(nzb) >= 6) or max(nza) >= 6:
    labels.append("sparse high delay")
  if nzb and min(nzb) > 0:
    labels.append("leading zeros in b")
  if lm >= 1 and c["mem"] != "none":
    labels.append("memory used")
  if inexact:
    labels.append("float-evaluated Fraction")
  if scale != 1:
    labels.append("samples far from 1 (x 10**400, 2**-1100, 10**-30, 2**70)")
  if any(isinstance(v, float) and v != 0 and ("e" in str(v)) for v in list(nzb.values()) + list(nza.values())):
    labels.append("float coefficient printed with an exponent")
    if lm >= 1 and len(x) >= 1:
      labels.append("float coefficient printed with an exponent, feedback")
  if lm >= 1 and c["mem"] in ("endless", "call gen", "call long"):
    labels.append("memory used: " + c["mem"])
  if lm >= 1 and nzb == nza:
    labels.append("b equals a by value, order >= 1")
    if eff is not None and any(v != zero for v in eff):
      labels.append("b equals a by value, order >= 1, memory differs from the zero history")
  elif lm >= 1 and nzb == {k: 2 * v for k, v in nza.items()}:
    labels.append("b = 2a, order >= 1")
  nt = lm >= 1 and len(x) > lm and any(v not in (0, 1) for v in list(nzb.values()) + list(nza.values()))
  return {"nontrivial": nt, "labels": labels}


def strat_frac(tier):
  coef = st.one_of(frac_coef, frac_coef, exact_coef)
  return st.fixed_dictionaries(dict(
    b=taps(coef, 5, sparse=False), a0=st.one_of(frac_coef, frac_coef, exact_a0), a=taps(coef, 3, sparse=False),
    x=st.one_of(st.lists(qv, max_size=10), st.lists(qv, min_size=4, max_size=10)), zero=st.sampled_from([0, 0.0, Q(0), Q(1, 3)]),
    mem=st.sampled_from(MEMS), memv=st.lists(qv, min_size=10, max_size=10),
    route=st.sampled_from(ROUTES), tie=st.sampled_from(TIES)))


def run_frac(c):
  r = run_exact(c, tolerant=True)
  if isinstance(c["a0"], F) and not dyadic(c["a0"]):
    r["labels"].append("a0 non-dyadic Fraction")
  return r


# ------------------------------------------------------------------ all-zero filter
def strat_allzero(tier):
  return st.fixed_dictionaries(dict(
    x=st.lists(qv, max_size=8), zero=st.sampled_from(ZEROS + [Q(7, 3), 1.5, -2]),
    route=st.sampled_from(["list", "dict", "zexpr", "LinearFilter", "empty", "zeros_list", "sub"]),
    a0=st.sampled_from([1, -1, 2, 0.5, F(1, 3)])))


def run_allzero(c):
  route, a0 = c["route"], c["a0"]
  if route == "empty":
    filt = ZFilter()
  elif route == "zeros_list":
    filt = ZFilter([0, 0, 0.0], [a0])
  elif route == "sub":
    f = (1 - 2 * z ** -1)
    filt = f - f
  elif route in ("list", "LinearFilter"):
    filt = (ZFilter if route == "list" else LinearFilter)([0], [a0])
  elif route in ("dict", "LinearFilter_dict"):
    filt = ZFilter({}, {0: a0})
  else:
    filt = ZFilter(0) / ZFilter([a0])
  x, zero = c["x"], c["zero"]
  got = list(filt(list(x), zero=zero))
  if len(got) != len(x):
    raise Violation("all-zero filter: %d outputs for %d inputs" % (len(got), len(x)))
  for g in got:
    if not (g == zero):
      raise Violation("all-zero filter (route %s) outputs %r, the zero value is %r" % (route, g, zero))
  return {"nontrivial": len(x) >= 2 and zero not in (0, 0.0), "labels": ["all-zero", "route:" + route]}


# ------------------------------------------------------------------ negative delays
def strat_noncausal(tier):
  return st.fixed_dictionaries(dict(
    b=st.lists(st.tuples(st.integers(-4, 4), st.integers(-3, 3).filter(lambda v: v != 0)), min_size=1, max_size=4,
               unique_by=lambda t: t[0]),
    a=st.lists(st.tuples(st.integers(-3, 4), st.integers(-3, 3).filter(lambda v: v != 0)), min_size=1, max_size=3,
               unique_by=lambda t: t[0]),
    x=st.lists(qv, max_size=5), route=st.sampled_from(["dict", "zexpr", "LinearFilter_dict"])))


def run_noncausal(c):
  b, a = dict(c["b"]), dict(c["a"])
  # after normalisation the denominator starts at delay 0; the filter is causal
  # iff no numerator delay is smaller than the smallest denominator delay
  causal = min(b) >= min(a)
  if c["route"] == "zexpr":
    num = ZFilter(0)
    for k, v in b.items():
      num = num + v * z ** -k
    den = ZFilter(0)
    for k, v in a.items():
      den = den + v * z ** -k
    filt = num / den
  else:
    filt = (ZFilter if c["route"] == "dict" else LinearFilter)(dict(b), dict(a))
  x = c["x"]
  try:
    got = list(filt(list(x), zero=Q(0)))
  except ValueError:
    if causal:
      raise Violation("causal filter b=%r a=%r refused to run" % (b, a))
    return {"nontrivial": True, "labels": ["refused", "route:" + c["route"]]}
  if not causal:
    raise Violation("filter with a negative delay ran: b=%r a=%r -> %r" % (b, a, got))
  sh = min(a)
  exp = diffeq_ref({k - sh: v for k, v in b.items()}, {k - sh: v for k, v in a.items()}, x, 0, None)
  if got != exp:
    raise Violation("shifted causal filter b=%r a=%r: %r, expected %r" % (b, a, got, exp))
  return {"nontrivial": sh != 0 and len(x) > 1, "labels": ["ran", "route:" + c["route"],
                                                           "shifted" if sh else "unshifted"]}


# ------------------------------------------------------------------ exact types / value-equal twins
def strat_twins(tier):
  # small ints, and ints no double can hold (they must reach the generated code digit for digit)
  ic = st.one_of(st.integers(-4, 4), st.integers(-4, 4), st.integers(-4, 4),
                 st.sampled_from([2 ** 64 + 1, -(10 ** 17 + 1), 2 ** 53 + 1, 3 ** 40]))
  fx = st.fractions(min_value=-4, max_value=4, max_denominator=9)
  return st.fixed_dictionaries(dict(
    b=st.lists(ic, min_size=1, max_size=4), a0=st.sampled_from([1, -1, 2, -3, 1, 4]),
    a=st.lists(ic, max_size=3),
    x=st.one_of(st.lists(fx, min_size=3, max_size=9),
                st.lists(st.integers(2 ** 54, 2 ** 56), min_size=3, max_size=6)),
    first=st.sampled_from(["float twin first", "float twin first", "int first", "alone"]),
    memv=st.lists(fx, min_size=4, max_size=4), use_mem=st.booleans(),
    route=st.sampled_from(["list", "dict", "zexpr"])))


def run_twins(c):
  """Integer coefficients on plain Fractions / big ints stay exact, whatever value-equal filter
  (same numbers spelled as floats) was built and run before in the same process."""
  b = dict(enumerate(c["b"]))
  a = {k + 1: v for k, v in enumerate(c["a"])}
  a[0] = c["a0"]
  nzb = {k: v for k, v in b.items() if v != 0}
  nza = {k: v for k, v in a.items() if v != 0}
  lm = max(nza)
  x = list(c["x"])
  ints = isinstance(x[0], int)
  if ints and abs(a[0]) != 1:
    a[0] = nza[0] = 1 if a[0] > 0 else -1      # int / int would be Python's float division
  if not nzb and lm == 0:
    return {"nontrivial": False, "labels": ["degenerate"]}
  mem = list(c["memv"][:lm]) if c["use_mem"] and not ints else None
  if ints and c["use_mem"]:
    mem = [int(v * 63) for v in c["memv"][:lm]]
  # an int zero with a gain other than +-1 would make "0 / 2" Python's float division (0.0) and
  # contaminate everything after it: exact samples get an exact zero
  zero = 0 if ints else F(0)
  fl = lambda d: {k: float(v) for k, v in d.items()}

  def run(bb, aa):
    return list(build(bb, aa, c["route"])(list(x), memory=None if mem is None else list(mem), zero=zero))
  order = c["first"]
  if order == "float twin first":
    run(fl(b), fl(a))
  got = run(b, a)
  if order == "int first":
    run(fl(b), fl(a))
    got2 = run(b, a)
    if got2 != got or [type(v) for v in got2] != [type(v) for v in got]:
      raise Violation("the same integer filter gave %r, then %r after a float-spelled twin ran" % (got, got2))
  exp = diffeq_ref(nzb, nza, x, 0, mem)
  for n, (g, e) in enumerate(zip(got, exp)):
    if not (g == e) or (isinstance(g, float) and not float(g).is_integer()):
      raise Violation("y[%d] = %r, expected exactly %r: integer coefficients b=%r a=%r on exact samples %r "
                      "(history: %s)" % (n, g, e, nzb, nza, x, order))
  if len(got) != len(x):
    raise Violation("%d outputs for %d inputs" % (len(got), len(x)))
  return {"nontrivial": lm >= 1 and len(x) > lm, "labels": [order, "big ints" if ints else "Fractions"]}


# ------------------------------------------------------------------ long filters
def strat_long(tier):
  return st.fixed_dictionaries(dict(
    taps=st.integers(60, 140 if tier == "quick" else 300),
    pattern=st.lists(st.integers(-3, 3), min_size=5, max_size=9),
    feedback=st.lists(st.tuples(st.integers(1, 3), st.sampled_from([1, -1, 2, -3])), max_size=2,
                      unique_by=lambda t: t[0]),
    extra=st.integers(1, 9), x0=st.lists(qv, min_size=3, max_size=3),
    zero=st.sampled_from([Q(0), Q(2, 3), 0.0])))


def run_long(c):
  """Every tap of a long filter contributes, wherever the generated sum is split or grouped."""
  n = c["taps"]
  pat = c["pattern"]
  if not any(pat):
    pat = [1] + pat[1:]
  b = {k: pat[k % len(pat)] + (k % 7 == 3) for k in range(n)}
  b[n - 1] = 2                                   # the last tap matters
  a = dict((k, v) for k, v in c["feedback"])
  a[0] = 1
  nzb = {k: v for k, v in b.items() if v != 0}
  x = [c["x0"][i % 3] + (i % 5) for i in range(n + c["extra"])]
  got = list(ZFilter(dict(nzb), dict(a))(list(x), zero=c["zero"]))
  exp = diffeq_ref(nzb, a, x, c["zero"], None)
  if len(got) != len(x):
    raise Violation("%d outputs for %d inputs" % (len(got), len(x)))
  for i, (g, e) in enumerate(zip(got, exp)):
    if not (g == e):
      raise Violation("a filter with %d feed-forward and %d feedback terms: y[%d] = %r, expected %r"
                      % (len(nzb), len(a) - 1, i, g, e))
  terms = len(nzb) + len(a) - 1
  return {"nontrivial": True, "labels": ["terms mod 64 = 0" if terms % 64 == 0 else "terms mod 64 != 0",
                                         ">64 terms" if terms > 64 else "<=64 terms",
                                         ">128 terms" if terms > 128 else "<=128 terms"]}


# ------------------------------------------------------------------ long feedback parts
LF_MEMS = ["list", "gen", "call", "long", "tuple", "stream", "none", "endless", "call gen", "call long"]
LF_DENSE_MAX = 300        # terms of a contiguous block (the generated sum must still compile)


def strat_long_feedback(tier):
  top = 900 if tier == "quick" else 2000
  fcoef = st.sampled_from([1, -1, 2, -3, 0.5, -0.25, 3])
  return st.fixed_dictionaries(dict(
    order=st.integers(40, top),
    shape=st.sampled_from(["comb", "sparse", "sparse", "dense"]),
    last=fcoef,                                   # the coefficient at delay == order
    taps=st.lists(st.tuples(st.integers(0, 999), fcoef), min_size=1, max_size=4),
    pattern=st.lists(st.integers(-2, 2), min_size=3, max_size=7),
    a0=st.sampled_from([1, 1, -1, 2, 0.5]),
    b=st.lists(st.integers(-3, 3), min_size=1, max_size=3),
    xlen=st.integers(1, 40), beyond=st.booleans(), x0=st.lists(qv, min_size=3, max_size=3),
    mem=st.sampled_from(LF_MEMS), m0=st.lists(qv, min_size=5, max_size=5), mslope=qv,
    zero=st.sampled_from([Q(0), Q(2, 3), 0.0]),
    route=st.sampled_from(["dict", "list", "zexpr", "LinearFilter_dict"])))


def run_long_feedback(c):
  """y[-k] is the k-th memory item and y[n-k] the k-th last output, however long the feedback part is."""
  order, shape = c["order"], c["shape"]
  a = {order: c["last"]}
  if shape == "sparse":
    for pos, v in c["taps"]:
      a.setdefault(max(1, order * pos // 1000), v)
  elif shape == "dense":
    pat = c["pattern"]
    for k in range(max(1, order - LF_DENSE_MAX + 1), order):
      v = pat[k % len(pat)]
      if v:
        a[k] = v
  a[0] = c["a0"]
  b = {k: v for k, v in enumerate(c["b"]) if v != 0}
  route = c["route"]
  if route == "zexpr" and len(a) > 8:
    route = "dict"
  # dense blocks feed every output back into the next one: keep those runs short
  n = c["xlen"] + (order if c["beyond"] and shape != "dense" else 0)
  x = [c["x0"][i % 3] + (i % 5) for i in range(n)]
  zero = c["zero"]
  memv = [c["m0"][k % 5] + k * c["mslope"] for k in range(order + 3)]
  seen = []
  mem, eff = memory(c["mem"], memv, order, zero, seen)
  filt = build(b if b else {0: 0}, a, route)
  got = list(filt(iter(x), memory=mem, zero=zero))
  if c["mem"].startswith("call") and seen != [order]:
    raise Violation("callable memory asked for sizes %r, filter order is %d" % (seen, order))
  exp = diffeq_ref(b, a, x, zero, eff)
  if len(got) != len(x):
    raise Violation("%d outputs for %d inputs (feedback order %d)" % (len(got), len(x), order))
  for i, (g, e) in enumerate(zip(got, exp)):
    if not (g == e):
      fb = sorted(k for k in a if k)
      raise Violation("feedback order %d (%d feedback terms at delays %r%s, a0=%r, b=%r, route %s), memory kind %s "
                      "with y[-k] = %r..., zero=%r: y[%d] = %r, expected %r"
                      % (order, len(fb), fb[:6], "..." if len(fb) > 6 else "", a[0], b, route, c["mem"],
                         None if eff is None else eff[:4], zero, i, g, e))
  labels = ["shape:" + shape, "mem:" + c["mem"], "route:" + route,
            "order <= 128" if order <= 128 else "order 129..512" if order <= 512 else "order > 512"]
  given = eff is not None and eff != eff[::-1]
  if given:
    labels.append("non-palindromic memory given")
    if order > 256:
      labels.append("non-palindromic memory given, order > 256")
  if n > order:
    labels.append("input longer than the order")
  return {"nontrivial": given and n >= 1, "labels": labels}


# ------------------------------------------------------------------ complex coefficients
CPLX = [1j, -1j, 0.6 + 0.8j, -0.6 + 0.8j, 0.8 - 0.6j, 2j, 1 + 1j, 0.5j, -1 + 0j, 1 + 0j, 0.25 - 0.5j]


def strat_complex(tier):
  cc = st.one_of(st.sampled_from(CPLX), st.sampled_from(CPLX), st.integers(-2, 2))
  xs = st.integers(-16, 16).map(lambda v: v / 4.)
  return st.fixed_dictionaries(dict(
    b=st.lists(cc, min_size=1, max_size=3), a0=st.one_of(st.sampled_from(CPLX + [1, -1, 2]), st.just(1)),
    a=st.lists(cc, max_size=2), x=st.lists(st.one_of(xs, st.tuples(xs, xs).map(lambda t: complex(*t))),
                                           min_size=2, max_size=8),
    memv=st.lists(xs, min_size=3, max_size=3), use_mem=st.booleans(),
    route=st.sampled_from(["list", "dict"])))


def run_complex(c):
  b = dict(enumerate(c["b"]))
  a = {k + 1: v for k, v in enumerate(c["a"])}
  a[0] = c["a0"]
  nzb = {k: v for k, v in b.items() if v != 0}
  nza = {k: v for k, v in a.items() if v != 0}
  lm = max(nza)
  if not nzb and lm == 0:
    return {"nontrivial": False, "labels": ["degenerate"]}
  x = list(c["x"])
  mem = list(c["memv"][:lm]) if c["use_mem"] else None
  got = list(build(b, a, c["route"])(list(x), memory=None if mem is None else list(mem), zero=0.))
  # reference: the difference equation in plain complex arithmetic
  y, mag = [], []
  for n in range(len(x)):
    acc, m = 0j, 0.
    for k, v in nzb.items():
      t = v * (x[n - k] if n - k >= 0 else 0.)
      acc += t
      m += abs(t)
    for k, v in nza.items():
      if k:
        prev = y[n - k] if n - k >= 0 else (0. if mem is None else mem[k - n - 1])
        pm = mag[n - k] if n - k >= 0 else abs(prev)
        acc -= v * prev
        m += abs(v) * pm
    y.append(acc / nza[0])
    mag.append(m / abs(nza[0]))
  if len(got) != len(x):
    raise Violation("%d outputs for %d inputs" % (len(got), len(x)))
  for n, (g, e) in enumerate(zip(got, y)):
    if abs(g - e) > 1e-9 * (mag[n] + 1):
      raise Violation("y[%d] = %r, expected %r (b=%r a=%r x=%r mem=%r)" % (n, g, e, nzb, nza, x, mem))
  labels = []
  if any(isinstance(v, complex) and abs(abs(v) - 1) < 1e-12 and v not in (1, -1) for k, v in nza.items() if k):
    labels.append("unit-modulus complex feedback")
  if any(isinstance(v, complex) and abs(abs(v) - 1) < 1e-12 and v not in (1, -1) for v in nzb.values()):
    labels.append("unit-modulus complex feed-forward")
  if isinstance(nza[0], complex):
    labels.append("complex a0")
  return {"nontrivial": lm >= 1 and len(x) > lm, "labels": labels or ["other"]}

# ------------------------------------------------------------------ float samples with exact arithmetic
# "holds for every sample value" includes plain floats. Float arithmetic is exact (no rounding at
# all) when every product, every partial sum and the final quotient is representable: samples
# k * 2**e with small integer k, coefficients with a few significant bits. Gradual underflow keeps
# that true down to 2**-1074, so subnormal samples and outputs are covered by the same identity.
FLOAT_COEF = [1, -1, 0.5, -0.5, 0.25, 2, -2, 0.75, 1.5, -3, 0, 1.0, -1.0, 2.0 ** -10, 4, 0.0]
FLOAT_A0 = [1, 1, -1, 2, 0.5, -0.5, 4, 1.0, -0.25, -1.0]


def strat_float(tier):
  mant = st.one_of(st.integers(-8, 8), st.integers(-8, 8), st.integers(-2 ** 20, 2 ** 20))
  expo = st.one_of(st.integers(-1074, -1040), st.integers(-1040, -1010), st.integers(-1040, -1010),
                   st.integers(-40, 40), st.integers(0, 20), st.integers(900, 960))
  cf = st.sampled_from(FLOAT_COEF)
  return st.fixed_dictionaries(dict(
    b=st.lists(cf, min_size=1, max_size=4), a0=st.sampled_from(FLOAT_A0),
    a=st.one_of(st.lists(cf, max_size=3), st.lists(cf, min_size=1, max_size=3)),
    e=expo, ks=st.lists(mant, min_size=2, max_size=10), memk=st.lists(mant, min_size=3, max_size=3),
    use_mem=st.booleans(), zero=st.one_of(st.none(), st.none(), st.just(0), mant),
    ints=st.sampled_from([False, False, True, "mixed"]), route=st.sampled_from(["list", "dict", "zexpr", "LinearFilter"])))


def _is_double(t):
  """Is the rational t exactly a finite double (subnormals included)?"""
  try:
    f = float(t)
  except OverflowError:
    return False
  return f not in (float("inf"), float("-inf")) and F(f) == t


def run_float(c):
  """Plain float samples k * 2**e (and ints with float coefficients): as long as every product, every
  partial sum (in whatever order) and the quotient by a[0] is exactly a double, IEEE arithmetic is
  exact arithmetic and the outputs must be the difference equation bit for bit - also when samples or
  outputs are subnormal. Outputs are compared up to the first one for which that is not guaranteed."""
  import math
  e = c["e"]
  ints = c["ints"] if 0 <= e <= 20 else False    # ints, or ints and floats alternating in one input
  mk = lambda k, i=0: k * 2 ** e if ints is True or (ints and i % 2) else math.ldexp(float(k), e)
  b = dict(enumerate(c["b"]))
  a = {k + 1: v for k, v in enumerate(c["a"])}
  a[0] = c["a0"]
  nzb = {k: v for k, v in b.items() if v != 0}
  nza = {k: v for k, v in a.items() if v != 0}
  lm = max(nza)
  if not nzb and lm == 0:
    return {"nontrivial": False, "labels": ["degenerate"]}
  x = [mk(k, i) for i, k in enumerate(c["ks"])]
  mem = [math.ldexp(float(k), e) for k in c["memk"][:lm]] if c["use_mem"] else None
  kw = {}
  if mem is not None:
    kw["memory"] = list(mem)
  if c["zero"] is None:
    zero = 0.                                     # the documented default of the zero value
  else:
    zero = kw["zero"] = math.ldexp(float(c["zero"]), e)
  got = list(build(b, a, c["route"])(list(x), **kw))
  if len(got) != len(x):
    raise Violation("%d outputs for %d inputs (float samples, b=%r a=%r)" % (len(got), len(x), nzb, nza))
  zf = F(zero)
  y, labels, sub = [], [], False
  for n in range(len(x)):
    terms = [F(v) * (F(x[n - k]) if n >= k else zf) for k, v in nzb.items()]
    for k, v in nza.items():
      if k:
        prev = y[n - k] if n >= k else (zf if mem is None else F(mem[k - n - 1]))
        terms.append(-F(v) * prev)
    tot = sum(abs(t) for t in terms)
    grid = F(1, max(t.denominator for t in terms))
    q = sum(terms) / F(nza[0])
    if not (all(_is_double(t) for t in terms) and tot < 2 ** 53 * grid and tot < F(2) ** 1000 and _is_double(q)):
      break
    if not (got[n] == q):
      raise Violation("float samples with exact arithmetic: y[%d] = %r, the difference equation gives exactly %r "
                      "(b=%r a=%r x=%r zero=%r mem=%r route=%s) full=%r"
                      % (n, got[n], float(q), nzb, nza, x, zero, mem, c["route"], got))
    if q != 0 and abs(q) < F(2) ** -1022:
      sub = True
    y.append(q)
  labels.append("all outputs exact" if len(y) == len(x) else "exact prefix only")
  if sub:
    labels.append("subnormal non-zero output")
    if lm >= 1:
      labels.append("feedback, subnormal non-zero output")
  if any(v != 0 and abs(v) < 2.0 ** -1022 for v in x):
    labels.append("subnormal sample")
  if c["zero"] is None:
    labels.append("default zero value")
  if ints:
    labels.append("int samples, float coefficients" if ints is True else "int and float samples mixed")
  if e >= 900:
    labels.append("huge samples")
  return {"nontrivial": lm >= 1 and len(y) > lm, "labels": labels}


# ------------------------------------------------------------------ long inputs, cheap filters
LI_SHAPES = ["gain", "gain/a0", "fir2", "fir3", "sparse fir", "iir1", "iir2", "gain + iir1"]


def cases_long_input(tier, shard, nshards):
  """Complete grid shape x length (lengths around the powers of two, where block-wise code changes
  strategy); the remaining fields are a fixed function of (shape, length, variant)."""
  quick = tier == "quick"
  ks = list(range(10, 16)) if quick else list(range(9, 18))
  lengths = sorted(set(2 ** k + d for k in ks for d in (-1, 0, 1)) | set([1, 999, 3000, 20000])
                   | set([] if quick else [50000, 100000, 150001]))
  i = 0
  for shape in LI_SHAPES:
    for n in lengths:
      for v in range(2 if quick else 4):
        i += 1
        if i % nshards != shard:
          continue
        h = mix("C04 long inputs", shape, n, v)
        pick = lambda seq, salt: seq[(h >> salt) % len(seq)]
        yield dict(shape=shape, n=n, c=[pick([1, -1, 2, -3, 5, 1, -1], 0), pick([1, -1, 2, -3, 5], 5), pick([-1, 2, 1, 4], 9)],
                   s=[pick([1, -1], 13), pick([1, -1], 14)], a0=pick([1, -1, 2, -3, 1, -1], 16),
                   kind=pick(["int", "int", "int", "int", "frac"], 20), mult=1 + (h >> 24) % 60, mod=pick([97, 251, 7], 31),
                   zero=pick([0, 5, -2], 34), mem=bool((h >> 37) & 1), container=pick(["list", "gen", "Stream", "iter"], 39))


def run_long_input(c):
  """Exactly one output per input, each the difference equation, however long the input is (cheap
  filters: a gain, 2..3 taps, one or two feedback terms; exact int / Fraction samples)."""
  shape, (c0, c1, c2), (s1, s2) = c["shape"], c["c"], c["s"]
  frac = c["kind"] == "frac"
  n = min(c["n"], 2 ** 13 + 2 + c["n"] % 7) if frac else c["n"]      # Fractions are slower: stay just above 2**13
  a0 = c["a0"] if frac or c["a0"] in (1, -1) else (1 if c["a0"] > 0 else -1)   # ints: no int / int division
  if shape == "gain":
    b, a = {0: c0}, {0: 1}
  elif shape == "gain/a0":
    b, a = {0: c0}, {0: a0}
  elif shape == "fir2":
    b, a = {0: c0, 1: c1}, {0: a0}
  elif shape == "fir3":
    b, a = {0: c0, 2: c2}, {0: a0}
  elif shape == "sparse fir":
    b, a = {1: c0, 9: c1}, {0: a0}
  elif shape == "iir1":
    b, a = {0: c0}, {0: a0, 1: s1}
  elif shape == "iir2":
    b, a = {0: c0, 1: c1}, {0: a0, 1: s1, 2: s2}
  else:
    b, a = {0: c0}, {0: 1, 1: s1}
  lm = max(a)
  mod = c["mod"]
  xi = [(i * c["mult"] + i // mod) % mod - mod // 2 for i in range(n)]
  x = [F(v, 3) for v in xi] if frac else xi          # plain Fractions: coefficients and a[0] are ints here
  zero = F(c["zero"], 2) if frac else c["zero"]
  mem = ([F(7, 2), F(-1, 3)] if frac else [7, -4])[:lm] if c["mem"] and lm else None
  filt = build(b, a, "dict" if shape == "sparse fir" else "list")
  xin = {"list": list, "gen": lambda v: (t for t in v), "Stream": Stream, "iter": iter}[c["container"]](list(x))
  got = list(filt(xin, memory=None if mem is None else list(mem), zero=zero))
  if len(got) != n:
    raise Violation("%d outputs for %d inputs (b=%r a=%r, %s input)" % (len(got), n, b, a, c["container"]))
  # reference in the samples' own exact arithmetic (a0 = +-1 for ints, so 1 / a0 == a0)
  inv = F(1, a[0]) if frac else a[0]
  fb = [(k, v) for k, v in a.items() if k]
  y = []
  for i in range(n):
    acc = 0
    for k, v in b.items():
      acc += v * (x[i - k] if i >= k else zero)
    for k, v in fb:
      acc -= v * (y[i - k] if i >= k else (zero if mem is None else mem[k - i - 1]))
    y.append(acc * inv)
  if got != y:
    i = next(i for i in range(n) if got[i] != y[i])
    raise Violation("input of %d samples (b=%r a=%r zero=%r mem=%r, %s input): y[%d] = %r, expected %r"
                    % (n, b, a, zero, mem, c["container"], i, got[i], y[i]))
  labels = ["shape:" + shape, "samples:" + c["kind"],
            "n <= 1024" if n <= 1024 else "n 1025..8192" if n <= 8192 else "n 8193..32768" if n <= 32768 else "n > 32768"]
  if lm == 0 and max(b) == 0 and n > 8192:
    labels.append("order-0 filter, n > 8192")
  if lm == 0 and max(b) == 0 and n > 1024:
    labels.append("order-0 filter, n > 1024")
  if lm and n > 8192:
    labels.append("feedback, n > 8192")
  return {"nontrivial": n > 1024, "labels": labels}


# ------------------------------------------------------------------ other filter calls in between
# What a call yields must not depend on what else the process calls meanwhile (audiolazy's player
# threads evaluate filters while the main thread builds and calls others). Deterministic stand-in for a
# thread switch: the call under test runs under sys.settrace; at chosen "line" events of frames whose
# code lives in audiolazy/lazy_filters.py the traced thread is held while ANOTHER thread makes a
# complete call of another filter (or of the same filter object on other data) and reads its output.
def strat_between(tier):
  coef = st.one_of(st.sampled_from([1, -1, 0, 2, -3, 0.5]), st.integers(-4, 4))
  part = lambda: st.fixed_dictionaries(dict(
    b=st.lists(coef, min_size=1, max_size=4), a0=st.sampled_from([1, 1, -1, 2, 0.5, -3]), a=st.lists(coef, max_size=3),
    x=st.lists(qv, min_size=2, max_size=8), memv=st.lists(qv, min_size=4, max_size=4),
    mem=st.sampled_from(["none", "none", "list", "gen", "call", "tuple"]), zero=st.sampled_from([Q(0), 0.0, Q(2), Q(-1, 3)])))
  icoef = st.integers(-3, 3)
  halves = st.integers(-6, 6)
  # the other call is kept cheap: integer coefficients, 2..4 samples n/2 (it is made up to 400 times)
  other = st.fixed_dictionaries(dict(
    b=st.lists(icoef, min_size=1, max_size=3), a0=st.sampled_from([1, -1, 2]), a=st.lists(icoef, max_size=2),
    x=st.lists(halves, min_size=2, max_size=4), memv=st.lists(halves, min_size=4, max_size=4),
    mem=st.sampled_from(["none", "none", "list", "gen", "call"]), zero=st.sampled_from([0, 0, 4, -1])))
  return st.fixed_dictionaries(dict(
    A=part(), B=other, same=st.sampled_from([False, False, False, True, "default memories"]),
    stride=st.sampled_from([1, 1, 1, 2, 3, 7]), phase=st.integers(0, 6),
    read=st.sampled_from(["other call before reading", "alternate", "alternate", "other call midway", "plain"]),
    route=st.sampled_from(["list", "dict", "zexpr", "LinearFilter"])))


def _part(p):
  b = dict(enumerate(p["b"]))
  a = {k + 1: v for k, v in enumerate(p["a"])}
  a[0] = p["a0"]
  nzb = {k: v for k, v in b.items() if v != 0}
  nza = {k: v for k, v in a.items() if v != 0}
  if not nzb:
    b[0] = nzb[0] = 2
  return b, a, nzb, nza


def run_between(c):
  import sys
  import queue
  import threading
  from audiolazy import lazy_filters
  lf_file = lazy_filters.__file__
  A, B, read = dict(c["A"]), dict(c["B"]), c["read"]
  if c["same"] == "default memories":
    # two calls of one filter object with feedback, no memory given, outputs read in lock step: f(u) + f(v)
    A["mem"] = B["mem"] = "none"
    A["a"] = A["a"] if any(A["a"]) else [-1] + A["a"][1:]
    read = "alternate"
  num = Q if c["same"] else F                   # A's coefficients may be floats: Q absorbs them
  B["x"], B["memv"], B["zero"] = [num(v, 2) for v in B["x"]], [num(v, 2) for v in B["memv"]], num(B["zero"], 2)
  bA, aA, nzbA, nzaA = _part(A)
  bB, aB, nzbB, nzaB = _part(A if c["same"] else B)
  filtA = build(bA, aA, c["route"])
  filtB = filtA if c["same"] else build(bB, aB, "list")
  lmA, lmB = max(nzaA), max(nzaB)
  expA = diffeq_ref(nzbA, nzaA, A["x"], A["zero"], None if A["mem"] == "none" else A["memv"][:lmA])
  expB = diffeq_ref(nzbB, nzaB, B["x"], B["zero"], None if B["mem"] == "none" else B["memv"][:lmB])
  problems, count = [], [0, 0]

  def call_other():
    mem, eff = memory(B["mem"], B["memv"], lmB, B["zero"], [])
    return filtB(iter(list(B["x"])), memory=mem, zero=B["zero"])

  def other():
    try:
      got = list(call_other())
      if got != expB:
        problems.append("the other call (made while the call under test was suspended at line event %d) gave %r, "
                        "expected %r (its b=%r a=%r)" % (count[0], got, expB, nzbB, nzaB))
    except BaseException as exc:
      problems.append("the other call (made while the call under test was suspended at line event %d) raised %s: %s"
                      % (count[0], type(exc).__name__, exc))

  # one helper thread per case; jobs are handed over and waited for, so the interleaving is fixed
  jobs, done, pending = queue.SimpleQueue(), queue.SimpleQueue(), [0]

  def helper():
    while True:
      job = jobs.get()
      if job is None:
        return
      job()
      done.put(1)

  worker = threading.Thread(target=helper, daemon=True)
  worker.start()

  def elsewhere():
    """A complete call in the other thread while this one waits."""
    count[1] += 1
    jobs.put(other)
    pending[0] += 1
    try:
      done.get(timeout=20)
      pending[0] -= 1
    except queue.Empty:           # it waits for something this thread holds: go on, collect it at the end
      pass

  def local(frame, event, arg):
    if event == "line":
      count[0] += 1
      if count[0] % c["stride"] == c["phase"] % c["stride"] and count[1] < 400 and not pending[0]:
        elsewhere()
    return local

  def glob(frame, event, arg):
    return local if frame.f_code.co_filename == lf_file else None

  seen = []
  mem, eff = memory(A["mem"], A["memv"], lmA, A["zero"], seen)
  old = sys.gettrace()
  sys.settrace(glob)
  try:
    out = filtA(list(A["x"]), memory=mem, zero=A["zero"])
  finally:
    sys.settrace(old)
  injected = count[1]
  if read == "other call before reading":
    elsewhere()
    got = list(out)
  elif read == "other call midway":
    got = out.take(len(A["x"]) // 2)
    elsewhere()
    got += list(out)
  elif read == "alternate":
    # two lazy outputs read in lock step, as in filt(u) + filt(v)
    outB = call_other()
    got, gotB = [], []
    ia, ib = iter(out), iter(outB)
    for k in range(max(len(A["x"]), len(B["x"])) + 1):
      got.extend(v for v in [next(ia, None)] if v is not None)
      gotB.extend(v for v in [next(ib, None)] if v is not None)
    if gotB != expB:
      problems.append("read in lock step with the call under test, the other call gave %r, expected %r" % (gotB, expB))
  else:
    got = list(out)
  jobs.put(None)
  try:
    for k in range(pending[0]):
      done.get(timeout=20)
  except queue.Empty:
    raise Violation("a filter call made from another thread never returned")
  worker.join(20)
  what = "the same filter object on other data" if c["same"] else "another filter (b=%r a=%r)" % (nzbB, nzaB)
  if got != expA:
    raise Violation("b=%r a=%r x=%r zero=%r memory %s: %r, expected %r - while this call was under way, %s was called "
                    "%d time(s) from another thread (every %d-th line of lazy_filters.py); reading: %s"
                    % (nzbA, nzaA, A["x"], A["zero"], A["mem"], got, expA, what, injected, c["stride"], read))
  if problems:
    raise Violation(problems[0] + " [call under test: b=%r a=%r; other: %s]" % (nzbA, nzaA, what))
  if A["mem"] == "call" and seen != [lmA]:
    raise Violation("callable memory asked for sizes %r, filter order is %d" % (seen, lmA))
  labels = ["every line" if c["stride"] == 1 else "some lines", "read: " + read,
            "same filter object" if c["same"] else "another filter"]
  if injected >= 20:
    labels.append(">= 20 other calls during the call")
  if c["same"] and read == "alternate" and lmA >= 1:
    labels.append("same object, lock-step reading, feedback")
    if A["mem"] == "none" and B["mem"] == "none":
      labels.append("same object, lock-step reading, feedback, default memories")
  return {"nontrivial": injected >= 1 and len(A["x"]) > lmA, "labels": labels}


CLAUSES = [
  Clause("diffeq_exact", strat_exact, run_exact, quick=3500, thorough=80000,
         floors={"special-cased +-1 coefficient": .2, "sparse high delay": .05, "memory used": .2,
                 "memory used: endless": .015, "memory used: call gen": .015, "memory used: call long": .015,
                 "float coefficient printed with an exponent, feedback": .03,
                 "samples far from 1 (x 10**400, 2**-1100, 10**-30, 2**70)": .06,
                 "a0=-1": .02, "a0 float": .1, "a0 Fraction": .05,
                 "b equals a by value, order >= 1, memory differs from the zero history": .04,
                 "b = 2a, order >= 1": .02},
         doc="exact agreement with the difference equation for int / float / dyadic-Fraction coefficients"),
  Clause("diffeq_fraction", strat_frac, run_frac, quick=1200, thorough=20000,
         floors={"float-evaluated Fraction": .4, "a0 non-dyadic Fraction": .1,
                 "b equals a by value, order >= 1, memory differs from the zero history": .025},
         doc="non-dyadic Fraction coefficients (code evaluates n/d in double): agreement within 1e-12 x magnitude"),
  Clause("exact_twins", strat_twins, run_twins, quick=800, thorough=15000,
         floors={"float twin first": .2, "big ints": .1},
         doc="integer coefficients on plain Fractions / ints beyond 2**53 stay exact, also right after a value-equal float-spelled filter ran"),
  Clause("long_filters", strat_long, run_long, quick=160, thorough=2000, floors={">64 terms": .5},
         doc="filters with 60..140 (thorough ..300) taps: every term of a long generated sum contributes"),
  Clause("long_feedback", strat_long_feedback, run_long_feedback, quick=200, thorough=2500,
         floors={"non-palindromic memory given": .25, "non-palindromic memory given, order > 256": .15,
                 "order > 512": .08, "shape:dense": .04, "input longer than the order": .08},
         doc="feedback orders 40..900 (thorough ..2000): comb, sparse and dense feedback parts with explicit memories of every kind"),
  Clause("complex_coefficients", strat_complex, run_complex, quick=800, thorough=15000,
         floors={"unit-modulus complex feedback": .1, "complex a0": .1},
         doc="complex coefficients (incl. modulus exactly 1) against the difference equation in complex arithmetic, tol 1e-9 x magnitude"),
  Clause("float_samples", strat_float, run_float, quick=900, thorough=15000,
         floors={"feedback, subnormal non-zero output": .05, "subnormal sample": .1, "all outputs exact": .2},
         doc="plain float samples k * 2**e (subnormal to huge) with coefficients whose float arithmetic is exact: outputs bit for bit"),
  Enumerated("long_inputs", cases_long_input, run_long_input, shards={"quick": 8, "thorough": 16},
             floors={"order-0 filter, n > 8192": .04, "feedback, n > 8192": .08},
             doc="inputs of 1..2**15 (thorough 150001) samples, every length 2**k-1..2**k+1, through gains, 2..3 taps, 1..2 feedback terms: complete grid shape x length"),
  Clause("other_calls_between", strat_between, run_between, quick=120, thorough=2000,
         floors={"every line": .25, "same filter object": .1,
                 "same object, lock-step reading, feedback, default memories": .04},
         doc="another thread calls another filter (or the same object) between any two lines of the call under test and while its output is read"),
  Clause("all_zero", strat_allzero, run_allzero, quick=500, thorough=5000,
         doc="the filter with no terms outputs the zero value once per input"),
  Clause("negative_delay", strat_noncausal, run_noncausal, quick=800, thorough=10000,
         floors={"refused": .15, "ran": .15},
         doc="ValueError exactly when a numerator delay precedes the first denominator delay"),
]
