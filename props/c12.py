"""C12 - Frequency response is the transfer function and matches the time domain.

Clauses
  response    one LTI filter, one frequency: |H_lib - B(w)/A(w)| <= eps (a-priori
              rounding bound), nan exactly where the denominator is exactly zero; one case
              in seven has its numerator built from its own denominator (the same polynomial,
              a multiple, the mirror image = all-pass section, mirror image scaled / delayed)
  containers  freq_response over list/tuple/set/frozenset/deque/Stream/Stream subclass/
              StreamTeeHub (two users)/generator/range/map/filter/keyword, every kind also
              empty: kind kept, applied per element
  lists       CascadeFilter -> product, ParallelFilter -> sum (nested, empty,
              raw-coefficient members, plain-number members such as the direct path of
              ParallelFilter(1, g)); the response follows the list when a member is replaced
              in place and when the list is grown / shrunk / rebuilt by list operations
              (append, extend, +=, *=, del, clear, reverse, list + [m], list * 2, 2 * list);
              all-FIR lists also against the time domain
  null_pole   lists of integer sections with exact nulls / exact poles at w = 0 (nulls and
              poles at pi), in both orders, nested and as a branch of a bank: product / sum
              of the member responses, nan as soon as one member's denominator vanishes
              (a null member before it does not hide it)
  time_dft    unnormalised dft of a FIR impulse response at w == freq_response(w)
  time_sine   e^{jwn} through a FIR is scaled by freq_response(w) once n >= order
  dft_sum     dft == defining sum (exact DC bin for integer / dyadic blocks)
  dft_linear  dft(alpha*x + beta*y) == alpha*dft(x) + beta*dft(y)
"""
import math
import cmath
import types
from collections import deque
from fractions import Fraction

from hypothesis import strategies as st
from vlib.core import Clause, Violation, Reject

import audiolazy
from audiolazy import (ZFilter, LinearFilter, CascadeFilter, ParallelFilter,
                       Stream, dft, z)

ID = "C12"
RULE = ("cases = (numerator, denominator built from root sections kept away from "
        "the unit circle / integer denominators / denominators with an exact "
        "root at z=1, numerator random or tied to the denominator (same / scaled / mirrored / "
        "mirrored and scaled / mirrored and delayed), construction route, frequency or frequency "
        "container) drawn by Hypothesis; filter-list members are filters, raw coefficient lists, plain "
        "numbers (half of them 1 or 0 in their int / float / bool / Fraction spellings) or nested lists, "
        "optionally changed by one list operation after the first response; oracle = independent fsum evaluation of "
        "sum b_k e^{-jkw} / sum a_k e^{-jkw} with the a-priori rounding bound eps, "
        "products / sums of it for cascades / parallel banks (null_pole: members are "
        "integer sections (1 - z^-R, (1 - z^-1) q(z), zero gains, 1/((1 - z^-1) q(z)), "
        "(1 + z^-1) q(z) ...) with exact nulls / poles at w = 0 and pi, permuted, nested, "
        "probed mostly at w = 0, each list also with its members reversed and against the "
        "product / sum of its own members' responses), the defining sum for "
        "dft; non-trivial = order >= 2 and w != 0 (filters; null_pole: >= 2 sections and "
        "w != 0 or a section exactly null / nan at w), block length >= 2 and "
        "some w != 0 (dft); distinct = distinct case hash")
ASSUMPTIONS = [
  "domain: |A(e^{-jw})| >= 1e-3 * sum|a| at the probed frequency, or A exactly 0 at w = 0 (nan expected); "
  "other cases are rejected and counted",
  "eps = 64*(order+2)*2^-53*(sum|b|/|A| + sum|b|*sum|a|/|A|^2); time-domain and dft tolerances are the "
  "same kind of a-priori bound on sum|b| resp. sum|x| (measured head-room reported in the module)",
  "frequency containers are the kinds the elementwise decorator documents (list, tuple, set, frozenset, "
  "deque, Stream and its subclasses incl. StreamTeeHub, generator, range, map, filter); bare list_iterator "
  "objects are not supported by it and not generated",
  "a plain number is a legal member of a filter list (FilterList.callables casts it to a constant-gain "
  "LinearFilter): its response is that number at every frequency",
  "empty CascadeFilter / ParallelFilter are filters (their __call__ is the identity / the zero signal), so "
  "their responses are the empty product 1 / the empty sum 0",
  "nan may be returned as a float or a complex nan",
  "a cascade / bank is nan at w as soon as one member is nan there (0 * nan and x + nan are nan): "
  "exact nulls of other members do not cancel a vanishing denominator",
]

U = 2.0 ** -53
TWO_PI = 2 * math.pi
#: set to False to take empty CascadeFilter()/ParallelFilter() out of the domain
EMPTY_LISTS = True


# ---------------------------------------------------------------- oracle side

def poly_at(c, w):
  """sum_k c[k] e^{-jkw}, each part summed with fsum."""
  re = math.fsum(ck * math.cos(k * w) for k, ck in enumerate(c))
  im = -math.fsum(ck * math.sin(k * w) for k, ck in enumerate(c))
  return complex(re, im)


def sabs(c):
  return math.fsum(abs(x) for x in c)


def exactly_zero_at_dc(a, w):
  return w == 0 and sum(Fraction(x) for x in a) == 0


def ref_response(b, a, w):
  """-> ("nan", None, None) | ("ok", H, eps); Reject outside the domain."""
  if exactly_zero_at_dc(a, w):
    return "nan", None, None
  den = poly_at(a, w)
  sa, sb = sabs(a), sabs(b)
  if not abs(den) >= 1e-3 * sa:
    raise Reject()
  num = poly_at(b, w)
  order = max(len(a), len(b))
  eps = 64 * (order + 2) * U * (sb / abs(den) + sb * sa / abs(den) ** 2)
  return "ok", num / den, eps


def isnan(v):
  return isinstance(v, (float, complex)) and cmath.isnan(v)


def check_value(got, kind, ref, eps, what):
  if not isinstance(got, (complex, float, int)) or isinstance(got, bool):
    raise Violation("%s: response is a %s (%r)" % (what, type(got).__name__, got))
  if kind == "nan":
    if not isnan(got):
      raise Violation("%s: denominator is exactly zero, expected nan, got %r" % (what, got))
    return 0.
  if isnan(got) or abs(got - ref) > eps:
    raise Violation("%s: got %r, transfer function gives %r (|diff|=%.3e > eps=%.3e)"
                    % (what, got, ref, float("nan") if isnan(got) else abs(got - ref), eps))
  return 0. if eps == 0 else abs(got - ref) / eps


def same_value(x, y):
  """bitwise-equal responses (nan == nan)."""
  if isnan(x) or isnan(y):
    return isnan(x) and isnan(y)
  return x == y


# ---------------------------------------------------------------- construction

def conv(p, q):
  out = [0] * (len(p) + len(q) - 1)
  for i, x in enumerate(p):
    for j, y in enumerate(q):
      out[i + j] = out[i + j] + x * y
  return out


def build(spec):
  b, a, route = spec["b"], spec["a"], spec["route"]
  if route == "Z":
    return ZFilter(list(b)) if a is None else ZFilter(list(b), list(a))
  if route == "L":
    return LinearFilter(list(b), None if a is None else list(a))
  if route == "dict":
    nd = dict((k, c) for k, c in enumerate(b) if c != 0)
    if a is None:
      return ZFilter(nd)
    return ZFilter(nd, dict((k, c) for k, c in enumerate(a) if c != 0))
  if route == "expr":
    num = sum(c * z ** -k for k, c in enumerate(b))
    if a is None:
      return num if isinstance(num, ZFilter) else ZFilter([num])
    return num / sum(c * z ** -k for k, c in enumerate(a))
  raise AssertionError(route)


def den_of(spec):
  return [1] if spec["a"] is None else spec["a"]


_small = st.sampled_from([0, 1, -1, 1.0, -1.0, 0.5, 2, -3, 8, -8.0])
_coef = st.one_of(_small, st.integers(-8, 8),
                  st.floats(-8, 8, allow_nan=False, allow_infinity=False, allow_subnormal=False))
_radius = st.one_of(st.floats(0, .9), st.floats(1.1, 1.5), st.sampled_from([0., .5, .9, 1.1, 1.5]))
_gain = st.one_of(st.sampled_from([1, 1, -1, 1.0, 2, 0.5, -4.0]),
                  st.floats(.25, 4).map(lambda g: g), st.floats(-4, -.25))


@st.composite
def _den(draw, maxroots):
  """-> (family, a or None)."""
  fam = draw(st.sampled_from(["fir", "fir", "sections", "sections", "sections",
                              "sections", "int", "unit", "unit"]))
  if fam == "fir":
    g = draw(st.one_of(st.none(), _gain))
    return fam, (None if g is None else [g])
  if fam == "sections":
    a = [draw(_gain)]
    left = draw(st.integers(1, maxroots))
    while left > 0:
      if left >= 2 and draw(st.booleans()):
        r, th = draw(_radius), draw(st.floats(0, math.pi))
        a = conv(a, [1, -2 * r * math.cos(th), r * r])
        left -= 2
      else:
        r = draw(_radius) * draw(st.sampled_from([1, -1]))
        a = conv(a, [1, -r])
        left -= 1
    lead = draw(st.sampled_from([0, 0, 0, 0, 0, 0, 1, 2]))
    return fam, [0] * lead + a
  if fam == "int":
    a = draw(st.lists(st.integers(-8, 8), min_size=1, max_size=maxroots + 1))
    if not any(a):
      a[0] = draw(st.sampled_from([1, -2, 3]))
    return fam, a
  # "unit": an exact root at z = 1 (sum a == 0): nan at w == 0, fine elsewhere
  q = draw(st.lists(st.integers(-4, 4), min_size=1, max_size=max(1, maxroots - 1)))
  if q[0] == 0:
    q[0] = draw(st.sampled_from([1, -1, 2]))
  a = conv([1, -1], q)
  sc = draw(st.sampled_from([1, 1, 0.5, -0.25, 1.0]))
  return fam, [sc * x for x in a]


_w_special = st.sampled_from([0, 0.0, math.pi, math.pi / 2, 1, 2, 3, 6, 1e-9, 1e-3,
                              math.pi - 1e-9, TWO_PI - 1e-9, math.pi / 3, 0.25])
_w = st.one_of(_w_special, st.floats(0, TWO_PI, exclude_max=True, allow_subnormal=False),
               st.floats(0, TWO_PI, exclude_max=True))


@st.composite
def _filt(draw, maxb=7, maxroots=6, routes=("Z", "Z", "L", "dict", "expr")):
  fam, a = draw(_den(maxroots))
  b = draw(st.lists(_coef, min_size=1, max_size=maxb))
  return {"b": b, "a": a, "fam": fam, "route": draw(st.sampled_from(routes))}


@st.composite
def _filt_w(draw, **kw):
  spec = draw(_filt(**kw))
  if spec["fam"] == "unit":
    w = draw(st.one_of(st.sampled_from([0, 0.0]), st.floats(.05, TWO_PI - .05), _w_special))
  else:
    w = draw(_w)
  return spec, w


TIES = ["same", "scaled", "mirror", "mirror", "mirror-scaled", "mirror-delayed", "mirror-delayed"]
_tie_gain = st.sampled_from([2, -1, 0.5, -3, 4.0, -0.25, 1.5])


@st.composite
def _tied_w(draw):
  """A filter whose numerator is built from its own denominator: the same polynomial (H = 1
  wherever A != 0 - and nan, not 1, where A vanishes), a multiple of it, its mirror image
  (all-pass section, |H| = 1), the mirror image scaled, or delayed by one or two more samples.
  Coefficients are whatever these constructions give; the oracle takes them as data."""
  fam, a = draw(_den(5).filter(lambda t: t[1] is not None and len([c for c in t[1] if c != 0]) > 1))
  tie = draw(st.sampled_from(TIES))
  if tie == "same":
    b = list(a)
  elif tie == "scaled":
    g = draw(_tie_gain)
    b = [g * c for c in a]
  else:
    b = list(a[::-1])
    if tie == "mirror-scaled":
      g = draw(_tie_gain)
      b = [g * c for c in b]
    elif tie == "mirror-delayed":
      b = [0] * draw(st.integers(1, 2)) + b
  spec = {"b": b, "a": a, "fam": fam, "tie": tie,
          "route": draw(st.sampled_from(("Z", "Z", "L", "dict", "expr")))}
  if fam == "unit":
    w = draw(st.one_of(st.sampled_from([0, 0.0]), st.floats(.05, TWO_PI - .05), _w_special))
  else:
    w = draw(_w)
  return spec, w


def flabels(spec, w=None):
  a = den_of(spec)
  iir = len([c for c in a if c != 0]) > 1
  out = ["IIR" if iir else "FIR", "route:" + spec["route"], "den:" + spec["fam"]]
  if a[0] == 0 or (spec["route"] == "dict" and spec["b"][0] == 0 and iir):
    out.append("leading zero")
  if spec.get("tie"):
    out.append("numerator tied to the denominator")
    out.append("tie:" + spec["tie"])
  if w is not None:
    if w == 0:
      out.append("w=0")
    elif w == math.pi:
      out.append("w=pi")
    elif isinstance(w, int):
      out.append("w int")
  return out


def order_of(spec):
  return max(len(spec["b"]), len(den_of(spec))) - 1


# ---------------------------------------------------------------- response

def strat_response(tier):
  # one_of drops repeated strategy *objects*: four distinct _filt_w() to one _tied_w()
  return st.one_of(_filt_w(), _filt_w(), _filt_w(), _filt_w(), _tied_w()).map(lambda p: {"f": p[0], "w": p[1]})


def run_response(case):
  spec, w = case["f"], case["w"]
  kind, ref, eps = ref_response(spec["b"], den_of(spec), w)
  filt = build(spec)
  got = filt.freq_response(w)
  ratio = check_value(got, kind, ref, eps, "freq_response(%r)" % (w,))
  # the same filter object asked again, at another frequency and then at the first one:
  # nothing may be remembered from an earlier call
  w2 = (w + 0.7) % 6.0 if w != 0 else 1.3
  try:
    kind2, ref2, eps2 = ref_response(spec["b"], den_of(spec), w2)
  except Reject:
    kind2 = None
  if kind2 == "ok":
    check_value(filt.freq_response(w2), kind2, ref2, eps2, "second call freq_response(%r) on the same filter" % (w2,))
    again = filt.freq_response(w)
    if kind == "ok" and again != got:
      raise Violation("freq_response(%r) gave %r, then %r after a call at another frequency" % (w, got, again))
  labels = flabels(spec, w)
  labels.append("nan" if kind == "nan" else ("err<=1e-3 eps" if ratio <= 1e-3 else
                                             "err<=0.1 eps" if ratio <= .1 else "err>0.1 eps"))
  if kind != "nan" and not any(spec["b"]):
    labels.append("zero numerator")
  if spec.get("tie") and kind == "nan":
    labels.append("tied and nan")
  return {"nontrivial": order_of(spec) >= 2 and w != 0, "labels": labels}


# ---------------------------------------------------------------- containers

KINDS = ["list", "tuple", "set", "frozenset", "deque", "stream", "generator",
         "map", "range", "kw_list", "kw_scalar", "kw_stream",
         # a filter object (one of the lazy iterator kinds answered with a generator, like map),
         # an instance of a Stream subclass, a StreamTeeHub (thub(freqs, 2) given to two calls: each
         # call gets its own copy of the frequencies), a hub given by keyword
         "filter", "stream_sub", "thub", "kw_thub"]


class FreqStream(Stream):
  """A Stream subclass (frequencies arrive as one, e.g. from a user's own Stream type)."""


@st.composite
def strat_containers_(draw):
  spec = draw(_filt(maxb=5, maxroots=4))
  kind = draw(st.sampled_from(KINDS))
  wel = st.one_of(st.sampled_from([0, 0.0]), _w) if spec["fam"] == "unit" else _w
  if kind == "range":
    start = draw(st.integers(0, 5))
    ws = [start, draw(st.integers(start, 7))]         # range(start, start): no frequency at all
  elif kind == "kw_scalar":
    ws = [draw(wel)]
  else:
    ws = draw(st.lists(wel, min_size=1, max_size=5))
    if draw(st.sampled_from([False] * 6 + [True])):     # every kind of container may be empty
      ws = []
  target = draw(st.sampled_from(["single", "single", "cascade", "parallel"]))
  other = draw(_filt(maxb=3, maxroots=2)) if target != "single" else None
  return {"f": spec, "kind": kind, "ws": ws, "target": target, "other": other}


def strat_containers(tier):
  return strat_containers_()


def make_container(kind, ws):
  if kind in ("list", "kw_list"):
    return list(ws)
  if kind == "tuple":
    return tuple(ws)
  if kind == "set":
    return set(ws)
  if kind == "frozenset":
    return frozenset(ws)
  if kind == "deque":
    return deque(ws)
  if kind in ("stream", "kw_stream"):
    return Stream(list(ws))
  if kind == "stream_sub":
    return FreqStream(list(ws))
  if kind in ("thub", "kw_thub"):
    return audiolazy.thub(Stream(list(ws)) if len(ws) % 2 else list(ws), 2)
  if kind == "filter":
    return filter(lambda x: True, list(ws))
  if kind == "generator":
    return (x for x in list(ws))
  if kind == "map":
    return map(lambda x: x, list(ws))
  if kind == "range":
    return range(ws[0], ws[1])
  raise AssertionError(kind)


def vkey(v):
  if isnan(v):
    return (1, 0., 0.)
  v = complex(v)
  return (0, v.real, v.imag)


def run_containers(case):
  spec, kind, ws = case["f"], case["kind"], case["ws"]
  freqs = list(range(ws[0], ws[1])) if kind == "range" else list(ws)
  specs = [spec] + ([case["other"]] if case["other"] else [])
  refs = []
  for w in freqs:
    parts = [ref_response(s["b"], den_of(s), w) for s in specs]
    refs.append(combine(case["target"], parts))
  filt = build(spec)
  if case["target"] == "cascade":
    filt = CascadeFilter(filt, build(case["other"]))
  elif case["target"] == "parallel":
    filt = ParallelFilter(filt, build(case["other"]))
  scal = [filt.freq_response(w) for w in freqs]
  for w, s, (k, r, e) in zip(freqs, scal, refs):
    check_value(s, k, r, e, "scalar freq_response(%r)" % (w,))
  if kind == "kw_scalar":
    got = filt.freq_response(freq=ws[0])
    if not same_value(got, scal[0]):
      raise Violation("freq_response(freq=%r) = %r but freq_response(%r) = %r" % (ws[0], got, ws[0], scal[0]))
    return {"nontrivial": order_of(spec) >= 2 and ws[0] != 0,
            "labels": ["kind:" + kind, "target:" + case["target"]] + flabels(spec)}
  arg = make_container(kind, ws)
  res = filt.freq_response(freq=arg) if kind.startswith("kw_") else filt.freq_response(arg)
  want_type = {"list": list, "kw_list": list, "tuple": tuple, "set": set, "frozenset": frozenset,
               "deque": deque, "stream": Stream, "kw_stream": Stream,
               "generator": types.GeneratorType}.get(kind)
  if kind in ("stream_sub", "thub", "kw_thub") and not isinstance(res, Stream):
    raise Violation("frequencies given as %s (a Stream), response container is %s" % (kind, type(res).__name__))
  if kind in ("thub", "kw_thub"):
    # the second user of the hub gets the same frequencies, whatever the first one has read so far
    res2 = filt.freq_response(freq=arg) if kind == "kw_thub" else filt.freq_response(arg)
    first, second = list(res), list(res2)
    if len(first) != len(second) or not all(same_value(x, y) for x, y in zip(first, second)):
      raise Violation("the two users of thub(%r, 2) got %r and %r" % (freqs, first, second))
    res = first
  if want_type is not None and type(res) is not want_type:
    raise Violation("frequencies given as %s, response container is %s" % (kind, type(res).__name__))
  if want_type is None and (isinstance(res, (complex, float, int)) or not hasattr(res, "__iter__")):
    raise Violation("frequencies given as %s, response is not iterable: %r" % (kind, res))
  items = list(res)
  if kind in ("set", "frozenset"):
    exp = sorted(set(vkey(s) for s in scal))
    gotk = sorted(set(vkey(g) for g in items))
    if exp != gotk:
      raise Violation("set of responses %r differs from the per-element responses %r of %r"
                      % (items, scal, freqs))
  else:
    if len(items) != len(freqs):
      raise Violation("%d frequencies in, %d responses out (%s)" % (len(freqs), len(items), kind))
    for i, (g, s) in enumerate(zip(items, scal)):
      if not same_value(g, s):
        raise Violation("element %d of the %s response is %r, freq_response(%r) alone is %r"
                        % (i, kind, g, freqs[i], s))
  labels = ["kind:" + kind, "target:" + case["target"], "n=%d" % min(len(freqs), 3)] + flabels(spec)
  if not freqs and kind not in ("list", "tuple", "stream"):
    labels.append("empty container of another kind than list / tuple / Stream")
  if any(k == "nan" for k, _, _ in refs):
    labels.append("nan element")
  return {"nontrivial": order_of(spec) >= 2 and any(w != 0 for w in freqs), "labels": labels}


# ---------------------------------------------------------------- cascade / parallel

def combine(kind, parts):
  """parts = [(kind, H, eps)] -> combined (kind, H, eps) for a product / sum."""
  if kind == "single":
    return parts[0]
  if any(k == "nan" for k, _, _ in parts):
    return "nan", None, None
  n = len(parts)
  if kind == "cascade":
    H = 1
    for _, h, _ in parts:
      H = H * h
    big = 1.
    for _, h, e in parts:
      big *= abs(h) + e
    eps = 8 * (n + 1) * U * big
    for i, (_, h, e) in enumerate(parts):
      rest = 1.
      for j, (_, h2, e2) in enumerate(parts):
        if j != i:
          rest *= abs(h2) + e2
      eps += e * rest
    return "ok", H, eps
  H = 0
  for _, h, _ in parts:
    H = H + h
  eps = math.fsum(e for _, _, e in parts) + 8 * (n + 1) * U * math.fsum(abs(h) for _, h, _ in parts)
  return "ok", H, eps


#: a plain number is a legal member of a filter list (FilterList.callables casts it to
#: LinearFilter(number), a constant gain): the direct path of ParallelFilter(1, -lowpass), the
#: gain of CascadeFilter(2, section).  Half of the draws are the neutral element of one of the
#: two reductions (1 for the product, 0 for the sum) in each of its spellings - neither is
#: neutral for the *other* list kind.
_number = st.one_of(
  st.sampled_from([1, 1.0, True, Fraction(1)]),
  st.sampled_from([1, 1, 1.0, 0, 0, 0.0, False, -0.0]),
  st.sampled_from([2, -1, -1.0, 0.5, -3, 8, Fraction(1, 3), Fraction(-5, 2), 0.1]),
  st.floats(-8, 8, allow_nan=False, allow_subnormal=False))


@st.composite
def _num_member(draw):
  return {"m": "num", "v": draw(_number)}


def _member(depth):
  # one_of flattens nested one_of / mapped one_of strategies and drops repeated *objects*, so the
  # shares are set by building that many distinct single-branch strategies:
  # filters 3 : raw coefficient lists 2 : plain numbers 3 (: nested lists 3)
  filt = lambda: _filt(maxb=4, maxroots=2, routes=("Z", "L", "expr")).map(lambda s: {"m": "filt", "f": s})
  coeffs = lambda: st.lists(_coef, min_size=1, max_size=4).filter(any).map(lambda c: {"m": "coeffs", "b": c})
  branches = [filt(), filt(), filt(), coeffs(), coeffs(), _num_member(), _num_member(), _num_member()]
  if depth > 0:
    branches += [_flist(depth - 1), _flist(depth - 1), _flist(depth - 1)]
  return st.one_of(*branches)


def _flist(depth):
  lo = 0 if EMPTY_LISTS else 1
  return st.fixed_dictionaries({
    "m": st.sampled_from(["cascade", "parallel"]),
    "items": st.one_of(st.lists(_member(depth), min_size=lo, max_size=3),
                       st.tuples(_member(0), st.integers(2, 4)).map(lambda t: [t[0]] * t[1])),
    "ctor": st.sampled_from(["args", "args", "list"])})


@st.composite
def strat_lists_(draw):
  fl = draw(_flist(1))
  has_unit = "'fam': 'unit'" in repr(fl)      # some member has an exact root at z = 1
  wel = st.one_of(st.sampled_from([0, 0.0]), _w) if has_unit else _w
  ws = draw(st.one_of(wel.map(lambda w: [w]), st.lists(wel, min_size=1, max_size=3)))
  # optionally replace one member in place after the first response has been taken
  # (a filter list is a mutable list: the response must follow its current members)
  # ... or grow / shrink / rebuild the list the way a list is (append, extend, +=, *=, del, clear,
  # reverse; list + [member], list * 2, 2 * list give a new filter list of the same kind)
  repl = draw(st.one_of(st.none(), st.tuples(st.integers(0, 2), _member(0), st.sampled_from(REPLACE_HOW)),
                        st.tuples(st.integers(0, 2), _member(0), st.sampled_from(RESIZE_HOW))))
  return {"fl": fl, "ws": ws, "scalar": len(ws) == 1 and draw(st.booleans()), "replace": repl}


REPLACE_HOW = ["setitem", "slice", "pop-insert"]
RESIZE_HOW = ["append", "extend", "iadd", "insert-front", "imul", "del", "clear", "reverse",
              "add", "mul", "rmul", "append", "extend", "iadd", "imul", "add", "mul", "rmul", "clear"]


def resized_items(items, i, member, how):
  """The member specifications after the list operation `how` (None: not applicable)."""
  if how in REPLACE_HOW:
    return items[:i] + [member] + items[i + 1:] if items else None
  if how in ("append", "extend", "iadd", "add"):
    return items + [member]
  if how == "insert-front":
    return [member] + items
  if how in ("imul", "mul", "rmul"):
    return items * 2 if len(items) <= 3 else None
  if how == "del":
    return items[:i] + items[i + 1:] if items else None
  if how == "clear":
    return []
  if how == "reverse":
    return items[::-1]
  raise AssertionError(how)


def apply_resize(filt, i, new, how):
  """Performs the list operation on the real filter list; returns the list to ask from now on."""
  if how == "setitem":
    filt[i] = new
  elif how == "slice":
    filt[i:i + 1] = [new]
  elif how == "pop-insert":
    filt.pop(i)
    filt.insert(i, new)
  elif how == "append":
    filt.append(new)
  elif how == "extend":
    filt.extend([new])
  elif how == "iadd":
    filt += [new]
  elif how == "insert-front":
    filt.insert(0, new)
  elif how == "imul":
    filt *= 2
  elif how == "del":
    del filt[i]
  elif how == "clear":
    filt.clear()
  elif how == "reverse":
    filt.reverse()
  elif how == "add":
    filt = filt + [new]
  elif how == "mul":
    filt = filt * 2
  elif how == "rmul":
    filt = 2 * filt
  else:
    raise AssertionError(how)
  return filt


def strat_lists(tier):
  return strat_lists_()


def build_member(m):
  if m["m"] == "filt":
    return build(m["f"])
  if m["m"] == "coeffs":
    return list(m["b"])
  if m["m"] == "num":
    return m["v"]
  return build_list(m)


def build_list(fl):
  cls = CascadeFilter if fl["m"] == "cascade" else ParallelFilter
  members = []
  seen = []
  for m in fl["items"]:
    # equal member specifications are the *same object* half of the time (f, f, f - the way
    # gammatone.sampled repeats one section), independent equal objects otherwise
    key = repr(m)
    prev = [o for k, o in seen if k == key]
    if prev and m["m"] == "filt" and len(key) % 2:
      members.append(prev[0])
    else:
      members.append(build_member(m))
      seen.append((key, members[-1]))
  # cls(single_list) means "this is the list of members", so a lone raw
  # coefficient member has to be passed inside a list
  if fl["ctor"] == "list" or (len(members) == 1 and not callable(members[0])):
    return cls(members)
  return cls(*members)


def ref_member(m, w):
  if m["m"] == "filt":
    return ref_response(m["f"]["b"], den_of(m["f"]), w)
  if m["m"] == "coeffs":
    return ref_response(m["b"], [1], w)
  if m["m"] == "num":
    return ref_response([m["v"]], [1], w)
  return ref_list(m, w)


def ref_list(fl, w):
  parts = [ref_member(m, w) for m in fl["items"]]
  if not parts:
    return ("ok", 1, 0.) if fl["m"] == "cascade" else ("ok", 0, 0.)
  return combine(fl["m"], parts)


def fir_taps(m):
  """Exact numerator (Fractions) of an all-FIR member, None if it has feedback."""
  if m["m"] == "coeffs":
    return [Fraction(c) for c in m["b"]]
  if m["m"] == "num":
    return [Fraction(m["v"])]
  if m["m"] == "filt":
    a = den_of(m["f"])
    if len(a) != 1:
      return None
    return [Fraction(c) / Fraction(a[0]) for c in m["f"]["b"]]
  parts = [fir_taps(x) for x in m["items"]]
  if not parts or any(p is None for p in parts):
    return None
  if m["m"] == "cascade":
    out = parts[0]
    for p in parts[1:]:
      out = conv(out, p)
    return out
  n = max(len(p) for p in parts)
  return [sum(p[k] for p in parts if k < len(p)) for k in range(n)]


def abs_taps(m):
  """Upper bound of sum|h| computed along the structure (for the tolerance)."""
  if m["m"] == "coeffs":
    return sabs(m["b"])
  if m["m"] == "num":
    return float(abs(m["v"]))
  if m["m"] == "filt":
    return sabs(m["f"]["b"]) / abs(den_of(m["f"])[0])
  vals = [abs_taps(x) for x in m["items"]]
  if m["m"] == "cascade":
    out = 1.
    for v in vals:
      out *= v
    return out
  return math.fsum(vals)


def count_leaves(m):
  if m["m"] in ("cascade", "parallel"):
    return sum(count_leaves(x) for x in m["items"])
  return 1


def number_labels(fl, out=None):
  """Plain-number members, anywhere in the structure: which list kind holds them and whether
  the number is the neutral element of the other kind's reduction."""
  out = set() if out is None else out
  for m in fl["items"]:
    if m["m"] == "num":
      out.add("number member")
      if fl["m"] == "parallel" and m["v"] == 1 and len(fl["items"]) > 1:
        out.add("unit number as a branch of a bank")
      if fl["m"] == "cascade" and m["v"] == 0 and len(fl["items"]) > 1:
        out.add("zero number as a stage of a cascade")
      if fl["m"] == "parallel" and m["v"] == 0 or fl["m"] == "cascade" and m["v"] == 1:
        out.add("number neutral for its list")
    elif m["m"] in ("cascade", "parallel"):
      number_labels(m, out)
  return sorted(out)


def run_lists(case):
  fl, ws = case["fl"], case["ws"]
  refs = [ref_list(fl, w) for w in ws]
  filt = build_list(fl)
  if case["scalar"]:
    got = [filt.freq_response(ws[0])]
  else:
    res = filt.freq_response(list(ws))
    if type(res) is not list or len(res) != len(ws):
      raise Violation("%s.freq_response(list of %d) -> %r" % (fl["m"], len(ws), res))
    got = res
  worst = 0.
  for w, g, (k, r, e) in zip(ws, got, refs):
    # an empty / all-zero bank has eps 0: the value must then be exact
    worst = max(worst, check_value(g, k, r, e, "%s of %d members at w=%r" % (fl["m"], len(fl["items"]), w)))
  labels = [fl["m"], "members=%d" % len(fl["items"]), "ctor:" + fl["ctor"]]
  if any(m["m"] in ("cascade", "parallel") for m in fl["items"]):
    labels.append("nested")
  if any(m["m"] == "coeffs" for m in fl["items"]):
    labels.append("raw coefficient member")
  labels.extend(number_labels(fl))
  if any(k == "nan" for k, _, _ in refs):
    labels.append("nan")
  labels.append("err<=0.1 eps" if worst <= .1 else "err>0.1 eps")
  repl = case.get("replace")
  if repl is not None:
    i, member, how = repl
    i %= max(1, len(fl["items"]))
    items2 = resized_items(fl["items"], i, member, how)
    ok = items2 is not None
    if ok:
      fl2 = dict(fl, items=items2)
      try:
        refs2 = [ref_list(fl2, w) for w in ws]
      except Exception:
        ok = False      # the replacement makes the reference undefined at these frequencies
    if ok and not any(k == "nan" for k, _, _ in refs2):
      cls = type(filt)
      filt = apply_resize(filt, i, build_member(member), how)
      if type(filt) is not cls or len(filt) != len(items2):
        raise Violation("%s after %s: a %s of %d members (expected a %s of %d)"
                        % (fl["m"], how, type(filt).__name__, len(filt), cls.__name__, len(items2)))
      got2 = [filt.freq_response(w) for w in ws]
      for w, g, (k, r, e) in zip(ws, got2, refs2):
        check_value(g, k, r, e, "%s after %s (member %d) at w=%r" % (fl["m"], how, i, w))
      if how in REPLACE_HOW:
        labels.append("member replaced in place")
      else:
        labels.append("list resized / rebuilt by a list operation")
        labels.append("op:" + how)
      fl, refs, got = fl2, refs2, got2
  # all-FIR structure: the same structure applied to an impulse has this response
  taps = fir_taps(fl)
  if taps is not None and fl["items"]:
    n = len(taps) + 2
    h = list(filt([1.] + [0.] * (n - 1), zero=0.))
    if len(h) != n:
      raise Violation("impulse of %d samples through the %s gave %d samples" % (n, fl["m"], len(h)))
    scale = abs_taps(fl)
    tol_h = 16 * (count_leaves(fl) + 2) * U * scale
    for i in range(n):
      t = float(taps[i]) if i < len(taps) else 0.
      if abs(h[i] - t) > tol_h:
        raise Violation("impulse response sample %d of the %s is %r, taps say %r" % (i, fl["m"], h[i], t))
    tol = 64 * (n + 2) * U * scale
    for w, g, (k, r, e) in zip(ws, got, refs):
      d = dft(h, [w], normalize=False)[0]
      if abs(d - g) > tol + e:
        raise Violation("dft of the %s impulse response at %r is %r, freq_response is %r (tol %.3e)"
                        % (fl["m"], w, d, g, tol + e))
    labels.append("all FIR: time domain checked")
  return {"nontrivial": len(fl["items"]) >= 2 and any(w != 0 for w in ws), "labels": labels}


# ---------------------------------------------------------------- time domain

@st.composite
def strat_fir_(draw):
  b = draw(st.one_of(st.lists(_coef, min_size=1, max_size=7), st.lists(_coef, min_size=1, max_size=7),
                     st.lists(st.integers(-8, 8), min_size=66, max_size=90).map(lambda l: l[:-1] + [3])))
  g = draw(st.one_of(st.none(), st.none(), st.sampled_from([1, -1, 2, 0.5, -4.0, 1.0]),
                     st.sampled_from([Fraction(3, 4), Fraction(-2, 3), Fraction(1, 3), Fraction(5, 2)])))
  return {"f": {"b": b, "a": None if g is None else [g], "fam": "fir",
                "route": draw(st.sampled_from(["Z", "Z", "L", "expr"]))},
          "w": draw(_w), "extra": draw(st.integers(0, 9)),
          "src": draw(st.sampled_from(["list", "iter", "stream", "impulse"]))}


def strat_fir(tier):
  return strat_fir_()


def fir_ref(spec, w):
  b, a = spec["b"], den_of(spec)
  ref, eps = ref_response(b, a, w)[1:]
  return ref, eps, sabs(b) / abs(a[0])


def run_time_dft(case):
  spec, w = case["f"], case["w"]
  b, g = spec["b"], den_of(spec)[0]
  ref, eps, scale = fir_ref(spec, w)
  filt = build(spec)
  n = len(b) + case["extra"]
  imp = [1.] + [0.] * (n - 1)
  src = {"list": list, "iter": iter, "stream": Stream,
         "impulse": lambda x: audiolazy.impulse(one=1., zero=0.).limit(n)}[case["src"]](imp)
  h = list(filt(src, zero=0.))
  if len(h) != n:
    raise Violation("impulse of %d samples gave %d output samples" % (n, len(h)))
  # products with 1.0 / 0.0 and sums with 0.0 are exact: h is b/g up to one division
  for k in range(n):
    t = (b[k] if k < len(b) else 0) / g if g not in (1, -1) else (b[k] if k < len(b) else 0) * g
    if isinstance(g, Fraction):
      # the gain is printed as n/d and evaluated in double: one more rounding
      if abs(h[k] - float(t)) > 8 * U * abs(float(t)):
        raise Violation("impulse response sample %d is %r, coefficient / gain is %r (gain %r)" % (k, h[k], float(t), g))
    elif h[k] != t:
      raise Violation("impulse response sample %d is %r, coefficient is %r" % (k, h[k], t))
  H = filt.freq_response(w)
  check_value(H, "ok", ref, eps, "freq_response(%r)" % (w,))
  D = dft(h, [w], normalize=False)
  if type(D) is not list or len(D) != 1:
    raise Violation("dft(h, [w], normalize=False) -> %r" % (D,))
  tol = 64 * (n + 2) * U * scale
  if not abs(D[0] - H) <= tol:
    raise Violation("dft of the impulse response at %r = %r, freq_response = %r (|diff| %.3e > %.3e)"
                    % (w, D[0], H, abs(D[0] - H), tol))
  ratio = abs(D[0] - H) / tol if tol else 0.
  return {"nontrivial": len(b) >= 3 and w != 0 and any(b),
          "labels": ["src:" + case["src"], "route:" + spec["route"],
                     "err<=0.1 tol" if ratio <= .1 else "err>0.1 tol"] +
                    (["w=0"] if w == 0 else []) + (["gain"] if spec["a"] else [])}


def run_time_sine(case):
  spec, w = case["f"], case["w"]
  b = spec["b"]
  ref, eps, scale = fir_ref(spec, w)
  filt = build(spec)
  order = len(b) - 1
  n = order + 1 + case["extra"]
  x = [cmath.exp(1j * w * k) for k in range(n)]
  src = {"list": list, "iter": iter, "stream": Stream, "impulse": tuple}[case["src"]](x)
  y = list(filt(src, zero=0))
  if len(y) != n:
    raise Violation("%d input samples gave %d output samples" % (n, len(y)))
  H = filt.freq_response(w)
  check_value(H, "ok", ref, eps, "freq_response(%r)" % (w,))
  # x[n-k] is e^{jw(n-k)} only up to the rounding of the phase w*(n-k): <= U*w*n each
  tol = 64 * (order + 2 + 7 * n) * U * scale
  worst = 0.
  for k in range(order, n):
    d = abs(y[k] - H * x[k])
    if not d <= tol:
      raise Violation("sample %d of e^{j%r n} through the FIR is %r, freq_response*x[n] = %r "
                      "(|diff| %.3e > %.3e)" % (k, w, y[k], H * x[k], d, tol))
    worst = max(worst, d / tol if tol else 0.)
  return {"nontrivial": order >= 2 and w != 0 and any(b),
          "labels": ["src:" + case["src"], "route:" + spec["route"],
                     "err<=0.1 tol" if worst <= .1 else "err>0.1 tol",
                     "steady samples=%d" % min(n - order, 3)] + (["w=0"] if w == 0 else [])}


# ---------------------------------------------------------------- dft

_xi = st.integers(-1000, 1000)
_xd = st.integers(-512, 512).map(lambda k: k / 8.)
_xf = st.floats(-100, 100, allow_nan=False, allow_subnormal=False)
_xc = st.builds(complex, _xf, _xf)


@st.composite
def _block(draw, n=None):
  kind = draw(st.sampled_from(["int", "dyadic", "float", "complex"]))
  el = {"int": _xi, "dyadic": _xd, "float": _xf, "complex": _xc}[kind]
  if n is None:
    n = draw(st.one_of(st.integers(1, 8), st.integers(1, 24)))
  return kind, draw(st.lists(el, min_size=n, max_size=n))


@st.composite
def strat_dft_(draw):
  kind, x = draw(_block())
  ws = draw(st.lists(st.one_of(_w, st.sampled_from([0, 0.0]),
                               st.integers(0, len(x)).map(lambda k, n=len(x): TWO_PI * k / n)),
                     min_size=0, max_size=5))
  return {"xkind": kind, "x": x, "ws": ws,
          "normalize": draw(st.sampled_from([True, False, None])),
          "blk": draw(st.sampled_from(["list", "tuple", "deque"])),
          "freqs": draw(st.sampled_from(["list", "tuple", "generator", "stream", "set1"]))}


def strat_dft(tier):
  return strat_dft_()


def dft_ref(x, w):
  n = len(x)
  cs = [(math.cos(k * w), math.sin(k * w)) for k in range(n)]
  xs = [complex(v) for v in x]
  re = math.fsum(t for v, (c, s) in zip(xs, cs) for t in (v.real * c, v.imag * s))
  im = math.fsum(t for v, (c, s) in zip(xs, cs) for t in (v.imag * c, -v.real * s))
  return complex(re, im)


def call_dft(x, ws, normalize, blk="list", freqs="list"):
  xb = {"list": list, "tuple": tuple, "deque": deque}[blk](x)
  if freqs == "set1":
    ws = ws[:1]
  fb = {"list": list, "tuple": tuple, "generator": lambda v: (q for q in list(v)),
        "stream": lambda v: Stream(list(v)), "set1": set}[freqs](ws)
  res = dft(xb, fb) if normalize is None else dft(xb, fb, normalize=normalize)
  if type(res) is not list or len(res) != len(ws):
    raise Violation("dft over %d frequencies returned %r" % (len(ws), res))
  return ws, res


def run_dft(case):
  x, norm = case["x"], case["normalize"]
  n = len(x)
  div = n if norm in (True, None) else 1
  ws, res = call_dft(x, case["ws"], norm, case["blk"], case["freqs"])
  sx = math.fsum(abs(v) for v in x)
  tol = 64 * (n + 2) * U * sx / div
  labels = ["block:" + case["xkind"], "normalize:%s" % norm, "freqs:" + case["freqs"], "blk:" + case["blk"]]
  worst = 0.
  for w, g in zip(ws, res):
    if not isinstance(g, complex):
      raise Violation("dft value at %r is %r (%s)" % (w, g, type(g).__name__))
    ref = dft_ref(x, w) / div
    d = abs(g - ref)
    if not d <= tol:
      raise Violation("dft(%r, [%r], normalize=%r) = %r, defining sum = %r (|diff| %.3e > %.3e)"
                      % (x, w, norm, g, ref, d, tol))
    worst = max(worst, d / tol if tol else 0.)
    if w == 0 and case["xkind"] in ("int", "dyadic"):
      tot = sum(Fraction(v) for v in x)
      exact = float(tot) / div          # tot is a small dyadic rational: float(tot) is exact
      if g != exact:
        raise Violation("DC bin of %r (normalize=%r) is %r, block %s is %r"
                        % (x, norm, g, "mean" if div != 1 else "sum", exact))
      if "exact DC bin" not in labels:
        labels.append("exact DC bin")
  labels.append("err<=0.1 tol" if worst <= .1 else "err>0.1 tol")
  return {"nontrivial": n >= 2 and any(w != 0 for w in ws), "labels": labels}


_scal = st.one_of(st.integers(-4, 4), st.floats(-4, 4, allow_nan=False, allow_subnormal=False),
                  st.builds(complex, st.floats(-2, 2), st.floats(-2, 2)))


@st.composite
def strat_linear_(draw):
  n = draw(st.integers(1, 16))
  kx, x = draw(_block(n))
  ky, y = draw(_block(n))
  return {"x": x, "y": y, "alpha": draw(_scal), "beta": draw(_scal),
          "ws": draw(st.lists(st.one_of(_w, st.integers(0, n).map(lambda k: TWO_PI * k / n)),
                              min_size=1, max_size=3)),
          "normalize": draw(st.booleans()), "kinds": kx + "+" + ky}


def strat_linear(tier):
  return strat_linear_()


def run_linear(case):
  x, y, al, be, norm = case["x"], case["y"], case["alpha"], case["beta"], case["normalize"]
  n = len(x)
  comb = [al * p + be * q for p, q in zip(x, y)]
  ws, dx = call_dft(x, case["ws"], norm)
  _, dy = call_dft(y, case["ws"], norm)
  _, dc = call_dft(comb, case["ws"], norm)
  div = n if norm else 1
  mag = abs(al) * math.fsum(abs(v) for v in x) + abs(be) * math.fsum(abs(v) for v in y)
  # relative rounding bound plus the absolute underflow term (subnormal scalars: alpha*x[k] may
  # underflow to 0 sample by sample while alpha*dft(x) does not)
  tol = 64 * (n + 4) * U * mag / div + 64 * (n + 4) * 2.0 ** -1074
  worst = 0.
  for w, a_, b_, c_ in zip(ws, dx, dy, dc):
    d = abs(c_ - (al * a_ + be * b_))
    if not d <= tol:
      raise Violation("dft(%r*x+%r*y) at %r is %r, %r*dft(x)+%r*dft(y) = %r (|diff| %.3e > %.3e)"
                      % (al, be, w, c_, al, be, al * a_ + be * b_, d, tol))
    worst = max(worst, d / tol if tol else 0.)
  return {"nontrivial": n >= 2 and al != 0 and be != 0 and any(w != 0 for w in ws),
          "labels": ["blocks:" + case["kinds"], "normalize:%s" % norm,
                     "scalars:" + type(al).__name__ + "," + type(be).__name__,
                     "err<=0.1 tol" if worst <= .1 else "err>0.1 tol"]}


# ---------------------------------------------------------------- nulls and poles on the unit circle
#
# Filter lists whose members are integer-coefficient sections with *exact* nulls and *exact*
# poles at w = 0 (and nulls / poles at w = pi), in every order and nesting.  At w = 0 every
# quantity is exact in floating point, so a member whose denominator vanishes is nan, and
# the product / sum over the members is nan whatever the other members are - in particular
# when an earlier member of a cascade is exactly null there (comb before integrator).

_np_fac = st.sampled_from([[1, 2], [2, 1], [1, -2], [-2, 1], [1, 3], [3, -1], [1, 0, 4], [4, 0, 1]])


@st.composite
def _np_q(draw, maxfac=2):
  """Integer polynomial whose roots all have modulus 2, 3, 1/2 or 1/3 (times an integer gain)."""
  q = [draw(st.sampled_from([1, 1, 1, -1, 2, -3]))]
  for f in draw(st.lists(_np_fac, min_size=0, max_size=maxfac)):
    q = conv(q, f)
  return q


def _np_comb(lo, hi, sign=-1):
  return st.integers(lo, hi).map(lambda r: [1] + [0] * (r - 1) + [sign])


def _np_times(root):
  return _np_q().map(lambda q: conv(root, q))


_np_null0_b = st.one_of(_np_comb(1, 6), _np_times([1, -1]), _np_times([1, -2, 1]), _np_times([1, 0, -1]),
                        st.sampled_from([[0], [0], [0, 0], [0.0], [-0.0], [0.5, 0.5, -1], [2.5, -2.5]]))
_np_nullpi_b = st.one_of(_np_comb(1, 5, 1).filter(lambda c: len(c) % 2 == 0), _np_times([1, 1]),
                         _np_times([1, 2, 1]))
_np_pole0_a = st.one_of(_np_comb(1, 4), _np_comb(1, 1), _np_times([1, -1]), _np_times([1, -1]),
                        _np_times([1, -2, 1]), st.sampled_from([[0.5, -0.5], [1.0, -1.0], [0, 1, -1]]))
_np_polepi_a = st.one_of(_np_times([1, 1]), st.just([1, 1]))
_np_plain_a = st.one_of(st.none(), st.none(), st.sampled_from([[1], [2], [-1], [0.5]]),
                        _np_q().filter(lambda q: len(q) > 1))
_np_plain_b = st.one_of(_np_q(), st.lists(st.integers(-4, 4), min_size=1, max_size=4),
                        st.sampled_from([[1], [1, 0.5], [2], [1, 1, 1], [-1.5]]))

NP_CLASSES = ["null0", "null0", "null0", "pole0", "pole0", "pole0", "nullpi", "polepi",
              "nullpole0", "plain", "plain"]


@st.composite
def _np_section(draw, cls):
  b, a = {"null0": (_np_null0_b, _np_plain_a), "nullpi": (_np_nullpi_b, _np_plain_a),
          "pole0": (_np_plain_b, _np_pole0_a), "polepi": (_np_plain_b, _np_polepi_a),
          "nullpole0": (_np_null0_b, _np_pole0_a), "plain": (_np_plain_b, _np_plain_a)}[cls]
  return {"m": "filt", "f": {"b": draw(b), "a": draw(a), "fam": cls,
                             "route": draw(st.sampled_from(["Z", "L", "expr"]))}}


NP_FREQS = [0, 0.0, math.pi, math.pi / 2, 1, 2, 3, 6, 0.25, math.pi / 3, 2 * math.pi / 3,
            math.pi / 4, 4, 5]


def in_domain(fl, w):
  try:
    ref_list(fl, w)
  except Reject:
    return False
  return True


@st.composite
def strat_nullpole_(draw):
  n = draw(st.integers(2, 4))
  classes = draw(st.lists(st.sampled_from(NP_CLASSES), min_size=n, max_size=n))
  if draw(st.integers(0, 2)) and not ({"null0", "pole0"} <= set(classes)):
    classes[0], classes[1] = "null0", "pole0"       # the order is drawn below
  members = list(draw(st.permutations([draw(_np_section(c)) for c in classes])))
  kinds = st.sampled_from(["cascade", "cascade", "parallel"])
  ctor = st.sampled_from(["args", "args", "list"])
  shape = draw(st.sampled_from(["flat", "flat", "nest", "nest", "branch", "branch"]))
  if shape == "flat":
    fl = {"m": draw(kinds), "items": members, "ctor": draw(ctor)}
  elif shape == "nest":
    i = draw(st.integers(0, n - 2))
    j = draw(st.integers(i + 2, n)) if n > 2 else n
    if i == 0 and j == n:       # keep two members at the top
      members = members + [draw(_np_section("plain"))]
    inner = {"m": draw(kinds), "items": members[i:j], "ctor": draw(ctor)}
    fl = {"m": draw(kinds), "items": members[:i] + [inner] + members[j:], "ctor": draw(ctor)}
  else:
    # the whole chain is one branch of a bank (or one section of a longer chain)
    inner = {"m": "cascade", "items": members, "ctor": draw(ctor)}
    sib = draw(_np_section(draw(st.sampled_from(["plain", "plain", "null0", "pole0"]))))
    fl = {"m": draw(st.sampled_from(["parallel", "parallel", "cascade"])),
          "items": [inner, sib] if draw(st.booleans()) else [sib, inner], "ctor": draw(ctor)}
  extra = draw(st.floats(.05, TWO_PI - .05))
  ok = [w for w in NP_FREQS + [extra] if in_domain(fl, w)]      # 0 and 0.0 are always inside
  first = draw(st.sampled_from([0, 0, 0.0, math.pi if math.pi in ok else 0, None, None]))
  rest = draw(st.lists(st.sampled_from(ok), min_size=1 if first is None else 0, max_size=2))
  ws = ([] if first is None else [first]) + rest
  return {"fl": fl, "ws": ws, "scalar": len(ws) == 1 and draw(st.booleans())}


def strat_nullpole(tier):
  return strat_nullpole_()


def reversed_list(fl):
  return dict(fl, items=[reversed_list(m) if m["m"] in ("cascade", "parallel") else m
                         for m in reversed(fl["items"])])


def np_orders(fl, w, out, inside_parallel=False):
  """Which orders of (exactly null member, member with a vanishing denominator) occur in the
  cascades of this structure at w."""
  parts = [ref_member(m, w) for m in fl["items"]]
  if fl["m"] == "cascade":
    nulls = [i for i, (k, h, _) in enumerate(parts) if k == "ok" and h == 0]
    nans = [i for i, (k, _, _) in enumerate(parts) if k == "nan"]
    if nulls and nans:
      if min(nulls) < max(nans):
        out.add("null before pole" + (" (in a parallel branch)" if inside_parallel else ""))
      if min(nans) < max(nulls):
        out.add("pole before null")
  elif any(k == "nan" for k, _, _ in parts):
    out.add("parallel: nan branch")
  for m in fl["items"]:
    if m["m"] in ("cascade", "parallel"):
      np_orders(m, w, out, inside_parallel or fl["m"] == "parallel")


def np_leaves(m):
  if m["m"] in ("cascade", "parallel"):
    return [x for y in m["items"] for x in np_leaves(y)]
  return [m]


def fold_members(filt, kind, w, what):
  """The response of the list against the product / sum of the responses its own members
  report at w (nan in any member -> nan), in the order they are in."""
  vals = [m.freq_response(w) for m in filt]
  got = filt.freq_response(w)
  if any(isnan(v) for v in vals):
    if not isnan(got):
      raise Violation("%s at w=%r: member responses are %r (one is nan), the %s gives %r"
                      % (what, w, vals, kind, got))
    return
  if kind == "cascade":
    acc, mag = 1, 1.
    for v in vals:
      acc, mag = acc * v, mag * abs(v)
  else:
    acc, mag = 0, math.fsum(abs(v) for v in vals)
    for v in vals:
      acc = acc + v
  tol = 8 * (len(vals) + 1) * U * mag
  if isnan(got) or abs(got - acc) > tol:
    raise Violation("%s at w=%r: member responses are %r, their %s is %r, the %s gives %r"
                    % (what, w, vals, "product" if kind == "cascade" else "sum", acc, kind, got))


def run_nullpole(case):
  fl, ws = case["fl"], case["ws"]
  base = dict(case, replace=None)
  rec = run_lists(base)                                  # reference model, given order
  run_lists(dict(base, fl=reversed_list(fl)))            # ... and the opposite order
  for struct, what in ((fl, fl["m"]), (reversed_list(fl), fl["m"] + " (members reversed)")):
    filt = build_list(struct)
    for w in ws:
      fold_members(filt, struct["m"], w, what)
      for sub in filt:
        if isinstance(sub, (CascadeFilter, ParallelFilter)):
          fold_members(sub, "cascade" if isinstance(sub, CascadeFilter) else "parallel", w,
                       "nested " + type(sub).__name__)
  labels = [l for l in rec["labels"] if not l.startswith("err")]
  orders = set()
  special = False
  for w in ws:
    np_orders(fl, w, orders)
    for m in np_leaves(fl):
      k, h, _ = ref_member(m, w)
      special = special or k == "nan" or h == 0
  labels.extend(sorted(orders))
  leaves = np_leaves(fl)
  if any(not any(m["f"]["b"]) for m in leaves):
    labels.append("zero gain member")
  if any(m["f"]["fam"] == "nullpole0" for m in leaves):
    labels.append("section 0/0 at w=0")
  if any(w == 0 for w in ws):
    labels.append("w=0")
  if any(w == math.pi for w in ws):
    labels.append("w=pi")
  return {"nontrivial": len(leaves) >= 2 and (special or any(w != 0 for w in ws)), "labels": labels}


CLAUSES = [
  Clause("response", strat_response, run_response, quick=5000, thorough=100000,
         floors={"IIR": .2, "FIR": .08, "nan": .01, "w=0": .03, "w=pi": .01,
                 "leading zero": .01, "route:expr": .05, "route:dict": .05,
                 "numerator tied to the denominator": .04, "tie:mirror": .012, "tie:mirror-delayed": .01,
                 "tie:same": .01, "tied and nan": .004},
         doc="freq_response(w) vs independent evaluation of B/A with the a-priori bound eps; nan iff A == 0 exactly"),
  Clause("containers", strat_containers, run_containers, quick=2500, thorough=30000,
         floors=dict([("kind:" + k, .02) for k in KINDS] +
                     [("empty container of another kind than list / tuple / Stream", .02)]),
         doc="frequency containers: kind preserved, element i == freq_response(w_i), also on cascade/parallel"),
  Clause("lists", strat_lists, run_lists, quick=2500, thorough=30000,
         floors={"cascade": .2, "parallel": .2, "nested": .05, "members=0": .01 if EMPTY_LISTS else 0.,
                 "all FIR: time domain checked": .02, "raw coefficient member": .05,
                 "member replaced in place": .08, "list resized / rebuilt by a list operation": .08,
                 "op:append": .008, "op:extend": .008, "op:iadd": .008, "op:imul": .002, "op:add": .004,
                 "op:mul": .002, "op:rmul": .002, "op:clear": .004,
                 "number member": .08, "unit number as a branch of a bank": .015,
                 "zero number as a stage of a cascade": .006},
         doc="CascadeFilter response == product, ParallelFilter response == sum of member responses"),
  Clause("null_pole", strat_nullpole, run_nullpole, quick=2500, thorough=30000,
         floors={"null before pole": .06, "pole before null": .06,
                 "null before pole (in a parallel branch)": .015, "parallel: nan branch": .07,
                 "w=0": .25, "w=pi": .03, "zero gain member": .05, "section 0/0 at w=0": .04,
                 "nested": .15, "cascade": .2, "parallel": .08},
         doc="lists of integer sections with exact nulls / poles at w = 0 and pi, every order and nesting: "
             "response == product / sum of the member responses, nan as soon as one member is nan"),
  Clause("time_dft", strat_fir, run_time_dft, quick=1500, thorough=20000,
         doc="dft(impulse response, [w], normalize=False)[0] == freq_response(w) for FIR filters"),
  Clause("time_sine", strat_fir, run_time_sine, quick=1500, thorough=20000,
         doc="e^{jwn} through a FIR filter equals freq_response(w) e^{jwn} for n >= order"),
  Clause("dft_sum", strat_dft, run_dft, quick=2000, thorough=20000,
         floors={"exact DC bin": .02, "normalize:False": .1, "block:complex": .08},
         doc="dft == defining sum (over n) / len when normalised; DC bin exactly the block mean / sum for integer blocks"),
  Clause("dft_linear", strat_linear, run_linear, quick=1000, thorough=10000,
         doc="dft(alpha x + beta y) == alpha dft(x) + beta dft(y)"),
]
