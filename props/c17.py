"""C17 - Audio playback delivers every sample once, in order, and always shuts down."""
import sys
import struct
import threading
import itertools
import collections
import collections.abc
from hypothesis import strategies as st
from vlib.core import Clause, Violation
from vlib import sched

from audiolazy import lazy_io

sched.install_backend()
sched.install(lazy_io)

ID = "C17"
RULE = ("cases = (1..3 players: finite or endless audio in a sample format (float32, or integers as "
        "int32/int16/int8/uint8), chunk size, channels, the container kind, possibly the very container "
        "object an earlier player was given; a control "
        "history from the main thread over pause/play/stop/spawn on any player (also pause - controller idles - "
        "play [- stop] so that the pause is honoured and the next call lands inside the resume), refused plays, "
        "0..4+ recordings nobody plays (never read / partly read / stopped), any of them ended by the user at any "
        "point, and a final "
        "close / with-exit / terminate; wait flag; a schedule = list of small ints choosing the "
        "next thread at every synchronisation point, backend call and, in the line tier, every "
        "source line of lazy_io.py, with bursts (who, n) = the same choice n times so that one thread passes "
        "many points while the others stand still); oracle = per device stream the device was opened with the "
        "played sample format, the written chunks are exactly "
        "chunk_size frames and concatenate to a prefix of the zero-padded audio (all of it when "
        "the player was never stopped and the manager waited), close returns under every "
        "schedule (no enabled thread = deadlock, step bound = livelock), afterwards every "
        "stream is closed once, the backend terminated once, no player unfinished, play raises; "
        "non-trivial = at least one pre-emption taken and at least one control call before "
        "close; distinct = distinct case hash")
ASSUMPTIONS = [
  "the backend is a fake pyaudio/_portaudio pair placed in sys.modules; lazy_io.threading is replaced by scheduler-aware Lock/Event (external instrumentation, no repository hook)",
  "pre-emption granularity is the synchronisation point / backend call (quick) or the source line of lazy_io.py (line tier), not the bytecode",
  "bounded liveness: close must return within 20000 scheduler steps",
  "endless audio is only combined with wait=False or with a stop of that player in the history",
  "AudioIO.__del__ (a second close at garbage collection) is neutralised by the harness",
  "integer sample formats play in-range integers; the device's reading of a format constant is PyAudio's table (paFloat32=1, paInt32=2, paInt16=8, paInt8=16, paUInt8=32)",
  "one container object is shared between players only when it can be iterated again (list, tuple, deque, user sequence), never a one-shot iterator",
]

VALS = [0.5, -0.25, 1.0, 0.0, -1.0, 0.125]
OPS = ["pause", "play", "stop"]
# sample formats of play(dfmt=...): struct character -> bytes per sample; integer formats play integers
WIDTH = {"f": 4, "i": 4, "h": 2, "b": 1, "B": 1}
# what a PyAudio device understands by the format constant it was opened with (pyaudio.paFloat32 = 1,
# paInt32 = 2, paInt16 = 8, paInt8 = 16, paUInt8 = 32: PortAudio's values, mirrored by the fake backend)
DEVICE_FORMAT = {1: "f", 2: "i", 8: "h", 16: "b", 32: "B"}
SHAREABLE = ("list", "tuple", "deque", "sequence")   # containers that can be iterated again


def samples(audio, dfmt):
  """The played values: the drawn floats for 'f', small in-range integers for the integer formats."""
  if dfmt == "f":
    return list(audio)
  vals = [int(v * 8) for v in audio]          # 4 -2 8 0 -8 1
  return [v % 256 for v in vals] if dfmt == "B" else vals


def strat(lines):
  def build(tier):
    audio = st.one_of(st.lists(st.sampled_from(VALS), max_size=9), st.lists(st.sampled_from(VALS), max_size=9),
                      st.lists(st.sampled_from(VALS), min_size=1, max_size=3).map(lambda l: ("endless", l)),
                      # a recording of the same manager played back (endless input device)
                      st.integers(1, 3).map(lambda k: ("record", [k])))
    player = st.fixed_dictionaries(dict(audio=audio, chunk=st.one_of(st.integers(1, 4), st.integers(1, 4), st.none()),
                                        channels=st.integers(1, 2),
                                        # the channel count by its current name or by the older alias
                                        chan_kw=st.sampled_from(["channels", "channels", "nchannels"]),
                                        # how finite audio is handed over: a one-shot iterator or a container
                                        container=st.sampled_from(["iter", "iter", "list", "tuple", "deque",
                                                                   "sequence", "generator"]),
                                        # the sample format the device is opened with and the chunks are packed in
                                        dfmt=st.sampled_from(["f", "f", "f", "f", "h", "i", "b", "B"]),
                                        # play the very container object an earlier player was given (None: an own one)
                                        same_as=st.sampled_from([None, None, 0, 1, 2])))
    ctl = st.lists(st.one_of(
      st.tuples(st.sampled_from(OPS), st.integers(0, 3)),
      st.tuples(st.sampled_from(OPS), st.integers(0, 3)),
      st.tuples(st.sampled_from(OPS + ["spawn", "spawn", "refused play", "record"]), st.integers(0, 3)),
      st.tuples(st.just("spawn"), st.integers(0, 3)),
      # a pause the player has time to honour (the controller idles while it parks), the resume, and possibly
      # a stop right behind it: control calls that land while the player is inside the backend calls of the resume
      st.tuples(st.sampled_from(["pause, idle, play", "pause, idle, play, stop", "idle"]), st.integers(0, 3)),
      # recordings nobody plays, ended by the user (stop + drain) at any point of the history
      st.tuples(st.sampled_from(["end recording", "end recording", "record"]), st.integers(0, 3))), max_size=8)
    maxs = 40 if tier == "quick" else 120
    # a schedule entry is one choice (an int) or a burst (who, n): the same choice at the next n choice points,
    # so that one thread (the controller issuing pause + close, or a player running to its end) passes many
    # synchronisation points / lines while the others stand still between two of theirs
    burst = st.tuples(st.sampled_from([0, 0, 1, 2, 3]), st.integers(3, 48 if lines else 12))
    entry = st.one_of(st.integers(0, 3), st.integers(0, 3), st.integers(0, 5), burst)
    return st.fixed_dictionaries(dict(
      players=st.lists(player, min_size=1, max_size=3),
      extra=st.lists(player, max_size=2),
      ctl=ctl, wait=st.booleans(),
      # recordings opened on the manager before anything is played (each: samples read from the main thread)
      recs0=st.lists(st.integers(0, 3), max_size=4),
      end=st.sampled_from(["close", "with", "terminate", "close twice", "with, left by an exception"]),
      schedule=st.lists(entry, max_size=maxs),
      # chunk=None plays with the documented default chunk size (chunks.size, set small for the case);
      # the chunk packing strategy is the documented switch chunks.default
      default_chunk=st.integers(1, 3), strategy=st.sampled_from(["struct", "struct", "array"]),
      lines=st.just(lines)))
  return build


class _Seq(collections.abc.Sequence):
  """A user sequence: integer indexes and len() only (no slices)."""
  def __init__(self, items):
    self._items = list(items)

  def __len__(self):
    return len(self._items)

  def __getitem__(self, i):
    if not isinstance(i, int):
      raise TypeError("indices must be integers")
    return self._items[i]


def as_container(kind, items):
  if kind == "list":
    return list(items)
  if kind == "tuple":
    return tuple(items)
  if kind == "deque":
    return collections.deque(items)
  if kind == "sequence":
    return _Seq(items)
  if kind == "generator":
    return (v for v in items)
  return iter(items)


def padded(audio, chunk, channels, dfmt="f"):
  n = chunk * channels
  data = samples(audio, dfmt)
  if len(data) % n:
    data += [0] * (n - len(data) % n)
  return struct.pack("%d%s" % (len(data), dfmt), *data)


def normalise(c):
  """Make the case sound: endless audio needs wait=False or a stop in the history."""
  players = [dict(p) for p in c["players"]]
  extra = [dict(p) for p in c["extra"]]
  ctl = []
  nlive = len(players)
  spawned = 0
  for op, i in c["ctl"]:
    if op == "spawn":
      if spawned < len(extra):
        ctl.append(("spawn", spawned))
        spawned += 1
        nlive += 1
    elif op in ("refused play", "record", "end recording", "idle"):
      ctl.append((op, i))
    elif op.startswith("pause, idle, play"):
      j = i % nlive
      ctl.extend([("pause", j), ("idle", 3), ("play", j)])
      if op.endswith("stop"):
        ctl.append(("stop", j))
    else:
      ctl.append((op, i % nlive))
  allp = players + extra[:spawned]
  if c["wait"]:
    for idx, p in enumerate(allp):
      endless = isinstance(p["audio"], tuple)
      if endless and not any(op == "stop" and i == idx for op, i in ctl):
        ctl.append(("stop", idx))
  return players, extra[:spawned], ctl


def flatten(schedule):
  """The choices of a schedule: ints as they are, bursts (who, n) as n times who."""
  flat = []
  for e in schedule:
    if isinstance(e, (tuple, list)):
      flat.extend([e[0]] * e[1])
    else:
      flat.append(e)
  return flat


class Sched(sched.Sched):
  """The scheduler of vlib.sched, recording the longest run of scheduled choices that went to one thread."""
  def __init__(self, *a, **kw):
    sched.Sched.__init__(self, *a, **kw)
    self.run_of = None
    self.run_len = 0
    self.longest = {}     # thread name -> longest run of consecutive real choices it won

  def pick(self, en, me):
    before = self.ci
    nxt = sched.Sched.pick(self, en, me)
    if self.ci > before:
      self.run_len = self.run_len + 1 if nxt is self.run_of else 1
      self.run_of = nxt
      if self.run_len > self.longest.get(nxt.name, 0):
        self.longest[nxt.name] = self.run_len
    else:
      self.run_of = None
      self.run_len = 0
    return nxt


def run_case(c):
  players, extra, ctl = normalise(c)
  S = sched.S = Sched(flatten(c["schedule"]), lines=c["lines"])
  S.register_main()
  out = {}
  threads = []
  specs = []
  io = None
  tracer = lazy_io._verif_tracer if c["lines"] else None

  chunks = lazy_io.chunks
  dflt = c.get("default_chunk", 2)
  saved = (type(chunks).size, chunks.default)
  type(chunks).size = dflt
  chunks.default = chunks.array if c.get("strategy") == "array" else chunks.struct

  objs = []

  def start(io, p):
    audio = p["audio"]
    dfmt = p.get("dfmt", "f")
    same = p.get("same_as")
    if same is not None and objs and objs[same % len(objs)] is not None:
      # the container object an earlier player was given is played again (while that player is still
      # at it, or after it ended): this player is owed the whole of it as well
      q, data = objs[same % len(objs)]
      p = dict(p, audio=q["audio"], container=q["container"], dfmt=q.get("dfmt", "f"), shared=True)
      audio, dfmt = p["audio"], p["dfmt"]
    elif isinstance(audio, tuple) and audio[0] == "record":
      data = io.record(chunk_size=audio[1][0])
      p = dict(p, dfmt="f")    # the input device delivers float32
      dfmt = "f"
    elif isinstance(audio, tuple):
      data = itertools.cycle(samples(audio[1], dfmt))
    else:
      data = as_container(p.get("container", "iter"), samples(audio, dfmt))
    shareable = not isinstance(audio, tuple) and p.get("container", "iter") in SHAREABLE
    objs.append((p, data) if shareable else None)
    chan = {p.get("chan_kw", "channels"): p["channels"]}
    if dfmt != "f":
      chan["dfmt"] = dfmt
    if p["chunk"] is None:
      th = io.play(data, **chan)
      p = dict(p, chunk=dflt, default_chunk=True)
    else:
      th = io.play(data, chunk_size=p["chunk"], **chan)
    threads.append(th)
    specs.append(p)
    return th

  stopped = set()
  recs = []
  marks = set()
  resumed = set()
  try:
    if tracer:
      sys.settrace(tracer)
    try:
      io = lazy_io.AudioIO(wait=c["wait"])
      if c["end"].startswith("with"):
        io = io.__enter__()     # "with AudioIO(...) as io"
      def record(i):
        # a recording nobody plays: opened from the main thread and never read (i = 0), or i samples of it
        # read there (a started recording with an unread rest), or read and stopped by the user (i = 3)
        rec = io.record(chunk_size=2)
        recs.append(rec)
        if i:
          rec.take(min(i, 2))
        if i == 3:
          rec.stop()

      for i in c.get("recs0", []):
        record(i)
      for p in players:
        start(io, p)
      for op, i in ctl:
        if op == "spawn":
          start(io, extra[i])
        elif op == "record":
          record(i)
        elif op == "end recording":
          # the user ends one of the recordings, in any order: stop it and drain it (its device stream closes,
          # the manager forgets it); everything at close must hold for the others
          if recs:
            rec = recs[i % len(recs)]
            reg = list(io._recordings)
            pos = [k for k, r in enumerate(reg) if r is rec]
            if pos and len(reg) >= 3 and 0 < pos[0] < len(reg) - 1:
              marks.add("3+ recordings open, one neither first nor last ended by the user")
            marks.add("a recording ended by the user")
            rec.stop()
            rec.take(float("inf"))
        elif op == "idle":
          # the controller does something else for a while: scheduling points at which the players may run
          for _ in range(2 * i + 2):
            S.point("controller idle")
        elif op == "refused play":
          # a play() the backend (odd i: the sample rate) or the format table refuses: the error reaches
          # the caller and the manager stays usable - everything below must still hold
          try:
            if i % 2:
              io.play(iter([.5, .25]), rate=sched.FakePyAudio.REFUSED_RATE)
            else:
              io.play(iter([.5, .25]), dfmt="no such format")
            out["refusal swallowed"] = True
          except Exception:
            pass
        else:
          if op == "stop":
            stopped.add(i)
            if i in resumed:
              marks.add("a parked player resumed, then stopped")
          rec_i = threads[i]._rec
          if op == "play" and not rec_i.done and rec_i.what == "event.wait":
            resumed.add(i)     # the pause was honoured: the player is parked in go.wait()
            marks.add("a parked player resumed")
          getattr(threads[i], op)()
      if not c["wait"] and any(not threads[i]._rec.done for i in resumed):
        marks.add("a parked player resumed, then stopped")
      if c["end"] == "with":
        io.__exit__(None, None, None)
      elif c["end"] == "with, left by an exception":
        err = KeyError("raised inside the with-block")
        io.__exit__(KeyError, err, None)
      elif c["end"] == "terminate":
        io.terminate()
      else:
        io.close()
        if c["end"] == "close twice":
          io.close()
      out["closed"] = True
      try:
        io.play([0.])
        out["play_after"] = "accepted"
      except RuntimeError:
        out["play_after"] = "raises"
      # the closed manager is forgotten: its destructor runs (here explicitly, in the main thread)
      try:
        lazy_io.AudioIO._verif_del(io)
      except Exception as e:
        out["del"] = e
    finally:
      sys.settrace(None)
  except sched.Abort:
    out["abort"] = S.why
  finally:
    # no thread may outlive the case
    S.abort(S.why or "case over")
    for th in threads:
      threading.Thread.join(th, 5)
    type(chunks).size, chunks.default = saved
  alive = [th for th in threads if threading.Thread.is_alive(th)]
  if alive:
    raise Violation("harness: %d OS threads did not stop" % len(alive))

  ctx = "players=%r ctl=%r wait=%r end=%s schedule=%r" % (specs, ctl, c["wait"], c["end"], c["schedule"])
  died = [(t.name, repr(t.crash)) for t in S.threads if getattr(t, "crash", None) is not None]
  if died:    # said with every verdict below: a hang is often the consequence of a player that died
    ctx += "; player threads that died of an exception: %r" % (died,)
  if out.get("abort") == "deadlock":
    raise Violation("close() can never return: every unfinished thread is blocked: %r; %s; last steps %r"
                    % (S.deadlock, ctx, S.trace[-12:]), site="shutdown")
  if out.get("abort") == "step bound":
    raise Violation("close() did not return within %d scheduler steps (livelock): %r; %s"
                    % (S.max_steps, S.describe(), ctx), site="shutdown")
  if "abort" in out:
    raise Violation("run aborted: %r; %s" % (out["abort"], ctx))
  crashes = [(t.name, repr(getattr(t, "crash", None))) for t in S.threads if getattr(t, "crash", None) is not None]
  if crashes:
    raise Violation("player thread crashed: %r; %s" % (crashes, ctx))

  pa = io._pa
  # ---- safety: per device stream
  for k, (th, p) in enumerate(zip(threads, specs)):
    fs = th.stream
    n = p["chunk"]
    ch = p["channels"]
    dev = fs.kw.get("channels")
    dfmt = p.get("dfmt", "f")
    w = WIDTH[dfmt]
    # the device decodes what it is given by the format it was opened with: it has to be the played one
    if DEVICE_FORMAT.get(fs.kw.get("format")) != dfmt:
      raise Violation("player %d plays dfmt=%r but its device was opened with format constant %r (%s); %s"
                      % (k, dfmt, fs.kw.get("format"),
                         "PyAudio's %r" % DEVICE_FORMAT[fs.kw.get("format")] if fs.kw.get("format") in DEVICE_FORMAT
                         else "no PyAudio sample format", ctx), site="sample-format")
    for data, frames in fs.chunks:
      if frames != n or len(data) != n * ch * w:
        raise Violation("player %d wrote a chunk of %d frames / %d bytes, chunk_size is %d x %d channels; %s"
                        % (k, frames, len(data), n, ch, ctx))
      # what the device takes from a write is frames x (the channel count it was opened with) samples:
      # anything beyond that in the buffer is lost, anything less is read past the buffer
      if len(data) != frames * dev * w:
        raise Violation("player %d (%s=%d) wrote %d bytes announced as %d frames to a device opened with "
                        "%r channel(s), which takes %d bytes of them; %s"
                        % (k, p.get("chan_kw", "channels"), ch, len(data), frames, dev, frames * dev * w, ctx),
                        site="nchannels-alias")
    got = b"".join(d for d, _ in fs.chunks)
    if isinstance(p["audio"], tuple) and p["audio"][0] == "record":
      need = [(i % 64) / 8. for i in range(len(got) // 4)]
      exp = struct.pack("%df" % len(need), *need)
      whole = None
    elif isinstance(p["audio"], tuple):
      cyc = itertools.cycle(samples(p["audio"][1], dfmt))
      need = [next(cyc) for _ in range(len(got) // w)]
      exp = struct.pack("%d%s" % (len(need), dfmt), *need)
      whole = None
    else:
      exp = padded(p["audio"], n, ch, dfmt)
      whole = exp
    if got != exp[:len(got)] or len(got) > len(exp):
      raise Violation("player %d: device received %r, which is not a prefix of the padded audio %r; %s"
                      % (k, struct.unpack("%d%s" % (len(got) // w, dfmt), got[:len(got) // w * w]),
                         samples(p["audio"], dfmt) if whole is not None else p["audio"], ctx))
    if whole is not None and c["wait"] and k not in stopped and got != whole:
      raise Violation("player %d was never stopped and the manager waited, but only %d of %d bytes reached the device; %s"
                      % (k, len(got), len(whole), ctx))
  # ---- shutdown
  for k, th in enumerate(threads):
    if not th._rec.done:
      raise Violation("player %d still unfinished after close; %s" % (k, ctx))
    if th.stream.closed != 1:
      raise Violation("player %d: device stream closed %d times; %s" % (k, th.stream.closed, ctx))
  if pa._streams:
    raise Violation("%d device streams survive close; %s" % (len(pa._streams), ctx))
  if getattr(io, "_recordings", None):
    raise Violation("%d recordings still registered after close; %s" % (len(io._recordings), ctx))
  for f in pa.opened:
    if f.closed != 1:
      raise Violation("a device stream (%s) was closed %d times; %s"
                      % ("input" if f.kw.get("input") else "output", f.closed, ctx))
  if "del" in out:
    raise Violation("the destructor of the closed manager raised %r; %s" % (out["del"], ctx))
  if pa.terminated != 1:
    raise Violation("backend terminated %d times (close, then the destructor of the closed manager); %s"
                    % (pa.terminated, ctx))
  if out.get("play_after") != "raises":
    raise Violation("play() after close was accepted; %s" % ctx)
  if io._threads:
    raise Violation("manager still lists %d threads; %s" % (len(io._threads), ctx))

  labels = ["%d players" % len(threads), "wait" if c["wait"] else "no wait", "end:" + c["end"]]
  paused = {}
  for op, i in ctl:
    if op == "pause":
      paused[i] = True
    elif op == "play":
      paused[i] = False
  if any(v and i not in stopped for i, v in paused.items()):
    labels.append("paused at close")
  if stopped:
    labels.append("stop then close")
  if any(isinstance(p["audio"], tuple) for p in specs):
    labels.append("endless audio")
  if any(isinstance(p["audio"], tuple) and p["audio"][0] == "record" for p in specs):
    labels.append("plays a recording")
  if any(p.get("default_chunk") for p in specs):
    labels.append("default chunk size")
  labels.append("chunks." + c.get("strategy", "struct"))
  if extra:
    labels.append("spawned mid-history")
  for p in specs:
    if not isinstance(p["audio"], tuple) and p.get("container", "iter") != "iter":
      labels.append("audio:" + p["container"])
      if p["container"] in ("deque", "sequence") and len(p["audio"]) >= p["chunk"] * p["channels"]:
        labels.append("unsliceable sequence of a chunk or more")
  if any(p.get("dfmt", "f") != "f" for p in specs):
    labels.append("integer sample format")
  for p in specs:
    if p.get("dfmt", "f") != "f" and not isinstance(p["audio"], tuple) and len(p["audio"]) % (p["chunk"] * p["channels"]):
      labels.append("integer sample format, padded tail")
      break
  if any(p.get("shared") for p in specs):
    labels.append("same container object played by two players")
  if c.get("recs0") or any(op == "record" for op, _ in ctl):
    labels.append("a recording nobody plays")
  if 0 in c.get("recs0", []) or any(op == "record" and i == 0 for op, _ in ctl):
    labels.append("a recording never read")
  labels.extend(sorted(marks))
  if len(c.get("recs0", [])) + sum(op == "record" for op, _ in ctl) >= 3:
    labels.append("3+ recordings nobody plays")
  if any(op == "refused play" for op, _ in ctl):
    labels.append("a refused play in the history")
  if any(p.get("chan_kw") == "nchannels" and p["channels"] > 1 for p in specs):
    labels.append("nchannels alias, stereo")
  if S.taken:
    labels.append("pre-empted")
  need = 12 if c["lines"] else 5
  if S.longest.get("main", 0) >= need:
    labels.append("controller burst (main won %d+ choice points in a row)" % need)
  if any(v >= need for k, v in S.longest.items() if k != "main"):
    labels.append("player burst (a player won %d+ choice points in a row)" % need)
  return {"nontrivial": S.taken >= 1 and len([op for op, _ in ctl if op not in ("spawn", "record", "end recording", "idle")]) >= 1,
          "labels": labels}


CLAUSES = [
  Clause("sync_points", strat(False), run_case, quick=6000, thorough=60000,
         floors={"paused at close": .1, "stop then close": .1, "pre-empted": .2, "endless audio": .1,
                 "a refused play in the history": .05, "nchannels alias, stereo": .05,
                 "unsliceable sequence of a chunk or more": .05,
                 "controller burst (main won 5+ choice points in a row)": .08,
                 "player burst (a player won 5+ choice points in a row)": .06,
                 "integer sample format": .1, "integer sample format, padded tail": .04,
                 "same container object played by two players": .02,
                 "a recording nobody plays": .03, "a recording never read": .01,
                 "3+ recordings open, one neither first nor last ended by the user": .015,
                 "a parked player resumed": .03, "a parked player resumed, then stopped": .03},
         doc="schedules pre-empting at lock/event/thread operations and backend calls"),
  Clause("source_lines", strat(True), run_case, quick=1500, thorough=30000,
         floors={"pre-empted": .15, "paused at close": .05,
                 "controller burst (main won 12+ choice points in a row)": .08,
                 "player burst (a player won 12+ choice points in a row)": .06,
                 "integer sample format": .1, "same container object played by two players": .02,
                 "a recording nobody plays": .03,
                 "3+ recordings open, one neither first nor last ended by the user": .015,
                 "a parked player resumed": .015},
         doc="schedules pre-empting at every source line of lazy_io.py as well (finer interleavings of run/close/stop)"),
]
