"""C17 - Audio playback delivers every sample once, in order, and always shuts down."""
import sys
import struct
import threading
import itertools
import collections
import collections.abc
from hypothesis import strategies as st
from vlib.core import Clause, Violation
from vlib import sched

from audiolazy import lazy_io

sched.install_backend()
sched.install(lazy_io)

ID = "C17"
RULE = ("cases = (1..3 players: finite or endless float32 audio, chunk size, channels; a control "
        "history from the main thread over pause/play/stop/spawn on any player and a final "
        "close / with-exit / terminate; wait flag; a schedule = list of small ints choosing the "
        "next thread at every synchronisation point, backend call and, in the line tier, every "
        "source line of lazy_io.py); oracle = per device stream the written chunks are exactly "
        "chunk_size frames and concatenate to a prefix of the zero-padded audio (all of it when "
        "the player was never stopped and the manager waited), close returns under every "
        "schedule (no enabled thread = deadlock, step bound = livelock), afterwards every "
        "stream is closed once, the backend terminated once, no player unfinished, play raises; "
        "non-trivial = at least one pre-emption taken and at least one control call before "
        "close; distinct = distinct case hash")
ASSUMPTIONS = [
  "the backend is a fake pyaudio/_portaudio pair placed in sys.modules; lazy_io.threading is replaced by scheduler-aware Lock/Event (external instrumentation, no repository hook)",
  "pre-emption granularity is the synchronisation point / backend call (quick) or the source line of lazy_io.py (line tier), not the bytecode",
  "bounded liveness: close must return within 20000 scheduler steps",
  "endless audio is only combined with wait=False or with a stop of that player in the history",
  "AudioIO.__del__ (a second close at garbage collection) is neutralised by the harness",
]

VALS = [0.5, -0.25, 1.0, 0.0, -1.0, 0.125]
OPS = ["pause", "play", "stop"]


def strat(lines):
  def build(tier):
    audio = st.one_of(st.lists(st.sampled_from(VALS), max_size=9), st.lists(st.sampled_from(VALS), max_size=9),
                      st.lists(st.sampled_from(VALS), min_size=1, max_size=3).map(lambda l: ("endless", l)),
                      # a recording of the same manager played back (endless input device)
                      st.integers(1, 3).map(lambda k: ("record", [k])))
    player = st.fixed_dictionaries(dict(audio=audio, chunk=st.one_of(st.integers(1, 4), st.integers(1, 4), st.none()),
                                        channels=st.integers(1, 2),
                                        # the channel count by its current name or by the older alias
                                        chan_kw=st.sampled_from(["channels", "channels", "nchannels"]),
                                        # how finite audio is handed over: a one-shot iterator or a container
                                        container=st.sampled_from(["iter", "iter", "list", "tuple", "deque",
                                                                   "sequence", "generator"])))
    ctl = st.lists(st.one_of(
      st.tuples(st.sampled_from(OPS), st.integers(0, 3)),
      st.tuples(st.sampled_from(OPS), st.integers(0, 3)),
      st.tuples(st.sampled_from(OPS + ["spawn", "spawn", "refused play"]), st.integers(0, 3)),
      st.tuples(st.just("spawn"), st.integers(0, 3))), max_size=8)
    maxs = 40 if tier == "quick" else 120
    return st.fixed_dictionaries(dict(
      players=st.lists(player, min_size=1, max_size=3),
      extra=st.lists(player, max_size=2),
      ctl=ctl, wait=st.booleans(),
      end=st.sampled_from(["close", "with", "terminate", "close twice", "with, left by an exception"]),
      schedule=st.lists(st.integers(0, 3), max_size=maxs),
      # chunk=None plays with the documented default chunk size (chunks.size, set small for the case);
      # the chunk packing strategy is the documented switch chunks.default
      default_chunk=st.integers(1, 3), strategy=st.sampled_from(["struct", "struct", "array"]),
      lines=st.just(lines)))
  return build


class _Seq(collections.abc.Sequence):
  """A user sequence: integer indexes and len() only (no slices)."""
  def __init__(self, items):
    self._items = list(items)

  def __len__(self):
    return len(self._items)

  def __getitem__(self, i):
    if not isinstance(i, int):
      raise TypeError("indices must be integers")
    return self._items[i]


def as_container(kind, items):
  if kind == "list":
    return list(items)
  if kind == "tuple":
    return tuple(items)
  if kind == "deque":
    return collections.deque(items)
  if kind == "sequence":
    return _Seq(items)
  if kind == "generator":
    return (v for v in items)
  return iter(items)


def padded(audio, chunk, channels):
  n = chunk * channels
  data = list(audio)
  if len(data) % n:
    data += [0.] * (n - len(data) % n)
  return struct.pack("%df" % len(data), *data)


def normalise(c):
  """Make the case sound: endless audio needs wait=False or a stop in the history."""
  players = [dict(p) for p in c["players"]]
  extra = [dict(p) for p in c["extra"]]
  ctl = []
  nlive = len(players)
  spawned = 0
  for op, i in c["ctl"]:
    if op == "spawn":
      if spawned < len(extra):
        ctl.append(("spawn", spawned))
        spawned += 1
        nlive += 1
    elif op == "refused play":
      ctl.append((op, i))
    else:
      ctl.append((op, i % nlive))
  allp = players + extra[:spawned]
  if c["wait"]:
    for idx, p in enumerate(allp):
      endless = isinstance(p["audio"], tuple)
      if endless and not any(op == "stop" and i == idx for op, i in ctl):
        ctl.append(("stop", idx))
  return players, extra[:spawned], ctl


def run_case(c):
  players, extra, ctl = normalise(c)
  S = sched.S = sched.Sched(c["schedule"], lines=c["lines"])
  S.register_main()
  out = {}
  threads = []
  specs = []
  io = None
  tracer = lazy_io._verif_tracer if c["lines"] else None

  chunks = lazy_io.chunks
  dflt = c.get("default_chunk", 2)
  saved = (type(chunks).size, chunks.default)
  type(chunks).size = dflt
  chunks.default = chunks.array if c.get("strategy") == "array" else chunks.struct

  def start(io, p):
    audio = p["audio"]
    if isinstance(audio, tuple) and audio[0] == "record":
      data = io.record(chunk_size=audio[1][0])
    elif isinstance(audio, tuple):
      data = itertools.cycle(list(audio[1]))
    else:
      data = as_container(p.get("container", "iter"), list(audio))
    chan = {p.get("chan_kw", "channels"): p["channels"]}
    if p["chunk"] is None:
      th = io.play(data, **chan)
      p = dict(p, chunk=dflt, default_chunk=True)
    else:
      th = io.play(data, chunk_size=p["chunk"], **chan)
    threads.append(th)
    specs.append(p)
    return th

  stopped = set()
  try:
    if tracer:
      sys.settrace(tracer)
    try:
      io = lazy_io.AudioIO(wait=c["wait"])
      if c["end"].startswith("with"):
        io.__enter__()
      for p in players:
        start(io, p)
      for op, i in ctl:
        if op == "spawn":
          start(io, extra[i])
        elif op == "refused play":
          # a play() the backend (odd i: the sample rate) or the format table refuses: the error reaches
          # the caller and the manager stays usable - everything below must still hold
          try:
            if i % 2:
              io.play(iter([.5, .25]), rate=sched.FakePyAudio.REFUSED_RATE)
            else:
              io.play(iter([.5, .25]), dfmt="no such format")
            out["refusal swallowed"] = True
          except Exception:
            pass
        else:
          if op == "stop":
            stopped.add(i)
          getattr(threads[i], op)()
      if c["end"] == "with":
        io.__exit__(None, None, None)
      elif c["end"] == "with, left by an exception":
        err = KeyError("raised inside the with-block")
        io.__exit__(KeyError, err, None)
      elif c["end"] == "terminate":
        io.terminate()
      else:
        io.close()
        if c["end"] == "close twice":
          io.close()
      out["closed"] = True
      try:
        io.play([0.])
        out["play_after"] = "accepted"
      except RuntimeError:
        out["play_after"] = "raises"
      # the closed manager is forgotten: its destructor runs (here explicitly, in the main thread)
      try:
        lazy_io.AudioIO._verif_del(io)
      except Exception as e:
        out["del"] = e
    finally:
      sys.settrace(None)
  except sched.Abort:
    out["abort"] = S.why
  finally:
    # no thread may outlive the case
    S.abort(S.why or "case over")
    for th in threads:
      threading.Thread.join(th, 5)
    type(chunks).size, chunks.default = saved
  alive = [th for th in threads if threading.Thread.is_alive(th)]
  if alive:
    raise Violation("harness: %d OS threads did not stop" % len(alive))

  ctx = "players=%r ctl=%r wait=%r end=%s schedule=%r" % (specs, ctl, c["wait"], c["end"], c["schedule"])
  if out.get("abort") == "deadlock":
    raise Violation("close() can never return: every unfinished thread is blocked: %r; %s; last steps %r"
                    % (S.deadlock, ctx, S.trace[-12:]), site="shutdown")
  if out.get("abort") == "step bound":
    raise Violation("close() did not return within %d scheduler steps (livelock): %r; %s"
                    % (S.max_steps, S.describe(), ctx), site="shutdown")
  if "abort" in out:
    raise Violation("run aborted: %r; %s" % (out["abort"], ctx))
  crashes = [(t.name, repr(getattr(t, "crash", None))) for t in S.threads if getattr(t, "crash", None) is not None]
  if crashes:
    raise Violation("player thread crashed: %r; %s" % (crashes, ctx))

  pa = io._pa
  # ---- safety: per device stream
  for k, (th, p) in enumerate(zip(threads, specs)):
    fs = th.stream
    n = p["chunk"]
    ch = p["channels"]
    dev = fs.kw.get("channels")
    for data, frames in fs.chunks:
      if frames != n or len(data) != n * ch * 4:
        raise Violation("player %d wrote a chunk of %d frames / %d bytes, chunk_size is %d x %d channels; %s"
                        % (k, frames, len(data), n, ch, ctx))
      # what the device takes from a write is frames x (the channel count it was opened with) samples:
      # anything beyond that in the buffer is lost, anything less is read past the buffer
      if len(data) != frames * dev * 4:
        raise Violation("player %d (%s=%d) wrote %d bytes announced as %d frames to a device opened with "
                        "%r channel(s), which takes %d bytes of them; %s"
                        % (k, p.get("chan_kw", "channels"), ch, len(data), frames, dev, frames * dev * 4, ctx),
                        site="nchannels-alias")
    got = b"".join(d for d, _ in fs.chunks)
    if isinstance(p["audio"], tuple) and p["audio"][0] == "record":
      need = [(i % 64) / 8. for i in range(len(got) // 4)]
      exp = struct.pack("%df" % len(need), *need)
      whole = None
    elif isinstance(p["audio"], tuple):
      cyc = itertools.cycle(p["audio"][1])
      need = [next(cyc) for _ in range(len(got) // 4)]
      exp = struct.pack("%df" % len(need), *need)
      whole = None
    else:
      exp = padded(p["audio"], n, ch)
      whole = exp
    if got != exp[:len(got)] or len(got) > len(exp):
      raise Violation("player %d: device received %r, which is not a prefix of the padded audio %r; %s"
                      % (k, struct.unpack("%df" % (len(got) // 4), got), p["audio"], ctx))
    if whole is not None and c["wait"] and k not in stopped and got != whole:
      raise Violation("player %d was never stopped and the manager waited, but only %d of %d bytes reached the device; %s"
                      % (k, len(got), len(whole), ctx))
  # ---- shutdown
  for k, th in enumerate(threads):
    if not th._rec.done:
      raise Violation("player %d still unfinished after close; %s" % (k, ctx))
    if th.stream.closed != 1:
      raise Violation("player %d: device stream closed %d times; %s" % (k, th.stream.closed, ctx))
  if pa._streams:
    raise Violation("%d device streams survive close; %s" % (len(pa._streams), ctx))
  if getattr(io, "_recordings", None):
    raise Violation("%d recordings still registered after close; %s" % (len(io._recordings), ctx))
  for f in pa.opened:
    if f.closed != 1:
      raise Violation("a device stream (%s) was closed %d times; %s"
                      % ("input" if f.kw.get("input") else "output", f.closed, ctx))
  if "del" in out:
    raise Violation("the destructor of the closed manager raised %r; %s" % (out["del"], ctx))
  if pa.terminated != 1:
    raise Violation("backend terminated %d times (close, then the destructor of the closed manager); %s"
                    % (pa.terminated, ctx))
  if out.get("play_after") != "raises":
    raise Violation("play() after close was accepted; %s" % ctx)
  if io._threads:
    raise Violation("manager still lists %d threads; %s" % (len(io._threads), ctx))

  labels = ["%d players" % len(threads), "wait" if c["wait"] else "no wait", "end:" + c["end"]]
  paused = {}
  for op, i in ctl:
    if op == "pause":
      paused[i] = True
    elif op == "play":
      paused[i] = False
  if any(v and i not in stopped for i, v in paused.items()):
    labels.append("paused at close")
  if stopped:
    labels.append("stop then close")
  if any(isinstance(p["audio"], tuple) for p in specs):
    labels.append("endless audio")
  if any(isinstance(p["audio"], tuple) and p["audio"][0] == "record" for p in specs):
    labels.append("plays a recording")
  if any(p.get("default_chunk") for p in specs):
    labels.append("default chunk size")
  labels.append("chunks." + c.get("strategy", "struct"))
  if extra:
    labels.append("spawned mid-history")
  for p in specs:
    if not isinstance(p["audio"], tuple) and p.get("container", "iter") != "iter":
      labels.append("audio:" + p["container"])
      if p["container"] in ("deque", "sequence") and len(p["audio"]) >= p["chunk"] * p["channels"]:
        labels.append("unsliceable sequence of a chunk or more")
  if any(op == "refused play" for op, _ in ctl):
    labels.append("a refused play in the history")
  if any(p.get("chan_kw") == "nchannels" and p["channels"] > 1 for p in specs):
    labels.append("nchannels alias, stereo")
  if S.taken:
    labels.append("pre-empted")
  return {"nontrivial": S.taken >= 1 and len([op for op, _ in ctl if op != "spawn"]) >= 1,
          "labels": labels}


CLAUSES = [
  Clause("sync_points", strat(False), run_case, quick=6000, thorough=60000,
         floors={"paused at close": .1, "stop then close": .1, "pre-empted": .2, "endless audio": .1,
                 "a refused play in the history": .05, "nchannels alias, stereo": .05,
                 "unsliceable sequence of a chunk or more": .05},
         doc="schedules pre-empting at lock/event/thread operations and backend calls"),
  Clause("source_lines", strat(True), run_case, quick=1500, thorough=30000,
         floors={"pre-empted": .15, "paused at close": .05},
         doc="schedules pre-empting at every source line of lazy_io.py as well (finer interleavings of run/close/stop)"),
]
