"""C19 - Signal generators produce their closed-form sequences and lengths.

line / fades, ones / zeros / impulse / noise, adsr / attack, modulo_counter
(8 number-vs-stream branches + batched fast path), TableLookup, sinusoid,
karplus_strong, resample - each compared with its closed form in exact
rational arithmetic (tolerance only where sin / exp / float ratios enter).
"""
import math
import random
from fractions import Fraction
from hypothesis import strategies as st
from vlib.core import Clause, Violation
from vlib.q import Q

import audiolazy
from audiolazy import (line, fadein, fadeout, attack, ones, zeros, zeroes, adsr,
                       white_noise, gauss_noise, impulse, modulo_counter,
                       TableLookup, sinusoid, karplus_strong, resample, Stream)

ID = "C19"
RULE = ("cases = (generator, parameters as exact rationals / ints / dyadic floats, "
        "number-vs-stream kind of every argument, input route) drawn by Hypothesis; "
        "oracle = the closed form of the statement evaluated in exact rational "
        "arithmetic (modcount_ref naive recursion + closed form, own Lagrange "
        "interpolation for resample_ref, cyclic linear interpolation for the table, "
        "direct linearised comb recursion for karplus_strong on the memory given as data, as a size-dependent "
        "burst function or left out); non-trivial = at least "
        "4 samples and a non-integer parameter (for modulo_counter additionally a "
        "wrap); distinct = distinct case hash")
ASSUMPTIONS = [
  "line: dur - finish != 0 (the statement's own slope is undefined there); dur >= 0",
  "durations are non-negative (or None / +inf for the endless generators); float "
  "durations are dyadic so that dur + .5 is exact",
  "adsr: dur is at least the rounded attack+decay+release lengths (otherwise the "
  "documented total duration cannot hold); a, d, r > 0",
  "attack with a stream-valued sustain: only the attack/decay lines (towards the first "
  "sustain item), finiteness and 'the rest is a suffix of the sustain stream' are asserted",
  "modulo > 0; exactness is claimed for Q / int / dyadic-float arguments (all exact in "
  "their own arithmetic); for ordinary floats (k/10, k/3, free doubles) the range 0 <= y < modulo is "
  "asserted exactly on every branch and, with a constant modulo, the value within 1e-9*max(1, modulo) of "
  "the exact sum of the given doubles, measured round the circle; |step| is 0 or >= 1e-6",
  "TableLookup: tbl[idx] is checked for idx >= 0 (the oscillator only produces [0, L)); "
  "the float constant L/(cycles*2*pi) is taken at its exact double value; tables of more than 64 entries "
  "(up to 2**17+3, incl. the package's sin_table / saw_table) are played with exact rational freq / phase / index only",
  "ones / zeros / impulse / noise: an earlier result of the same call may have been changed in place by its owner "
  "(Stream.limit / skip / append / map / abs / take) - the call under test still has its documented duration and values",
  "sinusoid: freq and phase are each a number or a finite stream; item n of a phase stream is the phase "
  "of sample n and the output ends with the shortest stream",
  "sinusoid / float oscillator / karplus_strong: tolerance 1e-9 (relative to the "
  "amplitude), > 10^5 above the observed rounding error; float frequencies are 0 or at "
  "least 1e-6 in magnitude (for |freq| < ~3.5e-308 modulo/step overflows to inf inside "
  "modulo_counter - a double-precision artefact outside the exact-arithmetic statement)",
  "karplus_strong: freq > 0 with lags 2*pi/freq from 1e-3 to 400 samples, tau > 0 (or inf); the memory is an "
  "iterable with at least as many items as the comb has delay cells, or a function of the size (called with the "
  "number of delay cells lm = int(lag) + 1, or int(lag) for a whole lag; its first lm items are the memory), or left "
  "out (documented default = the white_noise function: the reference memory is white_noise(lm) under the same "
  "random seed); for a "
  "lag below one sample the left interpolation neighbour is the current output sample, so the "
  "comb equation is solved for it: y[i] = alpha*w*y[i-1] / (1 - alpha*(1-w))",
  "resample: input length >= rint((order+1)/2) (a shorter input cannot fill the leading "
  "half window), positive old/new; exact for Q ratios, 1e-9 for int/float ratios; "
  "the window start is a = ceil(t - (order+1)/2) (ties keep the earlier window)",
  "noise generators: random is seeded from the case; only durations and the "
  "[low, high] bound (low <= high) are asserted",
]

TOL = 1e-9
HALF = Fraction(1, 2)


# --------------------------------------------------------------------------
# shared generators / helpers
# --------------------------------------------------------------------------
def qf(lo, hi, den=6):
  return st.fractions(min_value=lo, max_value=hi, max_denominator=den).map(Q)


def qval(lo=-5, hi=5):
  return st.one_of(qf(lo, hi), qf(lo, hi), st.integers(int(lo), int(hi)).map(Q), qf(lo, hi, 60))


ROUTES = ["stream", "list", "iter", "gen"]
_route = st.sampled_from(ROUTES)


def feed(x, route):
  x = list(x)
  if route == "list":
    return x
  if route == "iter":
    return iter(x)
  if route == "stream":
    return Stream(x)
  if route == "gen":
    return (v for v in x)
  raise AssertionError(route)


def cyc(vals, n):
  """n items cycling through vals (keeps stream-valued arguments small as data)."""
  return [vals[i % len(vals)] for i in range(n)]


def pull(it, limit, what):
  """All items of a finite iterator (at most `limit`, more is a violation);
  the iterator has to end by StopIteration - anything else propagates."""
  out = []
  for v in it:
    out.append(v)
    if len(out) > limit:
      raise Violation("%s: more than %d items, expected a shorter/finite stream" % (what, limit))
  return out


def take(it, n):
  it = iter(it)
  out = []
  for _ in range(n):
    try:
      out.append(next(it))
    except StopIteration:
      break
  return out


def fr(v):
  return Fraction(v)


def nlen(dur):
  """int(dur + .5) for dur >= 0 in exact arithmetic"""
  return int(fr(dur) + HALF)


def isnonint(v):
  return fr(v).denominator != 1


def cmp_seq(got, exp, exact, tol, what):
  if len(got) != len(exp):
    raise Violation("%s: %d samples, expected %d (got=%r exp=%r)"
                    % (what, len(got), len(exp), got[:12], exp[:12]))
  for i, (g, e) in enumerate(zip(got, exp)):
    if isinstance(g, float) and not math.isfinite(g):
      raise Violation("%s: sample %d is %r" % (what, i, g))
    if (g != e) if exact else (abs(fr(g) - e) > tol):
      raise Violation("%s: sample %d is %r, closed form gives %r (%s; got=%r)"
                      % (what, i, g, e, "exact" if exact else "tol %g" % tol, got[:12]))


# --------------------------------------------------------------------------
# line / fadein / fadeout
# --------------------------------------------------------------------------
_dur = st.one_of(
  st.integers(0, 12),
  st.fractions(min_value=0, max_value=12, max_denominator=3).map(Q),
  st.fractions(min_value=0, max_value=12, max_denominator=3).map(Q),
  st.integers(0, 12).map(lambda k: Q(2 * k + 1, 2)),         # x.5 ties
  st.sampled_from([.5, 1.5, 2.5, .25, 3.75, 7., 11.5, .375, 4.625]))
_lval = st.one_of(st.just("default"), qval(-4, 4), qval(-4, 4), st.integers(-4, 4),
                  st.sampled_from([.5, -1.25, 2., 0.]))


def _fix_line(c):
  c = dict(c)
  if c["fn"] == "line":
    if c["dur"] == 0:
      c["finish"] = True
    elif c["dur"] == 1:
      c["finish"] = False
  else:
    c["finish"] = False
    c["begin"] = c["end"] = "default"
    if c["dur"] == 0:
      c["dur"] = Q(1, 3)
  return c


def strat_line(tier):
  return st.fixed_dictionaries(dict(
    fn=st.sampled_from(["line", "line", "line", "line", "fadein", "fadeout"]),
    dur=_dur, begin=_lval, end=_lval, finish=st.booleans(),
    call=st.sampled_from(["kw", "pos"]))).map(_fix_line)


def run_line(case):
  fn, dur, finish = case["fn"], case["dur"], case["finish"]
  if fn == "line":
    b = 0. if case["begin"] == "default" else case["begin"]
    e = 1. if case["end"] == "default" else case["end"]
    if case["call"] == "pos" and case["begin"] != "default" and case["end"] != "default":
      s = line(dur, b, e, finish)
    else:
      kw = {}
      if case["begin"] != "default":
        kw["begin"] = b
      if case["end"] != "default":
        kw["end"] = e
      if finish:
        kw["finish"] = True
      s = line(dur, **kw)
  elif fn == "fadein":
    b, e = 0., 1.
    s = fadein(dur)
  else:
    b, e = 1., 0.
    s = fadeout(dur)
  n = nlen(dur)
  den = fr(dur) - (1 if finish else 0)
  exp = [fr(b) + i * (fr(e) - fr(b)) / den for i in range(n)]
  got = pull(s, n + 3, fn)
  exact = any(isinstance(v, Q) for v in (dur, b, e))
  tol = Fraction(1e-12) * (abs(fr(b)) + abs(fr(e)) + 1) * max(1, n)
  cmp_seq(got, exp, exact, tol, "%s(dur=%r, begin=%r, end=%r, finish=%r)" % (fn, dur, b, e, finish))
  labels = [fn, "exact" if exact else "float", "finish" if finish else "no finish",
            "fractional dur" if isnonint(dur) else "integer dur"]
  if fr(dur) % 1 == HALF:
    labels.append("dur x.5")
  if n == 0:
    labels.append("empty")
  nt = n >= 4 and (isnonint(dur) or isnonint(b) or isnonint(e))
  return {"nontrivial": nt, "labels": labels}


# --------------------------------------------------------------------------
# ones / zeros / impulse / noise : durations and values
# --------------------------------------------------------------------------
# (the last branch: exactly half a sample, the shortest duration that still gives one sample)
_ddur = st.one_of(st.just(None), st.just("omitted"), st.just("inf"), _dur, _dur, _dur,
                  st.sampled_from([Q(1, 2), .5]))


def _fix_noise(c):
  c = dict(c)
  lo, hi = c["low"], c["high"]
  if lo != "default" and hi != "default" and fr(hi) < fr(lo):
    c["low"], c["high"] = hi, lo
  elif lo == "default" and hi != "default" and fr(hi) < -1:
    c["high"] = -hi
  elif hi == "default" and lo != "default" and fr(lo) > 1:
    c["low"] = -lo
  return c


def strat_durations(tier):
  return st.fixed_dictionaries(dict(
    gen=st.sampled_from(["ones", "zeros", "zeroes", "impulse", "impulse", "white_noise",
                         "white_noise", "gauss_noise", "ones", "zeros"]),
    dur=_ddur, take=st.integers(1, 20),
    # what the owner of an EARLIER result of the very same call did to his own Stream (the Stream
    # methods limit / skip / append / map / abs change the object they are called on) before the
    # call under test is made: every call has its documented duration and values, whatever happened
    # to the streams returned before
    history=st.sampled_from(["none", "none", "limit", "limit", "skip", "append", "map", "abs", "take"]),
    hk=st.integers(0, 5),
    one=st.one_of(st.just("default"), qval()), zero=st.one_of(st.just("default"), qval()),
    low=st.one_of(st.just("default"), qval(), st.integers(-3, 3), st.sampled_from([-.5, .25])),
    high=st.one_of(st.just("default"), qval(), st.integers(-3, 3), st.sampled_from([.5, 1.75])),
    seed=st.integers(0, 2 ** 20))).map(_fix_noise)


def run_durations(case):
  gen, dur = case["gen"], case["dur"]
  args = [] if dur == "omitted" else [float("inf") if dur == "inf" else dur]
  endless = dur in (None, "omitted", "inf")
  kw = {}
  one, zero, lo, hi = 1., 0., -1., 1.
  if gen == "impulse":
    if case["one"] != "default":
      kw["one"] = one = case["one"]
    if case["zero"] != "default":
      kw["zero"] = zero = case["zero"]
  if gen == "white_noise":
    if case["low"] != "default":
      kw["low"] = lo = case["low"]
    if case["high"] != "default":
      kw["high"] = hi = case["high"]
  random.seed(case["seed"])
  fn = dict(ones=ones, zeros=zeros, zeroes=zeroes, impulse=impulse,
            white_noise=white_noise, gauss_noise=gauss_noise)[gen]
  hist, hk = case["history"], case["hk"]
  if hist != "none":
    first = fn(*args, **kw)
    if hist == "limit":                       # the gate idiom: ones().limit(4)
      take(first.limit(hk), hk + 2)
    elif hist == "skip":
      take(first.skip(hk), 2)
    elif hist == "append":
      take(first.append([Q(7), Q(-7)]), 3)
    elif hist == "map":
      take(first.map(lambda v: v + 7), 2)
    elif hist == "abs":
      take(abs(first), 2)
    else:
      first.take(hk)
    random.seed(case["seed"])
  s = fn(*args, **kw)
  what = "%s(%s)" % (gen, ", ".join([repr(a) for a in args] + ["%s=%r" % kv for kv in sorted(kw.items())]))
  if hist != "none":
    what += " [after an earlier %s result was changed by its owner: .%s]" % (gen, hist)
  if endless:
    n = case["take"]
    got = take(s, n)
    if len(got) != n:
      raise Violation("%s should be endless but ended after %d samples%s" % (
        what, len(got), "" if hist != "none" else " (no earlier result was touched in THIS case: if the replay "
        "holds alone, the generator carries state across calls - see the cases with a history)"))
  else:
    n = nlen(dur)
    got = pull(s, n + 3, what)
    if len(got) != n:
      raise Violation("%s has %d samples, documented duration is int(dur+.5) = %d" % (what, len(got), n))
  for i, v in enumerate(got):
    if gen == "ones":
      ok = v == 1
    elif gen in ("zeros", "zeroes"):
      ok = v == 0
    elif gen == "impulse":
      ok = v == (one if i == 0 else zero)
    elif gen == "white_noise":
      ok = fr(lo) <= fr(v) <= fr(hi)
    else:
      ok = isinstance(v, float) and math.isfinite(v)
    if not ok:
      raise Violation("%s: sample %d is %r (got=%r)" % (what, i, v, got[:12]))
  labels = [gen, "endless" if endless else "finite"]
  if hist != "none":
    labels += ["earlier result changed in place", "history:" + hist]
    if endless:
      labels.append("endless after an earlier result was changed in place")
      if gen in ("ones", "zeros", "zeroes"):
        labels.append("endless constant after an earlier result was changed in place")
  if not endless:
    labels.append("fractional dur" if isnonint(dur) else "integer dur")
    if fr(dur) % 1 == HALF:
      labels.append("dur x.5")
    if fr(dur) == HALF:
      labels.append("dur == .5")
    if n == 0:
      labels.append("empty")
  nt = len(got) >= 4 and (endless or isnonint(dur) or bool(kw))
  return {"nontrivial": nt, "labels": labels}


# --------------------------------------------------------------------------
# adsr / attack
# --------------------------------------------------------------------------
def _seg(nt):
  if nt == "q":
    return st.one_of(st.fractions(min_value=Fraction(1, 3), max_value=5, max_denominator=3).map(Q),
                     st.integers(1, 5).map(Q),
                     st.integers(0, 4).map(lambda k: Q(2 * k + 1, 2)))
  return st.one_of(st.integers(1, 5), st.sampled_from([.5, 1.5, 2.5, 2., .75, 3.25]))


def _lvl(nt):
  if nt == "q":
    return st.one_of(qf(0, 1, 5), qf(-1, 2, 5))
  return st.sampled_from([0, 1, .5, .25, .75, 0.3])


def strat_envelopes(tier):
  return st.sampled_from(["q", "q", "num"]).flatmap(lambda nt: st.fixed_dictionaries(dict(
    kind=st.sampled_from(["adsr", "adsr", "attack", "attack_stream"]),
    nt=st.just(nt), a=_seg(nt), d=_seg(nt), r=_seg(nt), s=_lvl(nt),
    extra=st.integers(0, 5),
    off=st.sampled_from([0, 0, Q(-1, 2), Q(-1, 3), Q(1, 3), Q(1, 4), Q(49, 100)]),
    sus=st.lists(qf(-1, 2, 5), min_size=0, max_size=5),
    route=_route)))


def run_envelopes(case):
  kind, a, d, r, s = case["kind"], case["a"], case["d"], case["r"], case["s"]
  la, ld, lr = nlen(a), nlen(d), nlen(r)
  A = [i / fr(a) for i in range(la)]
  D = [1 + i * (fr(s) - 1) / fr(d) for i in range(ld)]
  exact = case["nt"] == "q"
  tol = Fraction(1e-12) * 10
  labels = [kind, "exact" if exact else "float"]
  if any(isnonint(v) for v in (a, d)):
    labels.append("fractional segment")
  if kind == "adsr":
    total = la + ld + lr + case["extra"]
    dur = total + case["off"]
    if dur < 0:
      dur = 0
    if exact or isinstance(dur, Q):
      dur = Q(dur)
    ls = total - la - ld - lr
    exp = A + D + [fr(s)] * ls + [fr(s) - i * fr(s) / fr(r) for i in range(lr)]
    got = pull(adsr(dur, a, d, s, r), total + 3, "adsr")
    what = "adsr(dur=%r, a=%r, d=%r, s=%r, r=%r)" % (dur, a, d, s, r)
    if len(got) != nlen(dur):
      raise Violation("%s has %d samples, documented duration is %d" % (what, len(got), nlen(dur)))
    cmp_seq(got, exp, exact, tol, what)
    if ls:
      labels.append("sustain present")
    if isnonint(dur):
      labels.append("fractional dur")
    nt = total >= 4 and any(isnonint(v) for v in (a, d, s, r, dur))
  elif kind == "attack":
    n = la + ld + 4
    got = take(attack(a, d, s), n)
    what = "attack(a=%r, d=%r, s=%r)" % (a, d, s)
    cmp_seq(got, A + D + [fr(s)] * 4, exact, tol, what)
    nt = n >= 4 and any(isnonint(v) for v in (a, d, s))
  else:
    sus = [Q(s)] + list(case["sus"])       # first item = sustain level used by the decay line
    D = [1 + i * (fr(sus[0]) - 1) / fr(d) for i in range(ld)]
    what = "attack(a=%r, d=%r, s=Stream(%r))" % (a, d, sus)
    got = pull(attack(a, d, feed(sus, case["route"])), la + ld + len(sus) + 3, what)
    if len(got) < la + ld:
      raise Violation("%s ended after %d samples, attack+decay alone have %d" % (what, len(got), la + ld))
    cmp_seq(got[:la + ld], A + D, exact, tol, what)
    rest = got[la + ld:]
    if len(rest) > len(sus) or rest != sus[len(sus) - len(rest):]:
      raise Violation("%s: after attack/decay came %r, not a suffix of the sustain stream" % (what, rest))
    nt = len(got) >= 4 and any(isnonint(v) for v in (a, d, sus[0]))
  return {"nontrivial": nt, "labels": labels}


# --------------------------------------------------------------------------
# modulo_counter
# --------------------------------------------------------------------------
def modcount_ref(start, modulo, step, n):
  """Naive recursion of the statement: c = (c + delta start) mod m; emit; c += step.
  Arguments are callables index -> exact value."""
  out = []
  c = lastp = None
  for i in range(n):
    p, m, s = start(i), modulo(i), step(i)
    c = p if i == 0 else c + (p - lastp)
    c = c % m
    out.append(c)
    c = c + s
    lastp = p
  return out


def strat_modlong(tier):
  return st.fixed_dictionaries(dict(
    ratio=st.sampled_from([1025, 1100, 1500, 2049, 4097, 700]), modulo=st.sampled_from([Q(7), Q(2), Q(13, 3), 4.0]),
    start=qval(), start_kind=st.sampled_from(["number", "stream", "stream", "varying stream"]),
    extra=st.integers(3, 400), jitter=st.integers(0, 5)))


def run_modlong(case):
  modulo = case["modulo"]
  ratio = case["ratio"]
  step = modulo / ratio if not isinstance(modulo, float) else Q(modulo) / ratio
  step = step + Q(case["jitter"], 10 ** 6)      # not an exact divisor: wraps at changing offsets
  n = int(ratio * 1.3) + case["extra"]
  kind = case["start_kind"]
  s0 = case["start"]
  if kind == "number":
    starts = lambda i: fr(s0)
    arg = s0
  elif kind == "stream":
    starts = lambda i: fr(s0)
    arg = Stream([s0] * n)
  else:
    starts = lambda i: fr(s0) + (i // 300)
    arg = Stream([s0 + (i // 300) for i in range(n)])
  got = take(modulo_counter(arg, modulo, step), n)
  exp = modcount_ref(starts, lambda i: fr(modulo), lambda i: fr(step), n)
  if len(got) != n:
    raise Violation("modulo_counter gave %d samples, %d asked" % (len(got), n))
  for i, (g, e) in enumerate(zip(got, exp)):
    if fr(g) != e:
      raise Violation("modulo_counter(start %s %r, modulo=%r, step=%r) sample %d is %r, the recursion gives %r"
                      % (kind, s0, modulo, step, i, g, e))
  return {"nontrivial": True, "labels": ["start:" + kind, "ratio>1024" if ratio > 1024 else "ratio<=1024"]}


def _mval(nt, positive=False):
  if nt == "q":
    if positive:
      return st.one_of(qf(Fraction(1, 3), 5), st.integers(1, 5).map(Q))
    return qval()
  if nt == "int":
    return st.integers(1, 9) if positive else st.integers(-9, 9)
  if positive:
    return st.integers(1, 40).map(lambda k: k / 8.)
  return st.integers(-40, 40).map(lambda k: k / 8.)


_RATIOS = [Q(1), Q(2), Q(3), Q(8, 7), Q(6, 7), Q(15, 7), Q(13, 7), Q(151, 50), Q(149, 50),
           Q(5, 2), Q(4), Q(7), Q(-2), Q(1, 2)]


def _stepmode(nt):
  free = _mval(nt).map(lambda v: ("free", v))
  mult = st.sampled_from([-2, -1, 1, 2, 3]).map(lambda k: ("mult", k))
  zero = st.just(("zero", 0))
  if nt == "q":
    return st.one_of(free, free, st.sampled_from(_RATIOS).map(lambda r: ("ratio", r)),
                     st.sampled_from(_RATIOS).map(lambda r: ("ratio", r)),
                     st.sampled_from(_RATIOS).map(lambda r: ("ratio", r)), mult, zero)
  # "div": a step that divides the modulo exactly in int / dyadic float arithmetic (fast path)
  div = st.sampled_from([2, 4, 8]).map(lambda k: ("div", k))
  return st.one_of(free, free, div, div, mult, zero)


def strat_modcount(tier):
  mx = 40 if tier == "quick" else 80
  return st.sampled_from(["q", "q", "q", "int", "float"]).flatmap(lambda nt: st.fixed_dictionaries(dict(
    nt=st.just(nt),
    start=_mval(nt), modulo=_mval(nt, True), stepmode=_stepmode(nt),
    streams=st.sampled_from([(False, False, False), (False, False, False), (True, False, False),
                             (True, False, False), (False, False, True), (False, True, False),
                             (False, True, True), (True, False, True), (True, True, False),
                             (True, True, True)]),                        # start, modulo, step
    vary=st.tuples(st.booleans(), st.booleans(), st.booleans()),
    svals=st.lists(_mval(nt), min_size=1, max_size=6),
    mvals=st.lists(_mval(nt, True), min_size=1, max_size=4),
    tvals=st.lists(_mval(nt), min_size=1, max_size=6),
    lens=st.tuples(st.integers(1, mx), st.integers(1, mx), st.integers(1, mx)),
    n=st.integers(1, mx), route=_route)))


def run_modcount(case):
  nt = case["nt"]
  start, modulo = case["start"], case["modulo"]
  mode, arg = case["stepmode"]
  if mode == "free":
    step = arg
  elif mode == "ratio":
    step = modulo / arg
  elif mode == "mult":
    step = arg * modulo
  elif mode == "div":
    step = 1 if nt == "int" else modulo / arg
  else:
    step = 0 if nt == "int" else (0. if nt == "float" else Q(0))
  streams, vary, lens = case["streams"], case["vary"], case["lens"]
  vals = [start, modulo, step]
  lists = []
  for k, pool in enumerate((case["svals"], case["mvals"], case["tvals"])):
    if not streams[k]:
      lists.append(None)
    elif vary[k]:
      lists.append(cyc([vals[k]] + list(pool), lens[k]))
    else:
      lists.append([vals[k]] * lens[k])
  finite = [len(l) for l in lists if l is not None]
  fast = (not streams[1] and not streams[2] and step != 0 and int(fr(modulo) / fr(step)) > 1)
  if finite:
    n = min(finite)
  else:
    n = case["n"]
    if fast:
      n = min(3 * int(fr(modulo) / fr(step)) + 5, 70)
  args = [vals[k] if lists[k] is None else feed(lists[k], case["route"]) for k in range(3)]
  what = "modulo_counter(start=%r, modulo=%r, step=%r)" % tuple(
    vals[k] if lists[k] is None else lists[k][:8] for k in range(3))
  if finite:
    got = pull(modulo_counter(*args), n + 3, what)
  else:
    got = take(modulo_counter(start=args[0], modulo=args[1], step=args[2]), n)
  get = [(lambda i, k=k: fr(vals[k]) if lists[k] is None else fr(lists[k][i])) for k in range(3)]
  exp = modcount_ref(get[0], get[1], get[2], n)
  if len(got) != n:
    raise Violation("%s: %d samples, expected %d (ends with its shortest stream argument)"
                    % (what, len(got), n))
  for i, (g, e) in enumerate(zip(got, exp)):
    m = get[1](i)
    if g != e:
      raise Violation("%s: sample %d is %r, running sum reduced into [0, modulo) is %r (got=%r exp=%r)"
                      % (what, i, g, e, got[:12], exp[:12]))
    if not 0 <= g < m:
      raise Violation("%s: sample %d = %r is outside [0, %r)" % (what, i, g, m))
  const_mod = lists[1] is None or not vary[1]
  wraps = 0
  if const_mod:
    m = fr(modulo)
    tot = Fraction(0)
    for i in range(n):
      closed = (get[0](i) + tot) % m
      if got[i] != closed:
        raise Violation("%s: sample %d is %r, (start + sum of earlier steps) mod modulo = %r (drift)"
                        % (what, i, got[i], closed))
      tot += get[2](i)
    wraps = sum(1 for i in range(1, n) if (got[i] - got[i - 1]) != (get[2](i - 1) + get[0](i) - get[0](i - 1)))
  labels = ["branch:" + "".join("S" if s else "N" for s in streams), "type:" + nt,
            "step:" + mode]
  if fast:
    labels.append("fast path")
    if n > int(fr(modulo) / fr(step)) * 2:
      labels.append("fast path wrapped twice")
  if step != 0 and lists[2] is None and fr(step) < 0:
    labels.append("negative step")
  if wraps >= 2:
    labels.append("wraps>=2")
  if any(streams) and any(v and s for v, s in zip(vary, streams)):
    labels.append("varying stream")
  nonint = any(isnonint(v) for v in vals)
  return {"nontrivial": n >= 4 and nonint and wraps >= 1, "labels": labels}


def _lag2freq(lag):
  return 2 * math.pi / lag


def ffloat(lo, hi):
  """floats in [lo, hi]; magnitudes under 1e-6 are snapped to 0 (frequencies so small that
  modulo/step overflows a double are outside the domain, see ASSUMPTIONS)"""
  return st.floats(min_value=lo, max_value=hi, allow_nan=False).map(
    lambda v: v if abs(v) >= 1e-6 else 0.)


# --------------------------------------------------------------------------
# modulo_counter with ordinary (non-dyadic) floats: the range [0, modulo)
# --------------------------------------------------------------------------
# "reduced into [0, modulo)" is a claim about the range of every output, whatever the number
# type: a float running sum that goes up and comes down again (.3 - .1 - .1 - .1) lands a
# rounding error beside the multiple of the modulo that exact arithmetic would hit - a hair
# below zero as often as above.  Values are k / den floats (den = 10, 3, 7, ... - the decimal
# fractions people write), the step sequence is made of excursions whose exact sum is 0 or
# +-modulo, so that such landings happen several times per case, on every one of the 8
# number-vs-stream branches.
_FDEN = [10, 10, 10, 3, 7, 100, 6, 1000]
# block kinds: first the sum then the parts back / first the parts then the sum back /
# parts only (free walk) / the parts scaled so that they add up to the modulo
_FBLOCK = st.tuples(st.sampled_from(["up-down", "up-down", "up-down", "up-down", "parts-back", "parts-back",
                                     "down-up", "parts-back-neg", "free", "home"]),
                    st.lists(st.integers(1, 9), min_size=1, max_size=4),
                    st.sampled_from([1, 1, -1]))


def _expand_blocks(blocks, pos=0, munits=None):
  """steps in units of 1/den; "home" goes down in one step from wherever the exact sum stands
  (pos = the start, munits = the modulo, both in the same units) to the multiple of the modulo
  below it"""
  ks = []
  for kind, parts, sgn in blocks:
    tot = sum(parts)
    if kind == "home":
      here = (pos + sum(ks)) % munits if munits else 0
      if here:
        ks.append(-here)
        continue
      kind = "up-down"
    if kind == "up-down":
      ks += [tot] + [-p for p in parts]
    elif kind == "down-up":
      ks += [-tot] + list(parts)
    elif kind == "parts-back":
      ks += list(parts) + [-tot]
    elif kind == "parts-back-neg":
      ks += [-p for p in parts] + [tot]
    else:
      ks += [sgn * p for p in parts]
  return ks


def strat_modfloat(tier):
  mx = 40 if tier == "quick" else 80
  return st.fixed_dictionaries(dict(
    kind=st.sampled_from(["decimal", "decimal", "decimal", "free"]),
    den=st.sampled_from(_FDEN),
    start=st.one_of(st.just(0), st.just(0), st.just(0), st.integers(-30, 30)),
    start_laps=st.sampled_from([0, 0, 0, 1, -1, 2]),        # start + laps * modulo
    modulo=st.one_of(st.sampled_from(["den", "den", "256", "2pi"]), st.integers(1, 40)),
    blocks=st.lists(_FBLOCK, min_size=1, max_size=8),
    step=st.integers(-9, 9),                                 # the step when it is a number
    streams=st.sampled_from([(False, False, True), (False, False, True), (False, False, True),
                             (False, False, False), (False, False, False), (True, False, False),
                             (False, True, False), (False, True, True), (True, False, True), (True, False, True),
                             (True, True, False), (True, True, True)]),   # start, modulo, step
    vary=st.tuples(st.booleans(), st.booleans()),            # start, modulo (step streams always vary)
    svals=st.lists(st.integers(-30, 30), min_size=1, max_size=6),
    mvals=st.lists(st.integers(1, 40), min_size=1, max_size=4),
    fstart=ffloat(-10, 10), fmod=st.floats(min_value=.01, max_value=300, allow_nan=False),
    fsteps=st.lists(ffloat(-10, 10), min_size=1, max_size=12),
    fneg=st.booleans(),                                      # free floats: append the negated steps, reversed
    lens=st.tuples(st.integers(1, mx), st.integers(1, mx)),
    n=st.integers(1, mx), route=_route))


def run_modfloat(case):
  kind, den = case["kind"], case["den"]
  streams, vary, lens = case["streams"], case["vary"], case["lens"]
  munits = None
  if kind == "decimal":
    f = lambda k: k / float(den)
    mk = case["modulo"]
    if mk == "den":
      modulo, munits = 1., den
    elif mk == "256":
      modulo, munits = 256., 256 * den
    elif mk == "2pi":
      modulo = 2 * math.pi
    else:
      modulo, munits = f(mk), mk
    kstart = case["start"] + (case["start_laps"] * munits if munits else 0)
    start = f(kstart)
    ksteps = _expand_blocks(case["blocks"], kstart, munits)
    tsteps = [f(k) for k in ksteps]
    step = f(case["step"])
    svals = [f(k) for k in case["svals"]]
    mvals = [f(k) for k in case["mvals"]]
  else:
    modulo, start = case["fmod"], case["fstart"]
    tsteps = list(case["fsteps"])
    if case["fneg"]:
      tsteps = tsteps + [-v for v in reversed(tsteps)]
    step = tsteps[0]
    svals = [v * .5 for v in tsteps[:6]]
    mvals = [modulo * .75, modulo + 1.5]
  vals = [start, modulo, step]
  lists = [None, None, None]
  if streams[0]:
    lists[0] = cyc([start] + svals, lens[0]) if vary[0] else [start] * lens[0]
  if streams[1]:
    lists[1] = cyc([modulo] + mvals, lens[1]) if vary[1] else [modulo] * lens[1]
  if streams[2]:
    lists[2] = list(tsteps) + [step]          # one more item: the value after the last step is seen too
  finite = [len(l) for l in lists if l is not None]
  n = min(finite) if finite else case["n"]
  args = [vals[k] if lists[k] is None else feed(lists[k], case["route"]) for k in range(3)]
  what = "modulo_counter(start=%r, modulo=%r, step=%r)" % tuple(
    vals[k] if lists[k] is None else lists[k][:10] for k in range(3))
  if finite:
    got = pull(modulo_counter(*args), n + 3, what)
  else:
    got = take(modulo_counter(start=args[0], modulo=args[1], step=args[2]), n)
  if len(got) != n:
    raise Violation("%s: %d samples, expected %d (ends with its shortest stream argument)"
                    % (what, len(got), n))
  get = [(lambda i, k=k: vals[k] if lists[k] is None else lists[k][i]) for k in range(3)]
  for i, g in enumerate(got):
    m = get[1](i)
    if not (isinstance(g, float) and 0 <= g < m):
      raise Violation("%s: sample %d = %r is outside [0, %r) (got=%r)" % (what, i, g, m, got[:12]),
                      site="modfloat:range")
  # constant modulo: each value is the exact running sum of the given doubles, reduced, up to
  # the accumulated rounding - measured round the circle (just under the modulo ~ just over 0)
  const_mod = lists[1] is None or not vary[1]
  landings = below = 0
  if const_mod:
    m = fr(modulo)
    tol = Fraction(TOL) * max(1, m)
    tot = Fraction(0)
    for i in range(n):
      closed = (fr(get[0](i)) + tot) % m
      d = abs(fr(got[i]) - closed)
      if min(d, m - d) > tol:
        raise Violation("%s: sample %d is %r, (start + sum of earlier steps) mod modulo = %r"
                        % (what, i, got[i], float(closed)), site="modfloat:value")
      tot += fr(get[2](i))
  if kind == "decimal" and munits and const_mod:
    # landings: the sum in units of 1/den is a multiple of the modulo after at least one step
    tot = 0
    for i in range(n):
      if lists[0] is None or not vary[0]:
        ks = kstart
      else:
        ks = ([kstart] + list(case["svals"]))[i % (1 + len(case["svals"]))]
      if i > 0 and (ks + tot) % munits == 0:
        landings += 1
        # where the float sum came out: on or just above zero (got tiny), or below (got ~ modulo,
        # or exactly 0 after the reduction of "modulo" itself)
        if got[i] > modulo / 2:
          below += 1
      tot += (ksteps[i] if i < len(ksteps) else case["step"]) if lists[2] is not None else case["step"]
  # label only: the plain float recursion, watching for a remainder that a single "%" rounds up
  # to the modulo itself (the sum is a rounding error below a multiple of the modulo)
  hair = 0
  c = lastp = 0.
  for i in range(n):
    c += get[0](i) - lastp
    lastp = get[0](i)
    r = c % get[1](i)
    if r == get[1](i):
      hair += 1
    c = r % get[1](i) + get[2](i)
  labels = ["branch:" + "".join("S" if s else "N" for s in streams), "kind:" + kind]
  if hair:
    labels.append("a hair below a multiple of modulo")
  if landings:
    labels.append("sum lands on a multiple of modulo")
  if landings >= 2:
    labels.append("lands twice or more")
  if below:
    labels.append("float sum ends below the multiple")
  if any(get[2](i) < 0 for i in range(n)):
    labels.append("negative step")
  if any(streams[k] and vary[k] for k in range(2)) or streams[2]:
    labels.append("varying stream")
  return {"nontrivial": n >= 4 and (landings >= 1 or kind == "free"), "labels": labels}


# --------------------------------------------------------------------------
# TableLookup
# --------------------------------------------------------------------------
def interp(tbl, pos):
  """cyclic linear interpolation of tbl at pos >= 0"""
  L = len(tbl)
  i0 = pos.numerator // pos.denominator
  f = pos - i0
  return fr(tbl[i0 % L]) * (1 - f) + fr(tbl[(i0 + 1) % L]) * f


def strat_table(tier):
  fq = st.one_of(qf(-4, 4, 7), qf(-1, 1, 30))
  return st.fixed_dictionaries(dict(
    mode=st.sampled_from(["getitem", "osc_exact", "osc_exact", "osc_float", "osc_stream", "osc_fstream"]),
    fden=st.sampled_from(_FDEN), fblocks=st.lists(_FBLOCK, min_size=1, max_size=6),
    flaps=st.sampled_from([0, 0, 1, 2, -1]),
    table=st.lists(qval(-3, 3), min_size=1, max_size=8),
    # table sizes: "small" = the list above as it is; "mid" = 9..64 entries (the list above walked at a
    # changing pace); "large" / "huge" = hundreds to 2**17 entries incl. powers of two and their
    # neighbours (dyadic floats from a formula); "module" = the package's own 2**16-entries
    # sin_table / saw_table, played as they are
    tsize=st.sampled_from(["small"] * 6 + ["huge", "huge", "module", "module", "mid", "mid", "large", "large", "huge"]),
    tlen=st.integers(9, 64),
    tlarge=st.sampled_from([100, 127, 128, 255, 256, 1000, 1023, 1024, 1025, 2048, 4096, 5000]),
    thuge=st.sampled_from([2 ** 16 + 1, 2 ** 16 + 2, 100000, 2 ** 17, 2 ** 17 + 3]),
    tmul=st.sampled_from([1, 7, 12, 25, 33]), tmodule=st.sampled_from(["sin_table", "saw_table"]),
    # an earlier stream asked from the very same oscillator with the very same arguments, and how many
    # items were taken from it before the stream under test was asked for (0 = no earlier stream)
    earlier=st.sampled_from([0, 0, 1, 2, 3, 5]),
    cycles=st.sampled_from([1, 1, 2, 3]),
    idx=st.one_of(qf(0, 20, 8), qf(0, 20, 8), st.integers(0, 20), st.integers(0, 160).map(lambda k: k / 8.)),
    freq=fq, phase=st.one_of(st.just("default"), fq),
    ffreq=ffloat(-6, 6), fphase=ffloat(-7, 7),
    freqs=st.lists(fq, min_size=1, max_size=5), phases=st.lists(fq, min_size=1, max_size=4),
    phase_stream=st.booleans(), slen=st.integers(1, 30),
    n=st.integers(1, 40), route=_route))


_FORMULA_TABLES = {}


def _formula_table(L, mul):
  """L dyadic floats in [-3.75, 3.75] with jumps between neighbours (kept: built once per process)"""
  if (L, mul) not in _FORMULA_TABLES:
    _FORMULA_TABLES[L, mul] = tuple(((i * mul + i // 61) % 61 - 30) / 8. for i in range(L))
  return list(_FORMULA_TABLES[L, mul])


def _tblrepr(case, tbl):
  if case["tsize"] == "module":
    return "audiolazy." + case["tmodule"]
  if len(tbl) <= 16:
    return repr(tbl)
  return "<%d entries: %s ...>" % (len(tbl), ", ".join(repr(v) for v in tbl[:8]))


def run_table(case):
  tbl, cycles, mode = list(case["table"]), case["cycles"], case["mode"]
  tsize = case["tsize"]
  module_table = None
  if tsize == "mid":
    tbl = [tbl[(i + i // 3) % len(tbl)] + Q(i % 5, 4) for i in range(case["tlen"])]
  elif tsize in ("large", "huge"):
    tbl = _formula_table(case["tlarge"] if tsize == "large" else case["thuge"], case["tmul"])
  elif tsize == "module":
    module_table = getattr(audiolazy, case["tmodule"])
    tbl, cycles = module_table.table, module_table.cycles
    if cycles != 1 or len(tbl) != audiolazy.DEFAULT_TABLE_SIZE:
      raise Violation("%s has %d entries and %r cycles; documented: DEFAULT_TABLE_SIZE = %d entries, one cycle"
                      % (case["tmodule"], len(tbl), cycles, audiolazy.DEFAULT_TABLE_SIZE))
  if tsize in ("large", "huge", "module") and mode in ("osc_float", "osc_fstream"):
    # float positions in a table of thousands of entries carry an error of about L * 1e-16 entries, times
    # the jump between neighbours: big tables are played with exact rational freq / phase only
    mode = "osc_exact"
  L = len(tbl)
  if module_table is not None:
    t = module_table
    reprogrammed = False
  elif (L + cycles + len(mode)) % 3 == 0:
    # the table and the cycle count are plain attributes of an oscillator that is kept and
    # re-programmed: what it plays afterwards is the interpolation of its *current* table
    t = TableLookup(list(tbl) + [tbl[0], tbl[-1]], cycles=cycles + 1)
    t(0.3).take(2)
    t.table = tbl
    t.cycles = cycles
    reprogrammed = True
  else:
    t = TableLookup(tbl, cycles=cycles) if cycles != 1 else TableLookup(tbl)
    reprogrammed = False
  amp = max(abs(fr(v)) for v in tbl) if L <= 64 else Fraction(4)     # (only the float modes use it)
  labels = ["table:" + mode, "L=1" if L == 1 else "L>1", "cycles=%d" % cycles, "size:" + tsize]
  if L > 8:
    labels.append("L>8")
  if L > 2 ** 16:
    labels.append("L>2**16")
  if reprogrammed:
    labels.append("table and cycles re-assigned")
  if mode == "getitem":
    idx = case["idx"]
    if L > 20:
      idx = idx * (L // 10)                   # 0 .. 2 L, like the small tables
    if L > 64 and isinstance(idx, float):
      idx = Q(idx)                            # float entries times a float fraction would round
    got = t[idx]
    exp = interp(tbl, fr(idx))
    if got != exp:
      raise Violation("TableLookup(%s)[%r] = %r, cyclic linear interpolation gives %r" % (_tblrepr(case, tbl), idx, got, exp))
    if fr(idx) >= L:
      labels.append("idx beyond table")
    return {"nontrivial": L >= 2 and isnonint(idx), "labels": labels}
  cl = fr(float(L) / (cycles * 2 * math.pi))          # the double the code computes
  n = case["n"]
  if mode == "osc_exact":
    freq = case["freq"]
    phase = 0. if case["phase"] == "default" else case["phase"]
    play = (lambda: t(freq)) if case["phase"] == "default" else (lambda: t(freq, phase))
    ne = case["earlier"]
    pos = [(cl * fr(phase) + k * cl * fr(freq)) % L for k in range(n + ne + 2)]
    what = "TableLookup(%s, cycles=%d)(freq=%r, phase=%r)" % (_tblrepr(case, tbl), cycles, freq, phase)
    if ne:
      early = play()
      cmp_seq(take(early, ne), [interp(tbl, p) for p in pos[:ne]], True, 0, what + " [an earlier stream]")
    s = play()
    got = take(s, n)
    cmp_seq(got, [interp(tbl, p) for p in pos[:n]], True, 0,
            what + (" [asked again after %d items were taken from an earlier stream of the same call]" % ne
                    if ne else ""))
    if ne:
      # ... and the earlier stream goes on from where IT was
      cmp_seq(take(early, 2), [interp(tbl, p) for p in pos[ne:ne + 2]], True, 0,
              what + " [the earlier stream, after a second one was asked for and played]")
      labels.append("same oscillator asked twice")
    pos = pos[:n]
    # tables derived from this one (operators, normalize) are oscillators of their own table with
    # the same number of cycles: played the same way they give the derived table's interpolation
    if L > 5000:
      # (derived tables of 2**16 and more entries: the same code as for the smaller sizes, skipped for time)
      wrapped = any(pos[k] < pos[k - 1] for k in range(1, len(pos)))
      if wrapped:
        labels.append("wrapped")
      if any(p.denominator != 1 for p in pos):
        labels.append("between entries")
      return {"nontrivial": len(got) >= 4, "labels": labels}
    m = max(tbl, key=lambda v: abs(fr(v)))
    variants = [("t * 2", lambda: t * 2, [2 * fr(v) for v in tbl]),
                ("-t", lambda: -t, [-fr(v) for v in tbl]),
                ("t + t", lambda: t + t, [2 * fr(v) for v in tbl]),
                ("3 - t", lambda: 3 - t, [3 - fr(v) for v in tbl])]
    if fr(m) != 0:
      # normalize() divides by a plain number (the operators accept int / float / complex scalars):
      # checked on the float spelling of the table - same cycle count, values v / (largest |v|)
      tf = TableLookup([float(fr(v)) for v in tbl], cycles=cycles) if cycles != 1 else TableLookup([float(fr(v)) for v in tbl])
      tn = tf.normalize()
      if not isinstance(tn, TableLookup) or tn.cycles != cycles or len(tn.table) != L or any(
          abs(fr(a) - fr(v) / fr(m)) > Fraction(1, 10 ** 12) for a, v in zip(tn.table, tbl)):
        raise Violation("normalize() of TableLookup(%s, cycles=%d) has table %r, cycles %r"
                        % (_tblrepr(case, tbl), cycles, getattr(tn, "table", tn)[:20], getattr(tn, "cycles", None)))
    name, mkv, tbl2 = variants[(L + n) % len(variants)]
    t2 = mkv()
    if not isinstance(t2, TableLookup) or t2.cycles != cycles or [fr(v) for v in t2.table] != tbl2:
      raise Violation("%s of TableLookup(%s, cycles=%d) has table %r, cycles %r; expected %r, %d"
                      % (name, _tblrepr(case, tbl), cycles, getattr(t2, "table", t2)[:20], getattr(t2, "cycles", None),
                         tbl2[:20], cycles))
    s2 = t2(freq) if case["phase"] == "default" else t2(freq, phase)
    cmp_seq(take(s2, n), [interp(tbl2, p) for p in pos], True, 0, "%s played like %s" % (name, what))
    labels.append("derived table")
  elif mode == "osc_float":
    freq, phase = case["ffreq"], case["fphase"]
    ne = case["earlier"]
    if ne:
      early = t(freq, phase=phase)
      take(early, ne)
    got = take(t(freq, phase=phase), n)
    pos = [(cl * fr(phase) + k * cl * fr(freq)) % L for k in range(n)]
    what = "TableLookup(%s, cycles=%d)(freq=%r, phase=%r)" % (_tblrepr(case, tbl), cycles, freq, phase)
    cmp_seq(got, [interp(tbl, p) for p in pos], False, Fraction(TOL) * amp,
            what + (" [asked again after %d items were taken from an earlier stream of the same call]" % ne
                    if ne else ""))
    if ne:
      labels.append("same oscillator asked twice")
  elif mode == "osc_fstream":
    # vibrato / FM with ordinary floats: the frequency stream moves the read position forth and
    # back by k / den table entries, so that it keeps returning to the table start (position 0 =
    # position L) from both sides with a rounding error; every sample still is the interpolation
    ks = _expand_blocks(case["fblocks"])
    unit = (2 * math.pi * cycles / L) / case["fden"]         # freq that moves 1/den table entry
    freqs = [k * unit for k in ks] + [unit]
    phase = case["flaps"] * 2 * math.pi * cycles
    n = len(freqs)
    what = "TableLookup(%s, cycles=%d)(freq=Stream(%r), phase=%r)" % (_tblrepr(case, tbl), cycles, freqs[:8], phase)
    got = pull(t(Stream(freqs), phase) if case["flaps"] else t(Stream(freqs)), n + 3, what)
    pos, tot, at0 = [], cl * fr(phase), 0
    for k in range(n):
      pos.append(tot % L)
      tot += fr(cl * freqs[k])
    acc = 0
    for k in range(n):
      if k and acc % (L * case["fden"]) == 0:
        at0 += 1
      acc += ks[k] if k < len(ks) else 1
    cmp_seq(got, [interp(tbl, p) for p in pos], False, Fraction(TOL) * (amp + Fraction(1, 10 ** 6)), what)
    if at0:
      labels.append("position returns to the table start")
  else:
    n = case["slen"]
    freqs = cyc(case["freqs"], n)
    if case["phase_stream"]:
      phases = cyc(case["phases"], n + 2)
      s = t(Stream(freqs), Stream(phases))      # "accepts streams of numbers": Stream instances
      labels.append("phase stream")
    else:
      phases = [0. if case["phase"] == "default" else case["phase"]] * (n + 2)
      s = t(Stream(freqs), phases[0])
    what = "TableLookup(%s, cycles=%d)(freq=Stream(%r), phase=%r)" % (_tblrepr(case, tbl), cycles, freqs[:6], phases[:4])
    got = pull(s, n + 3, what)
    pos, tot = [], Fraction(0)
    for k in range(n):
      pos.append((cl * fr(phases[k]) + tot) % L)
      tot += cl * fr(freqs[k])
    cmp_seq(got, [interp(tbl, p) for p in pos], True, 0, what)
  wrapped = any(pos[k] < pos[k - 1] for k in range(1, len(pos)))
  if wrapped:
    labels.append("wrapped")
  if any(p.denominator != 1 for p in pos):
    labels.append("between entries")
  return {"nontrivial": L >= 2 and len(got) >= 4, "labels": labels}


# --------------------------------------------------------------------------
# sinusoid
# --------------------------------------------------------------------------
def strat_sinusoid(tier):
  ff = st.one_of(ffloat(-7, 7), qf(-4, 4, 9),
                 st.sampled_from([math.pi, math.pi / 2, 2 * math.pi, 0.1, -0.1, 0., 1e-3]))
  # a whole number of samples per cycle (2*pi/N, most of them exact: 2*pi/freq == N in doubles)
  whole = st.one_of(st.integers(1, 12), st.integers(1, 12), st.integers(1, 40)).map(_lag2freq)
  return st.fixed_dictionaries(dict(
    freq=st.one_of(ff, ff, whole), phase=st.one_of(st.just("default"), ff), n=st.integers(1, 60),
    freq_stream=st.sampled_from([False, False, True]), freqs=st.lists(ff, min_size=1, max_size=5),
    # phase modulation: the phase as a finite stream of numbers (constant, or changing all along)
    phase_stream=st.booleans(), phases=st.lists(ff, min_size=1, max_size=6),
    plen=st.one_of(st.integers(1, 60), st.integers(20, 60)), pvary=st.sampled_from([True, True, True, False]),
    proute=_route, route=_route))


def run_sinusoid(case):
  n = case["n"]
  phase = 0. if case["phase"] == "default" else case["phase"]
  pstream = case["phase_stream"]
  if pstream:
    # item k of the phase stream is the phase of sample k; the output ends with the stream
    pool = [phase] + (list(case["phases"]) if case["pvary"] else [])
    plen = case["plen"]
    # the pool is walked at a changing pace: no period of the phase stream fits one of the sinusoid
    phases = [pool[(k + k // 5) % len(pool)] for k in range(plen)]
    parg = feed(phases, case["proute"])
  else:
    phases = [phase] * n
    parg = phase
  if case["freq_stream"]:
    freqs = cyc(case["freqs"], n)
    n = min(len(freqs), len(phases))          # either stream may be the shorter one
    s = sinusoid(feed(freqs, case["route"]), parg)
    got = pull(s, n + 3, "sinusoid")
  elif pstream:
    n = len(phases)
    freqs = [case["freq"]] * n
    s = sinusoid(case["freq"], parg) if n % 2 else sinusoid(case["freq"], phase=parg)
    got = pull(s, n + 3, "sinusoid(freq=%r, phase=%s of %d items)" % (case["freq"], case["proute"], n))
  else:
    freqs = [case["freq"]] * n
    s = sinusoid(case["freq"]) if case["phase"] == "default" else sinusoid(case["freq"], phase=phase)
    got = take(s, n)
  if len(got) != n:
    raise Violation("sinusoid(freq=%r, phase=%r): %d samples, expected %d (it ends with its shortest "
                    "finite freq / phase stream)" % (freqs[:6], phases[:6], len(got), n))
  tot = Fraction(0)
  for k in range(n):
    e = math.sin(float(fr(phases[k]) + tot))
    if not (isinstance(got[k], float) and abs(got[k] - e) <= TOL):
      raise Violation("sinusoid(freq=%r, phase=%r)[%d] = %r, sin(phase + n*freq) = %r"
                      % (freqs[:6], phases[:8] if pstream else phase, k, got[k], e))
    tot += fr(freqs[k])
  labels = ["sinusoid", "freq stream" if case["freq_stream"] else "freq number",
            "phase stream" if pstream else "phase number"]
  span = abs(tot)
  if span > 7:
    labels.append("wrapped")
  if not case["freq_stream"] and fr(case["freq"]) < 0:
    labels.append("negative freq")
  if not case["freq_stream"] and case["freq"] != 0:
    period = 2 * math.pi / abs(float(fr(case["freq"])))
    if period == int(period):
      labels.append("whole samples per cycle")
      if pstream and n > period and len(set(phases[int(period):])) > 1:
        labels.append("phase stream changes after the first cycle")
  if pstream and len(set(phases)) > 1:
    labels.append("varying phase stream")
  return {"nontrivial": n >= 4 and (span > 0 or len(set(phases)) > 1), "labels": labels}


# --------------------------------------------------------------------------
# karplus_strong
# --------------------------------------------------------------------------
def strat_karplus(tier):
  return st.fixed_dictionaries(dict(
    freq=st.one_of(st.floats(min_value=.45, max_value=3.1, allow_nan=False),
                   st.floats(min_value=.45, max_value=3.1, allow_nan=False),
                   st.integers(45, 310).map(lambda k: k / 100.),
                   st.integers(1, 9).map(lambda k: 2 * math.pi / k),
                   # lags 2*pi/freq below one sample (freq > 2*pi): the left interpolation tap is
                   # the current sample itself, the recursion has to be solved for it
                   st.floats(min_value=1e-3, max_value=1, exclude_max=True, allow_nan=False).map(_lag2freq),
                   st.integers(1, 99).map(lambda k: _lag2freq(k / 100.)),
                   st.sampled_from([.5, .25, .125, .75, .0625, .9375]).map(_lag2freq),
                   # lags between one and two samples (pi < freq <= 2*pi), ends included
                   st.floats(min_value=1, max_value=2, allow_nan=False).map(_lag2freq),
                   st.integers(100, 200).map(lambda k: _lag2freq(k / 100.))),
    tau=st.one_of(st.just("default"), st.just("inf"), st.floats(min_value=3, max_value=1e4, allow_nan=False),
                  st.floats(min_value=.25, max_value=3, allow_nan=False)),
    memory=st.lists(qval(-2, 2), min_size=16, max_size=18),
    # (memory route, lag mode).  Routes: the memory as a list / Stream / iterator, as a function of the
    # size ("callable"), or not given at all ("default": the documented default is the white_noise
    # function, i.e. a burst generator called with the number of delay cells; random is seeded from
    # the case).  Lag modes: "freq" = the frequency drawn above, "whole" = a whole number of samples,
    # "long" = an audio-rate note, see below
    shape=st.sampled_from(_KS_SHAPES),
    seed=st.integers(0, 2 ** 20),
    # audio-rate notes: lags of 15 .. 400 samples (the memory is the pool above, walked at a changing
    # pace, as long as the delay line), whole and fractional
    long=st.one_of(st.floats(min_value=15, max_value=400, allow_nan=False),
                   st.one_of(st.integers(15, 400), st.integers(60, 400).map(lambda k: k + .5),
                             st.integers(120, 3200).map(lambda k: k / 8.))),
    # a lag of a whole number of samples (freq = 2*pi/L, exact in doubles for these L): the
    # linearised comb then has ONE tap and L delay cells, one cell less than for L + a fraction
    whole=st.one_of(st.integers(1, 12), st.integers(1, 12), st.sampled_from([1, 2, 3])),
    # memory given as a function of the size ("burst generator", like the default white_noise): it is
    # called with the number of delay cells of the comb, and what it returns is the initial memory
    burst=st.sampled_from(_BURSTS),
    n=st.integers(1, 50)))


# burst generators: name -> (depends on the requested size?, function(mem, size) -> iterable)
_BURST_FUNCS = {
  "prefix": (False, lambda mem, size: list(mem[:size])),
  "longer": (False, lambda mem, size: list(mem[:size + 3])),          # only the first `size` items count
  "scaled": (True, lambda mem, size: [v / size for v in mem[:size]]),  # normalised burst
  "rotated": (True, lambda mem, size: (mem[size % len(mem):] + mem[:size % len(mem)])[:size]),
  "reversed": (True, lambda mem, size: list(mem[:size])[::-1]),
  "ramp": (True, lambda mem, size: (mem[0] + Q(j, size) for j in range(size))),   # like line(size, a, a + 1)
  "windowed": (True, lambda mem, size: Stream(v * Q(min(j + 1, size - j), size) for j, v in enumerate(mem[:size]))),
}
_KS_SHAPES = ([("list", "freq")] * 4 + [("stream", "freq")] * 3 + [("iter", "freq")] * 3 + [("callable", "freq")] * 3 +
              [("default", "freq")] * 2 +
              [("list", "whole"), ("default", "whole")] + [("callable", "whole")] * 3 +
              [(r, "long") for r in ("list", "stream", "iter", "callable", "default")])
_BURSTS = ["prefix", "longer", "scaled", "scaled", "rotated", "reversed", "ramp", "windowed"]


def run_karplus(case):
  freq, n, mem = case["freq"], case["n"], list(case["memory"])
  route, lagmode = case["shape"]
  if lagmode == "long":
    freq = _lag2freq(case["long"])
  elif lagmode == "whole":
    freq = _lag2freq(case["whole"])
  kw = {}
  tau = 2e4
  if case["tau"] == "inf":
    kw["tau"] = tau = float("inf")
  elif case["tau"] != "default":
    kw["tau"] = tau = case["tau"]
  delay = 2 * math.pi / freq
  alpha = math.e ** (-delay / tau)
  k = int(delay)
  w = fr(delay) - k
  taps = {k: fr(alpha) * (1 - w)}
  if w:
    taps[k + 1] = fr(alpha) * w
  lm = max(taps)
  if lm > len(mem):
    mem = [mem[(j + j // 7) % len(mem)] for j in range(lm + 2)]
  if lm > 14:
    n = lm + n                      # far enough for the feedback to be heard
  sized = False
  if route == "default":
    random.seed(case["seed"])
    mem = list(white_noise(lm))     # what the documented default burst generator gives for lm cells
    if len(mem) != lm:
      raise Violation("white_noise(%d) has %d samples" % (lm, len(mem)))
    random.seed(case["seed"])
    got = take(karplus_strong(freq, **kw), n)
  elif route == "callable":
    sized, burst = _BURST_FUNCS[case["burst"]]
    given = list(mem)
    memory = lambda size: burst(given, size)
    # the initial memory is what the burst generator gives for the comb's lm delay cells
    mem = list(burst(given, lm))[:lm] if lm else []
  else:
    memory = feed(mem, route)
  if route != "default":
    got = take(karplus_strong(freq, memory=memory, **kw), n)
  if len(got) != n:
    raise Violation("karplus_strong ended after %d samples" % len(got))
  y = []
  past = lambda j: y[j] if j >= 0 else fr(mem[-j - 1])
  amp = max(abs(fr(v)) for v in mem[:lm]) + Fraction(1, 10 ** 6)
  # y[i] = alpha * ((1 - w) * y[i - k] + w * y[i - k - 1]).  For a lag below one sample (k == 0)
  # the left neighbour is y[i] itself: the equation is solved for it,
  # y[i] = alpha * w * y[i - 1] / (1 - alpha * (1 - w))   (alpha <= 1 and w > 0: never singular)
  own = taps.get(0, Fraction(0))
  if own >= 1:
    raise Violation("oracle: degenerate comb, alpha*(1-w) = %r at delay %r" % (float(own), delay))
  for i in range(n):
    y.append(sum(c * past(i - dl) for dl, c in taps.items() if dl) / (1 - own))
    if isinstance(got[i], float) and not math.isfinite(got[i]):
      raise Violation("karplus_strong(freq=%r, tau=%r, memory=%r)[%d] = %r"
                      % (freq, tau, mem[:lm][:20], i, got[i]))
    if abs(fr(got[i]) - y[i]) > Fraction(TOL) * amp:
      raise Violation("karplus_strong(freq=%r, tau=%r, memory=%s%r)[%d] = %r, linearised comb "
                      "(delay=%r, alpha=%r) on the memory gives %r"
                      % (freq, tau, "burst %s(size=%d) = " % (case["burst"], lm) if route == "callable" else (
                           "default, random.seed(%d): white_noise(%d) = " % (case["seed"], lm)
                           if route == "default" else ""),
                         mem[:lm][:20], i, float(got[i]), delay, alpha, float(y[i])))
  labels = ["karplus", "integer delay" if not w else "fractional delay", "memory:" + route,
            "tau:" + (case["tau"] if isinstance(case["tau"], str) else "given"),
            "lag<1" if k == 0 else ("1<=lag<2" if k == 1 else "lag>=2")]
  if k >= 15:
    labels.append("lag>=15")
    if k >= 64:
      labels.append("lag>=64")
    if w:
      labels.append("lag>=15, fractional")
  if delay == 1:
    labels.append("lag==1")
  if isinstance(tau, float) and tau < 3:
    labels.append("tau<3")
  if n > lm:
    labels.append("feedback reached")
  if route == "callable":
    labels.append("burst:" + case["burst"])
    if sized:
      labels.append("burst depends on the size")
      if not w:
        labels.append("integer delay, burst depends on the size")
  return {"nontrivial": n > lm and bool(w), "labels": labels}


# --------------------------------------------------------------------------
# resample
# --------------------------------------------------------------------------
def lagrange_ref(pts, t):
  tot = Fraction(0)
  for j, (xj, yj) in enumerate(pts):
    term = fr(yj)
    for k, (xk, _) in enumerate(pts):
      if k != j:
        term *= (t - xk) / Fraction(xj - xk)
    tot += term
  return tot


def resample_ref(x, steps, p, zero, limit):
  """steps: callable m -> step m or None when the ratio stream has ended."""
  thr = Fraction(p + 1, 2)
  out, pos = [], []
  t = Fraction(0)
  m = 0
  N = len(x)
  while len(out) < limit:
    a = math.ceil(t - thr)
    if a + p > N - 1:
      break
    pts = [(i, x[a + i] if a + i >= 0 else zero) for i in range(p + 1)]
    out.append(lagrange_ref(pts, t - a))
    pos.append(t)
    s = steps(m)
    if s is None:
      return out, pos, "ratio stream ended"
    t += s
    m += 1
  return out, pos, "input ended"


def rint_half_up(v):
  return int(math.floor(v + HALF))


_ratio_q = st.one_of(qf(Fraction(1, 4), 3, 4), qf(Fraction(1, 3), 3, 7), st.integers(1, 3).map(Q))
# int/float ratios: dyadic old, power-of-two new, so that old/new and the running position are
# exact in double arithmetic (window switches happen on exact ties) and only the Lagrange
# weights carry rounding
_ratio_fo = st.sampled_from([1, 2, 3, .5, 1.5, .75, 2., 1.25, 2.5])
_ratio_fn = st.sampled_from([1, 2, 4, 1., .5, .25, 2.])


def strat_resample(tier):
  mx = 14 if tier == "quick" else 24
  return st.integers(0, 4).flatmap(lambda p: st.fixed_dictionaries(dict(
    order=st.just(p), order_given=st.booleans(),
    x=st.lists(qval(-4, 4), min_size=rint_half_up(Fraction(p + 1, 2)), max_size=mx),
    kind=st.sampled_from(["q", "q", "q", "float"]),
    old=_ratio_q, new=_ratio_q, fold=_ratio_fo, fnew=_ratio_fn,
    old_stream=st.sampled_from([False, False, False, True]),
    new_stream=st.sampled_from([False, False, False, True]),
    olds=st.lists(_ratio_q, min_size=1, max_size=4), news=st.lists(_ratio_q, min_size=1, max_size=4),
    slen=st.one_of(st.integers(1, 12), st.just(200)),
    zero=st.one_of(st.just("default"), st.just("default"), qval(-3, 3)),
    route=_route)))


def run_resample(case):
  p, x = case["order"], list(case["x"])
  zero = 0. if case["zero"] == "default" else case["zero"]
  kw = {}
  if case["zero"] != "default":
    kw["zero"] = zero
  if p != 3 or case["order_given"]:
    kw["order"] = p
  exact = case["kind"] == "q"
  old, new = (case["old"], case["new"]) if exact else (case["fold"], case["fnew"])
  streamy = exact and (case["old_stream"] or case["new_stream"])
  slen = case["slen"]
  olds = cyc([old] + list(case["olds"]), slen) if (exact and case["old_stream"]) else None
  news = cyc([new] + list(case["news"]), slen) if (exact and case["new_stream"]) else None
  kw["old"] = old if olds is None else Stream(olds)
  kw["new"] = new if news is None else Stream(news)

  def steps(m):
    if streamy and m >= slen:
      return None
    o = fr(old) if olds is None else fr(olds[m])
    nn = fr(new) if news is None else fr(news[m])
    return o / nn

  limit = 13 * (len(x) + 1) + 10            # every step is >= 1/12
  exp, pos, why = resample_ref(x, steps, p, fr(zero), limit)
  what = "resample(%r, old=%r, new=%r, order=%d, zero=%r)" % (
    x, old if olds is None else olds[:6], new if news is None else news[:6], p, zero)
  got = []
  r = resample(feed(x, case["route"]), **kw)
  try:
    for v in r:
      got.append(v)
      if len(got) > len(exp) + 3:
        break
  except Exception as e:
    raise Violation("%s raised %s: %s after %d samples instead of ending (%s after %d samples)"
                    % (what, type(e).__name__, e, len(got), why, len(exp)),
                    site="resample:raises-at-end")
  amp = max([abs(fr(v)) for v in x] + [abs(fr(zero))]) + Fraction(1, 10 ** 6)
  if len(got) != len(exp):
    raise Violation("%s: %d samples, expected %d (%s); got=%r exp=%r"
                    % (what, len(got), len(exp), why, got[:10], exp[:10]))
  cmp_seq(got, exp, exact, Fraction(TOL) * amp, what)
  hits = 0
  for m, t in enumerate(pos):
    if t.denominator == 1:
      hits += 1
      if (got[m] != x[int(t)]) if exact else (abs(fr(got[m]) - x[int(t)]) > Fraction(TOL) * amp):
        raise Violation("%s: output %d lies on the integer position %d but is %r, input sample is %r"
                        % (what, m, int(t), got[m], x[int(t)]))
  labels = ["resample", "order=%d" % p, "exact" if exact else "float ratio", "ended:" + why]
  if streamy:
    labels.append("stream ratio")
    first = steps(0)
  else:
    first = fr(old) / fr(new)
    labels.append("upsample" if first < 1 else ("downsample" if first > 1 else "unit ratio"))
  if hits >= 2:
    labels.append("integer positions hit")
  if fr(zero) != 0:
    labels.append("zero!=0")
  nt = len(exp) >= 4 and any(t.denominator != 1 for t in pos)
  return {"nontrivial": nt, "labels": labels}


CLAUSES = [
  Clause("line", strat_line, run_line, quick=600, thorough=12000,
         floors={"line": .2, "fadein": .03, "fadeout": .03, "exact": .2, "finish": .08,
                 "fractional dur": .15, "dur x.5": .03},
         doc="line/fadein/fadeout: int(dur+.5) samples begin + i*(end-begin)/(dur-finish)"),
  Clause("durations", strat_durations, run_durations, quick=600, thorough=12000,
         floors={"endless": .08, "finite": .2, "white_noise": .05, "impulse": .05, "dur x.5": .02,
                 "dur == .5": .04, "earlier result changed in place": .3, "history:limit": .06,
                 "endless after an earlier result was changed in place": .08,
                 "endless constant after an earlier result was changed in place": .02},
         doc="ones/zeros/impulse/white_noise/gauss_noise: int(dur+.5) samples (endless for None/inf), "
             "values 1 / 0 / one,zero.. / within [low, high] - also after an earlier result of the same call "
             "was changed in place (limit / skip / append / map / abs / take) by its owner"),
  Clause("envelopes", strat_envelopes, run_envelopes, quick=500, thorough=10000,
         floors={"adsr": .15, "attack": .05, "attack_stream": .05, "exact": .2,
                 "fractional segment": .15},
         doc="adsr / attack: documented durations and piecewise-linear A, D, S, R segments"),
  Clause("modcount_long", strat_modlong, run_modlong, quick=64, thorough=600,
         doc="modulo_counter over thousands of samples with modulo/step ratios above 1024 (long batches of the "
             "fast paths), start as a number and as a stream: still the naive recursion"),
  Clause("modcount", strat_modcount, run_modcount, quick=1600, thorough=24000,
         floors=dict([("branch:" + b, .02) for b in
                      ["NNN", "NNS", "NSN", "NSS", "SNN", "SNS", "SSN", "SSS"]],
                     **{"fast path": .03, "fast path wrapped twice": .025, "wraps>=2": .1, "negative step": .03,
                        "type:int": .05, "type:float": .04,
                        "varying stream": .15}),
         doc="modulo_counter == modcount_ref and == (start + sum of earlier steps) mod modulo on all 8 "
             "number/stream branches and the batched fast path"),
  Clause("modcount_float", strat_modfloat, run_modfloat, quick=700, thorough=12000,
         floors=dict([("branch:" + b, .012) for b in ["NNN", "NSN", "NSS", "SNN", "SNS", "SSN", "SSS"]],
                     **{"branch:NNS": .1, "kind:free": .05, "kind:decimal": .2, "negative step": .2,
                        "sum lands on a multiple of modulo": .12, "lands twice or more": .08,
                        "a hair below a multiple of modulo": .02}),
         doc="modulo_counter with ordinary floats (k/10, k/3, ... and free doubles) whose running sum keeps coming "
             "back to a multiple of the modulo from either side: every value lies in [0, modulo) on all 8 "
             "number/stream branches, and (constant modulo) within 1e-9 round the circle of the exact sum"),
  Clause("table", strat_table, run_table, quick=600, thorough=12000,
         floors={"table:getitem": .06, "table:osc_exact": .1, "table:osc_float": .05,
                 "table:osc_stream": .05, "wrapped": .15, "table:osc_fstream": .03,
                 "position returns to the table start": .03, "size:small": .2, "size:mid": .025,
                 "size:large": .03, "size:module": .015, "size:huge": .02, "L>2**16": .02,
                 "between entries": .3, "same oscillator asked twice": .1},
         doc="TableLookup[idx] and oscillator == cyclic linear interpolation (exact rational freq / phase as "
             "numbers and streams; float numbers; float frequency streams that keep returning to the table start); tables of "
             "1..8, 9..64, 100..5000, 2**16 (sin_table / saw_table) and up to 2**17+3 entries; the same oscillator "
             "asked twice gives two independent streams"),
  Clause("sinusoid", strat_sinusoid, run_sinusoid, quick=300, thorough=6000,
         floors={"freq stream": .08, "wrapped": .1, "phase stream": .12, "whole samples per cycle": .08,
                 "varying phase stream": .05, "phase stream changes after the first cycle": .01},
         doc="sinusoid == sin(phase[n] + sum of earlier freq) within 1e-9, freq and phase each a number or a "
             "finite stream (incl. frequencies with a whole number of samples per cycle); ends with the "
             "shortest stream"),
  Clause("karplus", strat_karplus, run_karplus, quick=500, thorough=8000,
         floors={"fractional delay": .2, "integer delay": .05, "feedback reached": .2,
                 "lag<1": .12, "1<=lag<2": .1, "lag>=2": .2, "memory:callable": .08,
                 "burst depends on the size": .05, "integer delay, burst depends on the size": .03,
                 "memory:default": .03, "lag>=15": .04, "lag>=64": .02, "lag>=15, fractional": .02},
         doc="karplus_strong == linearised feedback comb recursion on the given memory within 1e-9, for lags "
             "2*pi/freq of many samples (up to 400), between 1 and 2 samples and below one sample (recursion "
             "solved for the current sample); memory as list / Stream / iterator, as a function whose result "
             "depends on the size it is asked for, or left out (white_noise under a seeded random)"),
  Clause("resample", strat_resample, run_resample, quick=900, thorough=12000,
         floors=dict([("order=%d" % p, .05) for p in range(5)],
                     **{"exact": .3, "float ratio": .05, "stream ratio": .05,
                        "integer positions hit": .1}),
         doc="resample == resample_ref (own Lagrange, window a=ceil(t-(p+1)/2)), integer positions "
             "reproduce the input, ends by StopIteration exactly where the input / ratio stream ends"),
]
